(* SchemaProofs.v — proofs about SchemaNew.v (model of Schema::new) against SchemaSpec.v. *)
From Coq Require Import Lia Permutation OrderedTypeEx Sorted.
From TF Require Import Values ValuesProofs Ty TyProofs SchemaAst SchemaNew SchemaSpec.
Local Open Scope string_scope.
Local Open Scope nat_scope.
Local Open Scope list_scope.

(* ====================================================================================== *)
(* 0. Generic lemmas                                                                       *)
(* ====================================================================================== *)
Lemma flat_map_nil {A B} (f : A -> list B) l : flat_map f l = [] <-> forall x, In x l -> f x = [].
Proof.
  induction l as [|a l IH]; cbn.
  - split; [intros _ x []| reflexivity].
  - split.
    + intros H. apply app_eq_nil in H. destruct H as [Ha Hl]. intros x [<-|Hx]; [exact Ha|].
      now apply IH.
    + intros H. rewrite (H a (or_introl eq_refl)). cbn. apply IH. intros x Hx. apply H. now right.
Qed.

Lemma NoDup_snoc {A} (l : list A) x : NoDup l -> ~ In x l -> NoDup (l ++ [x]).
Proof.
  intros N H. apply NoDup_rev in N. rewrite <- (rev_involutive (l ++ [x])). apply NoDup_rev.
  rewrite rev_app_distr. cbn. constructor; [|exact N]. now rewrite <- in_rev.
Qed.

(* a panic-free loop is a flat_map *)
Lemma rflat_pure {A B} (f : A -> res (list B)) (g : A -> list B) l :
  (forall x, In x l -> f x = Ok (g x)) -> rflat f l = Ok (flat_map g l).
Proof.
  induction l as [|a l IH]; intros H; cbn; [reflexivity|].
  rewrite (H a (or_introl eq_refl)). cbn. rewrite IH; [reflexivity|]. intros x Hx. apply H. now right.
Qed.

Lemma rflat_ok_inv {A B} (f : A -> res (list B)) l r :
  rflat f l = Ok r -> forall x, In x l -> exists rx, f x = Ok rx.
Proof.
  revert r. induction l as [|a l IH]; intros r H x Hx; [destruct Hx|].
  cbn in H. destruct (f a) as [ra|] eqn:Ea; [|discriminate]. cbn in H.
  destruct (rflat f l) as [rl|] eqn:El; [|discriminate].
  destruct Hx as [<-|Hx]; [eauto|]. eapply IH; eauto.
Qed.

Lemma mem_In x l : mem x l = true <-> In x l.
Proof.
  unfold mem. rewrite existsb_exists. split.
  - intros [y [Hy E]]. apply String.eqb_eq in E. now subst.
  - intros H. exists x. split; [exact H | apply String.eqb_refl].
Qed.
Lemma mem_false x l : mem x l = false <-> ~ In x l.
Proof. rewrite <- mem_In. destruct (mem x l); split; congruence. Qed.

Lemma nodupb_NoDup l : nodupb l = true <-> NoDup l.
Proof.
  induction l as [|x l IH]; cbn; [split; [constructor | reflexivity]|].
  rewrite andb_true_iff, negb_true_iff, mem_false, IH. split.
  - intros [H1 H2]. now constructor.
  - intros H. inversion H. now split.
Qed.

Lemma cmp_eq a b : String.compare a b = Eq <-> a = b.
Proof. exact (String_as_OT.cmp_eq a b). Qed.
Lemma cmp_refl a : String.compare a a = Eq.
Proof. now apply cmp_eq. Qed.
Lemma cmp_lt_trans a b c : String.compare a b = Lt -> String.compare b c = Lt -> String.compare a c = Lt.
Proof.
  intros H1 H2. apply String_as_OT.cmp_lt. apply String_as_OT.cmp_lt in H1, H2.
  eapply String_as_OT.lt_trans; eauto.
Qed.
Lemma cmp_gt_lt a b : String.compare a b = Gt <-> String.compare b a = Lt.
Proof.
  rewrite (String.compare_antisym b a). destruct (String.compare a b); cbn; split; congruence.
Qed.

(* ---------- vertex types by name ---------- *)
Lemma find_type_In n ts t : find_type n ts = Some t -> In t ts /\ t_name t = n.
Proof.
  induction ts as [|u ts IH]; cbn; [discriminate|].
  destruct (String.eqb_spec (t_name u) n) as [E|E].
  - intros [= <-]. split; [now left | exact E].
  - intros H. destruct (IH H). split; [now right | assumption].
Qed.
Lemma find_type_none n ts : find_type n ts = None <-> ~ In n (map t_name ts).
Proof.
  induction ts as [|u ts IH]; cbn; [split; [intros _ [] | reflexivity]|].
  destruct (String.eqb_spec (t_name u) n) as [E|E].
  - split; [discriminate | intros H; exfalso; apply H; now left].
  - rewrite IH. split; [intros H [H1|H1]; [congruence | contradiction] | intros H H1; apply H; now right].
Qed.
Lemma find_type_unique ts t : NoDup (map t_name ts) -> In t ts -> find_type (t_name t) ts = Some t.
Proof.
  induction ts as [|u ts IH]; intros N H; [destruct H|].
  cbn in N. inversion N as [|? ? Nu Nt]; subst. cbn.
  destruct H as [<-|H]; [now rewrite String.eqb_refl|].
  destruct (String.eqb_spec (t_name u) (t_name t)) as [E|E].
  - exfalso. apply Nu. rewrite E. now apply in_map.
  - now apply IH.
Qed.
Lemma has_type_In n ts : has_type n ts = true <-> In n (map t_name ts).
Proof.
  unfold has_type. destruct (find_type n ts) as [t|] eqn:E.
  - apply find_type_In in E. destruct E as [E1 <-]. split; [intros _; now apply in_map | reflexivity].
  - apply find_type_none in E. split; [discriminate | contradiction].
Qed.
Lemma has_type_false n ts : has_type n ts = false <-> ~ In n (map t_name ts).
Proof. rewrite <- has_type_In. destruct (has_type n ts); split; congruence. Qed.

Lemma defined_iff ts n : defined ts n <-> In n (map t_name ts).
Proof.
  unfold defined, defines. rewrite in_map_iff. split.
  - intros [t [H1 H2]]. eauto.
  - intros [t [H1 H2]]. eauto.
Qed.
Lemma defines_find ts t n : NoDup (map t_name ts) -> (defines ts t n <-> find_type n ts = Some t).
Proof.
  intros N. split.
  - intros [H <-]. now apply find_type_unique.
  - intros H. apply find_type_In in H. exact H.
Qed.

(* ---------- sort_types is a permutation ---------- *)
Lemma tins_perm t l : Permutation (tins t l) (t :: l).
Proof.
  induction l as [|u l IH]; cbn; [reflexivity|].
  destruct (String.leb (t_name t) (t_name u)); [reflexivity|].
  rewrite IH. apply perm_swap.
Qed.
Lemma sort_types_perm ts : Permutation (sort_types ts) ts.
Proof.
  induction ts as [|t ts IH]; cbn; [reflexivity|]. rewrite tins_perm. now constructor.
Qed.
Lemma sort_types_In t ts : In t (sort_types ts) <-> In t ts.
Proof. split; apply Permutation_in; [|symmetry]; apply sort_types_perm. Qed.

(* ---------- string sets ---------- *)
Lemma In_sset_insert x y s : In x (sset_insert y s) <-> x = y \/ In x s.
Proof.
  induction s as [|z s IH]; cbn; [intuition|].
  destruct (String.compare y z) eqn:C; cbn.
  - apply cmp_eq in C. subst. intuition (subst; auto).
  - intuition.
  - rewrite IH. intuition.
Qed.
Lemma In_sset_fold l : forall s x, In x (fold_left (fun s x => sset_insert x s) l s) <-> In x l \/ In x s.
Proof.
  induction l as [|y l IH]; intros s x; cbn; [intuition|].
  rewrite IH, In_sset_insert. intuition.
Qed.
Lemma In_sset_of x l : In x (sset_of l) <-> In x l.
Proof. unfold sset_of. rewrite In_sset_fold. cbn. intuition. Qed.
Lemma In_sset_remove x y s : In x (sset_remove y s) <-> In x s /\ x <> y.
Proof.
  unfold sset_remove. rewrite filter_In, negb_true_iff, String.eqb_neq. intuition.
Qed.

(* ---------- string-keyed maps ---------- *)
Lemma smap_get_In {V} k (m : list (string * V)) v : smap_get k m = Some v -> In (k, v) m.
Proof.
  induction m as [|[k' v'] m IH]; cbn; [discriminate|].
  destruct (String.eqb_spec k k') as [<-|E]; [intros [= <-]; now left | intros H; right; auto].
Qed.
Lemma smap_get_none {V} k (m : list (string * V)) : smap_get k m = None <-> ~ In k (map fst m).
Proof.
  induction m as [|[k' v'] m IH]; cbn; [split; [intros _ [] | reflexivity]|].
  destruct (String.eqb_spec k k') as [<-|E].
  - split; [discriminate | intros H; exfalso; apply H; now left].
  - rewrite IH. split; [intros H [H1|H1]; [congruence | contradiction] | intros H H1; apply H; now right].
Qed.
Lemma smap_has_In {V} k (m : list (string * V)) : smap_has k m = true <-> In k (map fst m).
Proof.
  unfold smap_has. destruct (smap_get k m) eqn:E.
  - split; [intros _ | reflexivity]. apply smap_get_In in E. change k with (fst (k, v)). now apply in_map.
  - apply smap_get_none in E. split; [discriminate | contradiction].
Qed.
Lemma smap_get_insert {V} k k0 (v0 : V) m :
  smap_get k (smap_insert k0 v0 m) = if String.eqb k k0 then Some v0 else smap_get k m.
Proof.
  induction m as [|[k' v'] m IH]; cbn; [reflexivity|].
  destruct (String.compare k0 k') eqn:C; cbn.
  - apply cmp_eq in C. subst k'. destruct (String.eqb k k0); reflexivity.
  - reflexivity.
  - rewrite IH. destruct (String.eqb_spec k k') as [->|E1]; [|reflexivity].
    destruct (String.eqb_spec k' k0) as [->|E2]; [|reflexivity]. rewrite cmp_refl in C. discriminate.
Qed.
Lemma smap_keys_insert {V} k k0 (v0 : V) m :
  In k (map fst (smap_insert k0 v0 m)) <-> k = k0 \/ In k (map fst m).
Proof.
  induction m as [|[k' v'] m IH]; cbn; [intuition|].
  destruct (String.compare k0 k') eqn:C; cbn.
  - apply cmp_eq in C. subst. intuition.
  - intuition.
  - rewrite IH. intuition.
Qed.
Lemma smap_update_cons {V} k0 (v0 : V) k' v' m :
  smap_update k0 v0 ((k', v') :: m) =
  (if String.eqb k0 k' then (k', v0) else (k', v')) :: smap_update k0 v0 m.
Proof. reflexivity. Qed.
Lemma smap_get_update {V} k k0 (v0 : V) m :
  smap_get k (smap_update k0 v0 m) =
  if String.eqb k k0 then (match smap_get k m with Some _ => Some v0 | None => None end) else smap_get k m.
Proof.
  induction m as [|[k' v'] m IH]; [cbn; now destruct (String.eqb k k0)|].
  rewrite smap_update_cons.
  destruct (String.eqb_spec k0 k') as [<-|E]; cbn [smap_get]; rewrite IH.
  - destruct (String.eqb_spec k k0) as [->|E1]; reflexivity.
  - destruct (String.eqb_spec k k') as [->|E1]; [|reflexivity].
    destruct (String.eqb_spec k' k0) as [->|E2]; [congruence | reflexivity].
Qed.
Lemma smap_update_In {V} k0 (v0 : V) m k v :
  In (k, v) (smap_update k0 v0 m) <-> (k = k0 /\ v = v0 /\ In k (map fst m)) \/ (k <> k0 /\ In (k, v) m).
Proof.
  unfold smap_update. rewrite in_map_iff. split.
  - intros [[k' v'] [E H]]. cbn in E. destruct (String.eqb_spec k0 k') as [<-|N].
    + injection E as <- <-. left. repeat split; auto. change k0 with (fst (k0, v')). now apply in_map.
    + injection E as <- <-. right. split; [congruence | exact H].
  - intros [[-> [-> H]]|[N H]].
    + apply in_map_iff in H. destruct H as [[k' v'] [E H]]. cbn in E. subst k'.
      exists (k0, v'). cbn. rewrite String.eqb_refl. auto.
    + exists (k, v). cbn. apply not_eq_sym in N. apply String.eqb_neq in N. rewrite N. auto.
Qed.
Lemma smap_update_keys {V} k0 (v0 : V) m : map fst (smap_update k0 v0 m) = map fst m.
Proof.
  unfold smap_update. rewrite map_map. apply map_ext. intros [k v]. cbn. now destruct (String.eqb k0 k).
Qed.
Lemma smap_remove_cons {V} k0 k' (v' : V) m :
  smap_remove k0 ((k', v') :: m) =
  if String.eqb k0 k' then smap_remove k0 m else (k', v') :: smap_remove k0 m.
Proof. unfold smap_remove. cbn. now destruct (String.eqb k0 k'). Qed.
Lemma smap_get_remove {V} k k0 (m : list (string * V)) :
  smap_get k (smap_remove k0 m) = if String.eqb k k0 then None else smap_get k m.
Proof.
  induction m as [|[k' v'] m IH]; [cbn; now destruct (String.eqb k k0)|].
  rewrite smap_remove_cons.
  destruct (String.eqb_spec k0 k') as [<-|E]; cbn [smap_get]; rewrite IH.
  - destruct (String.eqb k k0); reflexivity.
  - destruct (String.eqb_spec k k') as [->|E1]; [|reflexivity].
    destruct (String.eqb_spec k' k0); [congruence | reflexivity].
Qed.

(* ---------- (type, field)-keyed maps ---------- *)
Lemma okey_eqb_spec a b : Bool.reflect (a = b) (okey_eqb a b).
Proof.
  destruct a as [a1 a2], b as [b1 b2]. unfold okey_eqb. cbn.
  destruct (String.eqb_spec a1 b1), (String.eqb_spec a2 b2); cbn; constructor; congruence.
Qed.
Lemma okey_eqb_refl a : okey_eqb a a = true.
Proof. now destruct (okey_eqb_spec a a). Qed.
Lemma omap_get_In {V} k (m : list (okey * V)) v : omap_get k m = Some v -> In (k, v) m.
Proof.
  induction m as [|[k' v'] m IH]; cbn; [discriminate|].
  destruct (okey_eqb_spec k k') as [<-|E]; [intros [= <-]; now left | intros H; right; auto].
Qed.
Lemma omap_get_none {V} k (m : list (okey * V)) : omap_get k m = None <-> ~ In k (map fst m).
Proof.
  induction m as [|[k' v'] m IH]; cbn; [split; [intros _ [] | reflexivity]|].
  destruct (okey_eqb_spec k k') as [<-|E].
  - split; [discriminate | intros H; exfalso; apply H; now left].
  - rewrite IH. split; [intros H [H1|H1]; [congruence | contradiction] | intros H H1; apply H; now right].
Qed.
Lemma omap_get_app {V} k (m1 m2 : list (okey * V)) :
  omap_get k (m1 ++ m2) = match omap_get k m1 with Some v => Some v | None => omap_get k m2 end.
Proof.
  induction m1 as [|[k' v'] m1 IH]; cbn; [reflexivity|]. destruct (okey_eqb k k'); auto.
Qed.
Lemma omap_cmp_eq a b : okey_cmp a b = Eq <-> a = b.
Proof.
  destruct a as [a1 a2], b as [b1 b2]. unfold okey_cmp. cbn.
  destruct (String.compare a1 b1) eqn:C1.
  - apply cmp_eq in C1. subst. rewrite cmp_eq. split; congruence.
  - split; [discriminate|]. intros [= -> ->]. rewrite cmp_refl in C1. discriminate.
  - split; [discriminate|]. intros [= -> ->]. rewrite cmp_refl in C1. discriminate.
Qed.
Lemma omap_insert_perm {V} k (v : V) m : Permutation (omap_insert k v m) ((k, v) :: m).
Proof.
  induction m as [|[k' v'] m IH]; cbn; [reflexivity|].
  destruct (okey_cmp k k'); try reflexivity. rewrite IH. apply perm_swap.
Qed.
Lemma omap_insert_In {V} k (v : V) m x : In x (omap_insert k v m) <-> x = (k, v) \/ In x m.
Proof.
  split; intros H.
  - apply (Permutation_in _ (omap_insert_perm k v m)) in H. destruct H; auto.
  - apply (Permutation_in _ (Permutation_sym (omap_insert_perm k v m))). destruct H; [left|right]; auto.
Qed.
Lemma omap_get_insert {V} k k0 (v0 : V) m : omap_get k0 m = None ->
  omap_get k (omap_insert k0 v0 m) = if okey_eqb k k0 then Some v0 else omap_get k m.
Proof.
  induction m as [|[k' v'] m IH]; cbn; [reflexivity|].
  destruct (okey_eqb_spec k0 k') as [E0|E0]; [discriminate|]. intros Hn.
  destruct (okey_cmp k0 k') eqn:C; cbn; try reflexivity.
  rewrite (IH Hn). destruct (okey_eqb_spec k k') as [->|E1]; [|reflexivity].
  destruct (okey_eqb_spec k' k0); [congruence | reflexivity].
Qed.

(* ====================================================================================== *)
(* 1. The first loop of Schema::new                                                         *)
(* ====================================================================================== *)
Definition mkf (tn : string) (f : fld) : okey * fld := ((tn, f_name f), f).
Definition all_fields (ts : list tdef) : list (okey * fld) :=
  flat_map (fun t => map (mkf (t_name t)) (t_fields t)) ts.

Lemma all_fields_app a b : all_fields (a ++ b) = all_fields a ++ all_fields b.
Proof. unfold all_fields. apply flat_map_app. Qed.

Lemma all_fields_keys ts k : In k (map fst (all_fields ts)) ->
  exists t f, In t ts /\ In f (t_fields t) /\ k = (t_name t, f_name f).
Proof.
  unfold all_fields. rewrite in_map_iff. intros [[k' f] [E H]]. cbn in E. subst k'.
  apply in_flat_map in H. destruct H as [t [Ht H]]. apply in_map_iff in H. destruct H as [f' [E Hf]].
  unfold mkf in E. injection E as <- <-. eauto.
Qed.

Lemma add_fields_spec tn fs : forall pre acc0,
  (forall k, In k (map fst acc0) -> fst k <> tn) ->
  NoDup (map f_name pre) ->
  (NoDup (map f_name (pre ++ fs)) /\
   add_fields tn fs (acc0 ++ map (mkf tn) pre) = inr (acc0 ++ map (mkf tn) (pre ++ fs))) \/
  (~ NoDup (map f_name (pre ++ fs)) /\ exists e, add_fields tn fs (acc0 ++ map (mkf tn) pre) = inl e).
Proof.
  induction fs as [|f fs IH]; intros pre acc0 H0 Np.
  - left. rewrite app_nil_r. split; [exact Np | reflexivity].
  - cbn [add_fields]. rewrite omap_get_app.
    assert (E0 : omap_get (tn, f_name f) acc0 = None).
    { apply omap_get_none. intros H. apply (H0 _ H). reflexivity. }
    rewrite E0. destruct (omap_get (tn, f_name f) (map (mkf tn) pre)) as [x|] eqn:E1.
    + right. split; [|eauto]. apply omap_get_In in E1. apply in_map_iff in E1.
      destruct E1 as [g [Eg Hg]]. unfold mkf in Eg. injection Eg as Eg _.
      rewrite map_app. cbn. intros N. apply NoDup_remove_2 in N. apply N. apply in_or_app. left.
      rewrite <- Eg. now apply in_map.
    + assert (Nf : ~ In (f_name f) (map f_name pre)).
      { intros H. apply in_map_iff in H. destruct H as [g [Eg Hg]].
        apply omap_get_none in E1. apply E1. apply in_map_iff. exists (mkf tn g). split.
        - unfold mkf. cbn. now rewrite Eg.
        - now apply in_map. }
      change ((acc0 ++ map (mkf tn) pre) ++ [(tn, f_name f, f)])
        with ((acc0 ++ map (mkf tn) pre) ++ map (mkf tn) [f]).
      rewrite <- app_assoc, <- map_app.
      assert (Np' : NoDup (map f_name (pre ++ [f]))).
      { rewrite map_app. cbn. apply NoDup_snoc; assumption. }
      specialize (IH (pre ++ [f]) acc0 H0 Np'). rewrite <- app_assoc in IH. cbn in IH. exact IH.
Qed.

Definition olist {A} (o : option A) : list A := match o with Some x => [x] | None => [] end.

(* names are unique: type names, and field names within each type *)
Definition uniq (ts : list tdef) : Prop :=
  NoDup (map t_name ts) /\ forall t, In t ts -> NoDup (map f_name (t_fields t)).

Lemma all_fields_snoc ts t : all_fields (ts ++ [t]) = all_fields ts ++ map (mkf (t_name t)) (t_fields t).
Proof. rewrite all_fields_app. unfold all_fields at 2. cbn. now rewrite app_nil_r. Qed.

Lemma loop1_spec d : forall s,
  s_fields s = all_fields (s_types s) ->
  uniq (s_types s) ->
  existsb builtin_scalar (doc_scalars d) = false ->
  existsb (fun t => builtin_scalar (t_name t)) (doc_types d) = false ->
  NoDup (s_dirs s ++ doc_directives d) -> NoDup (s_scalars s ++ doc_scalars d) ->
  List.length (olist (s_schema s) ++ doc_schemas d) <= 1 ->
  (uniq (s_types s ++ doc_types d) /\
   exists s', loop1 d s = Ok (Cont s') /\ s_types s' = s_types s ++ doc_types d /\
              s_fields s' = all_fields (s_types s') /\
              olist (s_schema s') = olist (s_schema s) ++ doc_schemas d) \/
  (~ uniq (s_types s ++ doc_types d) /\ exists e, loop1 d s = Ok (Early e)).
Proof.
  induction d as [|x d IH]; intros s Hf Hu Hb1 Hb2 Hd Hs Hq.
  - left. cbn. rewrite !app_nil_r. split; [exact Hu|]. exists s. auto.
  - destruct x as [q|n|n|t]; cbn [loop1 process_def doc_types doc_scalars doc_directives doc_schemas] in *.
    + (* schema block *)
      destruct (s_schema s) as [q0|] eqn:Eq; [cbn in Hq; lia|]. cbn [bind].
      specialize (IH (mkSt1 (Some q) (s_dirs s) (s_scalars s) (s_types s) (s_fields s))).
      cbn in IH. specialize (IH Hf Hu Hb1 Hb2 Hd Hs Hq).
      destruct IH as [[U [s' [E1 [E2 [E3 E4]]]]]|[U [e E]]]; [left | right]; split; eauto.
    + (* directive *)
      assert (Hn : mem n (s_dirs s) = false).
      { apply mem_false. intros H. apply NoDup_remove_2 in Hd. apply Hd. apply in_or_app. now left. }
      rewrite Hn. cbn [bind].
      specialize (IH (mkSt1 (s_schema s) (s_dirs s ++ [n]) (s_scalars s) (s_types s) (s_fields s))).
      cbn in IH. rewrite <- app_assoc in IH. specialize (IH Hf Hu Hb1 Hb2 Hd Hs Hq). exact IH.
    + (* scalar *)
      cbn [existsb] in Hb1. apply orb_false_iff in Hb1. destruct Hb1 as [Hb0 Hb1]. rewrite Hb0.
      assert (Hn : mem n (s_scalars s) = false).
      { apply mem_false. intros H. apply NoDup_remove_2 in Hs. apply Hs. apply in_or_app. now left. }
      rewrite Hn. cbn [bind].
      specialize (IH (mkSt1 (s_schema s) (s_dirs s) (s_scalars s ++ [n]) (s_types s) (s_fields s))).
      cbn in IH. rewrite <- app_assoc in IH. specialize (IH Hf Hu Hb1 Hb2 Hd Hs Hq). exact IH.
    + (* object / interface *)
      cbn [existsb] in Hb2. apply orb_false_iff in Hb2. destruct Hb2 as [Hb0 Hb2]. rewrite Hb0.
      destruct (has_type (t_name t) (s_types s)) eqn:Eh.
      { right. split; [|eexists; reflexivity]. intros [N _]. apply has_type_In in Eh.
        rewrite map_app in N. cbn in N. apply NoDup_remove_2 in N. apply N. apply in_or_app. now left. }
      apply has_type_false in Eh.
      destruct (add_fields_spec (t_name t) (t_fields t) [] (s_fields s)) as [[Nf Ea]|[Nf [e Ea]]].
      { intros k Hk. rewrite Hf in Hk. apply all_fields_keys in Hk. destruct Hk as [u [f [Hu1 [Hu2 ->]]]].
        cbn. intros E. apply Eh. rewrite <- E. now apply in_map. }
      { constructor. }
      * cbn [map app] in Ea. rewrite app_nil_r in Ea. rewrite Ea. cbn [bind app] in *.
        specialize (IH (mkSt1 (s_schema s) (s_dirs s) (s_scalars s) (s_types s ++ [t])
                              (s_fields s ++ map (mkf (t_name t)) (t_fields t)))).
        cbn [s_schema s_dirs s_scalars s_types s_fields] in IH.
        assert (Hu' : uniq (s_types s ++ [t])).
        { destruct Hu as [N1 N2]. split.
          - rewrite map_app. cbn. now apply NoDup_snoc.
          - intros u Hu. apply in_app_or in Hu. destruct Hu as [Hu|[<-|[]]]; auto. }
        rewrite <- app_assoc in IH. cbn [app] in IH.
        apply IH; auto. rewrite all_fields_snoc, Hf. reflexivity.
      * cbn [app] in Ea. rewrite app_nil_r in Ea. rewrite Ea. cbn [bind].
        right. split; [|eauto]. intros [_ N]. apply Nf. apply N. apply in_or_app. right. now left.
Qed.

(* ====================================================================================== *)
(* 2. Types and values: the mask-level operations on parser types                           *)
(* ====================================================================================== *)
Lemma g_name_gbase g : g_name g = gbase g.
Proof. induction g; cbn; auto. Qed.
Lemma adepth_gdepth g : adepth (g_aty g) = gdepth g.
Proof. induction g; cbn; auto. Qed.

Lemma from_type_ok g : gdepth g <= 30 -> from_type g = Ok (T (gbase g) (g_aty g)).
Proof.
  intros H. rewrite from_type_spec, g_name_gbase, adepth_gdepth.
  destruct (Nat.leb_spec (gdepth g) 30); [reflexivity | lia].
Qed.

(* is_scalar_only_subtype on converted types = structural scalar subtyping *)
Lemma a_sub_ssub p c : String.eqb (gbase p) (gbase c) && a_sub (g_aty p) (g_aty c) = true <-> ssub p c.
Proof.
  rewrite andb_true_iff, String.eqb_eq. split.
  - revert c. induction p as [s pn|p IH pn]; intros [t cn|c cn]; cbn; intros [E S]; try discriminate.
    + subst t. constructor. destruct cn, pn; cbn in S; auto; discriminate.
    + apply andb_true_iff in S. destruct S as [S1 S2]. constructor.
      * destruct cn, pn; cbn in S1; auto; discriminate.
      * apply IH. auto.
  - intros H. induction H as [s0 pn0 cn0 H0|p0 pn0 c0 cn0 H0 S0 [IH1 IH2]]; cbn.
    + split; [reflexivity|]. destruct H0 as [->| ->]; [now destruct cn0 | reflexivity].
    + split; [exact IH1|]. rewrite IH2, andb_true_r. destruct H0 as [->| ->]; [now destruct cn0 | reflexivity].
Qed.

Lemma ty_sub_ssub p c : gdepth p <= 30 ->
  ty_sub (T (gbase p) (g_aty p)) (T (gbase c) (g_aty c)) = true <-> ssub p c.
Proof. intros H. rewrite ty_sub_T by (rewrite adepth_gdepth; exact H). apply a_sub_ssub. Qed.

(* is_valid_value on converted types = structural fitting *)
Lemma validT_fits g v : validT (gbase g) (g_aty g) v = true <-> fits g v.
Proof.
  revert g. induction v as [| | | | | | |l IHl] using fv_ind'; intros g.
  - cbn. destruct g; cbn; reflexivity.
  - cbn. unfold scalar_ok. destruct g as [s0 nl|i nl]; cbn.
    + rewrite String.eqb_eq. split; [intros ->; eauto | intros [x [= -> _]]; reflexivity].
    + split; [discriminate | intros [x E]; discriminate].
  - cbn. unfold scalar_ok. destruct g as [s0 nl|i nl]; cbn.
    + rewrite String.eqb_eq. split; [intros ->; eauto | intros [x [= -> _]]; reflexivity].
    + split; [discriminate | intros [x E]; discriminate].
  - cbn. unfold scalar_ok. destruct g as [s0 nl|i nl]; cbn.
    + rewrite String.eqb_eq. split; [intros ->; eauto | intros [x [= -> _]]; reflexivity].
    + split; [discriminate | intros [x E]; discriminate].
  - cbn. unfold scalar_ok. destruct g as [s0 nl|i nl]; cbn.
    + rewrite String.eqb_eq. split; [intros ->; eauto | intros [x [= -> _]]; reflexivity].
    + split; [discriminate | intros [x E]; discriminate].
  - cbn. unfold scalar_ok. destruct g as [s0 nl|i nl]; cbn.
    + rewrite String.eqb_eq. split; [intros ->; eauto | intros [x [= -> _]]; reflexivity].
    + split; [discriminate | intros [x E]; discriminate].
  - cbn. split; [discriminate | intros []].
  - destruct g as [s0 nl|i nl]; cbn [validT fits gbase g_aty]; [split; [discriminate | intros []]|].
    induction IHl as [|x r Hx Hr IH]; cbn [forallb]; [split; auto|].
    rewrite andb_true_iff, Hx, IH. reflexivity.
Qed.

Lemma ty_valid_fits g v : enum_free v = true ->
  ty_valid (T (gbase g) (g_aty g)) v = Ok (validT (gbase g) (g_aty g) v).
Proof. intros E. rewrite ty_valid_T. now apply a_valid_enum_free. Qed.

(* ====================================================================================== *)
(* 3. Parameter maps (BTreeMap collected from the argument list)                            *)
(* ====================================================================================== *)
Definition klt {V} (a b : string * V) : Prop := String.compare (fst a) (fst b) = Lt.
Definition ssorted {V} (m : list (string * V)) : Prop := StronglySorted klt m.

Lemma smap_insert_sorted {V} k (v : V) m : ssorted m -> ssorted (smap_insert k v m).
Proof.
  induction m as [|[k' v'] m IH]; intros S; cbn; [repeat constructor|].
  inversion S as [|? ? S1 S2]; subst.
  destruct (String.compare k k') eqn:C.
  - apply cmp_eq in C. subst k'. constructor; [exact S1 | exact S2].
  - constructor; [exact S|]. constructor; [exact C|].
    rewrite Forall_forall in *. intros x Hx. unfold klt in *. cbn in *. eapply cmp_lt_trans; eauto.
  - constructor; [now apply IH|]. rewrite Forall_forall in *. intros [kx vx] Hx.
    assert (Hk : In kx (map fst (smap_insert k v m))) by (change kx with (fst (kx, vx)); now apply in_map).
    apply smap_keys_insert in Hk. unfold klt. cbn. destruct Hk as [->|Hk].
    + now apply cmp_gt_lt.
    + apply in_map_iff in Hk. destruct Hk as [[ky vy] [Ey Hy]]. cbn in Ey. subst ky.
      apply (S2 _ Hy).
Qed.

Lemma ssorted_get {V} (m : list (string * V)) k v : ssorted m -> In (k, v) m -> smap_get k m = Some v.
Proof.
  induction m as [|[k' v'] m IH]; intros S H; [destruct H|].
  inversion S as [|? ? S1 S2]; subst. cbn. destruct H as [[= -> ->]|H].
  - now rewrite String.eqb_refl.
  - destruct (String.eqb_spec k k') as [->|E]; [|now apply IH].
    rewrite Forall_forall in S2. specialize (S2 _ H). unfold klt in S2. cbn in S2.
    rewrite cmp_refl in S2. discriminate.
Qed.

Lemma pmap_snoc args a : pmap (args ++ [a]) = smap_insert (a_name a) (a_ty a) (pmap args).
Proof. unfold pmap. now rewrite fold_left_app. Qed.

Lemma pmap_sorted args : ssorted (pmap args).
Proof.
  induction args as [|a args IH] using rev_ind; [constructor|].
  rewrite pmap_snoc. now apply smap_insert_sorted.
Qed.

Lemma param_ty_nil n g : ~ param_ty [] n g.
Proof. intros [pre [a [post [E _]]]]. destruct pre; discriminate. Qed.

Lemma param_ty_snoc args a n g :
  param_ty (args ++ [a]) n g <-> (a_name a = n /\ a_ty a = g) \/ (a_name a <> n /\ param_ty args n g).
Proof.
  split.
  - intros [pre [b [post [E [H1 [H2 H3]]]]]].
    destruct post as [|c post] using rev_ind.
    + apply app_inj_tail in E. destruct E as [_ <-]. now left.
    + clear IHpost. rewrite app_comm_cons, app_assoc in E. apply app_inj_tail in E. destruct E as [E <-].
      right. split.
      * apply H3. apply in_or_app. right. now left.
      * exists pre, b, post. repeat split; auto. intros x Hx. apply H3. apply in_or_app. now left.
  - intros [[H1 H2]|[H1 [pre [b [post [E [H2 [H3 H4]]]]]]]].
    + exists args, a, []. repeat split; auto; intros x [].
    + exists pre, b, (post ++ [a]). subst args. rewrite <- app_assoc. repeat split; auto.
      intros x Hx. apply in_app_or in Hx. destruct Hx as [Hx|[<-|[]]]; auto.
Qed.

Lemma pmap_get args n g : smap_get n (pmap args) = Some g <-> param_ty args n g.
Proof.
  revert g. induction args as [|a args IH] using rev_ind; intros g.
  - cbn. split; [discriminate | intros H; now apply param_ty_nil in H].
  - rewrite pmap_snoc, smap_get_insert, param_ty_snoc.
    destruct (String.eqb_spec n (a_name a)) as [->|E].
    + split; [intros [= <-]; now left | intros [[_ ->]|[H _]]; [reflexivity | congruence]].
    + rewrite IH. split; [intros H; right; split; [congruence | exact H] | intros [[H _]|[_ H]]; [congruence | exact H]].
Qed.

Lemma pmap_In args n g : In (n, g) (pmap args) <-> param_ty args n g.
Proof.
  rewrite <- pmap_get. split; [apply ssorted_get, pmap_sorted | apply smap_get_In].
Qed.

Lemma pmap_keys args n : In n (map fst (pmap args)) <-> In n (map a_name args).
Proof.
  induction args as [|a args IH] using rev_ind; [reflexivity|].
  rewrite pmap_snoc, smap_keys_insert, IH, map_app, in_app_iff. cbn. intuition.
Qed.

(* ====================================================================================== *)
(* 4. The checks, one by one                                                                *)
(* ====================================================================================== *)
Lemma NoDup_map_inj {A B} (f : A -> B) l a b :
  NoDup (map f l) -> In a l -> In b l -> f a = f b -> a = b.
Proof.
  induction l as [|x l IH]; intros N Ha Hb E; [destruct Ha|].
  cbn in N. inversion N as [|? ? N1 N2]; subst.
  destruct Ha as [<-|Ha], Hb as [<-|Hb]; auto.
  - exfalso. apply N1. rewrite E. now apply in_map.
  - exfalso. apply N1. rewrite <- E. now apply in_map.
Qed.

Lemma if_nil {A} (b : bool) (x : A) : (if b then [x] else []) = [] <-> b = false.
Proof. destruct b; split; congruence. Qed.
Lemma app_nil_iff {A} (a b : list A) : a ++ b = [] <-> a = [] /\ b = [].
Proof. split; [apply app_eq_nil | intros [-> ->]; reflexivity]. Qed.

Section Checks.
  Variable ts : list tdef.
  Hypothesis U : uniq ts.

  Lemma find_defines n t : find_type n ts = Some t <-> defines ts t n.
  Proof. symmetry. apply defines_find. apply U. Qed.

  Lemma name_inj t u : In t ts -> In u ts -> t_name t = t_name u -> t = u.
  Proof. apply NoDup_map_inj. apply U. Qed.

  Lemma field_inj t f g : In t ts -> In f (t_fields t) -> In g (t_fields t) -> f_name f = f_name g -> f = g.
  Proof. intros Ht. apply NoDup_map_inj. now apply U. Qed.

  Lemma fields_In tn fn f :
    In ((tn, fn), f) (all_fields ts) <-> exists t, In t ts /\ t_name t = tn /\ In f (t_fields t) /\ f_name f = fn.
  Proof.
    unfold all_fields. rewrite in_flat_map. split.
    - intros [t [Ht H]]. apply in_map_iff in H. destruct H as [g [E Hg]]. unfold mkf in E.
      injection E as <- <- <-. eauto 6.
    - intros [t [Ht [<- [Hf <-]]]]. exists t. split; [exact Ht|]. apply in_map_iff. exists f. auto.
  Qed.

  Lemma fields_get tn fn f :
    omap_get (tn, fn) (all_fields ts) = Some f <->
    exists t, In t ts /\ t_name t = tn /\ In f (t_fields t) /\ f_name f = fn.
  Proof.
    rewrite <- fields_In. split; [apply omap_get_In|].
    intros H. destruct (omap_get (tn, fn) (all_fields ts)) as [g|] eqn:E.
    - apply omap_get_In in E. apply fields_In in E, H.
      destruct E as [t [Ht [E1 [Hg E2]]]], H as [u [Hu [E3 [Hf E4]]]].
      assert (t = u) by (apply name_inj; congruence). subst u.
      f_equal. apply (field_inj t); congruence.
    - apply omap_get_none in E. exfalso. apply E. change (tn, fn) with (fst ((tn, fn), f)). now apply in_map.
  Qed.

  Lemma fields_none tn fn :
    omap_get (tn, fn) (all_fields ts) = None <->
    ~ exists t f, In t ts /\ t_name t = tn /\ In f (t_fields t) /\ f_name f = fn.
  Proof.
    split.
    - intros E [t [f H]]. assert (H' : omap_get (tn, fn) (all_fields ts) = Some f) by (apply fields_get; eauto).
      congruence.
    - intros H. destruct (omap_get (tn, fn) (all_fields ts)) as [f|] eqn:E; [|reflexivity].
      exfalso. apply H. apply fields_get in E. destruct E as [t E]. eauto.
  Qed.

  (* ---------- is_subtype ---------- *)
  Lemma named_subtype_iff p c : named_subtype ts p c = true <-> named_sub ts p c.
  Proof.
    unfold named_subtype, named_sub.
    destruct (has_type p ts) eqn:Hp; destruct (find_type c ts) as [cd|] eqn:Hc.
    - apply has_type_In, defined_iff in Hp. apply find_defines in Hc.
      rewrite orb_true_iff, String.eqb_eq, mem_In. split.
      + intros H. right. split; [exact Hp|]. eauto.
      + intros [[N _]|[_ [c0 [Hc0 H]]]]; [contradiction|].
        assert (c0 = cd). { destruct Hc0 as [H1 H2], Hc as [H3 H4]. apply name_inj; congruence. }
        now subst.
    - apply has_type_In, defined_iff in Hp. split; [discriminate|].
      intros [[N _]|[_ [c0 [Hc0 _]]]]; [contradiction|]. apply find_defines in Hc0. congruence.
    - apply has_type_false in Hp. rewrite <- defined_iff in Hp. apply find_defines in Hc. split; [discriminate|].
      intros [[_ [N _]]|[D _]]; [|contradiction]. exfalso. apply N. now exists cd.
    - apply has_type_false in Hp. rewrite <- defined_iff in Hp. apply find_type_none in Hc.
      rewrite <- defined_iff in Hc. rewrite String.eqb_eq. split.
      + intros ->. left. auto.
      + intros [[_ [_ E]]|[D _]]; [exact E | contradiction].
  Qed.

  Lemma null_ok_iff pn cn : negb pn && cn = false <-> (pn = true \/ cn = false).
  Proof. destruct pn, cn; cbn; intuition congruence. Qed.

  Lemma is_subtype_iff p : forall c, is_subtype ts p c = true <-> gsub ts p c.
  Proof.
    induction p as [pnm pn|p IH pn]; intros [cnm cn|c cn]; cbn [is_subtype gnullable].
    - destruct (negb pn && cn) eqn:E.
      + split; [discriminate|]. intros H. inversion H; subst. apply null_ok_iff in H3. congruence.
      + rewrite named_subtype_iff. apply null_ok_iff in E. split; [intros H; now constructor|].
        intros H. now inversion H.
    - destruct (negb pn && cn); (split; [discriminate | intros H; inversion H]).
    - destruct (negb pn && cn); (split; [discriminate | intros H; inversion H]).
    - destruct (negb pn && cn) eqn:E.
      + split; [discriminate|]. intros H. inversion H; subst. apply null_ok_iff in H3. congruence.
      + rewrite IH. apply null_ok_iff in E. split; [intros H; now constructor|].
        intros H. now inversion H.
  Qed.

  (* ---------- check_required_transitive_implementations ---------- *)
  Definition P_transitive : Prop :=
    forall t i, In t ts -> In i (t_impl t) ->
      exists it, defines ts it i /\ t_kind it = VInterface /\
                 forall j, In j (t_impl it) -> j = t_name t \/ In j (t_impl t).

  Lemma check_transitive_nil : check_transitive ts = [] <-> P_transitive.
  Proof.
    unfold check_transitive, P_transitive. rewrite flat_map_nil. split.
    - intros H t i Ht Hi. specialize (H t (proj2 (sort_types_In t ts) Ht)). cbn in H.
      rewrite flat_map_nil in H. specialize (H i (proj2 (In_sset_of i _) Hi)).
      unfold transitive_one in H. destruct (find_type i ts) as [it|] eqn:Ef; [|discriminate].
      destruct (t_kind it) eqn:Ek; [discriminate|]. exists it. split; [now apply find_defines|].
      split; [exact Ek|]. intros j Hj. rewrite flat_map_nil in H. specialize (H j Hj).
      apply if_nil in H. apply andb_false_iff in H. rewrite !negb_false_iff in H.
      destruct H as [H|H]; [left; now apply String.eqb_eq | right; apply mem_In in H; exact (proj1 (In_sset_of _ _) H)].
    - intros H t Ht. apply (proj1 (sort_types_In _ _)) in Ht. apply flat_map_nil. intros i Hi. apply (proj1 (In_sset_of _ _)) in Hi.
      destruct (H t i Ht Hi) as [it [Hd [Hk Hj]]]. unfold transitive_one.
      apply find_defines in Hd. rewrite Hd, Hk. apply flat_map_nil. intros j Hjj. apply if_nil.
      apply andb_false_iff. rewrite !negb_false_iff. destruct (Hj j Hjj) as [->|Hx].
      + left. apply String.eqb_refl.
      + right. apply mem_In. exact (proj2 (In_sset_of _ _) Hx).
  Qed.

  (* ---------- check_fields_required_by_interface_implementations ---------- *)
  Definition P_present : Prop :=
    forall t i it pf, In t ts -> In i (t_impl t) -> defines ts it i -> In pf (t_fields it) -> has_field t (f_name pf).

  Lemma check_required_fields_nil : check_required_fields ts (all_fields ts) = [] <-> P_present.
  Proof.
    unfold check_required_fields, P_present. rewrite flat_map_nil. split.
    - intros H t i it pf Ht Hi Hd Hpf. specialize (H t (proj2 (sort_types_In t ts) Ht)). cbn in H.
      rewrite flat_map_nil in H. specialize (H i Hi). unfold required_one in H.
      apply find_defines in Hd. rewrite Hd in H. rewrite flat_map_nil in H. specialize (H pf Hpf). cbn in H.
      destruct (omap_get (t_name t, f_name pf) (all_fields ts)) as [f|] eqn:E; [|discriminate].
      apply fields_get in E. destruct E as [u [Hu [E1 [Hf E2]]]].
      assert (u = t) by (now apply name_inj). subst u. now exists f.
    - intros H t Ht. apply (proj1 (sort_types_In _ _)) in Ht. apply flat_map_nil. intros i Hi. unfold required_one.
      destruct (find_type i ts) as [it|] eqn:Ef; [|reflexivity]. apply find_defines in Ef.
      apply flat_map_nil. intros pf Hpf. destruct (H t i it pf Ht Hi Ef Hpf) as [f [Hf E]].
      assert (E' : omap_get (t_name t, f_name pf) (all_fields ts) = Some f) by (apply fields_get; eauto).
      now rewrite E'.
  Qed.
End Checks.

Lemma rflat_spec {A B} (f : A -> res (list B)) l (P : A -> Prop) :
  (forall x, In x l -> exists r, f x = Ok r /\ (r = [] <-> P x)) ->
  exists r, rflat f l = Ok r /\ (r = [] <-> forall x, In x l -> P x).
Proof.
  induction l as [|a l IH]; intros H.
  - exists []. split; [reflexivity|]. split; [intros _ x [] | reflexivity].
  - destruct (H a (or_introl eq_refl)) as [ra [Ea Pa]].
    destruct IH as [rl [El Pl]]. { intros x Hx. apply H. now right. }
    exists (ra ++ rl). cbn. rewrite Ea. cbn. rewrite El. cbn. split; [reflexivity|].
    rewrite app_nil_iff, Pa, Pl. split.
    + intros [H1 H2] x [<-|Hx]; auto.
    + intros H0. split; [apply H0; now left | intros x Hx; apply H0; now right].
Qed.

Section Checks2.
  Variable ts : list tdef.
  Hypothesis U : uniq ts.
  Hypothesis D : forall t f g, In t ts -> In f (t_fields t) -> In g (fld_gtys f) -> gdepth g <= 30.
  Hypothesis EF : forall t f a, In t ts -> In f (t_fields t) -> In a (f_args f) -> arg_has_enum a = false.

  Lemma param_depth t f n g : In t ts -> In f (t_fields t) -> param_ty (f_args f) n g -> gdepth g <= 30.
  Proof.
    intros Ht Hf [pre [a [post [E [_ [<- _]]]]]]. apply (D t f); auto. right. apply in_map. rewrite E.
    apply in_or_app. right. now left.
  Qed.

  (* ---------- check_field_type_narrowing ---------- *)
  Definition P_narrowed : Prop :=
    forall t i it pf f, In t ts -> In i (t_impl t) -> defines ts it i -> In pf (t_fields it) ->
                        In f (t_fields t) -> f_name f = f_name pf -> narrows ts pf f.

  Lemma filter_nil {A} (p : A -> bool) l : filter p l = [] <-> forall x, In x l -> p x = false.
  Proof.
    induction l as [|a l IH]; cbn; [split; [intros _ x [] | reflexivity]|].
    destruct (p a) eqn:E.
    - split; [discriminate|]. intros H. rewrite (H a (or_introl eq_refl)) in E. discriminate.
    - rewrite IH. split; [intros H x [<-|Hx]; auto | intros H x Hx; apply H; now right].
  Qed.
  Lemma match_nil {A B} (l : list A) (x : B) : match l with [] => [] | _ => [x] end = [] <-> l = [].
  Proof. destruct l; split; congruence. Qed.

  Lemma narrowing_one_spec t f i : In t ts -> In f (t_fields t) ->
    exists r, narrowing_one ts (all_fields ts) (t_name t) f i = Ok r /\
              (r = [] <-> forall it pf, defines ts it i -> In pf (t_fields it) -> f_name f = f_name pf ->
                                        narrows ts pf f).
  Proof.
    intros Ht Hf. unfold narrowing_one.
    destruct (omap_get (i, f_name f) (all_fields ts)) as [pf|] eqn:Eg.
    - apply (fields_get ts U) in Eg. destruct Eg as [it [Hit [Ei [Hpf En]]]].
      destruct (rflat_spec (narrowing_param (f_name f) (t_name t) i (pmap (f_args pf))) (pmap (f_args f))
                  (fun p => forall pg, param_ty (f_args pf) (fst p) pg -> ssub (snd p) pg)) as [e4 [E4 P4]].
      { intros [n g] Hp. apply pmap_In in Hp. unfold narrowing_param. cbn [fst snd].
        destruct (smap_get n (pmap (f_args pf))) as [pg|] eqn:Ep.
        - apply pmap_get in Ep.
          assert (Dg : gdepth g <= 30) by exact (param_depth t f n g Ht Hf Hp).
          assert (Dpg : gdepth pg <= 30) by exact (param_depth it pf n pg Hit Hpf Ep).
          rewrite (from_type_ok g Dg), (from_type_ok pg Dpg). cbn [bind].
          destruct (ty_sub (T (gbase g) (g_aty g)) (T (gbase pg) (g_aty pg))) eqn:Es.
          + eexists. split; [reflexivity|]. split; [|reflexivity]. intros _ pg' Hpg'.
            apply pmap_get in Ep, Hpg'. rewrite Ep in Hpg'. injection Hpg' as <-.
            apply ty_sub_ssub in Es; [exact Es | exact Dg].
          + eexists. split; [reflexivity|]. split; [discriminate|]. intros H. exfalso.
            specialize (H pg Ep). apply ty_sub_ssub in H; [congruence | exact Dg].
        - exists []. split; [reflexivity|]. split; [|reflexivity]. intros _ pg' Hpg'.
          apply pmap_get in Hpg'. congruence. }
      rewrite E4. cbn [bind]. eexists. split; [reflexivity|].
      rewrite !app_nil_iff, P4. clear E4 P4.
      assert (Huniq : forall it' pf', defines ts it' i -> In pf' (t_fields it') -> f_name f = f_name pf' -> pf' = pf).
      { intros it' pf' [H1 H2] H3 H4. assert (it' = it) by (apply (name_inj ts U); congruence). subst it'.
        apply (field_inj ts U it); congruence. }
      split.
      + intros [H1 [H2 [H3 H4]]] it' pf' Hd Hp He. rewrite (Huniq it' pf' Hd Hp He). unfold narrows.
        split; [|split].
        * destruct (is_subtype ts (f_ty pf) (f_ty f)) eqn:Es; [|discriminate]. now apply (is_subtype_iff ts U).
        * apply match_nil in H2, H3. rewrite filter_nil in H2, H3. intros n. split; intros Hn.
          -- apply pmap_keys in Hn. specialize (H2 n Hn). apply negb_false_iff, smap_has_In in H2.
             now apply pmap_keys.
          -- apply pmap_keys in Hn. specialize (H3 n Hn). apply negb_false_iff, smap_has_In in H3.
             now apply pmap_keys.
        * intros n g pg Hg Hpg. apply pmap_In in Hg. apply (H4 (n, g) Hg pg Hpg).
      + intros H. specialize (H it pf (conj Hit Ei) Hpf (eq_sym En)). destruct H as [N1 [N2 N3]].
        split; [|split; [|split]].
        * apply (is_subtype_iff ts U) in N1. now rewrite N1.
        * apply match_nil, filter_nil. intros n Hn. apply negb_false_iff, smap_has_In, pmap_keys, N2.
          now apply pmap_keys.
        * apply match_nil, filter_nil. intros n Hn. apply negb_false_iff, smap_has_In, pmap_keys, N2.
          now apply pmap_keys.
        * intros [n g] Hp pg Hpg. cbn in *. apply pmap_In in Hp. eapply N3; eauto.
    - exists []. split; [reflexivity|]. split; [|reflexivity]. intros _ it pf [Hit Ei] Hpf En. exfalso.
      apply (fields_none ts U) in Eg. apply Eg. exists it, pf. auto.
  Qed.

  Lemma check_narrowing_spec :
    exists r, check_narrowing ts (all_fields ts) = Ok r /\ (r = [] <-> P_narrowed).
  Proof.
    unfold check_narrowing.
    destruct (rflat_spec
      (fun t => rflat (fun f => rflat (narrowing_one ts (all_fields ts) (t_name t) f) (t_impl t)) (t_fields t))
      (sort_types ts)
      (fun t => forall f, In f (t_fields t) -> forall i, In i (t_impl t) ->
                forall it pf, defines ts it i -> In pf (t_fields it) -> f_name f = f_name pf -> narrows ts pf f))
      as [r [E P]].
    { intros t Ht. apply (proj1 (sort_types_In _ _)) in Ht. apply rflat_spec. intros f Hf.
      apply rflat_spec. intros i Hi. now apply narrowing_one_spec. }
    exists r. split; [exact E|]. rewrite P. unfold P_narrowed. split.
    - intros H t i it pf f Ht Hi Hd Hpf Hf En. apply (H t (proj2 (sort_types_In _ _) Ht) f Hf i Hi it pf); auto.
    - intros H t Ht f Hf i Hi it pf Hd Hpf En. apply (proj1 (sort_types_In _ _)) in Ht. eapply H; eauto.
  Qed.
End Checks2.

Section Checks3.
  Variable ts : list tdef.
  Hypothesis U : uniq ts.
  Hypothesis D : forall t f g, In t ts -> In f (t_fields t) -> In g (fld_gtys f) -> gdepth g <= 30.
  Hypothesis EF : forall t f a, In t ts -> In f (t_fields t) -> In a (f_args f) -> arg_has_enum a = false.
  Variable q : string.

  (* ---------- check_type_and_property_and_edge_invariants ---------- *)
  Lemma check_default_spec tn fn t f a : In t ts -> In f (t_fields t) -> In a (f_args f) ->
    exists r, check_default tn fn a = Ok r /\ (r = [] <-> default_fits a).
  Proof.
    intros Ht Hf Ha. unfold check_default, default_fits. specialize (EF t f a Ht Hf Ha).
    unfold arg_has_enum in EF. destruct (a_default a) as [| |v].
    - exists []. split; [reflexivity | tauto].
    - eexists. split; [reflexivity|]. split; [discriminate | intros []].
    - apply negb_false_iff in EF.
      rewrite from_type_ok by (apply (D t f); auto; right; now apply in_map). cbn [bind].
      rewrite ty_valid_fits by exact EF. cbn [bind].
      destruct (validT (gbase (a_ty a)) (g_aty (a_ty a)) v) eqn:Ev.
      + exists []. split; [reflexivity|]. split; [|reflexivity]. intros _. now apply validT_fits.
      + eexists. split; [reflexivity|]. split; [discriminate|]. intros H. apply validT_fits in H. congruence.
  Qed.

  Definition field_ok (f : fld) : Prop :=
    reserved_name (f_name f) = false /\
    ((builtin_scalar (gbase (f_ty f)) = true /\ f_args f = []) \/
     (builtin_scalar (gbase (f_ty f)) = false /\ defined ts (gbase (f_ty f)) /\ gbase (f_ty f) <> q /\
      (forall a, In a (f_args f) -> default_fits a) /\ gdepth (f_ty f) <= 1)).

  Lemma edge_shape_nil g tn fn :
    match ty_as_list (T (gbase g) (g_aty g)) with
    | Some inner => if ty_is_list inner then [EInvalidEdgeType tn fn (ty_display (T (gbase g) (g_aty g)))] else []
    | None => []
    end = [] <-> gdepth g <= 1.
  Proof.
    destruct g as [s nl|[s nl2|i nl2] nl]; cbn [g_aty gbase gdepth].
    - rewrite as_list_T_named. split; [lia | reflexivity].
    - rewrite as_list_T_list, is_list_T. cbn. split; [lia | reflexivity].
    - rewrite as_list_T_list, is_list_T. cbn. split; [discriminate | lia].
  Qed.

  Lemma check_field_invariants_spec t f : In t ts -> In f (t_fields t) ->
    exists r, check_field_invariants ts q (t_name t) f = Ok r /\ (r = [] <-> field_ok f).
  Proof.
    intros Ht Hf. unfold check_field_invariants, field_ok.
    rewrite from_type_ok by (apply (D t f); auto; now left). cbn [bind]. unfold ty_base_type. rewrite base_T.
    destruct (builtin_scalar (gbase (f_ty f))) eqn:Eb.
    - eexists. split; [reflexivity|]. rewrite app_nil_iff, if_nil, match_nil. split.
      + intros [H1 H2]. split; [exact H1|]. left. auto.
      + intros [H1 [[_ H2]|[H2 _]]]; [auto | discriminate].
    - destruct (has_type (gbase (f_ty f)) ts) eqn:Eh.
      + apply has_type_In, defined_iff in Eh.
        destruct (String.eqb_spec (gbase (f_ty f)) q) as [Eq|Eq].
        * eexists. split; [reflexivity|]. split.
          -- intros H. apply app_eq_nil in H. destruct H; discriminate.
          -- intros [_ [[H _]|[_ [_ [H _]]]]]; [discriminate | contradiction].
        * destruct (rflat_spec (check_default (t_name t) (f_name f)) (f_args f) default_fits) as [ed [Ed Pd]].
          { intros a Ha. eapply check_default_spec; eauto. }
          rewrite Ed. cbn [bind]. eexists. split; [reflexivity|].
          rewrite !app_nil_iff, if_nil, Pd, edge_shape_nil. split.
          -- intros [H1 [H2 H3]]. split; [exact H1|]. right. auto 6.
          -- intros [H1 [[H _]|[_ [_ [_ [H2 H3]]]]]]; [discriminate | auto].
      + apply has_type_false in Eh. rewrite <- defined_iff in Eh.
        eexists. split; [reflexivity|]. split.
        * intros H. apply app_eq_nil in H. destruct H; discriminate.
        * intros [_ [[H _]|[_ [H _]]]]; [discriminate | contradiction].
  Qed.

  Definition P_invariants : Prop :=
    forall t, In t ts -> reserved_name (t_name t) = false /\ forall f, In f (t_fields t) -> field_ok f.

  Lemma check_invariants_spec :
    exists r, check_invariants q ts = Ok r /\ (r = [] <-> P_invariants).
  Proof.
    unfold check_invariants.
    destruct (rflat_spec
      (fun t => let e0 := if reserved_name (t_name t) then [EReservedType (t_name t)] else [] in
                do ef <- rflat (check_field_invariants ts q (t_name t)) (t_fields t); Ok (e0 ++ ef))
      (sort_types ts)
      (fun t => reserved_name (t_name t) = false /\ forall f, In f (t_fields t) -> field_ok f)) as [r [E P]].
    { intros t Ht. apply (proj1 (sort_types_In _ _)) in Ht.
      destruct (rflat_spec (check_field_invariants ts q (t_name t)) (t_fields t) field_ok) as [ef [Ef Pf]].
      { intros f Hf. now apply check_field_invariants_spec. }
      cbn zeta. rewrite Ef. cbn [bind]. eexists. split; [reflexivity|].
      rewrite app_nil_iff, if_nil, Pf. reflexivity. }
    exists r. split; [exact E|]. rewrite P. unfold P_invariants. split.
    - intros H t Ht. apply H. now apply sort_types_In.
    - intros H t Ht. apply H. now apply (proj1 (sort_types_In _ _)).
  Qed.

  (* ---------- check_root_query_type_invariants ---------- *)
  Lemma check_root_spec qt : In qt ts ->
    exists r, check_root qt = Ok r /\
              (r = [] <-> forall f, In f (t_fields qt) -> builtin_scalar (gbase (f_ty f)) = false).
  Proof.
    intros Hq. unfold check_root. apply rflat_spec. intros f Hf.
    rewrite from_type_ok by (apply (D qt f); auto; now left). cbn [bind]. unfold ty_base_type. rewrite base_T.
    destruct (builtin_scalar (gbase (f_ty f))).
    - eexists. split; [reflexivity|]. split; discriminate.
    - exists []. split; [reflexivity|]. tauto.
  Qed.
End Checks3.

(* ====================================================================================== *)
(* 5. get_field_origins                                                                     *)
(* ====================================================================================== *)
Lemma rfold_app {A S} (f : S -> A -> res S) a b s :
  rfold f (a ++ b) s = (do s' <- rfold f a s; rfold f b s').
Proof.
  revert s. induction a as [|x a IH]; intros s; cbn; [reflexivity|].
  destruct (f s x); cbn; auto.
Qed.
Lemma rfold_ext {A S} (f g : S -> A -> res S) l s :
  (forall s x, In x l -> f s x = g s x) -> rfold f l s = rfold g l s.
Proof.
  revert s. induction l as [|x l IH]; intros s H; cbn; [reflexivity|].
  rewrite (H s x (or_introl eq_refl)). destruct (g s x); cbn; [|reflexivity].
  apply IH. intros s' y Hy. apply H. now right.
Qed.
Lemma rfold_map {A B S} (f : S -> B -> res S) (h : A -> B) l s :
  rfold f (map h l) s = rfold (fun s x => f s (h x)) l s.
Proof.
  revert s. induction l as [|x l IH]; intros s; cbn; [reflexivity|]. destruct (f s (h x)); cbn; auto.
Qed.
Lemma rfold_flat_map {A B S} (f : S -> B -> res S) (g : A -> list B) l s :
  rfold f (flat_map g l) s = rfold (fun s x => rfold f (g x) s) l s.
Proof.
  revert s. induction l as [|x l IH]; intros s; cbn; [reflexivity|].
  rewrite rfold_app. destruct (rfold f (g x) s); cbn; auto.
Qed.
(* loop invariant indexed by the processed prefix *)
Lemma rfold_inv {A S} (f : S -> A -> res S) (P : list A -> S -> Prop) l :
  forall pre s, P pre s ->
  (forall pre' x s, P pre' s -> In x l -> exists s', f s x = Ok s' /\ P (pre' ++ [x]) s') ->
  exists s', rfold f l s = Ok s' /\ P (pre ++ l) s'.
Proof.
  induction l as [|x l IH]; intros pre s H0 Hs.
  - exists s. rewrite app_nil_r. auto.
  - destruct (Hs pre x s H0 (or_introl eq_refl)) as [s1 [E1 P1]]. cbn. rewrite E1. cbn.
    destruct (IH (pre ++ [x]) s1 P1) as [s2 [E2 P2]].
    { intros pre' y s' Hp Hy. apply Hs; auto. now right. }
    exists s2. rewrite <- app_assoc in P2. auto.
Qed.

Definition oset (o : origin) : list string := match o with Single a => [a] | Multiple l => l end.
Definition multi_ok (o : origin) : Prop :=
  match o with Single _ => True | Multiple l => exists a b, In a l /\ In b l /\ a <> b end.

Lemma origin_add_set l r a : In a (oset (origin_add l r)) <-> In a (oset l) \/ In a (oset r).
Proof.
  destruct l as [x|m], r as [y|m']; cbn [origin_add oset].
  - destruct (String.eqb_spec x y) as [->|E]; cbn [oset In]; [intuition|].
    rewrite !In_sset_insert. cbn [In]. intuition.
  - rewrite In_sset_insert. cbn. intuition.
  - rewrite In_sset_insert. cbn. intuition.
  - rewrite In_sset_fold. intuition.
Qed.
Lemma origin_add_multi l r : multi_ok l -> multi_ok r -> multi_ok (origin_add l r).
Proof.
  destruct l as [x|m], r as [y|m']; cbn [origin_add multi_ok]; intros Hl Hr.
  - destruct (String.eqb_spec x y) as [->|E]; cbn [multi_ok]; [exact I|].
    exists x, y. rewrite !In_sset_insert. cbn [In]. intuition.
  - destruct Hr as [a [b [Ha [Hb N]]]]. exists a, b. rewrite !In_sset_insert. auto.
  - destruct Hl as [a [b [Ha [Hb N]]]]. exists a, b. rewrite !In_sset_insert. auto.
  - destruct Hl as [a [b [Ha [Hb N]]]]. exists a, b. rewrite !In_sset_fold. auto.
Qed.

Section Origins.
  Variable ts : list tdef.
  Hypothesis U : uniq ts.

  Definition orepr (tn fn : string) (o : origin) : Prop :=
    (forall a, In a (oset o) <-> origin_of ts tn fn a) /\ multi_ok o.

  (* acc accumulates the origins contributed by the (interface, field) pairs of C *)
  Definition represents (C : list (string * string)) (acc : list (string * origin)) : Prop :=
    forall fn, match smap_get fn acc with
               | None => forall i, ~ In (i, fn) C
               | Some o => (exists i, In (i, fn) C) /\
                           (forall a, In a (oset o) <-> exists i, In (i, fn) C /\ origin_of ts i fn a) /\
                           multi_ok o
               end.

  Lemma represents_step C acc i fn po :
    represents C acc -> orepr i fn po -> represents (C ++ [(i, fn)]) (impl_add acc fn po).
  Proof.
    intros R [P1 P2] fn'. specialize (R fn'). unfold impl_add.
    destruct (String.eqb_spec fn' fn) as [->|N].
    - destruct (smap_get fn acc) as [o|] eqn:Eo.
      + rewrite smap_get_update, String.eqb_refl, Eo. destruct R as [[i0 H0] [R2 R3]].
        split; [|split].
        * exists i0. apply in_or_app. now left.
        * intros a. rewrite origin_add_set, R2, P1. split.
          -- intros [[j [Hj Oj]]|O]; [exists j | exists i]; split; auto; apply in_or_app; [left | right; left]; auto.
          -- intros [j [Hj Oj]]. apply in_app_or in Hj. destruct Hj as [Hj|[[= -> ]|[]]]; [left; eauto | right; auto].
        * now apply origin_add_multi.
      + rewrite smap_get_insert, String.eqb_refl. split; [|split].
        * exists i. apply in_or_app. right. now left.
        * intros a. rewrite P1. split.
          -- intros O. exists i. split; [apply in_or_app; right; now left | exact O].
          -- intros [j [Hj Oj]]. apply in_app_or in Hj. destruct Hj as [Hj|[[= -> ]|[]]]; [|exact Oj].
             exfalso. now apply (R j).
        * exact P2.
    - assert (G : smap_get fn' (match smap_get fn acc with
                                 | Some o => smap_update fn (origin_add o po) acc
                                 | None => smap_insert fn po acc end) = smap_get fn' acc).
      { destruct (smap_get fn acc); [rewrite smap_get_update | rewrite smap_get_insert];
          apply String.eqb_neq in N; now rewrite N. }
      rewrite G. clear G.
      assert (HC : forall j, In (j, fn') (C ++ [(i, fn)]) <-> In (j, fn') C).
      { intros j. rewrite in_app_iff. cbn. split; [intros [H|[[= _ E]|[]]]; [exact H | congruence] | auto]. }
      destruct (smap_get fn' acc) as [o|].
      + destruct R as [[i0 H0] [R2 R3]]. split; [|split]; [exists i0; now apply HC | | exact R3].
        intros a. rewrite R2. split; intros [j [Hj Oj]]; exists j; split; auto; now apply HC.
      + intros j Hj. apply HC in Hj. now apply (R j).
  Qed.

  Definition contribs (defn : tdef) : list (string * string) :=
    flat_map (fun i => match find_type i ts with
                       | Some it => map (fun pf => (i, f_name pf)) (t_fields it)
                       | None => []
                       end) (t_impl defn).

  Lemma contribs_In defn i fn :
    In (i, fn) (contribs defn) <-> In i (t_impl defn) /\ exists it, defines ts it i /\ has_field it fn.
  Proof.
    unfold contribs. rewrite in_flat_map. split.
    - intros [j [Hj H]]. destruct (find_type j ts) as [it|] eqn:Ef; [|destruct H].
      apply in_map_iff in H. destruct H as [pf [[= <- <-] Hpf]]. split; [exact Hj|].
      exists it. split; [now apply find_defines | now exists pf].
    - intros [Hi [it [Hd [pf [Hpf <-]]]]]. exists i. split; [exact Hi|].
      apply (find_defines ts U) in Hd. rewrite Hd. apply in_map_iff. now exists pf.
  Qed.

  Definition inh_step (origins : list (okey * origin)) (acc : list (string * origin)) (c : string * string)
    : res (list (string * origin)) :=
    match omap_get c origins with
    | None => Panic site_fo_origin_index
    | Some po => Ok (impl_add acc (snd c) po)
    end.

  Lemma inherited_as_fold origins defn :
    inherited_origins ts origins defn = rfold (inh_step origins) (contribs defn) [].
  Proof.
    unfold inherited_origins, contribs. rewrite rfold_flat_map. apply rfold_ext. intros acc i _.
    destruct (find_type i ts) as [it|]; [|reflexivity]. rewrite rfold_map. reflexivity.
  Qed.

  Lemma inherited_spec origins defn :
    (forall i fn, In (i, fn) (contribs defn) -> exists po, omap_get (i, fn) origins = Some po /\ orepr i fn po) ->
    exists inh, inherited_origins ts origins defn = Ok inh /\ represents (contribs defn) inh.
  Proof.
    intros H. rewrite inherited_as_fold.
    destruct (rfold_inv (inh_step origins) represents (contribs defn) [] []) as [inh [E R]].
    - intros fn. cbn. intros i [].
    - intros pre [i fn] acc R Hc. destruct (H i fn Hc) as [po [Eo Po]]. unfold inh_step. rewrite Eo.
      eexists. split; [reflexivity|]. cbn [snd]. now apply represents_step.
    - exists inh. auto.
  Qed.
  Lemma rfold_inv_split {A S} (f : S -> A -> res S) (P : list A -> S -> Prop) l s :
    P [] s ->
    (forall pre x post s, l = pre ++ x :: post -> P pre s -> exists s', f s x = Ok s' /\ P (pre ++ [x]) s') ->
    exists s', rfold f l s = Ok s' /\ P l s'.
  Proof.
    intros H0 Hs.
    assert (G : forall l' pre s, l = pre ++ l' -> P pre s -> exists s', rfold f l' s = Ok s' /\ P l s').
    { induction l' as [|x l' IH]; intros pre s0 E Hp.
      - exists s0. rewrite app_nil_r in E. subst. auto.
      - destruct (Hs pre x l' s0 E Hp) as [s1 [E1 P1]]. cbn. rewrite E1. cbn.
        apply (IH (pre ++ [x]) s1); [|exact P1]. rewrite <- app_assoc. exact E. }
    apply (G l [] s); auto.
  Qed.

  Lemma mem_snoc x l y : mem x (l ++ [y]) = mem x l || String.eqb x y.
  Proof. unfold mem. rewrite existsb_app. cbn. now rewrite orb_false_r. Qed.

  (* ---------- the `for field in fields` loop ---------- *)
  Definition own_o (tn : string) (inh : list (string * origin)) (fn : string) : origin :=
    match smap_get fn inh with Some o => o | None => Single tn end.

  Lemma own_spec tn defn inh origins :
    NoDup (map f_name (t_fields defn)) ->
    (forall fn, omap_get (tn, fn) origins = None) ->
    exists inh' org, own_origins tn defn inh origins = Ok (inh', org) /\
      (forall k, omap_get k org =
                if String.eqb (fst k) tn && mem (snd k) (map f_name (t_fields defn))
                then Some (own_o tn inh (snd k)) else omap_get k origins) /\
      (forall x, In x org -> In x origins \/
                 exists fn, In fn (map f_name (t_fields defn)) /\ x = ((tn, fn), own_o tn inh fn)).
  Proof.
    intros N Hnone. unfold own_origins.
    destruct (rfold_inv_split
      (fun (st : list (string * origin) * list (okey * origin)) f =>
         let '(inh0, org) := st in
         let o := match smap_get (f_name f) inh0 with Some o => o | None => Single tn end in
         match omap_get (tn, f_name f) org with
         | Some _ => Panic site_fo_insert
         | None => Ok (smap_remove (f_name f) inh0, omap_insert (tn, f_name f) o org)
         end)
      (fun pre st =>
         (forall fn, ~ In fn (map f_name pre) -> smap_get fn (fst st) = smap_get fn inh) /\
         (forall k, omap_get k (snd st) =
                    if String.eqb (fst k) tn && mem (snd k) (map f_name pre)
                    then Some (own_o tn inh (snd k)) else omap_get k origins) /\
         (forall x, In x (snd st) -> In x origins \/
                    exists fn, In fn (map f_name pre) /\ x = ((tn, fn), own_o tn inh fn)))
      (t_fields defn) (inh, origins)) as [[inh' org] [E [_ P]]].
    - cbn. split; [auto|]. split; [|auto]. intros k. now rewrite andb_false_r.
    - intros pre f post [inh0 org] El [P1 [P2 P3]]. cbn [fst snd] in *.
      assert (Hnin : ~ In (f_name f) (map f_name pre)).
      { rewrite El, map_app in N. cbn in N. apply NoDup_remove_2 in N. intros H. apply N.
        apply in_or_app. now left. }
      assert (Eg : omap_get (tn, f_name f) org = None).
      { rewrite P2. cbn [fst snd]. rewrite String.eqb_refl. apply mem_false in Hnin. rewrite Hnin. apply Hnone. }
      rewrite Eg. eexists. split; [reflexivity|]. cbn [fst snd]. split.
      + intros fn Hfn. rewrite map_app, in_app_iff in Hfn. cbn in Hfn.
        rewrite smap_get_remove. destruct (String.eqb_spec fn (f_name f)) as [->|Nf]; [exfalso; apply Hfn; auto|].
        apply P1. intros H. apply Hfn. now left.
      + split; [|
          intros x Hx; apply omap_insert_In in Hx; destruct Hx as [->|Hx];
          [ right; exists (f_name f); split; [rewrite map_app; apply in_or_app; right; now left|];
            unfold own_o; now rewrite <- (P1 _ Hnin)
          | destruct (P3 x Hx) as [H|[fn [H1 H2]]]; [now left | right; exists fn; split; [|exact H2];
            rewrite map_app; apply in_or_app; now left ] ] ].
        intros k. rewrite (omap_get_insert k _ _ _ Eg). rewrite P1 by exact Hnin.
        change (match smap_get (f_name f) inh with Some o => o | None => Single tn end)
          with (own_o tn inh (f_name f)).
        replace (map f_name (pre ++ [f])) with (map f_name pre ++ [f_name f]) by (now rewrite map_app).
        rewrite mem_snoc.
        destruct (okey_eqb_spec k (tn, f_name f)) as [->|Nk].
        * cbn [fst snd]. now rewrite !String.eqb_refl, orb_true_r.
        * rewrite P2. destruct (String.eqb_spec (fst k) tn) as [E1|E1]; [|reflexivity]. cbn [andb].
          destruct (String.eqb_spec (snd k) (f_name f)) as [E2|E2]; [|now rewrite orb_false_r].
          exfalso. apply Nk. destruct k; cbn in *; congruence.
    - exists inh', org. split; [exact E|]. exact P.
  Qed.

  (* ---------- the `for next_type in next_types` loop, in closed form ---------- *)
  Lemma nodup_keys_get {V} (m : list (string * V)) k v :
    NoDup (map fst m) -> In (k, v) m -> smap_get k m = Some v.
  Proof.
    induction m as [|[k' v'] m IH]; intros N H; [destruct H|].
    cbn in N. inversion N as [|? ? N1 N2]; subst. cbn. destruct H as [[= -> ->]|H].
    - now rewrite String.eqb_refl.
    - destruct (String.eqb_spec k k') as [->|E]; [|now apply IH].
      exfalso. apply N1. change k' with (fst (k', v)). now apply in_map.
  Qed.
  Lemma nodup_keys_unique {V} (m : list (string * V)) k v1 v2 :
    NoDup (map fst m) -> In (k, v1) m -> In (k, v2) m -> v1 = v2.
  Proof.
    intros N H1 H2. apply (nodup_keys_get m k v1 N) in H1. apply (nodup_keys_get m k v2 N) in H2. congruence.
  Qed.
  Lemma sset_remove_notin x s : ~ In x s -> sset_remove x s = s.
  Proof.
    unfold sset_remove. induction s as [|y s IH]; intros H; cbn; [reflexivity|].
    destruct (String.eqb_spec x y) as [->|E]; cbn.
    - exfalso. apply H. now left.
    - f_equal. apply IH. intros H1. apply H. now right.
  Qed.
  Lemma sset_remove_nil_in x s : s <> [] -> sset_remove x s = [] -> In x s.
  Proof.
    intros N E. destruct (in_dec string_dec x s) as [H|H]; [exact H|].
    rewrite sset_remove_notin in E by exact H. contradiction.
  Qed.

  Definition rel_upd (tn : string) (pre : list string) (e : string * list string) : string * list string :=
    (fst e, if mem (fst e) pre then sset_remove tn (snd e) else snd e).
  Definition is_nil {A} (l : list A) : bool := match l with [] => true | _ => false end.
  Definition rel_push (tn : string) (req : list (string * list string)) (n : string) : bool :=
    match smap_get n req with
    | Some rem => mem tn rem && is_nil (sset_remove tn rem)
    | None => false
    end.

  Lemma smap_get_rel_upd tn pre req n :
    smap_get n (map (rel_upd tn pre) req) =
    match smap_get n req with
    | Some rem => Some (if mem n pre then sset_remove tn rem else rem)
    | None => None
    end.
  Proof.
    induction req as [|[k v] req IH]; cbn; [reflexivity|].
    destruct (String.eqb_spec n k) as [->|E]; [reflexivity | exact IH].
  Qed.

  Lemma release_closed tn waiters q req :
    NoDup (map fst req) -> NoDup waiters -> (forall n, In n waiters -> In n (map fst req)) ->
    release_waiters tn waiters q req =
    Ok (q ++ filter (rel_push tn req) waiters, map (rel_upd tn waiters) req).
  Proof.
    intros Nk Nw Hk. unfold release_waiters.
    destruct (rfold_inv_split
      (fun (st : list string * list (string * list string)) next =>
         let '(q0, rq) := st in
         match smap_get next rq with
         | None => Panic site_fo_get_mut
         | Some remaining =>
             if mem tn remaining then
               let rem' := sset_remove tn remaining in
               let rq' := smap_update next rem' rq in
               match rem' with [] => Ok (q0 ++ [next], rq') | _ => Ok (q0, rq') end
             else Ok (q0, rq)
         end)
      (fun pre st => st = (q ++ filter (rel_push tn req) pre, map (rel_upd tn pre) req))
      waiters (q, req)) as [st [E P]].
    - cbn. rewrite app_nil_r. f_equal. symmetry. rewrite <- (map_id req) at 2. apply map_ext. now intros [k v].
    - intros pre next post st El ->.
      assert (Hnp : ~ In next pre).
      { rewrite El in Nw. apply NoDup_remove_2 in Nw. intros H. apply Nw. apply in_or_app. now left. }
      assert (Hin : In next (map fst req)). { apply Hk. rewrite El. apply in_or_app. right. now left. }
      destruct (smap_get next req) as [rem|] eqn:Er; [|apply smap_get_none in Er; contradiction].
      rewrite smap_get_rel_upd, Er. apply mem_false in Hnp. rewrite Hnp.
      assert (Hupd : forall v, (forall e, In e req -> fst e = next -> v = sset_remove tn (snd e)) ->
                smap_update next v (map (rel_upd tn pre) req) = map (rel_upd tn (pre ++ [next])) req).
      { intros v Hv. unfold smap_update. rewrite map_map. apply map_ext_in. intros [k w] He. unfold rel_upd. cbn [fst snd].
        rewrite mem_snoc. destruct (String.eqb_spec next k) as [<-|Nk'].
        - rewrite String.eqb_refl, orb_true_r. f_equal. apply (Hv _ He eq_refl).
        - apply not_eq_sym in Nk'. apply String.eqb_neq in Nk'. now rewrite Nk', orb_false_r. }
      assert (Hone : forall e, In e req -> fst e = next -> snd e = rem).
      { intros [k w] He Ek. cbn in *. subst k. apply smap_get_In in Er. apply (nodup_keys_unique req next); auto. }
      assert (Ep : rel_push tn req next = mem tn rem && is_nil (sset_remove tn rem))
        by (unfold rel_push; now rewrite Er).
      rewrite filter_app. cbn [filter]. rewrite Ep.
      destruct (mem tn rem) eqn:Em; cbn [andb].
      + rewrite (Hupd (sset_remove tn rem)).
        2:{ intros e He Ee. now rewrite (Hone e He Ee). }
        destruct (sset_remove tn rem) eqn:Es; cbn [is_nil]; eexists; (split; [reflexivity|]).
        * now rewrite app_assoc.
        * now rewrite app_nil_r.
      + eexists. split; [reflexivity|]. rewrite app_nil_r. f_equal.
        apply map_ext_in. intros [k w] He. unfold rel_upd. cbn [fst snd]. rewrite mem_snoc.
        destruct (String.eqb_spec k next) as [->|Nk']; [|now rewrite orb_false_r].
        rewrite Hnp. cbn [orb]. f_equal. pose proof (Hone _ He eq_refl) as Hw. cbn [snd] in Hw. subst w.
        symmetry. apply sset_remove_notin. now apply mem_false.
    - rewrite P in E. exact E.
  Qed.

  (* ---------- the work-queue invariant ---------- *)
  Definition parent_of (t : tdef) (x : string) : Prop := In x (t_impl t) /\ defined ts x.

  Record Inv (done : list string) (origins : list (okey * origin)) (queue : list string)
             (req : list (string * list string)) : Prop := mkInv {
    i_nodup : NoDup (done ++ queue);
    i_names : forall n, In n (done ++ queue) -> defined ts n;
    i_keys : map fst req = map t_name (sort_types ts);
    i_req : forall n rem, In (n, rem) req ->
              exists t, In t ts /\ t_name t = n /\ forall x, In x rem <-> (parent_of t x /\ ~ In x done);
    i_ready : forall n rem, In (n, rem) req -> (In n (done ++ queue) <-> rem = []);
    i_order : forall pre tn post, done = pre ++ tn :: post ->
              forall t x, In t ts -> t_name t = tn -> parent_of t x -> In x pre;
    i_org_keys : forall tn fn, omap_get (tn, fn) origins <> None <->
                 (In tn done /\ exists t, In t ts /\ t_name t = tn /\ has_field t fn);
    i_org : forall tn fn o, In ((tn, fn), o) origins -> orepr tn fn o
  }.

  Lemma sorted_names_nodup : NoDup (map t_name (sort_types ts)).
  Proof.
    apply (Permutation_NoDup (l := map t_name ts)); [|apply U].
    apply Permutation_map. symmetry. apply sort_types_perm.
  Qed.
  Lemma sorted_names_In n : In n (map t_name (sort_types ts)) <-> defined ts n.
  Proof.
    rewrite defined_iff. split; apply Permutation_in; apply Permutation_map;
      [apply sort_types_perm | symmetry; apply sort_types_perm].
  Qed.

  Lemma resolvers_In tn n : In n (resolvers_of ts tn) <-> exists t, In t ts /\ t_name t = n /\ In tn (t_impl t).
  Proof.
    unfold resolvers_of. rewrite in_map_iff. split.
    - intros [t [E H]]. apply filter_In in H. destruct H as [H1 H2]. apply (proj1 (sort_types_In _ _)) in H1.
      apply (proj1 (mem_In _ _)) in H2. eauto.
    - intros [t [H1 [E H2]]]. exists t. split; [exact E|]. apply filter_In. split.
      + now apply sort_types_In.
      + now apply mem_In.
  Qed.
  Lemma NoDup_map_filter {A B} (f : A -> B) p l : NoDup (map f l) -> NoDup (map f (filter p l)).
  Proof.
    induction l as [|x l IH]; intros N; cbn; [constructor|]. cbn in N. inversion N as [|? ? N1 N2]; subst.
    destruct (p x); cbn; [constructor|]; auto.
    intros H. apply N1. apply in_map_iff in H. destruct H as [y [E Hy]]. apply filter_In in Hy.
    rewrite <- E. apply in_map. tauto.
  Qed.
  Lemma resolvers_nodup tn : NoDup (resolvers_of ts tn).
  Proof. unfold resolvers_of. apply NoDup_map_filter. apply sorted_names_nodup. Qed.

  Lemma NoDup_app_intro {A} (a b : list A) :
    NoDup a -> NoDup b -> (forall x, In x a -> ~ In x b) -> NoDup (a ++ b).
  Proof.
    induction a as [|x a IH]; intros Na Nb H; cbn; [exact Nb|].
    inversion Na as [|? ? N1 N2]; subst. constructor.
    - intros Hx. apply in_app_or in Hx. destruct Hx as [Hx|Hx]; [contradiction|]. apply (H x); [now left | exact Hx].
    - apply IH; auto. intros y Hy. apply H. now right.
  Qed.

  Lemma has_field_mem t fn : has_field t fn <-> mem fn (map f_name (t_fields t)) = true.
  Proof.
    rewrite mem_In, in_map_iff. unfold has_field. split; intros [f [H1 H2]]; exists f; auto.
  Qed.

  (* the origin computed for a field of the type being processed is its set of declarative origins *)
  Lemma own_orepr defn inh fn :
    In defn ts -> has_field defn fn -> represents (contribs defn) inh ->
    orepr (t_name defn) fn (own_o (t_name defn) inh fn).
  Proof.
    intros Hd Hf R. specialize (R fn). unfold own_o. destruct (smap_get fn inh) as [o|].
    - destruct R as [[i0 H0] [R2 R3]]. split; [|exact R3]. intros a. rewrite R2. split.
      + intros [i [Hc O]]. apply contribs_In in Hc. destruct Hc as [Hi [it [Hit Hfi]]].
        eapply origin_inherited; eauto.
      + intros O. inversion O as [t fn' Ht Hft Hno E1 E2 E3|t fn' i it a' Ht Hft Hi Hit Hfi Oi E1 E2 E3]; subst.
        * assert (t = defn) by (now apply (name_inj ts U)). subst t.
          apply contribs_In in H0. destruct H0 as [Hi0 [it0 [Hit0 Hf0]]]. exfalso. eapply Hno; eauto.
        * assert (t = defn) by (now apply (name_inj ts U)). subst t.
          exists i. split; [|exact Oi]. apply contribs_In. eauto.
    - split; [|exact I]. intros a. cbn [oset In]. split.
      + intros [<-|[]]. apply origin_self; auto. intros i it Hi Hit Hfi. apply (R i). apply contribs_In. eauto.
      + intros O. inversion O as [t fn' Ht Hft Hno E1 E2 E3|t fn' i it a' Ht Hft Hi Hit Hfi Oi E1 E2 E3]; subst.
        * now left.
        * assert (t = defn) by (now apply (name_inj ts U)). subst t.
          exfalso. apply (R i). apply contribs_In. eauto.
  Qed.

  Lemma req_entry done origins queue req t : Inv done origins queue req -> In t ts ->
    exists rem, In (t_name t, rem) req.
  Proof.
    intros I Ht. assert (H : In (t_name t) (map fst req)).
    { rewrite (i_keys _ _ _ _ I). apply sorted_names_In. now exists t. }
    apply in_map_iff in H. destruct H as [[k v] [E H]]. cbn in E. subst k. eauto.
  Qed.
  Lemma req_nodup done origins queue req : Inv done origins queue req -> NoDup (map fst req).
  Proof. intros I. rewrite (i_keys _ _ _ _ I). apply sorted_names_nodup. Qed.

  Lemma fo_step done origins tn q req : Inv done origins (tn :: q) req ->
    exists defn inh oo qr,
      find_type tn ts = Some defn /\ inherited_origins ts origins defn = Ok inh /\
      own_origins tn defn inh origins = Ok oo /\
      release_waiters tn (resolvers_of ts tn) q req = Ok qr /\
      Inv (done ++ [tn]) (snd oo) (fst qr) (snd qr).
  Proof.
    intros I.
    pose proof (req_nodup _ _ _ _ I) as Nk.
    (* 1. tn is a defined type *)
    assert (Htn : In tn (done ++ tn :: q)) by (apply in_or_app; right; now left).
    destruct (i_names _ _ _ _ I tn Htn) as [defn [Hd En]].
    assert (Ef : find_type tn ts = Some defn) by (apply (find_defines ts U); now split).
    (* 2. all its defined parents are done *)
    destruct (req_entry _ _ _ _ defn I Hd) as [rem0 Hrem0]. rewrite En in Hrem0.
    assert (Erem0 : rem0 = []) by (now apply (i_ready _ _ _ _ I tn rem0 Hrem0)). subst rem0.
    assert (Hpar : forall x, parent_of defn x -> In x done).
    { intros x Hx. destruct (i_req _ _ _ _ I tn [] Hrem0) as [t [Ht [Et Hx']]].
      assert (t = defn) by (apply (name_inj ts U); congruence). subst t.
      destruct (in_dec string_dec x done) as [H|H]; [exact H|]. exfalso. apply (Hx' x). now split. }
    (* 3. tn is not done yet *)
    assert (Hnd : ~ In tn done).
    { pose proof (i_nodup _ _ _ _ I) as N. apply NoDup_remove_2 in N. intros H. apply N. apply in_or_app. now left. }
    assert (Hnone : forall fn, omap_get (tn, fn) origins = None).
    { intros fn. destruct (omap_get (tn, fn) origins) eqn:E; [|reflexivity].
      exfalso. apply Hnd. apply (i_org_keys _ _ _ _ I tn fn). congruence. }
    (* 4. inherited origins *)
    destruct (inherited_spec origins defn) as [inh [Einh R]].
    { intros i fn Hc. apply contribs_In in Hc. destruct Hc as [Hi [it [[Hit Eit] Hfi]]].
      assert (Hdone : In i done). { apply Hpar. split; [exact Hi | now exists it]. }
      destruct (omap_get (i, fn) origins) as [po|] eqn:Eo.
      - exists po. split; [reflexivity|]. apply (i_org _ _ _ _ I). now apply omap_get_In.
      - exfalso. apply (proj2 (i_org_keys _ _ _ _ I i fn)); [|exact Eo]. split; [exact Hdone|]. exists it. auto. }
    (* 5. own origins *)
    destruct (own_spec tn defn inh origins) as [inh' [org [Eown [Pget Pin]]]].
    { now apply U. } { exact Hnone. }
    (* 6. waiters *)
    pose proof (release_closed tn (resolvers_of ts tn) q req Nk (resolvers_nodup tn)) as Erel.
    rewrite Erel.
    2:{ intros n Hn. rewrite (i_keys _ _ _ _ I). apply sorted_names_In. apply resolvers_In in Hn.
        destruct Hn as [t [Ht [E _]]]. now exists t. }
    exists defn, inh, (inh', org). eexists. split; [exact Ef|]. split; [exact Einh|]. split; [exact Eown|].
    split; [reflexivity|]. cbn [fst snd].
    set (W := resolvers_of ts tn). set (new := filter (rel_push tn req) W).
    assert (Hnew : forall n, In n new <->
              In n W /\ exists rem, In (n, rem) req /\ In tn rem /\ sset_remove tn rem = []).
    { intros n. unfold new. rewrite filter_In. unfold rel_push. split.
      - intros [Hw H]. split; [exact Hw|]. destruct (smap_get n req) as [rem|] eqn:Er; [|discriminate].
        apply andb_true_iff in H. destruct H as [H1 H2]. exists rem. split; [now apply smap_get_In|].
        split; [now apply mem_In|]. destruct (sset_remove tn rem); [reflexivity | discriminate].
      - intros [Hw [rem [Hr [H1 H2]]]]. split; [exact Hw|]. rewrite (nodup_keys_get req n rem Nk Hr).
        apply (proj2 (mem_In _ _)) in H1. now rewrite H1, H2. }
    assert (Hnew_fresh : forall n, In n new -> ~ In n (done ++ tn :: q)).
    { intros n Hn Hold. apply Hnew in Hn. destruct Hn as [_ [rem [Hr [H1 _]]]].
      apply (i_ready _ _ _ _ I n rem Hr) in Hold. subst rem. destruct H1. }
    assert (Hupd : forall n rem', In (n, rem') (map (rel_upd tn W) req) <->
              exists rem, In (n, rem) req /\ rem' = if mem n W then sset_remove tn rem else rem).
    { intros n rem'. rewrite in_map_iff. unfold rel_upd. split.
      - intros [[k v] [E H]]. cbn [fst snd] in E. injection E as <- <-. eauto.
      - intros [rem [H ->]]. exists (n, rem). auto. }
    constructor.
    - (* nodup *)
      rewrite <- app_assoc. cbn [app]. rewrite app_comm_cons, app_assoc. apply NoDup_app_intro.
      + exact (i_nodup _ _ _ _ I).
      + unfold new. apply NoDup_filter. apply resolvers_nodup.
      + intros x Hx Hn. exact (Hnew_fresh x Hn Hx).
    - (* names *)
      intros n Hn. rewrite <- app_assoc in Hn. cbn [app] in Hn. rewrite app_comm_cons, app_assoc in Hn.
      apply in_app_or in Hn. destruct Hn as [Hn|Hn]; [exact (i_names _ _ _ _ I n Hn)|].
      apply Hnew in Hn. destruct Hn as [Hw _]. apply resolvers_In in Hw. destruct Hw as [t [Ht [E _]]]. now exists t.
    - (* keys *)
      rewrite map_map. cbn [rel_upd fst]. exact (i_keys _ _ _ _ I).
    - (* req *)
      intros n rem' Hr. apply Hupd in Hr. destruct Hr as [rem [Hr ->]].
      destruct (i_req _ _ _ _ I n rem Hr) as [t [Ht [Et Hx]]]. exists t. split; [exact Ht|]. split; [exact Et|].
      intros x. destruct (mem n W) eqn:Ew.
      + rewrite In_sset_remove, Hx, in_app_iff. cbn [In]. intuition.
      + rewrite Hx, in_app_iff. cbn [In]. split; [|intuition].
        intros [Hp Hnx]. split; [exact Hp|]. intros [H|[H|[]]]; [contradiction|]. subst x.
        apply mem_false in Ew. apply Ew. apply resolvers_In. exists t. destruct Hp. auto.
    - (* ready *)
      intros n rem' Hr. apply Hupd in Hr. destruct Hr as [rem [Hr ->]].
      pose proof (i_ready _ _ _ _ I n rem Hr) as Hold.
      assert (Hset : In n ((done ++ [tn]) ++ q ++ new) <-> In n (done ++ tn :: q) \/ In n new).
      { rewrite !in_app_iff. cbn [In]. tauto. }
      rewrite Hset. destruct rem as [|r0 rem].
      + assert (Ho : In n (done ++ tn :: q)) by now apply Hold.
        split; [intros _; now destruct (mem n W) | intros _; now left].
      + split.
        * intros [Ho|Hn]; [apply Hold in Ho; discriminate|].
          apply Hnew in Hn. destruct Hn as [Hw [rem2 [Hr2 [_ H2]]]].
          rewrite (nodup_keys_unique req n _ _ Nk Hr Hr2). apply (proj2 (mem_In _ _)) in Hw. now rewrite Hw.
        * intros H. right. destruct (mem n W) eqn:Ew; [|discriminate]. apply Hnew. split; [now apply mem_In|].
          exists (r0 :: rem). split; [exact Hr|]. split; [|exact H]. apply sset_remove_nil_in; [discriminate | exact H].
    - (* order *)
      intros pre tn' post E t x Ht Et Hp. destruct post as [|y post] using rev_ind.
      + apply app_inj_tail in E. destruct E as [<- <-]. apply Hpar.
        assert (t = defn) by (apply (name_inj ts U); congruence). now subst t.
      + clear IHpost. rewrite app_comm_cons, app_assoc in E. apply app_inj_tail in E. destruct E as [E _].
        exact (i_order _ _ _ _ I pre tn' post E t x Ht Et Hp).
    - (* origin keys *)
      intros tn' fn. rewrite Pget. cbn [fst snd]. rewrite in_app_iff. cbn [In].
      destruct (String.eqb_spec tn' tn) as [->|Nt]; cbn [andb].
      + destruct (mem fn (map f_name (t_fields defn))) eqn:Em.
        * split; [intros _ | discriminate]. split; [auto|]. exists defn. split; [exact Hd|]. split; [exact En|].
          now apply has_field_mem.
        * rewrite Hnone. split; [congruence|]. intros [_ [t [Ht [Et Hf]]]]. exfalso.
          assert (t = defn) by (apply (name_inj ts U); congruence). subst t.
          apply has_field_mem in Hf. congruence.
      + rewrite (i_org_keys _ _ _ _ I tn' fn). split; [intros [H1 H2]; auto | intros [[H1|[H1|[]]] H2]; [auto | congruence]].
    - (* origin representation *)
      intros tn' fn o Ho. apply Pin in Ho. destruct Ho as [Ho|[fn' [Hfn [= -> -> ->]]]].
      + exact (i_org _ _ _ _ I tn' fn o Ho).
      + rewrite <- En. apply own_orepr; [exact Hd | | exact R]. apply has_field_mem. now apply mem_In.
  Qed.

  (* ---------- the initial state ---------- *)
  Lemma req0_In n rem : In (n, rem) (required_resolutions ts) <->
    exists t, In t ts /\ t_name t = n /\ rem = sset_of (filter (fun x => has_type x ts) (t_impl t)).
  Proof.
    unfold required_resolutions. rewrite in_map_iff. split.
    - intros [t [[= <- <-] Ht]]. exists t. split; [now apply (proj1 (sort_types_In _ _))|]. auto.
    - intros [t [Ht [<- ->]]]. exists t. split; [reflexivity | now apply sort_types_In].
  Qed.

  Lemma inv_init : Inv [] [] (initial_queue ts) (required_resolutions ts).
  Proof.
    assert (Keys : map fst (required_resolutions ts) = map t_name (sort_types ts)).
    { unfold required_resolutions. rewrite map_map. reflexivity. }
    assert (Nk : NoDup (map fst (required_resolutions ts))) by (rewrite Keys; apply sorted_names_nodup).
    constructor; cbn [app].
    - unfold initial_queue. apply NoDup_map_filter. exact Nk.
    - intros n Hn. unfold initial_queue in Hn. apply in_map_iff in Hn. destruct Hn as [[k v] [E H]].
      apply filter_In in H. destruct H as [H _]. cbn in E. subst k. apply req0_In in H.
      destruct H as [t [Ht [Et _]]]. now exists t.
    - exact Keys.
    - intros n rem H. apply req0_In in H. destruct H as [t [Ht [Et ->]]]. exists t. split; [exact Ht|].
      split; [exact Et|]. intros x. rewrite In_sset_of, filter_In, has_type_In, <- defined_iff.
      unfold parent_of. cbn [In]. tauto.
    - intros n rem H. unfold initial_queue. rewrite in_map_iff. split.
      + intros [[k v] [E H1]]. apply filter_In in H1. destruct H1 as [H1 H2]. cbn in E, H2. subst k.
        rewrite (nodup_keys_unique _ n _ _ Nk H H1). now destruct v.
      + intros ->. exists (n, []). split; [reflexivity|]. apply filter_In. auto.
    - intros pre tn post E. destruct pre; discriminate.
    - intros tn fn. cbn. split; [congruence | intros [[] _]].
    - intros tn fn o [].
  Qed.

  (* ---------- the loop ---------- *)
  Lemma inv_length done origins queue req : Inv done origins queue req ->
    List.length done + List.length queue <= List.length ts.
  Proof.
    intros I. rewrite <- app_length, <- (map_length t_name ts). apply NoDup_incl_length.
    - exact (i_nodup _ _ _ _ I).
    - intros n Hn. apply defined_iff. exact (i_names _ _ _ _ I n Hn).
  Qed.

  Lemma fo_loop_spec fuel : forall done origins queue req,
    Inv done origins queue req -> List.length ts + 1 <= fuel + List.length done ->
    exists done' origins' req', fo_loop fuel ts origins queue req = Ok (origins', req') /\
                                Inv done' origins' [] req'.
  Proof.
    induction fuel as [|fuel IH]; intros done origins queue req I Hf.
    - pose proof (inv_length _ _ _ _ I). cbn in Hf. lia.
    - cbn [fo_loop]. destruct queue as [|tn q]; [eauto|].
      destruct (fo_step _ _ _ _ _ I) as [defn [inh [oo [qr [E1 [E2 [E3 [E4 I']]]]]]]].
      rewrite E1, E2. cbn [bind]. rewrite E3. cbn [bind]. rewrite E4. cbn [bind].
      apply (IH _ _ _ _ I'). rewrite app_length. cbn. lia.
  Qed.

  (* ---------- the outcome ---------- *)
  Fixpoint idx (n : string) (l : list string) : nat :=
    match l with
    | [] => O
    | x :: r => if String.eqb x n then O else S (idx n r)
    end.
  Lemma idx_in_prefix n pre r : In n pre -> idx n (pre ++ r) < List.length pre.
  Proof.
    induction pre as [|x pre IH]; intros H; [destruct H|]. cbn.
    destruct (String.eqb_spec x n) as [E|E]; [lia|]. destruct H as [H|H]; [contradiction|].
    specialize (IH H). lia.
  Qed.
  Lemma idx_at n pre post : ~ In n pre -> idx n (pre ++ n :: post) = List.length pre.
  Proof.
    induction pre as [|x pre IH]; intros H; cbn; [now rewrite String.eqb_refl|].
    destruct (String.eqb_spec x n) as [E|E]; [exfalso; apply H; now left|].
    f_equal. apply IH. intros H1. apply H. now right.
  Qed.

  Lemma first_circular_none req : first_circular req = None <-> forall n rem, In (n, rem) req -> rem = [].
  Proof.
    induction req as [|[k v] req IH]; cbn; [split; [intros _ n rem [] | reflexivity]|].
    destruct v as [|x v].
    - rewrite IH. split; [intros H n rem [[= <- <-]|H1]; eauto | intros H n rem H1; apply (H n); now right].
    - split; [discriminate|]. intros H. specialize (H k (x :: v) (or_introl eq_refl)). discriminate.
  Qed.

  Definition unambiguous : Prop := forall tn fn a b, origin_of ts tn fn a -> origin_of ts tn fn b -> a = b.

  Lemma final_all_done done origins req : Inv done origins [] req ->
    (first_circular req = None <-> forall t, In t ts -> In (t_name t) done).
  Proof.
    intros I. rewrite first_circular_none. split.
    - intros H t Ht. destruct (req_entry _ _ _ _ t I Ht) as [rem Hr].
      pose proof (H _ _ Hr). subst rem. apply (i_ready _ _ _ _ I) in Hr. rewrite app_nil_r in Hr. now apply Hr.
    - intros H n rem Hr. destruct (i_req _ _ _ _ I n rem Hr) as [t [Ht [Et _]]].
      apply (i_ready _ _ _ _ I n rem Hr). rewrite app_nil_r, <- Et. now apply H.
  Qed.

  Lemma final_acyclic done origins req : Inv done origins [] req ->
    ((forall t, In t ts -> In (t_name t) done) <-> acyclic ts).
  Proof.
    intros I. split.
    - intros H. exists (fun n => idx n done). intros t i Ht Hi Hdi.
      destruct (in_split _ _ (H t Ht)) as [pre [post E]].
      assert (Np : ~ In (t_name t) pre).
      { pose proof (i_nodup _ _ _ _ I) as N. rewrite app_nil_r, E in N. apply NoDup_remove_2 in N.
        intros H1. apply N. apply in_or_app. now left. }
      rewrite E, idx_at by exact Np. apply idx_in_prefix.
      apply (i_order _ _ _ _ I pre (t_name t) post E t i Ht eq_refl). now split.
    - intros [rank Hr].
      assert (G : forall k t, In t ts -> rank (t_name t) < k -> In (t_name t) done).
      { induction k as [|k IHk]; intros t Ht Hk; [lia|].
        destruct (req_entry _ _ _ _ t I Ht) as [rem Hrem].
        assert (rem = []).
        { destruct rem as [|x rem]; [reflexivity|]. exfalso.
          destruct (i_req _ _ _ _ I _ _ Hrem) as [t' [Ht' [Et' Hx]]].
          assert (t' = t) by (now apply (name_inj ts U)). subst t'.
          destruct (proj1 (Hx x) (or_introl eq_refl)) as [[Hxi Hxd] Hnd]. apply Hnd.
          destruct Hxd as [u [Hu Eu]]. rewrite <- Eu. apply IHk; [exact Hu|].
          specialize (Hr t x Ht Hxi (ex_intro _ u (conj Hu Eu))). rewrite Eu. lia. }
        subst rem. apply (i_ready _ _ _ _ I) in Hrem. rewrite app_nil_r in Hrem. now apply Hrem. }
      intros t Ht. apply (G (S (rank (t_name t))) t Ht). lia.
  Qed.

  Lemma final_origins done origins req : Inv done origins [] req ->
    (forall t, In t ts -> In (t_name t) done) ->
    exists e, check_ambiguous (all_fields ts) origins = Ok e /\ (e = [] <-> unambiguous).
  Proof.
    intros I Hall. unfold check_ambiguous.
    destruct (rflat_spec
      (fun kv : okey * origin =>
         match snd kv with
         | Multiple anc =>
             match omap_get (fst kv) (all_fields ts) with
             | None => Panic site_amb_index
             | Some f => Ok [EAmbiguous (fst (fst kv)) (snd (fst kv)) (gty_text (f_ty f)) anc]
             end
         | Single _ => Ok []
         end) origins (fun kv => exists a, snd kv = Single a)) as [e [E P]].
    - intros [[tn fn] o] Hkv. cbn [fst snd]. destruct o as [a|anc].
      + exists []. split; [reflexivity|]. split; [eauto | reflexivity].
      + assert (Hk : omap_get (tn, fn) origins <> None).
        { intros Hn. apply omap_get_none in Hn. apply Hn. change (tn, fn) with (fst ((tn, fn), Multiple anc)).
          now apply in_map. }
        apply (i_org_keys _ _ _ _ I) in Hk. destruct Hk as [_ [t [Ht [Et [f [Hf Ef]]]]]].
        assert (Eg : omap_get (tn, fn) (all_fields ts) = Some f) by (apply (fields_get ts U); eauto).
        rewrite Eg. eexists. split; [reflexivity|]. split; [discriminate | intros [a Ha]; discriminate].
    - exists e. split; [exact E|]. rewrite P. unfold unambiguous. split.
      + intros H tn fn a b Oa Ob.
        assert (Hk : omap_get (tn, fn) origins <> None).
        { apply (i_org_keys _ _ _ _ I).
          inversion Oa as [t fn' Ht Hft _ E1 E2 E3|t fn' i it a' Ht Hft _ _ _ _ E1 E2 E3]; subst;
            (split; [now apply Hall | eauto]). }
        destruct (omap_get (tn, fn) origins) as [o|] eqn:Eo; [|congruence]. apply omap_get_In in Eo.
        destruct (H _ Eo) as [x Hx]. cbn in Hx. subst o.
        destruct (i_org _ _ _ _ I tn fn _ Eo) as [Hs _]. cbn [oset] in Hs.
        apply Hs in Oa, Ob. destruct Oa as [<-|[]], Ob as [<-|[]]. reflexivity.
      + intros H [[tn fn] o] Hkv. cbn [snd]. destruct o as [a|anc]; [eauto|]. exfalso.
        destruct (i_org _ _ _ _ I tn fn _ Hkv) as [Hs [a [b [Ha [Hb N]]]]]. cbn [oset] in Hs.
        apply N. apply (H tn fn); now apply Hs.
  Qed.

  Theorem get_field_origins_spec :
    exists r, get_field_origins ts = Ok r /\
      match r with
      | inl _ => ~ acyclic ts
      | inr origins => acyclic ts /\
                       exists e, check_ambiguous (all_fields ts) origins = Ok e /\ (e = [] <-> unambiguous)
      end.
  Proof.
    unfold get_field_origins.
    destruct (fo_loop_spec (fo_fuel ts) [] [] (initial_queue ts) (required_resolutions ts) inv_init)
      as [done [origins [req [E I]]]].
    { unfold fo_fuel. cbn. lia. }
    rewrite E. cbn [bind fst snd].
    destruct (first_circular req) as [e|] eqn:Ec.
    - eexists. split; [reflexivity|]. cbn. intros A.
      pose proof (proj2 (final_acyclic _ _ _ I) A) as A1.
      pose proof (proj2 (final_all_done _ _ _ I) A1) as A2. congruence.
    - eexists. split; [reflexivity|]. cbn.
      pose proof (proj1 (final_all_done _ _ _ I) Ec) as A1. split.
      + exact (proj1 (final_acyclic _ _ _ I) A1).
      + exact (final_origins done origins req I A1).
  Qed.
End Origins.

(* ====================================================================================== *)
(* 6. Assembly: run_checks and Schema::new                                                  *)
(* ====================================================================================== *)
Section Assembly.
  Variable ts : list tdef.
  Hypothesis U : uniq ts.
  Hypothesis D : forall t f g, In t ts -> In f (t_fields t) -> In g (fld_gtys f) -> gdepth g <= 30.
  Hypothesis EF : forall t f a, In t ts -> In f (t_fields t) -> In a (f_args f) -> arg_has_enum a = false.
  Hypothesis NB : forall t, In t ts -> builtin_scalar (t_name t) = false.
  Variable qt : tdef.
  Hypothesis Hq : In qt ts.

  Definition all_checks : Prop :=
    P_transitive ts /\ P_narrowed ts /\ P_present ts /\ P_invariants ts (t_name qt) /\
    (forall f, In f (t_fields qt) -> builtin_scalar (gbase (f_ty f)) = false) /\
    acyclic ts /\ unambiguous ts.

  Lemma run_checks_spec :
    exists r, run_checks qt ts (all_fields ts) = Ok r /\ (r = [] <-> all_checks).
  Proof.
    unfold run_checks, all_checks.
    destruct (check_narrowing_spec ts U D) as [e2 [E2 P2]].
    destruct (check_invariants_spec ts D EF (t_name qt)) as [e4 [E4 P4]].
    destruct (check_root_spec ts D qt Hq) as [e5 [E5 P5]].
    destruct (get_field_origins_spec ts U) as [fo [Efo Pfo]].
    rewrite E2, E4, E5, Efo. cbn [bind].
    pose proof (check_transitive_nil ts U) as P1. pose proof (check_required_fields_nil ts U) as P3.
    destruct fo as [e|origins].
    - cbn [bind fst snd].
      set (errors := check_transitive ts ++ e2 ++ check_required_fields ts (all_fields ts) ++ e4 ++ e5 ++ [e]).
      assert (Hne : errors <> []).
      { unfold errors. intros H. repeat (apply app_eq_nil in H; destruct H as [_ H]). discriminate. }
      exists errors. split; [destruct errors; [contradiction | reflexivity]|].
      split; [contradiction | intros [_ [_ [_ [_ [_ [A _]]]]]]; contradiction].
    - destruct Pfo as [A [e6 [E6 P6]]]. rewrite E6. cbn [bind fst snd].
      set (errors := check_transitive ts ++ e2 ++ check_required_fields ts (all_fields ts) ++ e4 ++ e5 ++ e6).
      exists errors. split; [now destruct errors|].
      unfold errors. rewrite !app_nil_iff, P6, P1, P2, P3, P4, P5. tauto.
  Qed.

  Lemma field_ok_builtin_root f t : In t ts -> In f (t_fields t) -> field_ok ts (t_name qt) f ->
    gbase (f_ty f) <> t_name qt.
  Proof.
    intros Ht Hf [_ [[Hb _]|[_ [_ [H _]]]]]; [|exact H]. intros E. rewrite E, (NB qt Hq) in Hb. discriminate.
  Qed.

  Lemma checks_iff_rules : all_checks <-> rules ts qt.
  Proof.
    split.
    - intros [C1 [C2 [C3 [C4 [C5 [C6 C7]]]]]]. constructor.
      + apply U.
      + apply U.
      + intros t i Ht Hi. destruct (C1 t i Ht Hi) as [it [H1 [H2 _]]]. eauto.
      + intros t i it j Ht Hi Hd Hj. destruct (C1 t i Ht Hi) as [it' [H1 [H2 H3]]].
        assert (it' = it). { destruct H1, Hd. apply (name_inj ts U); congruence. } subst it'.
        destruct (H3 j Hj) as [->|H]; [|exact H]. exfalso.
        destruct C6 as [rank Hr]. destruct Hd as [Hit Eit].
        pose proof (Hr t i Ht Hi (ex_intro _ it (conj Hit Eit))) as R1.
        pose proof (Hr it (t_name t) Hit Hj (ex_intro _ t (conj Ht eq_refl))) as R2.
        rewrite Eit in R2. lia.
      + exact C3.
      + exact C2.
      + intros t f Ht Hf. destruct (C4 t Ht) as [_ H]. destruct (H f Hf) as [_ [[Hb _]|[_ [Hd _]]]]; [now left | now right].
      + intros t Ht. apply (C4 t Ht).
      + intros t f Ht Hf. destruct (C4 t Ht) as [_ H]. apply (H f Hf).
      + intros t f Ht Hf. destruct (C4 t Ht) as [_ H]. eapply field_ok_builtin_root; eauto.
      + intros f Hf Hp. unfold is_property in Hp. rewrite (C5 f Hf) in Hp. discriminate.
      + intros t f Ht Hf Hp. destruct (C4 t Ht) as [_ H]. destruct (H f Hf) as [_ [[_ Ha]|[Hb _]]]; [exact Ha|].
        unfold is_property in Hp. congruence.
      + intros t f Ht Hf Hp. destruct (C4 t Ht) as [_ H]. destruct (H f Hf) as [_ [[Hb _]|[_ [_ [_ [_ Hd]]]]]]; [|exact Hd].
        exfalso. now apply Hp.
      + intros t f a Ht Hf Ha. destruct (C4 t Ht) as [_ H]. destruct (H f Hf) as [_ [[_ Hn]|[_ [_ [_ [Hd _]]]]]].
        * rewrite Hn in Ha. destruct Ha.
        * now apply Hd.
      + exact C6.
      + exact C7.
    - intros R. unfold all_checks. split; [|split; [|split; [|split; [|split; [|split]]]]].
      + intros t i Ht Hi. destruct (r_implements_interfaces _ _ R t i Ht Hi) as [it [Hd Hk]].
        exists it. split; [exact Hd|]. split; [exact Hk|]. intros j Hj. right.
        exact (r_implements_transitive _ _ R t i it j Ht Hi Hd Hj).
      + exact (r_inherited_narrowed _ _ R).
      + exact (r_inherited_present _ _ R).
      + intros t Ht. split; [exact (r_type_names _ _ R t Ht)|]. intros f Hf. split; [exact (r_field_names _ _ R t f Ht Hf)|].
        destruct (builtin_scalar (gbase (f_ty f))) eqn:Eb.
        * left. split; [reflexivity|]. exact (r_property_no_params _ _ R t f Ht Hf Eb).
        * right. split; [reflexivity|]. assert (Np : ~ is_property f) by (unfold is_property; congruence).
          split; [|split; [|split]].
          -- destruct (r_field_types _ _ R t f Ht Hf) as [H|H]; [contradiction | exact H].
          -- exact (r_no_edge_to_root _ _ R t f Ht Hf).
          -- intros a Ha. exact (r_defaults _ _ R t f a Ht Hf Ha).
          -- exact (r_edge_shape _ _ R t f Ht Hf Np).
      + intros f Hf. destruct (builtin_scalar (gbase (f_ty f))) eqn:Eb; [|reflexivity].
        exfalso. exact (r_root_only_edges _ _ R f Hf Eb).
      + exact (r_acyclic _ _ R).
      + exact (r_unambiguous _ _ R).
  Qed.
End Assembly.

(* ---------- outside the known classes ---------- *)
Lemma not_known_facts d : known d = false ->
  exists q qt, doc_schemas d = [Some q] /\ find_type q (doc_types d) = Some qt /\ t_kind qt = VObject /\
    existsb builtin_scalar (doc_scalars d) = false /\
    existsb (fun t => builtin_scalar (t_name t)) (doc_types d) = false /\
    NoDup (doc_scalars d) /\ NoDup (doc_directives d) /\
    (forall t f g, In t (doc_types d) -> In f (t_fields t) -> In g (fld_gtys f) -> gdepth g <= 30) /\
    (forall t f a, In t (doc_types d) -> In f (t_fields t) -> In a (f_args f) -> arg_has_enum a = false).
Proof.
  unfold known. rewrite !orb_false_iff.
  intros [[[[[[[[[K1 K2] K3] K4] K5] K6] K7] K8] K9] K10].
  unfold k_no_schema_block, k_dup_schema_block, k_schema_without_query, k_undefined_query_type,
    k_interface_query_type in *.
  destruct (doc_schemas d) as [|[q|] [|x r]] eqn:Es; try discriminate.
  apply negb_false_iff in K7. unfold has_type in K7.
  destruct (find_type q (doc_types d)) as [qt|] eqn:Ef; [|discriminate].
  exists q, qt. split; [reflexivity|]. split; [exact Ef|].
  split; [destruct (t_kind qt); [reflexivity | discriminate]|].
  unfold k_builtin_scalar_redeclared in K4. apply orb_false_iff in K4. destruct K4 as [K4a K4b].
  split; [exact K4a|]. split; [exact K4b|].
  split; [apply nodupb_NoDup; unfold k_dup_scalar in K5; now apply negb_false_iff in K5|].
  split; [apply nodupb_NoDup; unfold k_dup_directive in K6; now apply negb_false_iff in K6|].
  split.
  - intros t f g Ht Hf Hg. unfold k_list_depth in K9.
    assert (Hin : In g (doc_gtys d)).
    { unfold doc_gtys. apply in_flat_map. exists t. split; [exact Ht|]. apply in_flat_map. now exists f. }
    destruct (Nat.ltb 30 (gdepth g)) eqn:El.
    + exfalso. assert (H : existsb (fun g => Nat.ltb 30 (gdepth g)) (doc_gtys d) = true)
        by (apply existsb_exists; now exists g). congruence.
    + apply Nat.ltb_ge in El. exact El.
  - intros t f a Ht Hf Ha. unfold k_enum_default in K10.
    destruct (arg_has_enum a) eqn:Ea; [|reflexivity]. exfalso.
    assert (H : existsb (fun t => existsb (fun f => existsb arg_has_enum (f_args f)) (t_fields t)) (doc_types d) = true).
    { apply existsb_exists. exists t. split; [exact Ht|]. apply existsb_exists. exists f. split; [exact Hf|].
      apply existsb_exists. now exists a. }
    congruence.
Qed.

Lemma existsb_false_forall {A} (p : A -> bool) l : existsb p l = false -> forall x, In x l -> p x = false.
Proof.
  intros H x Hx. destruct (p x) eqn:E; [|reflexivity].
  assert (existsb p l = true) by (apply existsb_exists; now exists x). congruence.
Qed.

(* Schema::new outside the known classes: an error list, empty exactly for valid schemas *)
Lemma schema_new_spec d : known d = false ->
  exists r, schema_new d = Ok r /\ (r = [] <-> valid_schema d).
Proof.
  intros K. destruct (not_known_facts d K) as [q [qt [Es [Ef [Ek [B1 [B2 [N1 [N2 [D EF]]]]]]]]]].
  assert (Hne : d <> []) by (intros ->; discriminate).
  unfold schema_new. destruct d as [|x0 d0]; [contradiction|]. set (d := x0 :: d0) in *.
  pose proof (loop1_spec d st1_empty eq_refl (conj (NoDup_nil _) (fun t (H : In t []) => False_ind _ H))
                B1 B2 N2 N1) as L.
  assert (Hl : List.length (olist (s_schema st1_empty) ++ doc_schemas d) <= 1) by (rewrite Es; cbn; lia).
  specialize (L Hl). clear Hl.
  destruct L as [[Uq [s' [E1 [E2 [E3 E4]]]]]|[Uq [e E1]]].
  - (* names are unique: the checks run *)
    cbn [st1_empty s_types s_schema app olist] in *. rewrite E1. cbn [bind].
    rewrite Es in E4. destruct (s_schema s') as [[q'|]|]; cbn in E4; try discriminate. injection E4 as ->.
    rewrite E2, Ef, Ek, E3, E2.
    pose proof (find_type_In _ _ _ Ef) as [Hqt Eqt].
    destruct (run_checks_spec (doc_types d) Uq D EF qt Hqt) as [r [Er Pr]].
    exists r. split; [exact Er|]. rewrite Pr, (checks_iff_rules (doc_types d) Uq (existsb_false_forall _ _ B2) qt Hqt).
    unfold valid_schema. split.
    + intros R. exists q, qt. auto.
    + intros [q' [root [Es' [Hr [Er' [Ekr R]]]]]]. rewrite Es in Es'. injection Es' as <-.
      assert (root = qt).
      { pose proof (find_type_unique _ root (proj1 Uq) Hr) as H. rewrite Er', Ef in H. congruence. }
      now subst root.
  - (* a duplicate type or field name: the early error *)
    rewrite E1. cbn [bind]. exists [e]. split; [reflexivity|]. split; [discriminate|].
    intros [q' [root [_ [_ [_ [_ R]]]]]]. exfalso. apply Uq. split.
    + exact (r_unique_types _ _ R).
    + exact (r_unique_fields _ _ R).
Qed.

Theorem schema_new_total d : ~ Known d -> exists r, schema_new d = Ok r.
Proof.
  intros K. unfold Known in K. destruct (known d) eqn:E; [now destruct K|].
  destruct (schema_new_spec d E) as [r [H _]]. eauto.
Qed.

Theorem schema_new_exact d : ~ Known d -> (schema_new d = Ok [] <-> valid_schema d).
Proof.
  intros K. unfold Known in K. destruct (known d) eqn:E; [now destruct K|].
  destruct (schema_new_spec d E) as [r [H P]]. rewrite H. rewrite <- P. split; [now intros [= ->] | now intros ->].
Qed.

(* a panic only happens inside the known classes *)
Corollary schema_new_panic_known d site : schema_new d = Panic site -> Known d.
Proof.
  intros H. unfold Known. destruct (known d) eqn:E; [reflexivity|].
  destruct (schema_new_spec d E) as [r [H' _]]. congruence.
Qed.

(* ---------- fuel ---------- *)
Lemma fo_loop_fuel_mono fuel : forall k ts origins queue req r,
  fo_loop fuel ts origins queue req = Ok r -> fo_loop (fuel + k) ts origins queue req = Ok r.
Proof.
  induction fuel as [|fuel IH]; intros k ts origins queue req r H; [discriminate|].
  cbn [Nat.add fo_loop] in *. destruct queue as [|tn q]; [exact H|].
  destruct (find_type tn ts) as [defn|]; [|discriminate].
  destruct (inherited_origins ts origins defn) as [inh|]; [|discriminate]. cbn [bind] in *.
  destruct (own_origins tn defn inh origins) as [oo|]; [|discriminate]. cbn [bind] in *.
  destruct (release_waiters tn (resolvers_of ts tn) q req) as [qr|]; [|discriminate]. cbn [bind] in *.
  now apply IH.
Qed.

(* |types| + 1 iterations always suffice (names unique), and more fuel never changes the result *)
Theorem fo_fuel_adequate ts : uniq ts ->
  exists r, fo_loop (fo_fuel ts) ts [] (initial_queue ts) (required_resolutions ts) = Ok r /\
            forall k, fo_loop (fo_fuel ts + k) ts [] (initial_queue ts) (required_resolutions ts) = Ok r.
Proof.
  intros U.
  destruct (fo_loop_spec ts U (fo_fuel ts) [] [] (initial_queue ts) (required_resolutions ts) (inv_init ts U))
    as [done [origins [req [E _]]]].
  { unfold fo_fuel. cbn. lia. }
  exists (origins, req). split; [exact E|]. intros k. now apply fo_loop_fuel_mono.
Qed.

(* ---------- the two readings of "no implementation cycles" ---------- *)
Lemma acyclic_no_self_reach ts : acyclic ts -> forall n, ~ reaches ts n n.
Proof.
  intros [rank Hr].
  assert (G : forall a b, reaches ts a b -> rank b < rank a).
  { intros a b H. induction H as [t i Ht Hi Hd|a b c _ IH1 _ IH2]; [now apply Hr | lia]. }
  intros n H. apply G in H. lia.
Qed.

(* ====================================================================================== *)
(* 7. Witnesses: the known classes panic; a non-trivial valid schema; rejected schemas       *)
(* ====================================================================================== *)
Definition w_Q : tdef := mkT "Q" VObject [] [mkFld "t" [] (GNamed "T" true)].
Definition w_T : tdef := mkT "T" VObject [] [mkFld "a" [] (GNamed "Int" true)].
Definition w_head : doc := [DSchema (Some "Q"); DType w_Q; DType w_T].
Fixpoint nest (n : nat) (g : gty) : gty := match n with O => g | S k => GList (nest k g) true end.

Definition w_empty : doc := [].
Definition w_no_schema : doc := [DType w_Q; DType w_T].
Definition w_dup_schema : doc := w_head ++ [DSchema (Some "Q")].
Definition w_no_query : doc := [DSchema None; DType w_Q; DType w_T].
Definition w_builtin_scalar : doc := w_head ++ [DScalar "Int"].
Definition w_builtin_object : doc := w_head ++ [DType (mkT "String" VObject [] [mkFld "x" [] (GNamed "Int" true)])].
Definition w_dup_scalar : doc := w_head ++ [DScalar "Date"; DScalar "Date"].
Definition w_dup_directive : doc := w_head ++ [DDirective "d"; DDirective "d"].
Definition w_undefined_query : doc := [DSchema (Some "Q"); DType w_T].
Definition w_interface_query : doc :=
  [DSchema (Some "Q"); DType (mkT "Q" VInterface [] [mkFld "t" [] (GNamed "T" true)]); DType w_T].
Definition w_list_depth : doc :=
  [DSchema (Some "Q"); DType w_Q; DType (mkT "T" VObject [] [mkFld "a" [] (nest 31 (GNamed "Int" true))])].
Definition w_enum_default : doc :=
  [DSchema (Some "Q");
   DType (mkT "Q" VObject [] [mkFld "t" [mkArg "x" (GNamed "Int" true) (Default (Enum "FOO"))] (GNamed "T" true)]);
   DType w_T].

Definition panics (d : doc) : Prop := exists site, schema_new d = Panic site.

Lemma w_empty_panics : k_no_schema_block w_empty = true /\ panics w_empty.
Proof. split; [reflexivity | eexists; vm_compute; reflexivity]. Qed.
Lemma w_no_schema_panics : k_no_schema_block w_no_schema = true /\ panics w_no_schema.
Proof. split; [reflexivity | eexists; vm_compute; reflexivity]. Qed.
Lemma w_dup_schema_panics : k_dup_schema_block w_dup_schema = true /\ panics w_dup_schema.
Proof. split; [reflexivity | eexists; vm_compute; reflexivity]. Qed.
Lemma w_no_query_panics : k_schema_without_query w_no_query = true /\ panics w_no_query.
Proof. split; [reflexivity | eexists; vm_compute; reflexivity]. Qed.
Lemma w_builtin_scalar_panics : k_builtin_scalar_redeclared w_builtin_scalar = true /\ panics w_builtin_scalar.
Proof. split; [reflexivity | eexists; vm_compute; reflexivity]. Qed.
Lemma w_builtin_object_panics : k_builtin_scalar_redeclared w_builtin_object = true /\ panics w_builtin_object.
Proof. split; [reflexivity | eexists; vm_compute; reflexivity]. Qed.
Lemma w_dup_scalar_panics : k_dup_scalar w_dup_scalar = true /\ panics w_dup_scalar.
Proof. split; [reflexivity | eexists; vm_compute; reflexivity]. Qed.
Lemma w_dup_directive_panics : k_dup_directive w_dup_directive = true /\ panics w_dup_directive.
Proof. split; [reflexivity | eexists; vm_compute; reflexivity]. Qed.
Lemma w_undefined_query_panics : k_undefined_query_type w_undefined_query = true /\ panics w_undefined_query.
Proof. split; [reflexivity | eexists; vm_compute; reflexivity]. Qed.
Lemma w_interface_query_panics : k_interface_query_type w_interface_query = true /\ panics w_interface_query.
Proof. split; [reflexivity | eexists; vm_compute; reflexivity]. Qed.
Lemma w_list_depth_panics : k_list_depth w_list_depth = true /\ panics w_list_depth.
Proof. split; [reflexivity | eexists; vm_compute; reflexivity]. Qed.
Lemma w_enum_default_panics : k_enum_default w_enum_default = true /\ panics w_enum_default.
Proof. split; [reflexivity | eexists; vm_compute; reflexivity]. Qed.

(* the unrestricted statement "Schema::new never panics" is false *)
Lemma schema_new_never_panics_refuted : ~ (forall d, exists r, schema_new d = Ok r).
Proof. intros H. destruct (H w_no_schema) as [r Hr]. vm_compute in Hr. discriminate. Qed.

(* A valid schema: 4 vertex types + root; interface hierarchy Named <- Entity <- {Person, Robot} with
   transitive implements, a narrowed inherited edge (friend: Entity -> Person!), narrowed property
   nullability, parameters with defaults (contravariantly widened in the implementer), several entry
   points, a custom scalar and directive definitions. *)
Definition ex_named : tdef :=
  mkT "Named" VInterface [] [mkFld "name" [] (GNamed "String" true)].
Definition ex_entity : tdef :=
  mkT "Entity" VInterface ["Named"]
    [mkFld "name" [] (GNamed "String" true);
     mkFld "id" [] (GNamed "Int" false);
     mkFld "friend" [mkArg "min" (GNamed "Int" false) (Default (I64 1));
                     mkArg "tags" (GList (GNamed "String" false) true) NoDefault]
           (GList (GNamed "Entity" true) true)].
Definition ex_person : tdef :=
  mkT "Person" VObject ["Entity"; "Named"]
    [mkFld "name" [] (GNamed "String" false);
     mkFld "id" [] (GNamed "Int" false);
     mkFld "friend" [mkArg "tags" (GList (GNamed "String" false) true) (Default (List [Str "a"; Str "b"]));
                     mkArg "min" (GNamed "Int" true) (Default Null)]
           (GList (GNamed "Person" false) false);
     mkFld "scores" [] (GList (GList (GNamed "Float" true) false) true)].
Definition ex_robot : tdef :=
  mkT "Robot" VObject ["Named"; "Entity"]
    [mkFld "id" [] (GNamed "Int" false);
     mkFld "name" [] (GNamed "String" true);
     mkFld "friend" [mkArg "min" (GNamed "Int" false) (Default (U64 7));
                     mkArg "tags" (GList (GNamed "String" false) true) (Default Null)]
           (GList (GNamed "Entity" true) true);
     mkFld "owner" [] (GNamed "Person" true)].
Definition ex_root : tdef :=
  mkT "RootSchemaQuery" VObject []
    [mkFld "Entity" [mkArg "first" (GNamed "Int" true) (Default (I64 10))] (GList (GNamed "Entity" false) false);
     mkFld "Person" [] (GList (GNamed "Person" false) true);
     mkFld "Robot" [mkArg "ids" (GList (GNamed "Int" false) false) (Default (List []))] (GNamed "Robot" true)].
Definition ex_valid : doc :=
  [DDirective "filter"; DDirective "output"; DScalar "Date";
   DType ex_person; DType ex_named; DSchema (Some "RootSchemaQuery");
   DType ex_root; DType ex_robot; DType ex_entity].

Lemma ex_valid_unknown : ~ Known ex_valid.
Proof. unfold Known. vm_compute. discriminate. Qed.
Lemma ex_valid_accepted : schema_new ex_valid = Ok [].
Proof. vm_compute. reflexivity. Qed.
Lemma ex_valid_valid : valid_schema ex_valid.
Proof. apply (schema_new_exact ex_valid ex_valid_unknown). exact ex_valid_accepted. Qed.

(* the same schema with Person's friend edge widened back to a nullable list: rejected, and invalid *)
Definition ex_person_bad : tdef :=
  mkT "Person" VObject ["Entity"]
    [mkFld "name" [] (GNamed "String" false);
     mkFld "id" [] (GNamed "Int" true);
     mkFld "friend" [mkArg "min" (GNamed "Int" false) NoDefault]
           (GList (GNamed "Person" false) false)].
Definition ex_invalid : doc :=
  [DType ex_person_bad; DType ex_named; DSchema (Some "RootSchemaQuery"); DType ex_root; DType ex_robot; DType ex_entity].
Lemma ex_invalid_rejected :
  ~ Known ex_invalid /\
  show_schema_result (schema_new ex_invalid) =
  "ERR:MissingTransitive(Person,Entity,Named)|Widening(id,Person,Entity,Int,Int!)|MissingParams(friend,Person,Entity,[tags])"
  /\ ~ valid_schema ex_invalid.
Proof.
  assert (K : ~ Known ex_invalid) by (unfold Known; vm_compute; discriminate).
  split; [exact K|]. split; [vm_compute; reflexivity|].
  intros V. apply (schema_new_exact ex_invalid K) in V. vm_compute in V. discriminate.
Qed.
