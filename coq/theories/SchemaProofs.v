(* SchemaProofs.v — proofs about SchemaNew.v (model of Schema::new) against SchemaSpec.v. *)
From Coq Require Import Lia Permutation OrderedTypeEx.
From TF Require Import Values ValuesProofs Ty TyProofs SchemaAst SchemaNew SchemaSpec.
Local Open Scope string_scope.
Local Open Scope nat_scope.
Local Open Scope list_scope.

(* ====================================================================================== *)
(* 0. Generic lemmas                                                                       *)
(* ====================================================================================== *)
Lemma flat_map_nil {A B} (f : A -> list B) l : flat_map f l = [] <-> forall x, In x l -> f x = [].
Proof.
  induction l as [|a l IH]; cbn.
  - split; [intros _ x []| reflexivity].
  - split.
    + intros H. apply app_eq_nil in H. destruct H as [Ha Hl]. intros x [<-|Hx]; [exact Ha|].
      now apply IH.
    + intros H. rewrite (H a (or_introl eq_refl)). cbn. apply IH. intros x Hx. apply H. now right.
Qed.

Lemma NoDup_snoc {A} (l : list A) x : NoDup l -> ~ In x l -> NoDup (l ++ [x]).
Proof.
  intros N H. apply NoDup_rev in N. rewrite <- (rev_involutive (l ++ [x])). apply NoDup_rev.
  rewrite rev_app_distr. cbn. constructor; [|exact N]. now rewrite <- in_rev.
Qed.

(* a panic-free loop is a flat_map *)
Lemma rflat_pure {A B} (f : A -> res (list B)) (g : A -> list B) l :
  (forall x, In x l -> f x = Ok (g x)) -> rflat f l = Ok (flat_map g l).
Proof.
  induction l as [|a l IH]; intros H; cbn; [reflexivity|].
  rewrite (H a (or_introl eq_refl)). cbn. rewrite IH; [reflexivity|]. intros x Hx. apply H. now right.
Qed.

Lemma rflat_ok_inv {A B} (f : A -> res (list B)) l r :
  rflat f l = Ok r -> forall x, In x l -> exists rx, f x = Ok rx.
Proof.
  revert r. induction l as [|a l IH]; intros r H x Hx; [destruct Hx|].
  cbn in H. destruct (f a) as [ra|] eqn:Ea; [|discriminate]. cbn in H.
  destruct (rflat f l) as [rl|] eqn:El; [|discriminate].
  destruct Hx as [<-|Hx]; [eauto|]. eapply IH; eauto.
Qed.

Lemma mem_In x l : mem x l = true <-> In x l.
Proof.
  unfold mem. rewrite existsb_exists. split.
  - intros [y [Hy E]]. apply String.eqb_eq in E. now subst.
  - intros H. exists x. split; [exact H | apply String.eqb_refl].
Qed.
Lemma mem_false x l : mem x l = false <-> ~ In x l.
Proof. rewrite <- mem_In. destruct (mem x l); split; congruence. Qed.

Lemma nodupb_NoDup l : nodupb l = true <-> NoDup l.
Proof.
  induction l as [|x l IH]; cbn; [split; [constructor | reflexivity]|].
  rewrite andb_true_iff, negb_true_iff, mem_false, IH. split.
  - intros [H1 H2]. now constructor.
  - intros H. inversion H. now split.
Qed.

Lemma cmp_eq a b : String.compare a b = Eq <-> a = b.
Proof. exact (String_as_OT.cmp_eq a b). Qed.
Lemma cmp_refl a : String.compare a a = Eq.
Proof. now apply cmp_eq. Qed.
Lemma cmp_lt_trans a b c : String.compare a b = Lt -> String.compare b c = Lt -> String.compare a c = Lt.
Proof.
  intros H1 H2. apply String_as_OT.cmp_lt. apply String_as_OT.cmp_lt in H1, H2.
  eapply String_as_OT.lt_trans; eauto.
Qed.
Lemma cmp_gt_lt a b : String.compare a b = Gt <-> String.compare b a = Lt.
Proof.
  rewrite (String.compare_antisym b a). destruct (String.compare a b); cbn; split; congruence.
Qed.

(* ---------- vertex types by name ---------- *)
Lemma find_type_In n ts t : find_type n ts = Some t -> In t ts /\ t_name t = n.
Proof.
  induction ts as [|u ts IH]; cbn; [discriminate|].
  destruct (String.eqb_spec (t_name u) n) as [E|E].
  - intros [= <-]. split; [now left | exact E].
  - intros H. destruct (IH H). split; [now right | assumption].
Qed.
Lemma find_type_none n ts : find_type n ts = None <-> ~ In n (map t_name ts).
Proof.
  induction ts as [|u ts IH]; cbn; [split; [intros _ [] | reflexivity]|].
  destruct (String.eqb_spec (t_name u) n) as [E|E].
  - split; [discriminate | intros H; exfalso; apply H; now left].
  - rewrite IH. split; [intros H [H1|H1]; [congruence | contradiction] | intros H H1; apply H; now right].
Qed.
Lemma find_type_unique ts t : NoDup (map t_name ts) -> In t ts -> find_type (t_name t) ts = Some t.
Proof.
  induction ts as [|u ts IH]; intros N H; [destruct H|].
  cbn in N. inversion N as [|? ? Nu Nt]; subst. cbn.
  destruct H as [<-|H]; [now rewrite String.eqb_refl|].
  destruct (String.eqb_spec (t_name u) (t_name t)) as [E|E].
  - exfalso. apply Nu. rewrite E. now apply in_map.
  - now apply IH.
Qed.
Lemma has_type_In n ts : has_type n ts = true <-> In n (map t_name ts).
Proof.
  unfold has_type. destruct (find_type n ts) as [t|] eqn:E.
  - apply find_type_In in E. destruct E as [E1 <-]. split; [intros _; now apply in_map | reflexivity].
  - apply find_type_none in E. split; [discriminate | contradiction].
Qed.
Lemma has_type_false n ts : has_type n ts = false <-> ~ In n (map t_name ts).
Proof. rewrite <- has_type_In. destruct (has_type n ts); split; congruence. Qed.

Lemma defined_iff ts n : defined ts n <-> In n (map t_name ts).
Proof.
  unfold defined, defines. rewrite in_map_iff. split.
  - intros [t [H1 H2]]. eauto.
  - intros [t [H1 H2]]. eauto.
Qed.
Lemma defines_find ts t n : NoDup (map t_name ts) -> (defines ts t n <-> find_type n ts = Some t).
Proof.
  intros N. split.
  - intros [H <-]. now apply find_type_unique.
  - intros H. apply find_type_In in H. exact H.
Qed.

(* ---------- sort_types is a permutation ---------- *)
Lemma tins_perm t l : Permutation (tins t l) (t :: l).
Proof.
  induction l as [|u l IH]; cbn; [reflexivity|].
  destruct (String.leb (t_name t) (t_name u)); [reflexivity|].
  rewrite IH. apply perm_swap.
Qed.
Lemma sort_types_perm ts : Permutation (sort_types ts) ts.
Proof.
  induction ts as [|t ts IH]; cbn; [reflexivity|]. rewrite tins_perm. now constructor.
Qed.
Lemma sort_types_In t ts : In t (sort_types ts) <-> In t ts.
Proof. split; apply Permutation_in; [|symmetry]; apply sort_types_perm. Qed.

(* ---------- string sets ---------- *)
Lemma In_sset_insert x y s : In x (sset_insert y s) <-> x = y \/ In x s.
Proof.
  induction s as [|z s IH]; cbn; [intuition|].
  destruct (String.compare y z) eqn:C; cbn.
  - apply cmp_eq in C. subst. intuition (subst; auto).
  - intuition.
  - rewrite IH. intuition.
Qed.
Lemma In_sset_fold l : forall s x, In x (fold_left (fun s x => sset_insert x s) l s) <-> In x l \/ In x s.
Proof.
  induction l as [|y l IH]; intros s x; cbn; [intuition|].
  rewrite IH, In_sset_insert. intuition.
Qed.
Lemma In_sset_of x l : In x (sset_of l) <-> In x l.
Proof. unfold sset_of. rewrite In_sset_fold. cbn. intuition. Qed.
Lemma In_sset_remove x y s : In x (sset_remove y s) <-> In x s /\ x <> y.
Proof.
  unfold sset_remove. rewrite filter_In, negb_true_iff, String.eqb_neq. intuition.
Qed.

(* ---------- string-keyed maps ---------- *)
Lemma smap_get_In {V} k (m : list (string * V)) v : smap_get k m = Some v -> In (k, v) m.
Proof.
  induction m as [|[k' v'] m IH]; cbn; [discriminate|].
  destruct (String.eqb_spec k k') as [<-|E]; [intros [= <-]; now left | intros H; right; auto].
Qed.
Lemma smap_get_none {V} k (m : list (string * V)) : smap_get k m = None <-> ~ In k (map fst m).
Proof.
  induction m as [|[k' v'] m IH]; cbn; [split; [intros _ [] | reflexivity]|].
  destruct (String.eqb_spec k k') as [<-|E].
  - split; [discriminate | intros H; exfalso; apply H; now left].
  - rewrite IH. split; [intros H [H1|H1]; [congruence | contradiction] | intros H H1; apply H; now right].
Qed.
Lemma smap_has_In {V} k (m : list (string * V)) : smap_has k m = true <-> In k (map fst m).
Proof.
  unfold smap_has. destruct (smap_get k m) eqn:E.
  - split; [intros _ | reflexivity]. apply smap_get_In in E. change k with (fst (k, v)). now apply in_map.
  - apply smap_get_none in E. split; [discriminate | contradiction].
Qed.
Lemma smap_get_insert {V} k k0 (v0 : V) m :
  smap_get k (smap_insert k0 v0 m) = if String.eqb k k0 then Some v0 else smap_get k m.
Proof.
  induction m as [|[k' v'] m IH]; cbn; [reflexivity|].
  destruct (String.compare k0 k') eqn:C; cbn.
  - apply cmp_eq in C. subst k'. destruct (String.eqb k k0); reflexivity.
  - reflexivity.
  - rewrite IH. destruct (String.eqb_spec k k') as [->|E1]; [|reflexivity].
    destruct (String.eqb_spec k' k0) as [->|E2]; [|reflexivity]. rewrite cmp_refl in C. discriminate.
Qed.
Lemma smap_keys_insert {V} k k0 (v0 : V) m :
  In k (map fst (smap_insert k0 v0 m)) <-> k = k0 \/ In k (map fst m).
Proof.
  induction m as [|[k' v'] m IH]; cbn; [intuition|].
  destruct (String.compare k0 k') eqn:C; cbn.
  - apply cmp_eq in C. subst. intuition.
  - intuition.
  - rewrite IH. intuition.
Qed.
Lemma smap_update_cons {V} k0 (v0 : V) k' v' m :
  smap_update k0 v0 ((k', v') :: m) =
  (if String.eqb k0 k' then (k', v0) else (k', v')) :: smap_update k0 v0 m.
Proof. reflexivity. Qed.
Lemma smap_get_update {V} k k0 (v0 : V) m :
  smap_get k (smap_update k0 v0 m) =
  if String.eqb k k0 then (match smap_get k m with Some _ => Some v0 | None => None end) else smap_get k m.
Proof.
  induction m as [|[k' v'] m IH]; [cbn; now destruct (String.eqb k k0)|].
  rewrite smap_update_cons.
  destruct (String.eqb_spec k0 k') as [<-|E]; cbn [smap_get]; rewrite IH.
  - destruct (String.eqb_spec k k0) as [->|E1]; reflexivity.
  - destruct (String.eqb_spec k k') as [->|E1]; [|reflexivity].
    destruct (String.eqb_spec k' k0) as [->|E2]; [congruence | reflexivity].
Qed.
Lemma smap_update_In {V} k0 (v0 : V) m k v :
  In (k, v) (smap_update k0 v0 m) <-> (k = k0 /\ v = v0 /\ In k (map fst m)) \/ (k <> k0 /\ In (k, v) m).
Proof.
  unfold smap_update. rewrite in_map_iff. split.
  - intros [[k' v'] [E H]]. cbn in E. destruct (String.eqb_spec k0 k') as [<-|N].
    + injection E as <- <-. left. repeat split; auto. change k0 with (fst (k0, v')). now apply in_map.
    + injection E as <- <-. right. split; [congruence | exact H].
  - intros [[-> [-> H]]|[N H]].
    + apply in_map_iff in H. destruct H as [[k' v'] [E H]]. cbn in E. subst k'.
      exists (k0, v'). cbn. rewrite String.eqb_refl. auto.
    + exists (k, v). cbn. apply not_eq_sym in N. apply String.eqb_neq in N. rewrite N. auto.
Qed.
Lemma smap_update_keys {V} k0 (v0 : V) m : map fst (smap_update k0 v0 m) = map fst m.
Proof.
  unfold smap_update. rewrite map_map. apply map_ext. intros [k v]. cbn. now destruct (String.eqb k0 k).
Qed.
Lemma smap_remove_cons {V} k0 k' (v' : V) m :
  smap_remove k0 ((k', v') :: m) =
  if String.eqb k0 k' then smap_remove k0 m else (k', v') :: smap_remove k0 m.
Proof. unfold smap_remove. cbn. now destruct (String.eqb k0 k'). Qed.
Lemma smap_get_remove {V} k k0 (m : list (string * V)) :
  smap_get k (smap_remove k0 m) = if String.eqb k k0 then None else smap_get k m.
Proof.
  induction m as [|[k' v'] m IH]; [cbn; now destruct (String.eqb k k0)|].
  rewrite smap_remove_cons.
  destruct (String.eqb_spec k0 k') as [<-|E]; cbn [smap_get]; rewrite IH.
  - destruct (String.eqb k k0); reflexivity.
  - destruct (String.eqb_spec k k') as [->|E1]; [|reflexivity].
    destruct (String.eqb_spec k' k0); [congruence | reflexivity].
Qed.

(* ---------- (type, field)-keyed maps ---------- *)
Lemma okey_eqb_spec a b : Bool.reflect (a = b) (okey_eqb a b).
Proof.
  destruct a as [a1 a2], b as [b1 b2]. unfold okey_eqb. cbn.
  destruct (String.eqb_spec a1 b1), (String.eqb_spec a2 b2); cbn; constructor; congruence.
Qed.
Lemma okey_eqb_refl a : okey_eqb a a = true.
Proof. now destruct (okey_eqb_spec a a). Qed.
Lemma omap_get_In {V} k (m : list (okey * V)) v : omap_get k m = Some v -> In (k, v) m.
Proof.
  induction m as [|[k' v'] m IH]; cbn; [discriminate|].
  destruct (okey_eqb_spec k k') as [<-|E]; [intros [= <-]; now left | intros H; right; auto].
Qed.
Lemma omap_get_none {V} k (m : list (okey * V)) : omap_get k m = None <-> ~ In k (map fst m).
Proof.
  induction m as [|[k' v'] m IH]; cbn; [split; [intros _ [] | reflexivity]|].
  destruct (okey_eqb_spec k k') as [<-|E].
  - split; [discriminate | intros H; exfalso; apply H; now left].
  - rewrite IH. split; [intros H [H1|H1]; [congruence | contradiction] | intros H H1; apply H; now right].
Qed.
Lemma omap_get_app {V} k (m1 m2 : list (okey * V)) :
  omap_get k (m1 ++ m2) = match omap_get k m1 with Some v => Some v | None => omap_get k m2 end.
Proof.
  induction m1 as [|[k' v'] m1 IH]; cbn; [reflexivity|]. destruct (okey_eqb k k'); auto.
Qed.
Lemma omap_cmp_eq a b : okey_cmp a b = Eq <-> a = b.
Proof.
  destruct a as [a1 a2], b as [b1 b2]. unfold okey_cmp. cbn.
  destruct (String.compare a1 b1) eqn:C1.
  - apply cmp_eq in C1. subst. rewrite cmp_eq. split; congruence.
  - split; [discriminate|]. intros [= -> ->]. rewrite cmp_refl in C1. discriminate.
  - split; [discriminate|]. intros [= -> ->]. rewrite cmp_refl in C1. discriminate.
Qed.
Lemma omap_insert_perm {V} k (v : V) m : Permutation (omap_insert k v m) ((k, v) :: m).
Proof.
  induction m as [|[k' v'] m IH]; cbn; [reflexivity|].
  destruct (okey_cmp k k'); try reflexivity. rewrite IH. apply perm_swap.
Qed.
Lemma omap_insert_In {V} k (v : V) m x : In x (omap_insert k v m) <-> x = (k, v) \/ In x m.
Proof.
  split; intros H.
  - apply (Permutation_in _ (omap_insert_perm k v m)) in H. destruct H; auto.
  - apply (Permutation_in _ (Permutation_sym (omap_insert_perm k v m))). destruct H; [left|right]; auto.
Qed.
Lemma omap_get_insert {V} k k0 (v0 : V) m : omap_get k0 m = None ->
  omap_get k (omap_insert k0 v0 m) = if okey_eqb k k0 then Some v0 else omap_get k m.
Proof.
  induction m as [|[k' v'] m IH]; cbn; [reflexivity|].
  destruct (okey_eqb_spec k0 k') as [E0|E0]; [discriminate|]. intros Hn.
  destruct (okey_cmp k0 k') eqn:C; cbn; try reflexivity.
  rewrite (IH Hn). destruct (okey_eqb_spec k k') as [->|E1]; [|reflexivity].
  destruct (okey_eqb_spec k' k0); [congruence | reflexivity].
Qed.

(* ====================================================================================== *)
(* 1. The first loop of Schema::new                                                         *)
(* ====================================================================================== *)
Definition mkf (tn : string) (f : fld) : okey * fld := ((tn, f_name f), f).
Definition all_fields (ts : list tdef) : list (okey * fld) :=
  flat_map (fun t => map (mkf (t_name t)) (t_fields t)) ts.

Lemma all_fields_app a b : all_fields (a ++ b) = all_fields a ++ all_fields b.
Proof. unfold all_fields. apply flat_map_app. Qed.

Lemma all_fields_keys ts k : In k (map fst (all_fields ts)) ->
  exists t f, In t ts /\ In f (t_fields t) /\ k = (t_name t, f_name f).
Proof.
  unfold all_fields. rewrite in_map_iff. intros [[k' f] [E H]]. cbn in E. subst k'.
  apply in_flat_map in H. destruct H as [t [Ht H]]. apply in_map_iff in H. destruct H as [f' [E Hf]].
  unfold mkf in E. injection E as <- <-. eauto.
Qed.

Lemma add_fields_spec tn fs : forall pre acc0,
  (forall k, In k (map fst acc0) -> fst k <> tn) ->
  NoDup (map f_name pre) ->
  (NoDup (map f_name (pre ++ fs)) /\
   add_fields tn fs (acc0 ++ map (mkf tn) pre) = inr (acc0 ++ map (mkf tn) (pre ++ fs))) \/
  (~ NoDup (map f_name (pre ++ fs)) /\ exists e, add_fields tn fs (acc0 ++ map (mkf tn) pre) = inl e).
Proof.
  induction fs as [|f fs IH]; intros pre acc0 H0 Np.
  - left. rewrite app_nil_r. split; [exact Np | reflexivity].
  - cbn [add_fields]. rewrite omap_get_app.
    assert (E0 : omap_get (tn, f_name f) acc0 = None).
    { apply omap_get_none. intros H. apply (H0 _ H). reflexivity. }
    rewrite E0. destruct (omap_get (tn, f_name f) (map (mkf tn) pre)) as [x|] eqn:E1.
    + right. split; [|eauto]. apply omap_get_In in E1. apply in_map_iff in E1.
      destruct E1 as [g [Eg Hg]]. unfold mkf in Eg. injection Eg as Eg _.
      rewrite map_app. cbn. intros N. apply NoDup_remove_2 in N. apply N. apply in_or_app. left.
      rewrite <- Eg. now apply in_map.
    + assert (Nf : ~ In (f_name f) (map f_name pre)).
      { intros H. apply in_map_iff in H. destruct H as [g [Eg Hg]].
        apply omap_get_none in E1. apply E1. apply in_map_iff. exists (mkf tn g). split.
        - unfold mkf. cbn. now rewrite Eg.
        - now apply in_map. }
      change ((acc0 ++ map (mkf tn) pre) ++ [(tn, f_name f, f)])
        with ((acc0 ++ map (mkf tn) pre) ++ map (mkf tn) [f]).
      rewrite <- app_assoc, <- map_app.
      assert (Np' : NoDup (map f_name (pre ++ [f]))).
      { rewrite map_app. cbn. apply NoDup_snoc; assumption. }
      specialize (IH (pre ++ [f]) acc0 H0 Np'). rewrite <- app_assoc in IH. cbn in IH. exact IH.
Qed.

Definition olist {A} (o : option A) : list A := match o with Some x => [x] | None => [] end.

(* names are unique: type names, and field names within each type *)
Definition uniq (ts : list tdef) : Prop :=
  NoDup (map t_name ts) /\ forall t, In t ts -> NoDup (map f_name (t_fields t)).

Lemma all_fields_snoc ts t : all_fields (ts ++ [t]) = all_fields ts ++ map (mkf (t_name t)) (t_fields t).
Proof. rewrite all_fields_app. unfold all_fields at 2. cbn. now rewrite app_nil_r. Qed.

Lemma loop1_spec d : forall s,
  s_fields s = all_fields (s_types s) ->
  uniq (s_types s) ->
  existsb builtin_scalar (doc_scalars d) = false ->
  existsb (fun t => builtin_scalar (t_name t)) (doc_types d) = false ->
  NoDup (s_dirs s ++ doc_directives d) -> NoDup (s_scalars s ++ doc_scalars d) ->
  List.length (olist (s_schema s) ++ doc_schemas d) <= 1 ->
  (uniq (s_types s ++ doc_types d) /\
   exists s', loop1 d s = Ok (Cont s') /\ s_types s' = s_types s ++ doc_types d /\
              s_fields s' = all_fields (s_types s') /\
              olist (s_schema s') = olist (s_schema s) ++ doc_schemas d) \/
  (~ uniq (s_types s ++ doc_types d) /\ exists e, loop1 d s = Ok (Early e)).
Proof.
  induction d as [|x d IH]; intros s Hf Hu Hb1 Hb2 Hd Hs Hq.
  - left. cbn. rewrite !app_nil_r. split; [exact Hu|]. exists s. auto.
  - destruct x as [q|n|n|t]; cbn [loop1 process_def doc_types doc_scalars doc_directives doc_schemas] in *.
    + (* schema block *)
      destruct (s_schema s) as [q0|] eqn:Eq; [cbn in Hq; lia|]. cbn [bind].
      specialize (IH (mkSt1 (Some q) (s_dirs s) (s_scalars s) (s_types s) (s_fields s))).
      cbn in IH. specialize (IH Hf Hu Hb1 Hb2 Hd Hs Hq).
      destruct IH as [[U [s' [E1 [E2 [E3 E4]]]]]|[U [e E]]]; [left | right]; split; eauto.
    + (* directive *)
      assert (Hn : mem n (s_dirs s) = false).
      { apply mem_false. intros H. apply NoDup_remove_2 in Hd. apply Hd. apply in_or_app. now left. }
      rewrite Hn. cbn [bind].
      specialize (IH (mkSt1 (s_schema s) (s_dirs s ++ [n]) (s_scalars s) (s_types s) (s_fields s))).
      cbn in IH. rewrite <- app_assoc in IH. specialize (IH Hf Hu Hb1 Hb2 Hd Hs Hq). exact IH.
    + (* scalar *)
      cbn [existsb] in Hb1. apply orb_false_iff in Hb1. destruct Hb1 as [Hb0 Hb1]. rewrite Hb0.
      assert (Hn : mem n (s_scalars s) = false).
      { apply mem_false. intros H. apply NoDup_remove_2 in Hs. apply Hs. apply in_or_app. now left. }
      rewrite Hn. cbn [bind].
      specialize (IH (mkSt1 (s_schema s) (s_dirs s) (s_scalars s ++ [n]) (s_types s) (s_fields s))).
      cbn in IH. rewrite <- app_assoc in IH. specialize (IH Hf Hu Hb1 Hb2 Hd Hs Hq). exact IH.
    + (* object / interface *)
      cbn [existsb] in Hb2. apply orb_false_iff in Hb2. destruct Hb2 as [Hb0 Hb2]. rewrite Hb0.
      destruct (has_type (t_name t) (s_types s)) eqn:Eh.
      { right. split; [|eexists; reflexivity]. intros [N _]. apply has_type_In in Eh.
        rewrite map_app in N. cbn in N. apply NoDup_remove_2 in N. apply N. apply in_or_app. now left. }
      apply has_type_false in Eh.
      destruct (add_fields_spec (t_name t) (t_fields t) [] (s_fields s)) as [[Nf Ea]|[Nf [e Ea]]].
      { intros k Hk. rewrite Hf in Hk. apply all_fields_keys in Hk. destruct Hk as [u [f [Hu1 [Hu2 ->]]]].
        cbn. intros E. apply Eh. rewrite <- E. now apply in_map. }
      { constructor. }
      * cbn [map app] in Ea. rewrite app_nil_r in Ea. rewrite Ea. cbn [bind app] in *.
        specialize (IH (mkSt1 (s_schema s) (s_dirs s) (s_scalars s) (s_types s ++ [t])
                              (s_fields s ++ map (mkf (t_name t)) (t_fields t)))).
        cbn [s_schema s_dirs s_scalars s_types s_fields] in IH.
        assert (Hu' : uniq (s_types s ++ [t])).
        { destruct Hu as [N1 N2]. split.
          - rewrite map_app. cbn. now apply NoDup_snoc.
          - intros u Hu. apply in_app_or in Hu. destruct Hu as [Hu|[<-|[]]]; auto. }
        rewrite <- app_assoc in IH. cbn [app] in IH.
        apply IH; auto. rewrite all_fields_snoc, Hf. reflexivity.
      * cbn [app] in Ea. rewrite app_nil_r in Ea. rewrite Ea. cbn [bind].
        right. split; [|eauto]. intros [_ N]. apply Nf. apply N. apply in_or_app. right. now left.
Qed.

(* ====================================================================================== *)
(* 2. Types and values: the mask-level operations on parser types                           *)
(* ====================================================================================== *)
Lemma g_name_gbase g : g_name g = gbase g.
Proof. induction g; cbn; auto. Qed.
Lemma adepth_gdepth g : adepth (g_aty g) = gdepth g.
Proof. induction g; cbn; auto. Qed.

Lemma from_type_ok g : gdepth g <= 30 -> from_type g = Ok (T (gbase g) (g_aty g)).
Proof.
  intros H. rewrite from_type_spec, g_name_gbase, adepth_gdepth.
  destruct (Nat.leb_spec (gdepth g) 30); [reflexivity | lia].
Qed.

(* is_scalar_only_subtype on converted types = structural scalar subtyping *)
Lemma a_sub_ssub p c : String.eqb (gbase p) (gbase c) && a_sub (g_aty p) (g_aty c) = true <-> ssub p c.
Proof.
  rewrite andb_true_iff, String.eqb_eq. split.
  - revert c. induction p as [s pn|p IH pn]; intros [t cn|c cn]; cbn; intros [E S]; try discriminate.
    + subst t. constructor. destruct cn, pn; cbn in S; auto; discriminate.
    + apply andb_true_iff in S. destruct S as [S1 S2]. constructor.
      * destruct cn, pn; cbn in S1; auto; discriminate.
      * apply IH. auto.
  - intros H. induction H as [s0 pn0 cn0 H0|p0 pn0 c0 cn0 H0 S0 [IH1 IH2]]; cbn.
    + split; [reflexivity|]. destruct H0 as [->| ->]; [now destruct cn0 | reflexivity].
    + split; [exact IH1|]. rewrite IH2, andb_true_r. destruct H0 as [->| ->]; [now destruct cn0 | reflexivity].
Qed.

Lemma ty_sub_ssub p c : gdepth p <= 30 ->
  ty_sub (T (gbase p) (g_aty p)) (T (gbase c) (g_aty c)) = true <-> ssub p c.
Proof. intros H. rewrite ty_sub_T by (rewrite adepth_gdepth; exact H). apply a_sub_ssub. Qed.

(* is_valid_value on converted types = structural fitting *)
Lemma validT_fits g v : validT (gbase g) (g_aty g) v = true <-> fits g v.
Proof.
  revert g. induction v as [| | | | | | |l IHl] using fv_ind'; intros g.
  - cbn. destruct g; cbn; reflexivity.
  - cbn. unfold scalar_ok. destruct g as [s0 nl|i nl]; cbn.
    + rewrite String.eqb_eq. split; [intros ->; eauto | intros [x [= -> _]]; reflexivity].
    + split; [discriminate | intros [x E]; discriminate].
  - cbn. unfold scalar_ok. destruct g as [s0 nl|i nl]; cbn.
    + rewrite String.eqb_eq. split; [intros ->; eauto | intros [x [= -> _]]; reflexivity].
    + split; [discriminate | intros [x E]; discriminate].
  - cbn. unfold scalar_ok. destruct g as [s0 nl|i nl]; cbn.
    + rewrite String.eqb_eq. split; [intros ->; eauto | intros [x [= -> _]]; reflexivity].
    + split; [discriminate | intros [x E]; discriminate].
  - cbn. unfold scalar_ok. destruct g as [s0 nl|i nl]; cbn.
    + rewrite String.eqb_eq. split; [intros ->; eauto | intros [x [= -> _]]; reflexivity].
    + split; [discriminate | intros [x E]; discriminate].
  - cbn. unfold scalar_ok. destruct g as [s0 nl|i nl]; cbn.
    + rewrite String.eqb_eq. split; [intros ->; eauto | intros [x [= -> _]]; reflexivity].
    + split; [discriminate | intros [x E]; discriminate].
  - cbn. split; [discriminate | intros []].
  - destruct g as [s0 nl|i nl]; cbn [validT fits gbase g_aty]; [split; [discriminate | intros []]|].
    induction IHl as [|x r Hx Hr IH]; cbn [forallb]; [split; auto|].
    rewrite andb_true_iff, Hx, IH. reflexivity.
Qed.

Lemma ty_valid_fits g v : enum_free v = true ->
  ty_valid (T (gbase g) (g_aty g)) v = Ok (validT (gbase g) (g_aty g) v).
Proof. intros E. rewrite ty_valid_T. now apply a_valid_enum_free. Qed.
