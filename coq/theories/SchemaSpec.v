(* SchemaSpec.v — declarative statement of property C19: which schema documents are valid, and the
   known-defect classes (documents on which Schema::new panics instead of returning an error).
   Written independently of the algorithm of schema/mod.rs: no work queue, no maps, no error lists;
   only membership in the document's lists of definitions, structural recursion on types and values,
   and inductive relations.  Definitions only. *)
From TF Require Export SchemaAst.
Local Open Scope string_scope.
Local Open Scope list_scope.

(* ====================================================================================== *)
(* 1. Known-defect classes (F12): boolean predicates on the document.                      *)
(* ====================================================================================== *)
Fixpoint nodupb (l : list string) : bool :=
  match l with
  | [] => true
  | x :: r => negb (mem x r) && nodupb r
  end.

(* every parser Type occurring in the document: field types and parameter types *)
Definition fld_gtys (f : fld) : list gty := f_ty f :: map a_ty (f_args f).
Definition doc_gtys (d : doc) : list gty :=
  flat_map (fun t => flat_map fld_gtys (t_fields t)) (doc_types d).
Definition arg_has_enum (a : arg) : bool :=
  match a_default a with Default v => negb (enum_free v) | _ => false end.

(* K-no-schema-block: no `schema { .. }` definition (includes the empty document) *)
Definition k_no_schema_block (d : doc) : bool :=
  match doc_schemas d with [] => true | _ => false end.
(* K-dup-schema-block: two or more schema blocks *)
Definition k_dup_schema_block (d : doc) : bool :=
  match doc_schemas d with _ :: _ :: _ => true | _ => false end.
(* K-schema-without-query: the (first) schema block has no query root (AST only: the parser refuses it) *)
Definition k_schema_without_query (d : doc) : bool :=
  match doc_schemas d with None :: _ => true | _ => false end.
(* K-builtin-scalar-redeclared: a scalar, object or interface definition named Int/Float/String/Boolean/ID *)
Definition k_builtin_scalar_redeclared (d : doc) : bool :=
  existsb builtin_scalar (doc_scalars d) || existsb (fun t => builtin_scalar (t_name t)) (doc_types d).
(* K-dup-scalar / K-dup-directive: the same scalar / directive defined twice *)
Definition k_dup_scalar (d : doc) : bool := negb (nodupb (doc_scalars d)).
Definition k_dup_directive (d : doc) : bool := negb (nodupb (doc_directives d)).
(* K-undefined-query-type: the query type named by the schema block is not a defined object/interface *)
Definition k_undefined_query_type (d : doc) : bool :=
  match doc_schemas d with
  | Some q :: _ => negb (has_type q (doc_types d))
  | _ => false
  end.
(* K-interface-query-type: it is defined, as an interface *)
Definition k_interface_query_type (d : doc) : bool :=
  match doc_schemas d with
  | Some q :: _ => match find_type q (doc_types d) with
                   | Some t => match t_kind t with VInterface => true | VObject => false end
                   | None => false
                   end
  | _ => false
  end.
(* K-list-depth: a field type or parameter type with more than 30 nested lists *)
Definition k_list_depth (d : doc) : bool :=
  existsb (fun g => Nat.ltb 30 (gdepth g)) (doc_gtys d).
(* K-enum-default: a parameter default value containing an enum literal (F6 reached through schemas) *)
Definition k_enum_default (d : doc) : bool :=
  existsb (fun t => existsb (fun f => existsb arg_has_enum (f_args f)) (t_fields t)) (doc_types d).

Definition known (d : doc) : bool :=
  k_no_schema_block d || k_dup_schema_block d || k_schema_without_query d ||
  k_builtin_scalar_redeclared d || k_dup_scalar d || k_dup_directive d ||
  k_undefined_query_type d || k_interface_query_type d || k_list_depth d || k_enum_default d.
Definition Known (d : doc) : Prop := known d = true.

(* ====================================================================================== *)
(* 2. The schema rules.                                                                    *)
(* ====================================================================================== *)
Section Rules.
  Variable ts : list tdef.       (* the object and interface definitions of the document *)

  (* "n is a defined vertex type", "t is the definition of n" *)
  Definition defines (t : tdef) (n : string) : Prop := In t ts /\ t_name t = n.
  Definition defined (n : string) : Prop := exists t, defines t n.
  Definition has_field (t : tdef) (fn : string) : Prop := exists f, In f (t_fields t) /\ f_name f = fn.

  (* ---- type compatibility of an inherited field (covariant: only narrowing) ---- *)
  (* named types: the same scalar, or the same vertex type, or a vertex type implementing the parent's *)
  Definition named_sub (parent child : string) : Prop :=
    (~ defined parent /\ ~ defined child /\ parent = child) \/
    (defined parent /\ exists c, defines c child /\ (parent = child \/ In parent (t_impl c))).
  (* nullability may only be removed; list structure is kept; element types recursively *)
  Inductive gsub : gty -> gty -> Prop :=
  | gsub_named p pn c cn : (pn = true \/ cn = false) -> named_sub p c -> gsub (GNamed p pn) (GNamed c cn)
  | gsub_list p pn c cn : (pn = true \/ cn = false) -> gsub p c -> gsub (GList p pn) (GList c cn).

  (* ---- parameters (contravariant: only widening) ---- *)
  (* the type a field declares for parameter n (a later duplicate declaration overrides an earlier) *)
  Definition param_ty (args : list arg) (n : string) (g : gty) : Prop :=
    exists pre a post, args = pre ++ a :: post /\ a_name a = n /\ a_ty a = g /\
                       forall b, In b post -> a_name b <> n.
  (* scalar subtyping, no schema involved: same name, same list structure, nullability only removed *)
  Inductive ssub : gty -> gty -> Prop :=
  | ssub_named s pn cn : (pn = true \/ cn = false) -> ssub (GNamed s pn) (GNamed s cn)
  | ssub_list p pn c cn : (pn = true \/ cn = false) -> ssub p c -> ssub (GList p pn) (GList c cn).

  (* f (on an implementing type) is a legal version of the interface's field pf *)
  Definition narrows (pf f : fld) : Prop :=
    gsub (f_ty pf) (f_ty f) /\
    (forall n, In n (map a_name (f_args pf)) <-> In n (map a_name (f_args f))) /\
    (forall n g pg, param_ty (f_args f) n g -> param_ty (f_args pf) n pg -> ssub g pg).

  (* ---- default values ---- *)
  Fixpoint fits (g : gty) (v : fv) {struct v} : Prop :=
    match v with
    | Null => gnullable g = true
    | I64 _ | U64 _ => exists nl, g = GNamed "Int" nl
    | F64 _ => exists nl, g = GNamed "Float" nl
    | Str _ => exists nl, g = GNamed "String" nl
    | Boolv _ => exists nl, g = GNamed "Boolean" nl
    | Enum _ => False
    | List l => match g with
                | GList inner _ => (fix all (l : list fv) : Prop :=
                                      match l with [] => True | x :: r => fits inner x /\ all r end) l
                | GNamed _ _ => False
                end
    end.
  Definition default_fits (a : arg) : Prop :=
    match a_default a with
    | NoDefault => True
    | BadDefault => False              (* object / binary literals are not field values *)
    | Default v => fits (a_ty a) v
    end.

  (* ---- implementation cycles: there is a topological numbering of the implements relation ---- *)
  Definition acyclic : Prop :=
    exists rank : string -> nat,
      forall t i, In t ts -> In i (t_impl t) -> defined i -> (rank i < rank (t_name t))%nat.
  (* the transitive closure of "implements a defined type" (used to relate the two readings) *)
  Inductive reaches : string -> string -> Prop :=
  | reach_step t i : In t ts -> In i (t_impl t) -> defined i -> reaches (t_name t) i
  | reach_trans a b c : reaches a b -> reaches b c -> reaches a c.

  (* ---- field origins: a is an ancestor that first defines field fn of type tn ---- *)
  Inductive origin_of : string -> string -> string -> Prop :=
  | origin_self t fn :
      In t ts -> has_field t fn ->
      (forall i it, In i (t_impl t) -> defines it i -> ~ has_field it fn) ->
      origin_of (t_name t) fn (t_name t)
  | origin_inherited t fn i it a :
      In t ts -> has_field t fn -> In i (t_impl t) -> defines it i -> has_field it fn ->
      origin_of i fn a -> origin_of (t_name t) fn a.

  Variable root : tdef.          (* the query type named by the schema block *)

  Definition is_property (f : fld) : Prop := builtin_scalar (gbase (f_ty f)) = true.

  Record rules : Prop := mkRules {
    (* names are unique *)
    r_unique_types : NoDup (map t_name ts);
    r_unique_fields : forall t, In t ts -> NoDup (map f_name (t_fields t));
    (* interfaces exist ... *)
    r_implements_interfaces :
      forall t i, In t ts -> In i (t_impl t) -> exists it, defines it i /\ t_kind it = VInterface;
    (* ... and are implemented transitively *)
    r_implements_transitive :
      forall t i it j, In t ts -> In i (t_impl t) -> defines it i -> In j (t_impl it) -> In j (t_impl t);
    (* inherited fields are present ... *)
    r_inherited_present :
      forall t i it pf, In t ts -> In i (t_impl t) -> defines it i -> In pf (t_fields it) -> has_field t (f_name pf);
    (* ... and only narrowed (type compatibility + parameters) *)
    r_inherited_narrowed :
      forall t i it pf f, In t ts -> In i (t_impl t) -> defines it i -> In pf (t_fields it) ->
                          In f (t_fields t) -> f_name f = f_name pf -> narrows pf f;
    (* every field type is a built-in scalar or a defined vertex type *)
    r_field_types :
      forall t f, In t ts -> In f (t_fields t) -> is_property f \/ defined (gbase (f_ty f));
    (* no reserved names *)
    r_type_names : forall t, In t ts -> reserved_name (t_name t) = false;
    r_field_names : forall t f, In t ts -> In f (t_fields t) -> reserved_name (f_name f) = false;
    (* no edges into the root type; the root type has only edges *)
    r_no_edge_to_root : forall t f, In t ts -> In f (t_fields t) -> gbase (f_ty f) <> t_name root;
    r_root_only_edges : forall f, In f (t_fields root) -> ~ is_property f;
    (* properties take no parameters *)
    r_property_no_params : forall t f, In t ts -> In f (t_fields t) -> is_property f -> f_args f = [];
    (* edges are a vertex type or one list of it *)
    r_edge_shape : forall t f, In t ts -> In f (t_fields t) -> ~ is_property f -> (gdepth (f_ty f) <= 1)%nat;
    (* default values fit their parameter types *)
    r_defaults : forall t f a, In t ts -> In f (t_fields t) -> In a (f_args f) -> default_fits a;
    (* no implementation cycles *)
    r_acyclic : acyclic;
    (* no ambiguous field origins *)
    r_unambiguous : forall tn fn a b, origin_of tn fn a -> origin_of tn fn b -> a = b
  }.
End Rules.

(* A document is a valid schema when it has exactly one schema block, whose query type is a defined
   object type, and its type definitions satisfy the rules. *)
Definition valid_schema (d : doc) : Prop :=
  exists q root, doc_schemas d = [Some q] /\ In root (doc_types d) /\ t_name root = q /\
                 t_kind root = VObject /\ rules (doc_types d) root.
