(* Sem.v — the declarative semantics of a compiled query (the SPEC side of C01).
   No value stacks, no suspended vertices, no piggy-backing, no early termination, no folded_values
   bookkeeping: an *assignment* maps the component's vids to vertices (None = missing optional) and
   its folds to their element assignments (None = the fold is under a missing optional); rows are a
   projection of assignments.  Operator meaning is that of Ops.v (C07 relates it to OpsSpec.v). *)
From TF Require Export Lower Graph Ops.
Local Open Scope string_scope.
Local Open Scope N_scope.
Local Open Scope list_scope.

Inductive asg := Asg (av : list (N * option vertex)) (af : list (N * option (list asg))).
Definition a_v (a : asg) := match a with Asg v _ => v end.
Definition a_f (a : asg) := match a with Asg _ f => f end.

Section Sem.
  Variable re_match : string -> string -> option bool.
  Variable g : graph.
  Variable args : list (string * fv).

  (* does `left op right` hold (binary operators); panicking operand shapes count as "no" *)
  Definition holds (op : opk) (left right : fv) : bool :=
    match apply_tagged re_match op left (Some right) true with Ok b => b | Panic _ => false end.
  Definition holds_unary (op : opk) (left : fv) : bool :=
    match apply_unary op left true with Some b => b | None => false end.

  (* a filter on a candidate: everything passes inside a missing optional scope, and a tag coming
     from a missing optional scope makes the filter pass *)
  Definition filter_passes (op : opk) (present : bool) (left : fv) (right : option tagged) : bool :=
    if negb present then true
    else if opk_unary op then holds_unary op left
    else match right with
         | None => false
         | Some TNone => true
         | Some (TSome r) => holds op left r
         end.

  Definition imports := list (fieldref * tagged).
  Definition prop_of (ty field : string) (c : option vertex) : fv :=
    match c with Some v => g_prop g ty field v | None => Null end.

  Definition context_value (vs : list ir_vertex) (a : asg) (imported : imports) (cf : ctxfield) : tagged :=
    match find_vertex vs (cf_vid cf) with
    | Some vtx => match lookup_N (cf_vid cf) (a_v a) with
                  | Some (Some v) => TSome (g_prop g (v_type vtx) (cf_name cf) v)
                  | _ => TNone
                  end
    | None => match lookup_ref (FRContext cf) imported with Some t => t | None => TNone end
    end.

  Definition count_value (ss : list step) (a : asg) (imported : imports) (ff : foldfield) : tagged :=
    if has_fold ss (ff_eid ff)
    then match lookup_N (ff_eid ff) (a_f a) with
         | Some (Some l) => TSome (U64 (Z.of_nat (List.length l)))
         | _ => TNone
         end
    else match lookup_ref (FRFold ff) imported with Some t => t | None => TNone end.

  (* the value of a filter's right-hand side while the vertex `cur` is being entered with candidate `cand` *)
  Definition arg_value (vs : list ir_vertex) (ss : list step) (imported : imports) (a : asg)
             (cur : N) (cur_ty : string) (cand : option vertex) (arg : argument) : tagged :=
    match arg with
    | AVar x _ => TSome (match lookup_str x args with Some v => v | None => Null end)
    | ATag (FRContext cf) =>
        if N.eqb (cf_vid cf) cur then TSome (prop_of cur_ty (cf_name cf) cand)
        else context_value vs a imported cf
    | ATag (FRFold ff) => count_value ss a imported ff
    end.

  (* entering a vertex: implicit/explicit coercion, then every filter *)
  Definition enter (vs : list ir_vertex) (ss : list step) (imported : imports) (a : asg)
             (v : ir_vertex) (cand : option vertex) : bool :=
    (match v_from v, cand with
     | Some from, Some x => g_coerce g from (v_type v) x
     | _, _ => true
     end)
    && forallb (fun f =>
                  filter_passes (vf_op f) (match cand with Some _ => true | None => false end)
                                (prop_of (v_type v) (vf_field f) cand)
                                (option_map (arg_value vs ss imported a (v_vid v) (v_type v) cand) (vf_arg f)))
               (v_filters v).

  (* @recurse(depth: d): depth-first pre-order over PATHS of at most d hops.  The first hop is resolved
     at the origin's type without a gate; later hops at `recursing_from`, and only through vertices
     that pass the implicit coercion (when there is one). *)
  Fixpoint rec_from (k : nat) (first : bool) (origin_ty recursing_from endpoint_ty : string)
           (coerce_to : option string) (edge : string) (ps : params) (v : vertex) : list vertex :=
    v :: match k with
         | O => []
         | S k' =>
             if first || match coerce_to with Some to => g_coerce g endpoint_ty to v | None => true end
             then flat_map (rec_from k' false origin_ty recursing_from endpoint_ty coerce_to edge ps)
                           (g_nbrs g (if first then origin_ty else recursing_from) edge ps v)
             else []
         end.

  Definition set_av (a : asg) (vid : N) (c : option vertex) : asg := Asg (a_v a ++ [(vid, c)]) (a_f a).
  Definition set_af (a : asg) (eid : N) (l : option (list asg)) : asg := Asg (a_v a) (a_f a ++ [(eid, l)]).

  Definition step_edge (vs : list ir_vertex) (ss : list step) (imported : imports) (e : ir_edge) (a : asg)
    : list asg :=
    match find_vertex vs (e_from e), find_vertex vs (e_to e) with
    | Some fromv, Some tov =>
        let cands : list (option vertex) :=
          match lookup_N (e_from e) (a_v a) with
          | Some (Some v) =>
              match e_rec e with
              | Some r =>
                  let endpoint_ty := match v_from tov with Some t => t | None => v_type tov end in
                  let recursing_from := match r_coerce r with Some t => t | None => endpoint_ty end in
                  map Some (rec_from (N.to_nat (r_depth r)) true (v_type fromv) recursing_from endpoint_ty
                                     (r_coerce r) (e_name e) (e_params e) v)
              | None =>
                  match g_nbrs g (v_type fromv) (e_name e) (e_params e) v with
                  | [] => if e_optional e then [None] else []
                  | ns => map Some ns
                  end
              end
          | _ => [None]
          end in
        flat_map (fun c => if enter vs ss imported a tov c then [set_av a (e_to e) c] else []) cands
    | _, _ => []
    end.

  Definition import_value (vs : list ir_vertex) (ss : list step) (imported : imports) (a : asg) (t : fieldref) : tagged :=
    match t with
    | FRContext cf =>
        match find_vertex vs (cf_vid cf), lookup_N (cf_vid cf) (a_v a) with
        | Some vtx, Some (Some v) => TSome (g_prop g (v_type vtx) (cf_name cf) v)
        | _, _ => TNone
        end
    | FRFold ff =>
        match lookup_N (ff_eid ff) (a_f a) with
        | Some (Some l) => TSome (U64 (Z.of_nat (List.length l)))
        | _ => TNone
        end
    end.

  Definition step_fold (vs : list ir_vertex) (ss : list step) (imported : imports) (h : fold_hdr)
             (sub_sem : imports -> option vertex -> list asg) (a : asg) : list asg :=
    match find_vertex vs (fo_from h), lookup_N (fo_from h) (a_v a) with
    | Some fromv, Some (Some v) =>
        let imp' := fold_left (fun m t => insert_ref t (import_value vs ss imported a t) m) (fo_imported h) imported in
        let elems := flat_map (fun n => sub_sem imp' (Some n)) (g_nbrs g (v_type fromv) (fo_name h) (fo_params h) v) in
        let a' := set_af a (fo_eid h) (Some elems) in
        if forallb (fun pf =>
                      filter_passes (pf_op pf) true (U64 (Z.of_nat (List.length elems)))
                                    (option_map (arg_value vs ss imported a' (fo_from h) (v_type fromv) (Some v)) (pf_arg pf)))
                   (fo_post h)
        then [a'] else []
    | Some _, _ => [set_af a (fo_eid h) None]     (* the fold is inside a missing optional scope *)
    | None, _ => []
    end.

  Fixpoint sem_comp (c : ir_component) (imported : imports) (root : option vertex) {struct c} : list asg :=
    match c with
    | mkComp rootvid vs ss outs =>
        match find_vertex vs rootvid with
        | None => []
        | Some rv =>
            if enter vs ss imported (Asg [] []) rv root then
              (fix go (todo : list step) (rows : list asg) {struct todo} : list asg :=
                 match todo with
                 | [] => rows
                 | SEdge e :: r => go r (flat_map (step_edge vs ss imported e) rows)
                 | SFold h sub :: r => go r (flat_map (step_fold vs ss imported h (sem_comp sub)) rows)
                 end) ss [Asg [(rootvid, root)] []]
            else []
        end
    end.

  (* ---- projection of assignments to rows ---- *)
  Fixpoint all_output_names (c : ir_component) : list string :=
    match c with
    | mkComp _ _ ss outs =>
        map fst outs ++
        (fix go (ss : list step) : list string :=
           match ss with
           | [] => []
           | SEdge _ :: r => go r
           | SFold h sub :: r => fo_fsout h ++ all_output_names sub ++ go r
           end) ss
    end.

  Definition row := list (string * fv).
  Definition row_get (r : row) (n : string) : fv := match lookup_str n r with Some v => v | None => Null end.

  Fixpoint project (c : ir_component) (a : asg) {struct c} : row :=
    match c with
    | mkComp _ vs ss outs =>
        map (fun o => let cf := snd o in
                      (fst o, match find_vertex vs (cf_vid cf), lookup_N (cf_vid cf) (a_v a) with
                              | Some vtx, Some (Some v) => g_prop g (v_type vtx) (cf_name cf) v
                              | _, _ => Null
                              end)) outs ++
        (fix go (ss : list step) : row :=
           match ss with
           | [] => []
           | SEdge _ :: r => go r
           | SFold h sub :: r =>
               (match lookup_N (fo_eid h) (a_f a) with
                | Some (Some l) =>
                    map (fun n => (n, U64 (Z.of_nat (List.length l)))) (fo_fsout h) ++
                    (let rows := map (project sub) l in
                     map (fun n => (n, List (map (fun r => row_get r n) rows))) (all_output_names sub))
                | _ => map (fun n => (n, Null)) (fo_fsout h ++ all_output_names sub)
                end) ++ go r
           end) ss
    end.

  Fixpoint insert_row_s (k : string) (v : fv) (r : row) : row :=
    match r with
    | [] => [(k, v)]
    | (k', v') :: t => if String.leb k k' then (k, v) :: r else (k', v') :: insert_row_s k v t
    end.
  Definition sort_row (r : row) : row := fold_right (fun kv acc => insert_row_s (fst kv) (snd kv) acc) [] r.

  Definition sem (q : ir_query) : list row :=
    let c := q_comp q in
    map (fun a => sort_row (project c a))
        (flat_map (fun s => sem_comp c [] (Some s)) (g_starts g (q_root_name q) (q_root_params q))).
End Sem.
