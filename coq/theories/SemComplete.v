(* SemComplete.v — every assignment the specification produces for a component records every fold of
   that component (present or absent-optional), and records persist across later steps. *)
From TF Require Import Exec Sem ExecLemmas Sim SimRec SimComp FoldLimits SimFold FoldOut.
Local Open Scope string_scope.
Local Open Scope N_scope.
Local Open Scope list_scope.

Section SemComplete.
  Variable re_match : string -> string -> option bool.
  Variable g : graph.
  Variable args : list (string * fv).

  Definition af_le (F F' : list (N * option (list asg))) : Prop :=
    forall eid, lookup_N eid F <> None -> lookup_N eid F' <> None.

  Lemma af_le_refl F : af_le F F.  Proof. intros eid H; exact H. Qed.
  Lemma af_le_trans A B C : af_le A B -> af_le B C -> af_le A C.
  Proof. intros H1 H2 eid H. auto. Qed.

  Lemma lookup_N_app_last {A} (k : N) (l : list (N * A)) v : lookup_N k (l ++ [(k, v)]) <> None.
  Proof.
    induction l as [|[k' a] r IH]; cbn [app lookup_N]; [rewrite N.eqb_refl; discriminate|].
    destruct (N.eqb k k'); [discriminate|exact IH].
  Qed.

  Lemma af_le_app F x : af_le F (F ++ [x]).
  Proof.
    intros eid H. destruct (lookup_N eid F) eqn:E; [|contradiction].
    rewrite (lookup_N_app_found _ _ _ _ E). discriminate.
  Qed.

  Lemma step_edge_af vs ss imp e a a' : In a' (step_edge re_match g args vs ss imp e a) -> a_f a' = a_f a.
  Proof.
    unfold step_edge. destruct (find_vertex vs (e_from e)); [|intros []]. destruct (find_vertex vs (e_to e)); [|intros []].
    intros H. apply in_flat_map in H. destruct H as (c & _ & H).
    match type of H with In _ (if ?b then _ else _) => destruct b end; [|destruct H]. destruct H as [<-|[]]. reflexivity.
  Qed.

  Lemma step_fold_af vs ss imp h sub_sem a a' :
    In a' (step_fold re_match g args vs ss imp h sub_sem a) ->
    exists x, a_f a' = a_f a ++ [(fo_eid h, x)].
  Proof.
    unfold step_fold. destruct (find_vertex vs (fo_from h)); [|intros []].
    destruct (lookup_N (fo_from h) (a_v a)) as [[v|]|].
    - match goal with |- In _ (if ?b then _ else _) -> _ => destruct b end; [|intros []].
      intros [<-|[]]. eexists. reflexivity.
    - intros [<-|[]]. eexists. reflexivity.
    - intros [<-|[]]. eexists. reflexivity.
  Qed.

  Lemma sem_steps_complete vs ss imp todo : forall rows a',
    In a' (sem_steps re_match g args vs ss imp todo rows) ->
    exists a, In a rows /\ af_le (a_f a) (a_f a') /\ complete_steps todo (a_f a').
  Proof.
    induction todo as [|[e|h sub] todo IH]; intros rows a' H; cbn [sem_steps] in H.
    - exists a'. split; [assumption|]. split; [apply af_le_refl|]. intros h sub [].
    - destruct (IH _ _ H) as (a1 & H1 & Hle & Hc). apply in_flat_map in H1. destruct H1 as (a & Ha & H1).
      exists a. split; [assumption|]. rewrite <- (step_edge_af _ _ _ _ _ _ H1). split; [assumption|].
      intros h sub [E|Hin]; [discriminate|]. now apply (Hc h sub).
    - destruct (IH _ _ H) as (a1 & H1 & Hle & Hc). apply in_flat_map in H1. destruct H1 as (a & Ha & H1).
      destruct (step_fold_af _ _ _ _ _ _ _ H1) as (x & Hx).
      exists a. split; [assumption|]. split.
      + eapply af_le_trans; [|exact Hle]. rewrite Hx. apply af_le_app.
      + intros h' sub' [E|Hin]; [|now apply (Hc h' sub')]. injection E as <- <-.
        apply Hle. rewrite Hx. apply lookup_N_app_last.
  Qed.

  Lemma sem_comp_complete c imp root a : In a (sem_comp re_match g args c imp root) -> complete c (a_f a).
  Proof.
    destruct c as [rootvid vs ss outs]. rewrite sem_comp_eq. unfold complete.
    destruct (find_vertex vs rootvid); [|intros []].
    match goal with |- In _ (if ?b then _ else _) -> _ => destruct b end; [|intros []].
    intros H. destruct (sem_steps_complete _ _ _ _ _ _ H) as (_ & _ & _ & Hc). exact Hc.
  Qed.
End SemComplete.
