(* SemProofs.v — sanity lemmas connecting the declarative semantics (Sem.v) to the English of the
   language reference: what @optional, filters, @fold and @recurse mean. *)
From Coq Require Import Lia.
From TF Require Import Sem.
Local Open Scope string_scope.
Local Open Scope N_scope.
Local Open Scope list_scope.

Section SemLaws.
  Variable re_match : string -> string -> option bool.
  Variable g : graph.
  Variable args : list (string * fv).

  (* filters, coercions and tags inside a missing optional scope pass *)
  Lemma enter_missing_optional vs ss imported a v :
    enter re_match g args vs ss imported a v None = true.
  Proof.
    unfold enter. destruct (v_from v); cbn [andb].
    - apply forallb_forall. intros f _. reflexivity.
    - apply forallb_forall. intros f _. reflexivity.
  Qed.

  (* a tag coming from a missing optional scope makes any binary filter pass *)
  Lemma filter_passes_missing_tag op left present :
    opk_unary op = false -> filter_passes re_match op present left (Some TNone) = true.
  Proof. intros H. unfold filter_passes. destruct present; cbn; [rewrite H|]; reflexivity. Qed.

  (* a filter on a present candidate keeps the row iff the operator holds *)
  Lemma filter_passes_present op left r :
    opk_unary op = false ->
    filter_passes re_match op true left (Some (TSome r)) = holds re_match op left r.
  Proof. intros H. unfold filter_passes. cbn. now rewrite H. Qed.

  (* ---- @recurse ---- *)
  Section Rec.
    Variables (origin_ty recursing_from endpoint_ty : string) (coerce_to : option string)
              (edge : string) (ps : params).

    Definition gate (v : vertex) : bool :=
      match coerce_to with Some to => g_coerce g endpoint_ty to v | None => true end.
    Definition hop (first : bool) (v : vertex) : list vertex :=
      g_nbrs g (if first then origin_ty else recursing_from) edge ps v.

    (* a path of exactly n hops from v to x; the first hop (when `first`) is un-gated and resolved
       at the origin's type, later hops need the gate and are resolved at `recursing_from` *)
    Inductive path : nat -> bool -> vertex -> vertex -> Prop :=
    | path_nil first v : path 0 first v v
    | path_hop n first v w x :
        (first = true \/ gate v = true) -> In w (hop first v) -> path n false w x ->
        path (S n) first v x.

    Local Notation rf := (rec_from g).

    Lemma rec_from_sound k : forall first v x,
      In x (rf k first origin_ty recursing_from endpoint_ty coerce_to edge ps v) ->
      exists n, (n <= k)%nat /\ path n first v x.
    Proof.
      induction k as [|k IH]; intros first v x Hin; cbn in Hin.
      - destruct Hin as [<-|[]]. exists 0%nat. split; [lia|constructor].
      - destruct Hin as [<-|Hin]; [exists 0%nat; split; [lia|constructor]|].
        match type of Hin with In _ (if ?b then _ else _) => change b with (first || gate v) in Hin end.
        destruct (first || gate v) eqn:G; [|destruct Hin].
        apply in_flat_map in Hin. destruct Hin as (w & Hw & Hx).
        destruct (IH false w x Hx) as (n & Hn & Hp).
        exists (S n). split; [lia|].
        econstructor; eauto.
        apply Bool.orb_true_iff in G. destruct G; auto.
    Qed.

    Lemma rec_from_complete n : forall k first v x,
      (n <= k)%nat -> path n first v x ->
      In x (rf k first origin_ty recursing_from endpoint_ty coerce_to edge ps v).
    Proof.
      induction n as [|n IH]; intros k first v x Hk Hp; inversion Hp; subst.
      - destruct k; cbn; auto.
      - destruct k as [|k]; [lia|]. cbn. right.
        match goal with |- In _ (if ?b then _ else _) => change b with (first || gate v) end.
        replace (first || gate v) with true
          by (symmetry; apply Bool.orb_true_iff; tauto).
        apply in_flat_map. exists w. split; [assumption|].
        apply IH; [lia|assumption].
    Qed.

    (* @recurse(depth: d) yields exactly the vertices reachable in 0..d (gated) hops *)
    Theorem rec_from_reachable k first v x :
      In x (rf k first origin_ty recursing_from endpoint_ty coerce_to edge ps v) <->
      exists n, (n <= k)%nat /\ path n first v x.
    Proof.
      split; [apply rec_from_sound|]. intros (n & Hn & Hp). eapply rec_from_complete; eauto.
    Qed.

    (* raising the depth never loses vertices *)
    Theorem rec_from_depth_mono k first v x :
      In x (rf k first origin_ty recursing_from endpoint_ty coerce_to edge ps v) ->
      In x (rf (S k) first origin_ty recursing_from endpoint_ty coerce_to edge ps v).
    Proof.
      intros H. apply rec_from_reachable in H. destruct H as (n & Hn & Hp).
      apply rec_from_reachable. exists n. split; [lia|assumption].
    Qed.
  End Rec.
End SemLaws.
