(* SemT.v — the specification WITH the take(min) truncation of compute_fold: identical to Sem.v except
   that a fold passing the engine's eligibility test (Exec.min_eligible), with a statically known
   minimum and no maximum, keeps only its first `min` elements.  SimFoldT/SimGenT/SimFullT show that the
   interpreter model computes exactly SemT; EraseSem shows that SemT and Sem produce the same rows. *)
From TF Require Import Exec Sem ExecLemmas Sim SimRec SimComp.
Local Open Scope string_scope.
Local Open Scope N_scope.
Local Open Scope list_scope.

Section SemT.
  Variable re_match : string -> string -> option bool.
  Variable g : graph.
  Variable args : list (string * fv).

  (* which folds compute_fold truncates, and to how many elements *)
  Definition trunc_of (vs : list ir_vertex) (ss : list step) (h : fold_hdr) (sub : ir_component) : option Z :=
    match get_max_fold_count_limit args h, get_min_fold_count_limit args h with
    | Ok None, Ok (Some m) => if min_eligible vs ss h sub then Some m else None
    | _, _ => None
    end.

  Definition truncate {A} (t : option Z) (l : list A) : list A :=
    match t with Some m => take_z m l | None => l end.

  Definition step_fold_t (vs : list ir_vertex) (ss : list step) (imported : imports) (h : fold_hdr) (sub : ir_component)
             (sub_sem : imports -> option vertex -> list asg) (a : asg) : list asg :=
    match find_vertex vs (fo_from h), lookup_N (fo_from h) (a_v a) with
    | Some fromv, Some (Some v) =>
        let imp' := fold_left (fun m t => insert_ref t (import_value g vs ss imported a t) m) (fo_imported h) imported in
        let elems := truncate (trunc_of vs ss h sub)
                       (flat_map (fun n => sub_sem imp' (Some n)) (g_nbrs g (v_type fromv) (fo_name h) (fo_params h) v)) in
        let a' := set_af a (fo_eid h) (Some elems) in
        if forallb (fun pf =>
                      filter_passes re_match (pf_op pf) true (U64 (Z.of_nat (List.length elems)))
                                    (option_map (arg_value g args vs ss imported a' (fo_from h) (v_type fromv) (Some v)) (pf_arg pf)))
                   (fo_post h)
        then [a'] else []
    | Some _, _ => [set_af a (fo_eid h) None]
    | None, _ => []
    end.

  Fixpoint sem_comp_t (c : ir_component) (imported : imports) (root : option vertex) {struct c} : list asg :=
    match c with
    | mkComp rootvid vs ss outs =>
        match find_vertex vs rootvid with
        | None => []
        | Some rv =>
            if enter re_match g args vs ss imported (Asg [] []) rv root then
              (fix go (todo : list step) (rows : list asg) {struct todo} : list asg :=
                 match todo with
                 | [] => rows
                 | SEdge e :: r => go r (flat_map (step_edge re_match g args vs ss imported e) rows)
                 | SFold h sub :: r => go r (flat_map (step_fold_t vs ss imported h sub (sem_comp_t sub)) rows)
                 end) ss [Asg [(rootvid, root)] []]
            else []
        end
    end.

  Definition sem_t (q : ir_query) : list row :=
    let c := q_comp q in
    map (fun a => sort_row (project g c a))
        (flat_map (fun s => sem_comp_t c [] (Some s)) (g_starts g (q_root_name q) (q_root_params q))).

  Fixpoint sem_steps_t (vs : list ir_vertex) (ss : list step) (imp : list (fieldref * tagged))
           (todo : list step) (rows : list asg) {struct todo} : list asg :=
    match todo with
    | [] => rows
    | SEdge e :: r => sem_steps_t vs ss imp r (flat_map (step_edge re_match g args vs ss imp e) rows)
    | SFold h sub :: r => sem_steps_t vs ss imp r (flat_map (step_fold_t vs ss imp h sub (sem_comp_t sub)) rows)
    end.

  Lemma sem_go_t_eq vs ss imp : forall todo rows,
    (fix go (todo : list step) (rows : list asg) {struct todo} : list asg :=
       match todo with
       | [] => rows
       | SEdge e :: r => go r (flat_map (step_edge re_match g args vs ss imp e) rows)
       | SFold h sub :: r => go r (flat_map (step_fold_t vs ss imp h sub (sem_comp_t sub)) rows)
       end) todo rows = sem_steps_t vs ss imp todo rows.
  Proof. induction todo as [|[e|h sub] t IH]; intros rows; cbn [sem_steps_t]; [reflexivity| |]; apply IH. Qed.

  Lemma sem_comp_t_eq root vs ss outs imp rootc :
    sem_comp_t (mkComp root vs ss outs) imp rootc =
    match find_vertex vs root with
    | None => []
    | Some rv => if enter re_match g args vs ss imp (Asg [] []) rv rootc
                 then sem_steps_t vs ss imp ss [Asg [(root, rootc)] []] else []
    end.
  Proof.
    cbn [sem_comp_t]. destruct (find_vertex vs root); [|reflexivity].
    destruct (enter _ _ _ _ _ _ _ _ _); [|reflexivity]. apply sem_go_t_eq.
  Qed.

  Lemma sem_steps_t_nil vs ss imp todo : sem_steps_t vs ss imp todo [] = [].
  Proof. induction todo as [|[e|h s] t IHt]; cbn [sem_steps_t flat_map]; auto. Qed.

  Lemma sem_steps_t_app vs ss imp todo : forall l1 l2,
    sem_steps_t vs ss imp todo (l1 ++ l2) = sem_steps_t vs ss imp todo l1 ++ sem_steps_t vs ss imp todo l2.
  Proof. induction todo as [|[e|h s] t IHt]; intros; cbn [sem_steps_t]; [reflexivity| |]; now rewrite flat_map_app, IHt. Qed.
End SemT.
