(* SerdeModel.v — model of the serialisation-related code of trustfall_core that is trustfall's own
   (C16).  Definitions only; proofs are in SerdeProofs.v.

   Modelled (trustfall code):
   * ir/value.rs: `TransparentValue` and the two `From` conversions (`to_transparent`,
     `from_transparent`); the variant ORDER of `TransparentValue`, which under `#[serde(untagged)]`
     is the resolution order of deserialisation.
   * ir/types/base.rs: `Type` serialises as its Display text and deserialises through `Type::parse`.
   * every `#[serde(default …, skip_serializing_if = …)]` attribute of ir/mod.rs,
     interpreter/mod.rs (SerializableContext) and interpreter/trace.rs (`attr_table`), with the
     predicates / default functions they name (`is_false`, `default_optional`, `Vec::is_empty`,
     `BTreeMap::is_empty`, `Option::is_none`, `EdgeParameters::is_empty`, `Default::default`).

   Modelled third-party behaviour (exercised by the harness, NOT verified): how serde_json's `Value`
   serializer represents each variant (`tv_to_json`) and how serde's untagged machinery
   (Content buffer + ContentRefDeserializer + the primitive visitors of serde_core) accepts or
   refuses each variant for a given JSON value (`de_*`).  JSON text printing / parsing and `ron`
   are not modelled at all. *)
From TF Require Import Values Show TyDef Ty IR.
From TF Require Decode.
Local Open Scope string_scope.
Local Open Scope Z_scope.

(* =====================================================================================
   1. TransparentValue
   ===================================================================================== *)
Inductive tval :=
| TvNull
| TvI64 (z : Z)
| TvU64 (z : Z)
| TvF64 (bits : N)
| TvStr (s : string)
| TvBool (b : bool)
| TvEnum (s : string)
| TvList (l : list tval).

(* impl From<FieldValue> for TransparentValue *)
Fixpoint to_transparent (v : fv) : tval :=
  match v with
  | Null => TvNull
  | I64 x => TvI64 x
  | U64 x => TvU64 x
  | F64 x => TvF64 x
  | Str x => TvStr x
  | Boolv x => TvBool x
  | Enum x => TvEnum x
  | List x => TvList (map to_transparent x)
  end.

(* impl From<TransparentValue> for FieldValue *)
Fixpoint from_transparent (t : tval) : fv :=
  match t with
  | TvNull => Null
  | TvI64 x => I64 x
  | TvU64 x => U64 x
  | TvF64 x => F64 x
  | TvStr x => Str x
  | TvBool x => Boolv x
  | TvEnum x => Enum x
  | TvList x => List (map from_transparent x)
  end.

(* =====================================================================================
   2. Untagged JSON
   ===================================================================================== *)
(* serde_json::Number (without arbitrary_precision): enum N { PosInt(u64), NegInt(i64), Float(f64) } *)
Inductive jnum := PosInt (u : Z) | NegInt (i : Z) | JFloat (bits : N).
(* serde_json::Value *)
Inductive json :=
| JNull
| JBool (b : bool)
| JNum (n : jnum)
| JStr (s : string)
| JArr (l : list json)
| JObj (m : list (string * json)).

(* impl From<i64> for Number: `if i < 0 { NegInt(i) } else { PosInt(i as u64) }` *)
Definition num_of_i64 (z : Z) : jnum := if z <? 0 then NegInt z else PosInt z.
(* value::Serializer::serialize_f64: Number::from_f64(v).map_or(Value::Null, Value::Number);
   from_f64 is None exactly for non-finite floats *)
Definition json_of_f64 (b : N) : json := if f64_finite b then JNum (JFloat b) else JNull.

(* Serialize for TransparentValue (derived, untagged: every variant serialises as its content) *)
Fixpoint tv_to_json (t : tval) : json :=
  match t with
  | TvNull => JNull                         (* serialize_unit *)
  | TvI64 z => JNum (num_of_i64 z)          (* serialize_i64 *)
  | TvU64 z => JNum (PosInt z)              (* serialize_u64 *)
  | TvF64 b => json_of_f64 b                (* serialize_f64 *)
  | TvStr s => JStr s                       (* serialize_str *)
  | TvBool b => JBool b
  | TvEnum s => JStr s                      (* serialize_str: the variant name is NOT recorded *)
  | TvList l => JArr (map tv_to_json l)     (* serialize_seq *)
  end.

Definition to_json (v : fv) : json := tv_to_json (to_transparent v).

(* --- what each variant's payload deserializer accepts from the buffered Content ---
   (JSON null -> Content::Unit, PosInt -> Content::U64, NegInt -> Content::I64, Float -> Content::F64,
   string -> Content::String, bool -> Content::Bool, array -> Content::Seq, object -> Content::Map) *)
(* unit variant: ContentRefDeserializer::deserialize_any(UntaggedUnitVisitor): visit_unit only *)
Definition de_unit (j : json) : option unit :=
  match j with JNull => Some tt | _ => None end.
(* i64: deserialize_integer; PrimitiveVisitor for i64: visit_u64 succeeds iff v <= i64::MAX *)
Definition de_i64 (j : json) : option Z :=
  match j with
  | JNum (PosInt u) => if u <=? i64_max then Some u else None
  | JNum (NegInt i) => Some i
  | _ => None
  end.
(* u64: visit_u64 always; visit_i64 succeeds iff 0 <= v *)
Definition de_u64 (j : json) : option Z :=
  match j with
  | JNum (PosInt u) => Some u
  | JNum (NegInt i) => if 0 <=? i then Some i else None
  | _ => None
  end.
(* f64: deserialize_float accepts every numeric Content; integers are converted with `as f64` *)
Definition de_f64 (j : json) : option N :=
  match j with
  | JNum (JFloat b) => Some b
  | JNum (PosInt u) => Some (Z.to_N (Decode.int_to_f64 u))
  | JNum (NegInt i) => Some (Z.to_N (Decode.int_to_f64 i))
  | _ => None
  end.
(* Arc<str>: deserialize_string accepts Content::String/Str (and bytes, which JSON never yields) *)
Definition de_str (j : json) : option string :=
  match j with JStr s => Some s | _ => None end.
Definition de_bool (j : json) : option bool :=
  match j with JBool b => Some b | _ => None end.

Fixpoint sequence {A} (l : list (option A)) : option (list A) :=
  match l with
  | [] => Some []
  | None :: _ => None
  | Some a :: r => match sequence r with Some r' => Some (a :: r') | None => None end
  end.

(* Deserialize for TransparentValue (derived, untagged): the variants are tried IN DECLARATION
   ORDER Null, Int64, Uint64, Float64, String, Boolean, Enum, List against the buffered content;
   the first success wins; if none succeeds: Err("data did not match any variant …") = None *)
Fixpoint tv_of_json (j : json) : option tval :=
  match de_unit j with Some _ => Some TvNull | None =>
  match de_i64 j with Some z => Some (TvI64 z) | None =>
  match de_u64 j with Some z => Some (TvU64 z) | None =>
  match de_f64 j with Some b => Some (TvF64 b) | None =>
  match de_str j with Some s => Some (TvStr s) | None =>
  match de_bool j with Some b => Some (TvBool b) | None =>
  match de_str j with Some s => Some (TvEnum s) | None =>
  match j with
  | JArr l => match sequence (map tv_of_json l) with Some l' => Some (TvList l') | None => None end
  | _ => None
  end end end end end end end end.

Definition of_json (j : json) : option fv :=
  match tv_of_json j with Some t => Some (from_transparent t) | None => None end.

(* the exact image of a well-formed value under  FieldValue -> TransparentValue -> JSON ->
   TransparentValue -> FieldValue *)
Fixpoint canon (v : fv) : fv :=
  match v with
  | U64 z => if z <=? i64_max then I64 z else U64 z
  | Enum s => Str s
  | List l => List (map canon l)
  | _ => v
  end.

(* the known-defect class K-enum-json: the value contains an Enum somewhere *)
Definition contains_enum (v : fv) : bool := negb (enum_free v).

(* JSON values as serde_json can hold them *)
Definition wf_jnum (n : jnum) : bool :=
  match n with
  | PosInt u => (0 <=? u) && (u <=? u64_max)
  | NegInt i => (i64_min <=? i) && (i <? 0)
  | JFloat b => f64_finite b
  end.

(* =====================================================================================
   3. Type: Serialize = serialize_str(&self.to_string()); Deserialize = visit_str -> Type::parse
   ===================================================================================== *)
Definition ty_to_json (t : ty) : json := JStr (ty_display t).
(* Ok None = a returned Err (not a string, or TypeParseError); Panic = Type::parse's panic *)
Definition ty_of_json (j : json) : res (option ty) :=
  match j with JStr s => ty_parse_res s | _ => Ok None end.

(* =====================================================================================
   4. `#[serde(default …, skip_serializing_if = …)]` fields
   ===================================================================================== *)
(* serde-derive's treatment of one such field: serialisation omits the field when the predicate
   holds; deserialisation of a struct without the field calls the default function *)
Definition field_ser {A} (skip : A -> bool) (v : A) : option A := if skip v then None else Some v.
Definition field_de {A} (dflt : A) (o : option A) : A := match o with Some v => v | None => dflt end.

(* the predicates / default functions named by the attributes *)
Definition is_false (b : bool) : bool := negb b.                      (* ir/mod.rs fn is_false *)
Definition default_optional : bool := false.                          (* ir/mod.rs fn default_optional *)
Definition vec_is_empty {A} (l : list A) : bool := match l with [] => true | _ => false end.
Definition vec_default {A} : list A := [].
(* BTreeMap<K, V> as its key-sorted association list *)
Definition map_is_empty {K V} (m : list (K * V)) : bool := match m with [] => true | _ => false end.
Definition map_default {K V} : list (K * V) := [].
Definition option_is_none {A} (o : option A) : bool := match o with None => true | Some _ => false end.
Definition option_default {A} : option A := None.
(* struct EdgeParameters { contents: Arc<BTreeMap<Arc<str>, FieldValue>> }, #[derive(Default)];
   fn is_empty(&self) = self.contents.is_empty() *)
Record edge_parameters := mkEP { ep_contents : list (string * fv) }.
Definition ep_is_empty (e : edge_parameters) : bool := map_is_empty (ep_contents e).
Definition ep_default : edge_parameters := mkEP map_default.

(* SerializableContext<Vertex> with Vertex = u64 (the harness' vertex type) *)
Inductive value_or_vec := VovValue (v : fv) | VovVec (l : list value_or_vec).
Inductive tagged_value := NonexistentOptional | SomeValue (v : fv).
Inductive sctx :=
  SCtx (active_vertex : option N) (vertices : list (N * option N))
       (values : list fv) (suspended_vertices : list (option N))
       (folded_contexts : list (N * option (list sctx)))
       (folded_values : list ((N * string) * option value_or_vec))
       (piggyback : option (list sctx))
       (imported_tags : list (fieldref * tagged_value)).

Definition shape_bool (b : bool) : string := if b then "T" else "F".
Definition shape_vec {A} (l : list A) : string := if vec_is_empty l then "empty" else "nonempty".
Definition shape_opt {A} (o : option A) : string := if option_is_none o then "None" else "Some".
Definition shape_ep (e : edge_parameters) : string := shape_vec (ep_contents e).

Record attr_instance := mkAttr {
  a_struct : string;            (* the struct carrying the attribute *)
  a_field : string;
  a_skip_name : string;         (* the path given to skip_serializing_if *)
  a_default_name : string;      (* the function given to default = "…"; "Default" for plain `default` *)
  a_ty : Type;                  (* model of the field's type *)
  a_skip : a_ty -> bool;
  a_default : a_ty;
  a_sample : a_ty;              (* some value the predicate rejects (used by the behavioural tie) *)
  a_shape : a_ty -> string      (* coarse rendering for the behavioural tie *)
}.

Definition vec_attr (st f : string) (A : Type) (sample : list A) : attr_instance :=
  mkAttr st f "Vec::is_empty" "Default" (list A) vec_is_empty vec_default sample shape_vec.
Definition map_attr (st f : string) (K V : Type) (sample : list (K * V)) : attr_instance :=
  mkAttr st f "BTreeMap::is_empty" "Default" (list (K * V)) map_is_empty map_default sample shape_vec.
Definition opt_attr (st f : string) (A : Type) (sample : option A) : attr_instance :=
  mkAttr st f "Option::is_none" "Default" (option A) option_is_none option_default sample shape_opt.
Definition ep_attr (st f : string) (sample : edge_parameters) : attr_instance :=
  mkAttr st f "EdgeParameters::is_empty" "Default" edge_parameters ep_is_empty ep_default sample shape_ep.
Definition optional_attr : attr_instance :=
  mkAttr "IREdge" "optional" "is_false" "default_optional" bool is_false default_optional true shape_bool.

Local Open Scope N_scope.
Definition s_ty : ty := ty_named "Int" true.
Definition s_cf : ctxfield := mkCF 1 "f" s_ty.
Definition s_vertex : ir_vertex := mkV 1 "T" None [].
Definition s_edge : ir_edge := mkE 1 1 2 "e" [] false None.
Definition s_comp : raw_comp := RComp 1 [s_vertex] [] [] [].
Definition s_fold : raw_fold := RFold (mkFH 1 1 2 "e" [] [] [] []) (RComp 2 [mkV 2 "T" None []] [] [] []).
Definition s_ep : edge_parameters := mkEP [("a", I64 1)].
Definition s_ctx : sctx := SCtx (Some 1) [] [] [] [] [] None [].

(* one entry per attribute, in source order: ir/mod.rs (16), interpreter/mod.rs (6), trace.rs (1) *)
Definition attr_table : list attr_instance := [
  map_attr "IRQueryComponent" "vertices" N ir_vertex [(1, s_vertex)];
  map_attr "IRQueryComponent" "edges" N ir_edge [(1, s_edge)];
  map_attr "IRQueryComponent" "folds" N raw_fold [(1, s_fold)];
  map_attr "IRQueryComponent" "outputs" string ctxfield [("o", s_cf)];
  ep_attr "IRQuery" "root_parameters" s_ep;
  map_attr "IRQuery" "variables" string ty [("v", s_ty)];
  ep_attr "IREdge" "parameters" s_ep;
  optional_attr;
  opt_attr "IREdge" "recursive" recursive (Some (mkRec 2 None));
  opt_attr "Recursive" "coerce_to" string (Some "T"%string);
  opt_attr "IRVertex" "coerced_from_type" string (Some "T"%string);
  vec_attr "IRVertex" "filters" vfilter [mkVF IsNull "f" s_ty None];
  ep_attr "IRFold" "parameters" s_ep;
  vec_attr "IRFold" "imported_tags" fieldref [FRContext s_cf];
  map_attr "IRFold" "fold_specific_outputs" string unit [("c"%string, tt)];
  vec_attr "IRFold" "post_filters" pfilter [mkPF IsNull None];
  vec_attr "SerializableContext" "values" fv [I64 1%Z];
  vec_attr "SerializableContext" "suspended_vertices" (option N) [Some 2];
  map_attr "SerializableContext" "folded_contexts" N (option (list sctx)) [(1, None)];
  map_attr "SerializableContext" "folded_values" (N * string) (option value_or_vec) [((1, "x"%string), None)];
  opt_attr "SerializableContext" "piggyback" (list sctx) (Some [s_ctx]);
  map_attr "SerializableContext" "imported_tags" fieldref tagged_value [(FRContext s_cf, NonexistentOptional)];
  map_attr "Trace" "arguments" string fv [("a"%string, I64 1%Z)]
].
Local Close Scope N_scope.

(* the attribute holds: whatever the predicate skips is what the default function rebuilds *)
Definition attr_consistent (a : attr_instance) : Prop :=
  forall v : a_ty a, a_skip a v = true -> v = a_default a.
(* every value of the field survives serialise-then-deserialise *)
Definition attr_roundtrips (a : attr_instance) : Prop :=
  forall v : a_ty a, field_de (a_default a) (field_ser (a_skip a) v) = v.

(* =====================================================================================
   Renderers for the correspondence check (mirrored in harness/src/bin/tfh_c16.rs)
   ===================================================================================== *)
Fixpoint show_tv (t : tval) : string :=
  match t with
  | TvNull => "n"
  | TvI64 z => "i" ++ dz z
  | TvU64 z => "u" ++ dz z
  | TvF64 b => "f" ++ dn b
  | TvStr s => "s" ++ hex s
  | TvBool b => if b then "T" else "F"
  | TvEnum s => "e" ++ hex s
  | TvList l => "[" ++ String.concat "," (map show_tv l) ++ "]"
  end.

Definition show_jnum (n : jnum) : string :=
  match n with PosInt u => "p" ++ dz u | NegInt i => "m" ++ dz i | JFloat b => "f" ++ dn b end.

Fixpoint show_json (j : json) : string :=
  match j with
  | JNull => "n"
  | JBool b => if b then "T" else "F"
  | JNum n => show_jnum n
  | JStr s => "s" ++ hex s
  | JArr l => "[" ++ String.concat "," (map show_json l) ++ "]"
  | JObj m => "{" ++ String.concat "," (map (fun kv => hex (fst kv) ++ ":" ++ show_json (snd kv)) m) ++ "}"
  end.

Definition attr_name (a : attr_instance) : string :=
  a_struct a ++ "." ++ a_field a ++ ":" ++ a_skip_name a ++ ":" ++ a_default_name a.
Definition attr_listing : string := String.concat ";" (map attr_name attr_table).

(* behaviour of one attribute on its skip value (`use_sample = false`: the default) or on the
   sample: is the field omitted, and what comes back *)
Definition attr_case (a : attr_instance) (use_sample : bool) : string :=
  let v := if use_sample then a_sample a else a_default a in
  "omitted=" ++ shape_bool (a_skip a v) ++ "|back=" ++ a_shape a (field_de (a_default a) (field_ser (a_skip a) v)).

Fixpoint attr_find (st f : string) (l : list attr_instance) : option attr_instance :=
  match l with
  | [] => None
  | a :: r => if String.eqb (a_struct a) st && String.eqb (a_field a) f then Some a else attr_find st f r
  end.
Definition attr_case_named (st f : string) (use_sample : bool) : string :=
  match attr_find st f attr_table with Some a => attr_case a use_sample | None => "MISSING" end.
