(* SerdeProofs.v — lemmas about SerdeModel.v (C16). *)
From Coq Require Import Lia.
From TF Require Import Values ValuesProofs TyDef Ty TyProofs IR SerdeModel.
Local Open Scope Z_scope.

(* ---------- nested induction principles ---------- *)
Section TvInd.
  Variable P : tval -> Prop.
  Hypothesis HNull : P TvNull.
  Hypothesis HI : forall z, P (TvI64 z).
  Hypothesis HU : forall z, P (TvU64 z).
  Hypothesis HF : forall b, P (TvF64 b).
  Hypothesis HS : forall s, P (TvStr s).
  Hypothesis HB : forall b, P (TvBool b).
  Hypothesis HE : forall s, P (TvEnum s).
  Hypothesis HL : forall l, Forall P l -> P (TvList l).
  Fixpoint tv_ind' (t : tval) : P t :=
    match t with
    | TvNull => HNull | TvI64 z => HI z | TvU64 z => HU z | TvF64 b => HF b | TvStr s => HS s
    | TvBool b => HB b | TvEnum s => HE s
    | TvList l => HL l ((fix go (l : list tval) : Forall P l :=
                          match l with [] => Forall_nil _ | x :: xs => Forall_cons _ (tv_ind' x) (go xs) end) l)
    end.
End TvInd.

Section JsonInd.
  Variable P : json -> Prop.
  Hypothesis HNull : P JNull.
  Hypothesis HB : forall b, P (JBool b).
  Hypothesis HN : forall n, P (JNum n).
  Hypothesis HS : forall s, P (JStr s).
  Hypothesis HA : forall l, Forall P l -> P (JArr l).
  Hypothesis HO : forall m, P (JObj m).
  Fixpoint json_ind' (j : json) : P j :=
    match j with
    | JNull => HNull | JBool b => HB b | JNum n => HN n | JStr s => HS s
    | JArr l => HA l ((fix go (l : list json) : Forall P l :=
                         match l with [] => Forall_nil _ | x :: xs => Forall_cons _ (json_ind' x) (go xs) end) l)
    | JObj m => HO m
    end.
End JsonInd.

Lemma map_id_Forall {A} (f : A -> A) (l : list A) : Forall (fun x => f x = x) l -> map f l = l.
Proof. induction 1 as [|x l Hx _ IH]; cbn; [reflexivity | now rewrite Hx, IH]. Qed.

(* ---------- 1. TransparentValue ---------- *)
Lemma transparent_roundtrip : forall v, from_transparent (to_transparent v) = v.
Proof.
  induction v as [| | | | | | |l IH] using fv_ind'; try reflexivity.
  cbn [to_transparent from_transparent]. rewrite map_map. now rewrite (map_id_Forall _ l IH).
Qed.

Lemma transparent_roundtrip_conv : forall t, to_transparent (from_transparent t) = t.
Proof.
  induction t as [| | | | | | |l IH] using tv_ind'; try reflexivity.
  cbn [to_transparent from_transparent]. rewrite map_map. now rewrite (map_id_Forall _ l IH).
Qed.

Lemma to_transparent_inj a b : to_transparent a = to_transparent b -> a = b.
Proof. intros H. rewrite <- (transparent_roundtrip a), <- (transparent_roundtrip b). now rewrite H. Qed.

(* ---------- 2. untagged JSON ---------- *)
Lemma tv_of_json_arr l :
  tv_of_json (JArr l) = match sequence (map tv_of_json l) with Some l' => Some (TvList l') | None => None end.
Proof. reflexivity. Qed.

Lemma wf_I64 z : wf (I64 z) = true -> i64_min <= z <= i64_max.
Proof. cbn [wf]. intros H. apply andb_prop in H. destruct H as [H1 H2]. apply Z.leb_le in H1, H2. lia. Qed.
Lemma wf_U64 z : wf (U64 z) = true -> 0 <= z <= u64_max.
Proof. cbn [wf]. intros H. apply andb_prop in H. destruct H as [H1 H2]. apply Z.leb_le in H1, H2. lia. Qed.

(* the exact image, at the TransparentValue level *)
Lemma tv_json_image : forall v, wf v = true ->
  tv_of_json (to_json v) = Some (to_transparent (canon v)).
Proof.
  unfold to_json.
  induction v as [|z|z|b|s|b|s|l IH] using fv_ind'; intros W; try reflexivity.
  - (* I64 *) apply wf_I64 in W. cbn [to_transparent tv_to_json canon]. unfold num_of_i64.
    destruct (z <? 0) eqn:E; cbn [tv_of_json de_unit de_i64]; [reflexivity|].
    destruct (Z.leb_spec z i64_max) as [_|C]; [reflexivity | lia].
  - (* U64 *) cbn [to_transparent tv_to_json canon tv_of_json de_unit de_i64 de_u64].
    destruct (z <=? i64_max); reflexivity.
  - (* F64 *) cbn [wf] in W. cbn [to_transparent tv_to_json canon]. unfold json_of_f64. rewrite W. reflexivity.
  - (* List *) cbn [to_transparent tv_to_json canon]. rewrite tv_of_json_arr.
    cbn [wf] in W.
    assert (S : sequence (map tv_of_json (map tv_to_json (map to_transparent l)))
                = Some (map to_transparent (map canon l))).
    { induction IH as [|x r Hx _ IHr]; [reflexivity|].
      cbn [forallb] in W. apply andb_prop in W. destruct W as [Wx Wr].
      cbn [map sequence]. rewrite (Hx Wx). rewrite (IHr Wr). reflexivity. }
    rewrite S. reflexivity.
Qed.

Theorem json_roundtrip_image : forall v, wf v = true -> of_json (to_json v) = Some (canon v).
Proof. intros v W. unfold of_json. rewrite (tv_json_image v W). now rewrite transparent_roundtrip. Qed.

Lemma lexT_map_eq (f : fv -> fv) (l : list fv) :
  Forall (fun x => cmpT (f x) x = Eq) l -> lexT cmpT (map f l) l = Eq.
Proof. induction 1 as [|x r Hx _ IH]; cbn; [reflexivity | now rewrite Hx]. Qed.

Lemma eqT_true a b : eqT a b = true <-> cmpT a b = Eq.
Proof. unfold eqT. destruct (cmpT a b); split; congruence. Qed.

(* the image is equal to the original (C08 equality) when no Enum occurs … *)
Lemma canon_eq : forall v, enum_free v = true -> eqT (canon v) v = true.
Proof.
  induction v as [|z|z|b|s|b|s|l IH] using fv_ind'; intros E; try apply eqT_refl.
  - cbn [canon]. destruct (z <=? i64_max); [apply eqT_int_mixed | apply eqT_refl].
  - discriminate E.
  - cbn [canon]. apply eqT_true. rewrite cmpT_list. apply lexT_map_eq.
    cbn [enum_free] in E. rewrite forallb_forall in E. rewrite Forall_forall in IH |- *.
    intros x Hx. apply eqT_true. apply IH; auto.
Qed.

(* … and ONLY then: K-enum-json is exactly the class of values whose round trip is unequal *)
Lemma canon_eq_only : forall v, eqT (canon v) v = true -> enum_free v = true.
Proof.
  induction v as [|z|z|b|s|b|s|l IH] using fv_ind'; intros E; try reflexivity.
  - discriminate E.
  - cbn [enum_free]. cbn [canon] in E. apply eqT_true in E. rewrite cmpT_list in E.
    induction IH as [|x r Hx _ IHr]; [reflexivity|].
    cbn [map lexT] in E. cbn [forallb].
    destruct (cmpT (canon x) x) eqn:C; try discriminate E.
    rewrite (Hx (proj2 (eqT_true _ _) C)). cbn [andb]. apply IHr. exact E.
Qed.

Lemma canon_eq_iff v : eqT (canon v) v = true <-> enum_free v = true.
Proof. split; [apply canon_eq_only | apply canon_eq]. Qed.

Lemma wf_canon : forall v, wf v = true -> wf (canon v) = true.
Proof.
  induction v as [|z|z|b|s|b|s|l IH] using fv_ind'; intros W; try exact W; try reflexivity.
  - cbn [canon]. destruct (Z.leb_spec z i64_max) as [C|C]; [|exact W].
    apply wf_U64 in W. cbn [wf]. apply andb_true_intro. split; apply Z.leb_le; unfold i64_min; lia.
  - cbn [canon wf] in *. rewrite forallb_forall in *. rewrite Forall_forall in IH.
    intros y Hy. apply in_map_iff in Hy. destruct Hy as (x & <- & Hx). apply IH; auto.
Qed.

Lemma canon_idem : forall v, canon (canon v) = canon v.
Proof.
  induction v as [|z|z|b|s|b|s|l IH] using fv_ind'; try reflexivity.
  - cbn [canon]. destruct (z <=? i64_max) eqn:E; cbn [canon]; [reflexivity | now rewrite E].
  - cbn [canon]. rewrite map_map. f_equal. apply map_ext_Forall. exact IH.
Qed.

Lemma canon_enum_free : forall v, enum_free (canon v) = true.
Proof.
  induction v as [|z|z|b|s|b|s|l IH] using fv_ind'; try reflexivity.
  - cbn [canon]. destruct (z <=? i64_max); reflexivity.
  - cbn [canon enum_free]. rewrite forallb_forall. rewrite Forall_forall in IH.
    intros y Hy. apply in_map_iff in Hy. destruct Hy as (x & <- & Hx). auto.
Qed.

Theorem untagged_json_roundtrip : forall v, wf v = true -> enum_free v = true ->
  exists v', of_json (to_json v) = Some v' /\ eqT v' v = true.
Proof. intros v W E. exists (canon v). split; [now apply json_roundtrip_image | now apply canon_eq]. Qed.

(* the same with the transcribed PartialEq::eq (which asserts finiteness) *)
Theorem untagged_json_roundtrip_eq : forall v, wf v = true -> enum_free v = true ->
  exists v', of_json (to_json v) = Some v' /\ wf v' = true /\ fv_eq v' v = Ok true.
Proof.
  intros v W E. exists (canon v). split; [now apply json_roundtrip_image|].
  split; [now apply wf_canon|]. rewrite fv_eq_ok by (auto using wf_canon). now rewrite canon_eq.
Qed.

(* exactly: the round trip gives back an equal value iff the value contains no Enum *)
Theorem untagged_json_roundtrip_iff : forall v, wf v = true ->
  ((exists v', of_json (to_json v) = Some v' /\ eqT v' v = true) <-> contains_enum v = false).
Proof.
  intros v W. unfold contains_enum. rewrite Bool.negb_false_iff. split.
  - intros (v' & H & E). rewrite (json_roundtrip_image v W) in H. injection H as <-. now apply canon_eq_only.
  - intros E. now apply untagged_json_roundtrip.
Qed.

(* a second trip changes nothing: the JSON form is stable after one trip *)
Theorem untagged_json_second_trip : forall v, wf v = true ->
  of_json (to_json (canon v)) = Some (canon v).
Proof. intros v W. rewrite json_roundtrip_image by now apply wf_canon. now rewrite canon_idem. Qed.

(* F13 *)
Theorem untagged_json_enum_refuted :
  exists v, wf v = true /\
    exists v', of_json (to_json v) = Some v' /\ eqT v' v = false /\ fv_eq v' v = Ok false.
Proof. exists (Enum "foo"). split; [reflexivity|]. exists (Str "foo"). repeat split. Qed.

(* ---------- the other direction: JSON -> value -> JSON ---------- *)
Fixpoint wf_json (j : json) : bool :=
  match j with
  | JNum n => wf_jnum n
  | JArr l => forallb wf_json l
  | JObj _ => false
  | _ => true
  end.

Lemma sequence_map_some {A B} (f : A -> option B) (g : A -> B) (l : list A) :
  Forall (fun x => f x = Some (g x)) l -> sequence (map f l) = Some (map g l).
Proof. induction 1 as [|x r Hx _ IH]; cbn; [reflexivity | now rewrite Hx, IH]. Qed.

(* a canonical reading function for object-free JSON *)
Fixpoint read_json (j : json) : tval :=
  match j with
  | JNull => TvNull
  | JBool b => TvBool b
  | JNum (PosInt u) => if u <=? i64_max then TvI64 u else TvU64 u
  | JNum (NegInt i) => TvI64 i
  | JNum (JFloat b) => TvF64 b
  | JStr s => TvStr s
  | JArr l => TvList (map read_json l)
  | JObj _ => TvNull
  end.

Lemma tv_of_json_read : forall j, wf_json j = true ->
  tv_of_json j = Some (read_json j) /\ tv_to_json (read_json j) = j.
Proof.
  induction j as [|b|n|s|l IH|m] using json_ind'; intros W; try (split; reflexivity); try discriminate W.
  - destruct n as [u|i|b]; cbn [wf_json wf_jnum] in W.
    + cbn [tv_of_json de_unit de_i64 de_u64 read_json]. destruct (u <=? i64_max) eqn:E; split; try reflexivity.
      cbn [tv_to_json]. unfold num_of_i64. apply andb_prop in W. destruct W as [W1 _]. apply Z.leb_le in W1.
      destruct (Z.ltb_spec u 0); [lia | reflexivity].
    + split; [reflexivity|]. cbn [read_json tv_to_json]. unfold num_of_i64.
      apply andb_prop in W. destruct W as [_ W2]. now rewrite W2.
    + split; [reflexivity|]. cbn [read_json tv_to_json]. unfold json_of_f64. now rewrite W.
  - cbn [wf_json] in W. rewrite tv_of_json_arr. cbn [read_json tv_to_json].
    assert (H : Forall (fun x => tv_of_json x = Some (read_json x)) l /\ map tv_to_json (map read_json l) = l).
    { induction IH as [|x r Hx _ IHr]; [split; [constructor | reflexivity]|].
      cbn [forallb] in W. apply andb_prop in W. destruct W as [Wx Wr].
      destruct (Hx Wx) as [H1 H2]. destruct (IHr Wr) as [H3 H4]. split; [constructor; assumption|].
      cbn [map]. now rewrite H2, H4. }
    destruct H as [H1 H2]. rewrite (sequence_map_some _ _ _ H1). now rewrite H2.
Qed.

(* every object-free JSON document with representable numbers is accepted, and the value it is
   read to writes back the same document *)
Theorem json_value_json : forall j, wf_json j = true ->
  exists v, of_json j = Some v /\ to_json v = j.
Proof.
  intros j W. destruct (tv_of_json_read j W) as [H1 H2].
  exists (from_transparent (read_json j)). unfold of_json, to_json. rewrite H1. split; [reflexivity|].
  now rewrite transparent_roundtrip_conv.
Qed.

(* a JSON object matches no variant *)
Lemma json_object_refused m : of_json (JObj m) = None.
Proof. reflexivity. Qed.

(* ---------- 3. Type ---------- *)
Theorem type_serde_roundtrip : forall t, wf_ty t = true -> name_ok (tbase t) = true ->
  ty_of_json (ty_to_json t) = Ok (Some t).
Proof. intros t W N. unfold ty_of_json, ty_to_json. now apply parse_display_roundtrip. Qed.

(* ---------- 4. skip / default attributes ---------- *)
Theorem skip_default_field_roundtrip : forall (A : Type) (skip : A -> bool) (dflt : A),
  (forall v, field_de dflt (field_ser skip v) = v) <-> (forall v, skip v = true -> v = dflt).
Proof.
  intros A skip dflt. unfold field_de, field_ser. split.
  - intros H v S. specialize (H v). rewrite S in H. now symmetry.
  - intros H v. destruct (skip v) eqn:S; [symmetry; now apply H | reflexivity].
Qed.

Lemma attr_consistent_roundtrips a : attr_consistent a <-> attr_roundtrips a.
Proof. unfold attr_consistent, attr_roundtrips. symmetry. apply skip_default_field_roundtrip. Qed.

Lemma vec_attr_consistent st f A s : attr_consistent (vec_attr st f A s).
Proof. intros v. cbn. destruct v; [reflexivity | discriminate]. Qed.
Lemma map_attr_consistent st f K V s : attr_consistent (map_attr st f K V s).
Proof. intros v. cbn. destruct v; [reflexivity | discriminate]. Qed.
Lemma opt_attr_consistent st f A s : attr_consistent (opt_attr st f A s).
Proof. intros v. cbn. destruct v; [discriminate | reflexivity]. Qed.
Lemma ep_attr_consistent st f s : attr_consistent (ep_attr st f s).
Proof. intros v. cbn. destruct v as [[|x c]]; [reflexivity | discriminate]. Qed.
Lemma optional_attr_consistent : attr_consistent optional_attr.
Proof. intros v. cbn. destruct v; [discriminate | reflexivity]. Qed.

Theorem all_attrs_consistent : Forall attr_consistent attr_table.
Proof.
  unfold attr_table.
  repeat first [ apply Forall_nil | apply Forall_cons ];
    first [ apply vec_attr_consistent | apply map_attr_consistent | apply opt_attr_consistent
          | apply ep_attr_consistent | apply optional_attr_consistent ].
Qed.

Theorem all_attrs_roundtrip : Forall attr_roundtrips attr_table.
Proof.
  eapply Forall_impl; [|apply all_attrs_consistent]. intros a. apply attr_consistent_roundtrips.
Qed.

(* the obligation is not vacuous: with `default_optional` returning true the attribute of
   IREdge.optional would lose the value `false` *)
Lemma attr_wrong_default_refuted :
  ~ attr_consistent (mkAttr "IREdge" "optional" "is_false" "default_optional" bool is_false true true shape_bool).
Proof. intros H. specialize (H false eq_refl). discriminate H. Qed.

(* the samples of the table are values the predicate keeps, the defaults are values it skips
   (so the behavioural tie exercises both branches of every attribute) *)
Lemma attr_samples_ok :
  Forall (fun a => a_skip a (a_sample a) = false /\ a_skip a (a_default a) = true) attr_table.
Proof. unfold attr_table. repeat first [ apply Forall_nil | apply Forall_cons ]; split; reflexivity. Qed.
