(* Show.v — canonical text rendering of model results, mirrored by harness/src/show.rs.
   Used only by the correspondence check (cases_*.v files evaluated with vm_compute). *)
From Coq Require Import DecimalString.
From TF Require Import Values.
Open Scope string_scope.

Definition dz (z : Z) : string := NilZero.string_of_int (Z.to_int z).
Definition dn (n : N) : string := dz (Z.of_N n).
Definition dnat (n : nat) : string := dz (Z.of_nat n).

Definition hexdigit (n : N) : ascii :=
  ascii_of_N (if N.ltb n 10 then 48 + n else 87 + n).
Fixpoint hex (s : string) : string :=
  match s with
  | EmptyString => EmptyString
  | String a r => let n := N_of_ascii a in
                  String (hexdigit (N.div n 16)) (String (hexdigit (N.modulo n 16)) (hex r))
  end.

(* strings given as byte lists (for non-printable / non-ASCII literals written by the harness) *)
Definition sb (l : list N) : string := string_of_list_ascii (map ascii_of_N l).

Fixpoint show_fv (v : fv) : string :=
  match v with
  | Null => "n"
  | I64 z => "i" ++ dz z
  | U64 z => "u" ++ dz z
  | F64 b => "f" ++ dn b
  | Str s => "s" ++ hex s
  | Boolv b => if b then "T" else "F"
  | Enum s => "e" ++ hex s
  | List l => "[" ++ String.concat "," (map show_fv l) ++ "]"
  end.

Definition show_cmp (c : comparison) : string :=
  match c with Lt => "Lt" | Eq => "Eq" | Gt => "Gt" end.
Definition show_bool (b : bool) : string := if b then "T" else "F".
Definition show_res {A} (f : A -> string) (r : res A) : string :=
  match r with Ok a => f a | Panic s => "PANIC" end.
Definition show_opt {A} (f : A -> string) (r : option A) : string :=
  match r with Some a => "S(" ++ f a ++ ")" | None => "N" end.
