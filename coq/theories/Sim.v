(* Sim.v — refinement of the specification (Sem.v) by the interpreter model (Exec.v):
   the abstraction function asg_of maps a DataContext to the assignment it stands for; every stage of
   Exec.v, when it does not panic, maps contexts to contexts whose assignments are those of the
   corresponding Sem.v step. *)
From Coq Require Import Lia.
From TF Require Import Exec Sem ExecLemmas.
Local Open Scope string_scope.
Local Open Scope N_scope.
Local Open Scope list_scope.

(* ---------- abstraction function ---------- *)
Fixpoint asg_of (c : ctx) : asg :=
  match c with
  | mkCtx _ vs _ _ fcs _ _ _ =>
      Asg vs
          ((fix go (l : list (N * option (list ctx))) : list (N * option (list asg)) :=
              match l with
              | [] => []
              | (eid, o) :: r =>
                  (eid, match o with
                        | None => None
                        | Some els =>
                            Some ((fix go2 (l2 : list ctx) : list asg :=
                                     match l2 with [] => [] | x :: r2 => asg_of x :: go2 r2 end) els)
                        end) :: go r
              end) fcs)
  end.

Definition fc_asg (p : N * option (list ctx)) : N * option (list asg) :=
  (fst p, option_map (map asg_of) (snd p)).

Lemma asg_of_eq c : asg_of c = Asg (vertices c) (map fc_asg (folded_contexts c)).
Proof.
  destruct c as [a vs vals susp fcs fvs pb imp]. cbn [asg_of vertices folded_contexts].
  apply (f_equal (Asg vs)).
  induction fcs as [|[eid o] r IH]; [reflexivity|]. cbn [map]. rewrite <- IH.
  apply (f_equal (fun x => x :: _)).
  unfold fc_asg; cbn [fst snd]. apply (f_equal (pair eid)).
  destruct o as [els|]; [|reflexivity]. cbn [option_map]. apply (f_equal Some).
  induction els as [|x r2 IH2]; [reflexivity|]. cbn [map]. now rewrite <- IH2.
Qed.

Lemma a_v_asg_of c : a_v (asg_of c) = vertices c.
Proof. now rewrite asg_of_eq. Qed.
Lemma a_f_asg_of c : a_f (asg_of c) = map fc_asg (folded_contexts c).
Proof. now rewrite asg_of_eq. Qed.

(* a context between two stages *)
Definition clean (imp : list (fieldref * tagged)) (c : ctx) : Prop :=
  values c = [] /\ Forall (fun s => s = None) (suspended c) /\ piggyback c = None /\ imported_tags c = imp.

Definition is_some {A} (o : option A) : bool := match o with Some _ => true | None => false end.

Section Sim.
  Variable re_match : string -> string -> option bool.
  Variable g : graph.
  Variable args : list (string * fv).

  Notation holds := (holds re_match).
  Notation filter_passes := (filter_passes re_match).

  (* ---------- operators: the two dispatch tables agree ---------- *)
  Lemma static_tagged_agree op l r act b :
    apply_static re_match op l r act = Ok b -> apply_tagged re_match op l (Some r) act = Ok b.
  Proof.
    destruct op; cbn [apply_static apply_tagged apply_filter_op_with_tagged_argument]; try (intros H; exact H); try discriminate.
    - intros H. inv_bind H. unfold static_regex in Hx. destruct r; try discriminate.
      destruct (regex_new re_match s) as [pat|] eqn:E; [|discriminate]. injection Hx as <-.
      unfold apply_filter_op in *. destruct (negb act); [exact H|].
      unfold regex_matches_optimized in H. unfold regex_matches_slow_path. rewrite E.
      destruct l; try discriminate; exact H.
    - intros H. inv_bind H. unfold static_regex in Hx. destruct r; try discriminate.
      destruct (regex_new re_match s) as [pat|] eqn:E; [|discriminate]. injection Hx as <-.
      unfold apply_filter_op in *. destruct (negb act); [exact H|].
      unfold not_ in *. unfold regex_matches_optimized in H. unfold regex_matches_slow_path. rewrite E.
      destruct l; try discriminate; exact H.
  Qed.

  Lemma apply_tagged_inactive op l r b :
    apply_tagged re_match op l r false = Ok b -> b = true.
  Proof.
    destruct op, r; cbn; intros H; try discriminate; now injection H as <-.
  Qed.

  Lemma apply_tagged_none op l act b :
    apply_tagged re_match op l None act = Ok b -> b = true.
  Proof. destruct op; cbn; intros H; try discriminate; now injection H as <-. Qed.

  Lemma apply_tagged_not_unary op l r act b :
    apply_tagged re_match op l r act = Ok b -> opk_unary op = false.
  Proof. destruct op; cbn; intros H; try discriminate; reflexivity. Qed.

  Lemma apply_unary_spec' op l act b :
    apply_unary op l act = Some b ->
    opk_unary op = true /\ b = (negb act || holds_unary op l).
  Proof.
    destruct op; cbn; intros H; try discriminate; injection H as <-; split; try reflexivity;
      unfold holds_unary; cbn; destruct act; reflexivity.
  Qed.

  Lemma apply_unary_none op l act : apply_unary op l act = None -> opk_unary op = false.
  Proof. destruct op; cbn; intros H; try discriminate; reflexivity. Qed.

  (* the verdict of a binary filter on an evaluated right-hand side *)
  Lemma tagged_verdict op l (t : tagged) act b :
    apply_tagged re_match op l (match t with TSome v => Some v | TNone => None end) act = Ok b ->
    b = filter_passes op act l (Some t).
  Proof.
    intros H. pose proof (apply_tagged_not_unary _ _ _ _ _ H) as Hu.
    unfold Sem.filter_passes. rewrite Hu. destruct act; cbn [negb].
    - destruct t as [|v].
      + now apply apply_tagged_none in H.
      + unfold Sem.holds. now rewrite H.
    - now apply apply_tagged_inactive in H.
  Qed.

  (* ---------- tag values: Exec's lookups vs Sem's arg_value ---------- *)
  Lemma fold_count_value_spec ss imp c eid root t :
    has_fold ss eid = true ->
    fold_count_value eid c = Ok t ->
    t = count_value ss (asg_of c) imp (mkFF eid root).
  Proof.
    intros Hf H. unfold fold_count_value in H. unfold count_value. cbn [ff_eid]. rewrite Hf.
    rewrite a_f_asg_of.
    destruct (lookup_N eid (folded_contexts c)) as [o|] eqn:E; [|discriminate].
    assert (L : lookup_N eid (map fc_asg (folded_contexts c)) = Some (option_map (map asg_of) o)).
    { clear H. induction (folded_contexts c) as [|[k x] r IH]; [discriminate|].
      cbn in E |- *. destruct (N.eqb eid k); [now injection E as ->|auto]. }
    rewrite L. destruct o as [l|]; injection H as <-; cbn; [now rewrite map_length|reflexivity].
  Qed.

  Lemma context_field_value_spec vs imp c cf t :
    imported_tags c = imp ->
    context_field_value g vs cf c = Ok t ->
    t = context_value g vs (asg_of c) imp cf.
  Proof.
    intros Hi H. unfold context_field_value in H. unfold context_value. rewrite a_v_asg_of.
    destruct (find_vertex vs (cf_vid cf)) as [vtx|].
    - inv_bind H. unfold vertex_at in Hx. destruct (lookup_N (cf_vid cf) (vertices c)) as [ov|]; [|discriminate].
      injection Hx as ->. injection H as <-. destruct x; reflexivity.
    - unfold expect_some in H. rewrite Hi in H. destruct (lookup_ref (FRContext cf) imp); [now injection H as <-|discriminate].
  Qed.

  (* ---------- one filter on one context ---------- *)
  Lemma filter_one_spec vs ss imp cur cur_ty op arg sr c left o :
    clean imp c ->
    (forall x t, arg = Some (AVar x t) -> opk_unary op = false -> exists r, sr = Some r /\ lookup_str x args = Some r) ->
    filter_one re_match g vs ss cur cur_ty op arg sr (push_value c left) = Ok o ->
    o = if filter_passes op (is_some (active c)) left
             (option_map (arg_value g args vs ss imp (asg_of c) cur cur_ty (active c)) arg)
        then Some c else None.
  Proof.
    intros (Hv & Hs & Hp & Hi) Hsr H.
    unfold filter_one in H. cbn [bind pop_value push_value set_values values] in H.
    assert (Hc : set_values (push_value c left) (values c) = c).
    { destruct c; cbn. reflexivity. }
    cbn [fst snd] in H. rewrite !Hc in H.
    replace (match active c with Some _ => true | None => false end) with (is_some (active c)) in H by reflexivity.
    destruct (apply_unary op left (is_some (active c))) as [b|] eqn:EU.
    - injection H as <-. apply apply_unary_spec' in EU. destruct EU as (Hu & ->).
      unfold Sem.filter_passes. rewrite Hu. destruct (active c); cbn; reflexivity.
    - apply apply_unary_none in EU.
      destruct arg as [[fr|x t]|]; [| |discriminate].
      + destruct fr as [cf|ff].
        * inv_bind H. inv_bind H. injection H as <-.
          assert (Ht : x = arg_value g args vs ss imp (asg_of c) cur cur_ty (active c) (ATag (FRContext cf))).
          { cbn [arg_value]. destruct (N.eqb (cf_vid cf) cur).
            - injection Hx as <-. unfold resolve_prop, prop_of. reflexivity.
            - eapply context_field_value_spec; eauto. }
          rewrite (tagged_verdict _ _ _ _ _ Hx0). cbn [option_map]. rewrite <- Ht.
          destruct (filter_passes op (is_some (active c)) left (Some x)); reflexivity.
        * inv_bind H. inv_bind H. injection H as <-.
          assert (Ht : x = arg_value g args vs ss imp (asg_of c) cur cur_ty (active c) (ATag (FRFold ff))).
          { cbn [arg_value]. destruct ff as [eid root]. cbn [ff_eid] in Hx.
            destruct (has_fold ss eid) eqn:Hf.
            - eapply fold_count_value_spec; eauto.
            - unfold count_value. cbn [ff_eid]. rewrite Hf. unfold expect_some in Hx. rewrite Hi in Hx.
              destruct (lookup_ref (FRFold (mkFF eid root)) imp); [now injection Hx as <-|discriminate]. }
          rewrite (tagged_verdict _ _ _ _ _ Hx0). cbn [option_map]. rewrite <- Ht.
          destruct (filter_passes op (is_some (active c)) left (Some x)); reflexivity.
      + destruct (Hsr x t eq_refl EU) as (r & -> & Hl).
        cbn [expect_some bind] in H. inv_bind H. injection H as <-.
        apply static_tagged_agree in Hx.
        rewrite (tagged_verdict op left (TSome r) _ _ Hx). cbn [option_map arg_value]. rewrite Hl.
        destruct (filter_passes op (is_some (active c)) left (Some (TSome r))); reflexivity.
  Qed.

  (* ---------- entering a vertex ---------- *)
  Definition fpass (vs : list ir_vertex) (ss : list step) (imp : list (fieldref * tagged)) (v : ir_vertex)
             (f : vfilter) (c : ctx) : bool :=
    filter_passes (vf_op f) (is_some (active c)) (prop_of g (v_type v) (vf_field f) (active c))
                  (option_map (arg_value g args vs ss imp (asg_of c) (v_vid v) (v_type v) (active c)) (vf_arg f)).

  Lemma filter_filter {A} (p q : A -> bool) l :
    filter p (filter q l) = filter (fun x => q x && p x) l.
  Proof.
    induction l as [|x l IH]; [reflexivity|]. cbn [filter]. destruct (q x); cbn [filter andb]; [|exact IH].
    destruct (p x); now rewrite IH.
  Qed.

  Lemma clean_filter imp p cs : Forall (clean imp) cs -> Forall (clean imp) (filter p cs).
  Proof.
    intros H. apply Forall_forall. intros x Hx. apply filter_In in Hx. destruct Hx as (Hx & _).
    eapply Forall_forall in H; eauto.
  Qed.

  Lemma filter_stage_spec vs ss imp cur cur_ty op arg cs lefts r :
    Forall (clean imp) cs -> List.length lefts = List.length cs ->
    filter_stage re_match g args vs ss cur cur_ty op arg (map (fun cl => push_value (fst cl) (snd cl)) (combine cs lefts)) = Ok r ->
    r = flat_map (fun cl => if filter_passes op (is_some (active (fst cl))) (snd cl)
                                 (option_map (arg_value g args vs ss imp (asg_of (fst cl)) cur cur_ty (active (fst cl))) arg)
                            then [fst cl] else []) (combine cs lefts).
  Proof.
    intros Hc Hlen H. unfold filter_stage in H. inv_bind H.
    assert (Hsr : forall y t, arg = Some (AVar y t) -> opk_unary op = false ->
                              exists r0, x = Some r0 /\ lookup_str y args = Some r0).
    { intros y t -> Hu. rewrite Hu in Hx. inv_bind Hx. inv_bind Hx. injection Hx as <-.
      unfold arg_of, expect_some in Hx0. destruct (lookup_str y args) as [r0|]; [|discriminate].
      injection Hx0 as <-. eauto. }
    clear Hx. apply filter_mapM_ok in H. destruct H as (-> & HF).
    rewrite flat_map_map. apply flat_map_ext_in. intros [c left] Hin. cbn [fst snd].
    rewrite Forall_forall in HF. specialize (HF (push_value c left)).
    destruct HF as (o & Ho).
    { apply in_map_iff. exists (c, left). auto. }
    rewrite Ho. apply in_combine_l in Hin. rewrite Forall_forall in Hc. specialize (Hc _ Hin).
    rewrite (filter_one_spec _ _ _ _ _ _ _ _ _ _ _ Hc Hsr Ho).
    destruct (filter_passes op _ left _); reflexivity.
  Qed.

  Lemma local_filter_stage_spec vs ss imp v f cs r :
    Forall (clean imp) cs ->
    local_filter_stage re_match g args vs ss v f cs = Ok r ->
    r = filter (fpass vs ss imp v f) cs.
  Proof.
    intros Hc H. unfold local_filter_stage in H.
    set (lefts := map (fun c => resolve_prop g (v_type v) (vf_field f) c) cs).
    assert (Hm : map (fun c => push_value c (resolve_prop g (v_type v) (vf_field f) c)) cs =
                 map (fun cl => push_value (fst cl) (snd cl)) (combine cs lefts)).
    { subst lefts. clear. induction cs as [|c cs IH]; [reflexivity|]. cbn. now rewrite IH. }
    rewrite Hm in H. apply (filter_stage_spec _ _ imp) in H; auto.
    2:{ subst lefts. now rewrite map_length. }
    subst r lefts. rewrite flat_map_filter. clear Hm Hc.
    induction cs as [|c cs IH]; [reflexivity|]. cbn [map combine flat_map fst snd]. rewrite IH.
    reflexivity.
  Qed.

  Definition recorded (vid : N) (c : ctx) : ctx := set_vertices c (vertices c ++ [(vid, active c)]).

  Lemma clean_recorded imp vid c : clean imp c -> clean imp (recorded vid c).
  Proof. intros (H1 & H2 & H3 & H4). destruct c; cbn in *. repeat split; assumption. Qed.

  Lemma enter_vertex_spec vs ss imp v cs r :
    Forall (clean imp) cs ->
    enter_vertex re_match g args vs ss v cs = Ok r ->
    r = map (recorded (v_vid v))
            (filter (fun c => enter re_match g args vs ss imp (asg_of c) v (active c)) cs)
    /\ Forall (clean imp) r.
  Proof.
    intros Hc H. unfold enter_vertex in H. inv_bind H.
    assert (Hx' : x = filter (fun c => forallb (fun f => fpass vs ss imp v f c) (v_filters v)) (coerce_if_needed g v cs)
                  /\ Forall (clean imp) x).
    { assert (Hc0 : Forall (clean imp) (coerce_if_needed g v cs)).
      { unfold coerce_if_needed, perform_coercion. destruct (v_from v); [apply clean_filter|]; assumption. }
      revert Hx Hc0. generalize (coerce_if_needed g v cs) as cs0. generalize (v_filters v) as fs.
      induction fs as [|f fs IH]; cbn [foldM forallb]; intros cs0 Hx Hc0.
      - injection Hx as <-. split; [|assumption]. clear. induction cs0 as [|c l IHl]; [reflexivity|]. cbn. now rewrite <- IHl.
      - inv_bind Hx. apply (local_filter_stage_spec _ _ imp) in Hx0; [|assumption]. subst x0.
        destruct (IH _ Hx (clean_filter _ _ _ Hc0)) as (-> & Hcl). split; [|assumption].
        apply filter_filter. }
    destruct Hx' as (-> & Hcl).
    assert (Hr : r = map (recorded (v_vid v)) (filter (fun c => forallb (fun f => fpass vs ss imp v f c) (v_filters v)) (coerce_if_needed g v cs))).
    { eapply mapM_ok_map; [|exact H]. intros c y Hy. unfold record_vertex in Hy.
      destruct (has_key_N (v_vid v) (vertices c)); [discriminate|]. now injection Hy as <-. }
    split.
    - rewrite Hr. f_equal. unfold coerce_if_needed, perform_coercion.
      destruct (v_from v) as [from|] eqn:Ef.
      + rewrite filter_filter. apply filter_ext. intros c. unfold enter. rewrite Ef.
        unfold resolve_coerce, fpass, is_some. destruct (active c) as [x|].
        * rewrite Bool.orb_false_r. reflexivity.
        * rewrite Bool.orb_true_r. reflexivity.
      + apply filter_ext. intros c. unfold enter. rewrite Ef. unfold fpass, is_some.
        destruct (active c); reflexivity.
    - rewrite Hr. apply Forall_forall. intros y Hy. apply in_map_iff in Hy. destruct Hy as (c & <- & Hin).
      apply clean_recorded. rewrite Forall_forall in Hcl. auto.
  Qed.

  (* ---------- stages as per-context functions ---------- *)
  Definition frame (c x : ctx) : Prop :=
    folded_contexts x = folded_contexts c /\ folded_values x = folded_values c.

  Lemma frame_refl c : frame c c.  Proof. split; reflexivity. Qed.
  Lemma frame_trans a b c : frame a b -> frame b c -> frame a c.
  Proof. intros (H1 & H2) (H3 & H4). split; congruence. Qed.

  Definition act_at (c : ctx) (vid : N) : option vertex :=
    match lookup_N vid (vertices c) with Some v => v | None => None end.

  Lemma activate_vertex_ok c vid y : activate_vertex c vid = Ok y -> y = set_active c (act_at c vid).
  Proof.
    unfold activate_vertex, vertex_at, act_at. destruct (lookup_N vid (vertices c)); cbn; [|discriminate].
    now intros [= <-].
  Qed.

  Lemma find_vertex_vid vs vid v : find_vertex vs vid = Some v -> v_vid v = vid.
  Proof.
    induction vs as [|x vs IH]; cbn; [discriminate|]. destruct (N.eqb_spec (v_vid x) vid); [now intros [= <-]|auto].
  Qed.

  Lemma map_filter_flat_map {A B C} (h : B -> C) (p : B -> bool) (f : A -> list B) l :
    map h (filter p (flat_map f l)) = flat_map (fun x => map h (filter p (f x))) l.
  Proof.
    induction l as [|x l IH]; [reflexivity|]. cbn [flat_map]. now rewrite filter_app, map_app, IH.
  Qed.

  Lemma asg_of_set_active c v : asg_of (set_active c v) = asg_of c.
  Proof. now rewrite !asg_of_eq. Qed.
  Lemma asg_of_split c v : asg_of (split_and_move c v) = asg_of c.
  Proof. now rewrite !asg_of_eq. Qed.
  Lemma asg_of_recorded vid c : asg_of (recorded vid c) = set_av (asg_of c) vid (active c).
  Proof. rewrite !asg_of_eq. destruct c; reflexivity. Qed.

  Lemma clean_set_active imp c v : clean imp c -> clean imp (set_active c v).
  Proof. intros (H1 & H2 & H3 & H4). destruct c; cbn in *. repeat split; assumption. Qed.
  Lemma clean_split imp c v : clean imp c -> clean imp (split_and_move c v).
  Proof. intros (H1 & H2 & H3 & H4). destruct c; cbn in *. repeat split; auto. Qed.

  (* the candidates a non-recursive edge offers for a context *)
  Definition edge_cands (optional : bool) (c : ctx) (ns : list vertex) : list (option vertex) :=
    map Some ns ++
    (match active c with
     | None => [None]
     | Some _ => if optional then (match ns with [] => [None] | _ => [] end) else []
     end).

  Lemma edge_expander_cands optional c ns :
    edge_expander optional c ns = map (split_and_move c) (edge_cands optional c ns).
  Proof.
    unfold edge_expander, edge_cands. rewrite map_app, map_map.
    destruct (active c); [destruct optional; [destruct ns|]|]; reflexivity.
  Qed.

  Definition edge_F (vs : list ir_vertex) (ss : list step) (imp : list (fieldref * tagged))
             (e : ir_edge) (fromv tov : ir_vertex) (c : ctx) : list ctx :=
    let c' := set_active c (act_at c (e_from e)) in
    map (recorded (e_to e))
        (filter (fun x => enter re_match g args vs ss imp (asg_of x) tov (active x))
                (edge_expander (e_optional e) c' (resolve_nbrs g (v_type fromv) (e_name e) (e_params e) c'))).

  Lemma expand_edge_nonrec_F vs ss imp e cs r :
    e_rec e = None -> Forall (clean imp) cs ->
    expand_edge re_match g args vs ss e cs = Ok r ->
    exists fromv tov, find_vertex vs (e_from e) = Some fromv /\ find_vertex vs (e_to e) = Some tov /\
                      r = flat_map (edge_F vs ss imp e fromv tov) cs /\ Forall (clean imp) r.
  Proof.
    intros Hrec Hc H. unfold expand_edge in H. rewrite Hrec in H.
    inv_bind H. inv_bind H. inv_bind H.
    unfold vertex_of, expect_some in Hx, Hx0.
    destruct (find_vertex vs (e_from e)) as [fromv|] eqn:Ef; [|discriminate]. injection Hx as <-.
    destruct (find_vertex vs (e_to e)) as [tov|] eqn:Et; [|discriminate]. injection Hx0 as <-.
    exists fromv, tov. split; [reflexivity|]. split; [reflexivity|].
    unfold expand_non_recursive_edge in Hx1. inv_bind Hx1. injection Hx1 as <-.
    pose proof (find_vertex_vid _ _ _ Ef) as Hvf. pose proof (find_vertex_vid _ _ _ Et) as Hvt.
    rewrite Hvf in Hx.
    assert (Hx2 : x = map (fun c => set_active c (act_at c (e_from e))) cs).
    { eapply mapM_ok_map; [|exact Hx]. intros c y. apply activate_vertex_ok. }
    subst x.
    apply (enter_vertex_spec _ _ imp) in H.
    - destruct H as (-> & Hcl). split; [|exact Hcl].
      rewrite Hvt. rewrite flat_map_map. rewrite map_filter_flat_map. reflexivity.
    - apply Forall_forall. intros y Hy. apply in_flat_map in Hy. destruct Hy as (c' & Hc' & Hy).
      apply in_map_iff in Hc'. destruct Hc' as (c & <- & Hin).
      rewrite edge_expander_cands in Hy. apply in_map_iff in Hy. destruct Hy as (cand & <- & _).
      apply clean_split, clean_set_active. rewrite Forall_forall in Hc. auto.
  Qed.

  Lemma edge_F_sem vs ss imp e fromv tov c :
    e_rec e = None ->
    find_vertex vs (e_from e) = Some fromv -> find_vertex vs (e_to e) = Some tov ->
    map asg_of (edge_F vs ss imp e fromv tov c) = step_edge re_match g args vs ss imp e (asg_of c)
    /\ Forall (frame c) (edge_F vs ss imp e fromv tov c).
  Proof.
    intros Hrec Ef Et. unfold edge_F, step_edge. rewrite Ef, Et, Hrec. rewrite a_v_asg_of.
    set (c' := set_active c (act_at c (e_from e))).
    rewrite edge_expander_cands.
    split.
    - assert (Hcands : edge_cands (e_optional e) c' (resolve_nbrs g (v_type fromv) (e_name e) (e_params e) c') =
                       match lookup_N (e_from e) (vertices c) with
                       | Some (Some v) =>
                           match g_nbrs g (v_type fromv) (e_name e) (e_params e) v with
                           | [] => if e_optional e then [None] else []
                           | ns => map Some ns
                           end
                       | _ => [None]
                       end).
      { unfold edge_cands, resolve_nbrs. subst c'. destruct c as [a vts vals susp fcs fvs pb im]. cbn [set_active active vertices act_at].
        unfold act_at. cbn [vertices].
        destruct (lookup_N (e_from e) vts) as [[v|]|]; cbn [map app]; try reflexivity.
        destruct (g_nbrs g (v_type fromv) (e_name e) (e_params e) v) as [|n ns]; cbn [map app].
        - destruct (e_optional e); reflexivity.
        - destruct (e_optional e); now rewrite app_nil_r. }
      rewrite <- Hcands.
      generalize (edge_cands (e_optional e) c' (resolve_nbrs g (v_type fromv) (e_name e) (e_params e) c')) as cands.
      intros cands. induction cands as [|cand cands IH]; [reflexivity|].
      cbn [map filter flat_map]. rewrite asg_of_split. subst c'. rewrite asg_of_set_active.
      replace (active (split_and_move (set_active c (act_at c (e_from e))) cand)) with cand by (destruct c; reflexivity).
      destruct (enter re_match g args vs ss imp (asg_of c) tov cand); cbn [map app].
      + rewrite asg_of_recorded, asg_of_split, asg_of_set_active.
        replace (active (split_and_move (set_active c (act_at c (e_from e))) cand)) with cand by (destruct c; reflexivity).
        f_equal. exact IH.
      + exact IH.
    - apply Forall_forall. intros y Hy. apply in_map_iff in Hy. destruct Hy as (x & <- & Hx).
      apply filter_In in Hx. destruct Hx as (Hx & _). apply in_map_iff in Hx. destruct Hx as (cand & <- & _).
      subst c'. destruct c; split; reflexivity.
  Qed.
End Sim.
