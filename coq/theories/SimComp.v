(* SimComp.v — every edge stage refines Sem.step_edge; component-level refinement. *)
From Coq Require Import Lia.
From TF Require Import Exec Sem ExecLemmas Sim SimRec.
Local Open Scope string_scope.
Local Open Scope N_scope.
Local Open Scope list_scope.

(* neighbours do not depend on which of its static types the call names (part of "the dataset
   conforms to the schema"; graph_of_dataset satisfies it by construction) *)
Definition ty_indep (g : graph) : Prop :=
  forall t1 t2 e ps v, g_nbrs g t1 e ps v = g_nbrs g t2 e ps v.

Lemma graph_of_dataset_ty_indep d : ty_indep (graph_of_dataset d).
Proof. intros t1 t2 e ps v. reflexivity. Qed.

Definition edge_ok (e : ir_edge) : bool :=
  match e_rec e with Some r => negb (N.eqb (r_depth r) 0) | None => true end.

Section Comp.
  Variable re_match : string -> string -> option bool.
  Variable g : graph.
  Variable args : list (string * fv).
  Hypothesis Hind : ty_indep g.

  Lemma concat_map_filter {A B} (h : A -> B) (p : A -> bool) (xss : list (list A)) :
    map h (filter p (List.concat xss)) = List.concat (map (fun xs => map h (filter p xs)) xss).
  Proof.
    induction xss as [|xs xss IH]; [reflexivity|]. cbn [List.concat map]. now rewrite filter_app, map_app, IH.
  Qed.

  (* ---------- any edge stage ---------- *)
  Theorem expand_edge_spec vs ss imp e cs r :
    edge_ok e = true -> Forall (clean imp) cs ->
    expand_edge re_match g args vs ss e cs = Ok r ->
    map asg_of r = flat_map (step_edge re_match g args vs ss imp e) (map asg_of cs)
    /\ Forall (clean imp) r
    /\ Forall (fun x => exists c, In c cs /\ frame c x) r.
  Proof.
    intros Hok Hc H. destruct (e_rec e) as [r0|] eqn:Hrec.
    - (* recursive *)
      unfold edge_ok in Hok. rewrite Hrec in Hok.
      assert (Hd : r_depth r0 <> 0) by (destruct (N.eqb_spec (r_depth r0) 0); [discriminate|assumption]).
      destruct (expand_edge_rec_F re_match g args vs ss imp e r0 cs r Hrec Hd Hc H)
        as (fromv & tov & Ef & Et & HX).
      cbn zeta in HX. destruct HX as (xss & HF & -> & Hcl); [intros v; apply Hind|].
      split; [|split; [exact Hcl|]].
      + clear Hcl H. induction HF as [|c xs cs xss Hoff _ IH]; [reflexivity|].
        inversion Hc as [|? ? Hc1 Hc2]; subst. cbn [map List.concat flat_map].
        rewrite filter_app, !map_app. rewrite IH by assumption. f_equal.
        destruct (entered_offers re_match g args vs ss imp tov (e_to e) c _ xs Hoff) as (E1 & _).
        rewrite E1. unfold step_edge. rewrite Ef, Et, Hrec, a_v_asg_of. unfold act_at.
        destruct (lookup_N (e_from e) (vertices c)) as [[v|]|]; reflexivity.
      + clear Hcl H.
        apply Forall_forall. intros y Hy. apply in_map_iff in Hy. destruct Hy as (x & <- & Hx).
        apply filter_In in Hx. destruct Hx as (Hx & _).
        apply in_concat in Hx. destruct Hx as (xs & Hxs & Hx).
        assert (Hex : exists c, In c cs /\ Forall (fun x => asg_of x = asg_of c /\ clean imp x /\ frame c x) xs).
        { clear Hx. induction HF as [|c xs0 cs xss (_ & Hoff) _ IH]; [destruct Hxs|].
          destruct Hxs as [<-|Hxs]; [exists c; split; [now left|assumption]|].
          inversion Hc; subst. destruct (IH ltac:(assumption) Hxs) as (c' & Hin & HF'). exists c'. split; [now right|assumption]. }
        destruct Hex as (c & Hin & HFc). exists c. split; [assumption|].
        rewrite Forall_forall in HFc. destruct (HFc _ Hx) as (_ & _ & (F1 & F2)).
        destruct x; split; cbn in *; assumption.
    - (* plain / optional *)
      destruct (expand_edge_nonrec_F re_match g args vs ss imp e cs r Hrec Hc H)
        as (fromv & tov & Ef & Et & -> & Hcl).
      split; [|split; [exact Hcl|]].
      + rewrite map_flat_map, flat_map_map. apply flat_map_ext_in. intros c _.
        now destruct (edge_F_sem re_match g args vs ss imp e fromv tov c Hrec Ef Et).
      + apply Forall_forall. intros y Hy. apply in_flat_map in Hy. destruct Hy as (c & Hin & Hy).
        exists c. split; [assumption|].
        destruct (edge_F_sem re_match g args vs ss imp e fromv tov c Hrec Ef Et) as (_ & HF).
        rewrite Forall_forall in HF. auto.
  Qed.

  (* ---------- Sem's step loop, named ---------- *)
  Fixpoint sem_steps (vs : list ir_vertex) (ss : list step) (imp : list (fieldref * tagged))
           (todo : list step) (rows : list asg) {struct todo} : list asg :=
    match todo with
    | [] => rows
    | SEdge e :: r => sem_steps vs ss imp r (flat_map (step_edge re_match g args vs ss imp e) rows)
    | SFold h sub :: r =>
        sem_steps vs ss imp r (flat_map (step_fold re_match g args vs ss imp h (sem_comp re_match g args sub)) rows)
    end.

  Lemma sem_go_eq vs ss imp : forall todo rows,
    (fix go (todo : list step) (rows : list asg) {struct todo} : list asg :=
       match todo with
       | [] => rows
       | SEdge e :: r => go r (flat_map (step_edge re_match g args vs ss imp e) rows)
       | SFold h sub :: r => go r (flat_map (step_fold re_match g args vs ss imp h (sem_comp re_match g args sub)) rows)
       end) todo rows = sem_steps vs ss imp todo rows.
  Proof. induction todo as [|[e|h sub] t IH]; intros rows; cbn [sem_steps]; [reflexivity| |]; apply IH. Qed.

  Lemma sem_comp_eq root vs ss outs imp rootc :
    sem_comp re_match g args (mkComp root vs ss outs) imp rootc =
    match find_vertex vs root with
    | None => []
    | Some rv => if enter re_match g args vs ss imp (Asg [] []) rv rootc
                 then sem_steps vs ss imp ss [Asg [(root, rootc)] []] else []
    end.
  Proof.
    cbn [sem_comp]. destruct (find_vertex vs root) as [rv|]; [|reflexivity].
    destruct (enter re_match g args vs ss imp (Asg [] []) rv rootc); [|reflexivity].
    apply sem_go_eq.
  Qed.

  Lemma exec_go_eq vs ss : forall todo cs,
    (fix go (todo : list step) (cs : list ctx) {struct todo} : res (list ctx) :=
       match todo with
       | [] => Ok cs
       | SEdge e :: r => do cs' <- expand_edge re_match g args vs ss e cs; go r cs'
       | SFold h sub :: r => do cs' <- fold_step re_match g args vs ss h sub (compute_component re_match g args sub) cs; go r cs'
       end) todo cs = exec_steps re_match g args vs ss todo cs.
  Proof.
    induction todo as [|[e|h sub] t IH]; intros cs; cbn [exec_steps]; [reflexivity| |].
    - destruct (expand_edge re_match g args vs ss e cs); cbn [bind]; [apply IH|reflexivity].
    - destruct (fold_step re_match g args vs ss h sub (compute_component re_match g args sub) cs); cbn [bind]; [apply IH|reflexivity].
  Qed.

  Lemma compute_component_eq root vs ss outs cs :
    compute_component re_match g args (mkComp root vs ss outs) cs =
    (do rootv <- vertex_of vs root;
     do cs0 <- enter_vertex re_match g args vs ss rootv cs;
     exec_steps re_match g args vs ss ss cs0).
  Proof.
    cbn [compute_component]. destruct (vertex_of vs root) as [rootv|]; cbn [bind]; [|reflexivity].
    destruct (enter_vertex re_match g args vs ss rootv cs) as [cs0|]; cbn [bind]; [|reflexivity].
    apply exec_go_eq.
  Qed.

  (* ---------- fold-free step lists ---------- *)
  Fixpoint edges_only (todo : list step) : bool :=
    match todo with
    | [] => true
    | SEdge e :: r => edge_ok e && edges_only r
    | SFold _ _ :: _ => false
    end.

  Lemma exec_steps_edges_spec vs ss imp todo : forall cs r,
    edges_only todo = true -> Forall (clean imp) cs ->
    exec_steps re_match g args vs ss todo cs = Ok r ->
    map asg_of r = sem_steps vs ss imp todo (map asg_of cs)
    /\ Forall (clean imp) r
    /\ Forall (fun x => exists c, In c cs /\ frame c x) r.
  Proof.
    induction todo as [|[e|h sub] todo IH]; intros cs r Hok Hc H; cbn [exec_steps sem_steps edges_only] in *.
    - injection H as <-. split; [reflexivity|]. split; [assumption|].
      apply Forall_forall. intros x Hx. exists x. split; [assumption|apply frame_refl].
    - apply andb_prop in Hok. destruct Hok as (Hok1 & Hok2). inv_bind H.
      destruct (expand_edge_spec vs ss imp e cs x Hok1 Hc Hx) as (E1 & Hcl & Hfr).
      destruct (IH x r Hok2 Hcl H) as (E2 & Hcl2 & Hfr2).
      split; [now rewrite E2, E1|]. split; [assumption|].
      apply Forall_forall. intros y Hy. rewrite Forall_forall in Hfr2. destruct (Hfr2 _ Hy) as (m & Hm & Fm).
      rewrite Forall_forall in Hfr. destruct (Hfr _ Hm) as (c & Hin & Fc). exists c. split; [assumption|].
      eapply frame_trans; eassumption.
    - discriminate.
  Qed.

  Lemma sem_steps_nil vs ss imp todo : sem_steps vs ss imp todo [] = [].
  Proof. induction todo as [|[e|h s] t IHt]; cbn [sem_steps flat_map]; auto. Qed.

  Lemma sem_steps_app vs ss imp todo : forall l1 l2,
    sem_steps vs ss imp todo (l1 ++ l2) = sem_steps vs ss imp todo l1 ++ sem_steps vs ss imp todo l2.
  Proof. induction todo as [|[e|h s] t IHt]; intros; cbn [sem_steps]; [reflexivity| |]; now rewrite flat_map_app, IHt. Qed.

  (* ---------- a fold-free component ---------- *)
  Definition fresh (c : ctx) : Prop := vertices c = [] /\ folded_contexts c = [] /\ folded_values c = [].

  Theorem compute_component_edges_spec root vs ss outs imp cs r :
    edges_only ss = true -> Forall (clean imp) cs -> Forall fresh cs ->
    compute_component re_match g args (mkComp root vs ss outs) cs = Ok r ->
    map asg_of r = flat_map (fun c => sem_comp re_match g args (mkComp root vs ss outs) imp (active c)) cs
    /\ Forall (clean imp) r
    /\ Forall (fun x => folded_contexts x = [] /\ folded_values x = []) r.
  Proof.
    intros Hok Hc Hf H. rewrite compute_component_eq in H. inv_bind H. inv_bind H.
    unfold vertex_of, expect_some in Hx. destruct (find_vertex vs root) as [rv|] eqn:Er; [|discriminate].
    injection Hx as <-.
    pose proof (find_vertex_vid _ _ _ Er) as Hvid.
    destruct (enter_vertex_spec re_match g args vs ss imp rv cs x0 Hc Hx0) as (-> & Hcl0).
    destruct (exec_steps_edges_spec vs ss imp ss _ r Hok Hcl0 H) as (E & Hcl & Hfr).
    split; [|split; [assumption|]].
    - rewrite E. clear E H Hcl Hfr Hcl0 Hx0. revert Hc Hf.
      induction cs as [|c cs IH]; intros Hc Hf; [cbn [filter map flat_map]; apply sem_steps_nil|].
      inversion Hc as [|? ? Hc1 Hc2]; inversion Hf as [|? ? (F1 & F2 & F3) Hf2]; subst.
      cbn [filter flat_map]. rewrite sem_comp_eq, Er.
      assert (Ha : asg_of c = Asg [] []) by (rewrite asg_of_eq, F1, F2; reflexivity).
      rewrite Ha.
      destruct (enter re_match g args vs ss imp (Asg [] []) rv (active c)) eqn:Ee.
      + cbn [map]. rewrite asg_of_recorded, Ha. cbn [set_av a_v a_f app].
        match goal with |- sem_steps _ _ _ _ (?a :: ?l) = _ => change (a :: l) with ([a] ++ l) end.
        rewrite sem_steps_app. f_equal. apply IH; assumption.
      + apply IH; assumption.
    - apply Forall_forall. intros y Hy. rewrite Forall_forall in Hfr. destruct (Hfr _ Hy) as (m & Hm & (G1 & G2)).
      apply in_map_iff in Hm. destruct Hm as (c & <- & Hin). apply filter_In in Hin. destruct Hin as (Hin & _).
      rewrite Forall_forall in Hf. destruct (Hf _ Hin) as (F1 & F2 & F3).
      rewrite G1, G2. destruct c; cbn in *. split; assumption.
  Qed.
End Comp.
