(* SimFinal.v — the interpreter model refines the specification Sem for EVERY query, including those
   whose folds are truncated by take(min): Exec refines SemT (SimFullT) and SemT = Sem (EraseSem).
   Also: the static side conditions as one computable test, with soundness. *)
From Coq Require Import Lia.
From TF Require Import ValuesProofs Exec Sem ExecLemmas Sim SimRec SimComp SimOut SimTop FoldLimits SimFold FoldOut
     SimGen SimFull WfCheck SemT SimFoldT SimGenT SimFullT EraseSem.
Local Open Scope string_scope.
Local Open Scope N_scope.
Local Open Scope list_scope.

Section Final.
  Variable re_match : string -> string -> option bool.
  Variable g : graph.
  Variable args : list (string * fv).
  Hypothesis Hind : ty_indep g.

  Theorem interpret_refines_sem q rows :
    wf_comp_t [] (q_comp q) -> wf_out (q_comp q) -> NoDup (all_output_names (q_comp q)) ->
    erasable args (q_comp q) ->
    interpret re_match g args q = Ok rows ->
    Forall2 row_equiv rows (sem re_match g args q).
  Proof.
    intros H1 H2 H3 H4 H. rewrite <- (sem_t_eq_sem re_match g args q H4).
    exact (interpret_spec_t re_match g args Hind q rows H1 H2 H3 H).
  Qed.
End Final.

(* ---------- executable side conditions ---------- *)
Fixpoint wf_comp_tb (outer : list fieldref) (c : ir_component) {struct c} : bool :=
  match c with
  | mkComp _ vs ss _ =>
      (fix go (todo : list step) : bool :=
         match todo with
         | [] => true
         | SEdge e :: r => edge_ok e && go r
         | SFold h sub :: r => disjoint_keysb (fo_imported h) outer && wf_comp_tb (outer ++ fo_imported h) sub && go r
         end) ss
  end.

Lemma wf_comp_tb_sound : forall c outer, wf_comp_tb outer c = true -> wf_comp_t outer c.
Proof.
  induction c as [root vs ss outs IH] using comp_ind'. intros outer H. cbn [wf_comp_tb wf_comp_t] in *.
  induction IH as [|[e|h sub] r Hs _ IHr]; [exact I| |].
  - apply andb_prop in H. destruct H as (H1 & H2). split; [assumption|apply IHr; assumption].
  - apply andb_prop in H. destruct H as (H & H3). apply andb_prop in H. destruct H as (H1 & H2). cbn [Psub] in Hs.
    split; [|apply IHr; assumption]. split; [now apply disjoint_keysb_sound|apply Hs; assumption].
Qed.

Section ErasableB.
  Variable args : list (string * fv).

  Fixpoint erasableb (c : ir_component) {struct c} : bool :=
    match c with
    | mkComp _ vs ss _ =>
        reads_ok_here vs ss && nodupb N.eqb (steps_eids ss) &&
        (fix go (todo : list step) : bool :=
           match todo with
           | [] => true
           | SEdge _ :: r => go r
           | SFold h sub :: r =>
               (match trunc_of args vs ss h sub with Some m => Z.ltb m usize_max | None => true end)
               && erasableb sub && go r
           end) ss
    end.

  Lemma erasableb_sound : forall c, erasableb c = true -> erasable args c.
  Proof.
    induction c as [root vs ss outs IH] using comp_ind'. intros H. cbn [erasableb erasable] in *.
    apply andb_prop in H. destruct H as (H & H3). apply andb_prop in H. destruct H as (H1 & H2).
    split; [assumption|]. split; [apply (nodupb_sound N.eqb); [intros x y ->; apply N.eqb_refl|assumption]|].
    clear H1 H2.
    assert (G : forall todo,
               Forall (Psub (fun c => erasableb c = true -> erasable args c)) todo ->
               (fix go (todo : list step) : bool :=
                  match todo with
                  | [] => true
                  | SEdge _ :: r => go r
                  | SFold h sub :: r =>
                      (match trunc_of args vs ss h sub with Some m => Z.ltb m usize_max | None => true end)
                      && erasableb sub && go r
                  end) todo = true ->
               (fix go (todo : list step) : Prop :=
                  match todo with
                  | [] => True
                  | SEdge _ :: r => go r
                  | SFold h sub :: r =>
                      ((forall m, trunc_of args vs ss h sub = Some m -> (m < usize_max)%Z) /\ erasable args sub) /\ go r
                  end) todo).
    { intros todo HF. induction HF as [|[e|h sub] r Hs _ IHr]; intros Hb; [exact I|apply IHr; exact Hb|].
      apply andb_prop in Hb. destruct Hb as (Hb & Hc). apply andb_prop in Hb. destruct Hb as (Ha & Hb). cbn [Psub] in Hs.
      split; [|apply IHr; exact Hc]. split; [|apply Hs; exact Hb].
      intros m Hm. rewrite Hm in Ha. now apply Z.ltb_lt in Ha. }
    apply G; assumption.
  Qed.

  (* all hypotheses of interpret_refines_sem about the query, as one computable test *)
  Definition refine_hyps (q : ir_query) : bool :=
    wf_comp_tb [] (q_comp q) && wf_outb (q_comp q) && names_nodupb (q_comp q) && erasableb (q_comp q).

  Lemma refine_hyps_sound q : refine_hyps q = true ->
    wf_comp_t [] (q_comp q) /\ wf_out (q_comp q) /\ NoDup (all_output_names (q_comp q)) /\ erasable args (q_comp q).
  Proof.
    unfold refine_hyps. intros H. apply andb_prop in H. destruct H as (H & H4). apply andb_prop in H. destruct H as (H & H3).
    apply andb_prop in H. destruct H as (H1 & H2).
    split; [now apply wf_comp_tb_sound|]. split; [now apply wf_outb_sound|]. split; [now apply names_nodupb_sound|now apply erasableb_sound].
  Qed.
End ErasableB.

Theorem interpret_refines_sem_checked re g args q rows :
  ty_indep g -> refine_hyps args q = true ->
  interpret re g args q = Ok rows -> Forall2 row_equiv rows (sem re g args q).
Proof.
  intros Hi Hh. destruct (refine_hyps_sound args q Hh) as (H1 & H2 & H3 & H4).
  exact (interpret_refines_sem re g args Hi q rows H1 H2 H3 H4).
Qed.
