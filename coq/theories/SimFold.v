(* SimFold.v — the @fold stage refines Sem.step_fold (assignment level), given the refinement of the
   fold's sub-component. *)
From Coq Require Import Lia.
From TF Require Import Exec Sem ExecLemmas Sim SimRec SimComp FoldLimits.
Local Open Scope string_scope.
Local Open Scope N_scope.
Local Open Scope list_scope.

(* two contexts that differ at most in active vertex and imported tags *)
Definition same_core (c x : ctx) : Prop :=
  vertices x = vertices c /\ values x = values c /\ suspended x = suspended c /\
  folded_contexts x = folded_contexts c /\ folded_values x = folded_values c /\ piggyback x = piggyback c.

Lemma same_core_refl c : same_core c c.
Proof. repeat split. Qed.
Lemma same_core_trans a b c : same_core a b -> same_core b c -> same_core a c.
Proof. intros (A1&A2&A3&A4&A5&A6) (B1&B2&B3&B4&B5&B6). repeat split; congruence. Qed.

Lemma same_core_asg c x : same_core c x -> asg_of x = asg_of c.
Proof. intros (H1&_&_&H4&_). rewrite !asg_of_eq. now rewrite H1, H4. Qed.

Section Fold.
  Variable re_match : string -> string -> option bool.
  Variable g : graph.
  Variable args : list (string * fv).

  Notation import_value := (import_value g).

  Definition imports_of (vs : list ir_vertex) (ss : list step) (imp : list (fieldref * tagged)) (a : asg)
             (ts : list fieldref) (m : list (fieldref * tagged)) : list (fieldref * tagged) :=
    fold_left (fun m t => insert_ref t (import_value vs ss imp a t) m) ts m.

  (* ---- step 1: importing the tags ---- *)
  Lemma import_one_ctx vs ss imp t c y :
    (match t with
     | FRContext cf =>
         do fvtx <- vertex_of vs (cf_vid cf);
         (do c1 <- activate_vertex c (cf_vid cf);
          let value := resolve_prop g (v_type fvtx) (cf_name cf) c1 in
          do ov <- vertex_at c1 (cf_vid cf);
          let tv := match ov with Some _ => TSome value | None => TNone end in
          Ok (set_imported c1 (insert_ref t tv (imported_tags c1))))
     | FRFold ff =>
         do tv <- fold_count_value (ff_eid ff) c;
         Ok (set_imported c (insert_ref t tv (imported_tags c)))
     end) = Ok y ->
    same_core c y /\ imported_tags y = insert_ref t (import_value vs ss imp (asg_of c) t) (imported_tags c).
  Proof.
    destruct t as [cf|ff]; intros H; cbv beta iota in H.
    - inv_bind H. inv_bind H. cbv zeta in H. inv_bind H. cbv zeta in H. injection H as <-.
      unfold vertex_of, expect_some in Hx. destruct (find_vertex vs (cf_vid cf)) as [fvtx|] eqn:Ef; [|discriminate].
      injection Hx as <-. apply activate_vertex_ok in Hx0. subst x0.
      unfold vertex_at in Hx1.
      replace (vertices (set_active c (act_at c (cf_vid cf)))) with (vertices c) in Hx1 by (destruct c; reflexivity).
      destruct (lookup_N (cf_vid cf) (vertices c)) as [ov|] eqn:El; [|discriminate]. injection Hx1 as <-.
      split; [destruct c; repeat split|].
      cbn [import_value]. rewrite Ef, a_v_asg_of, El.
      replace (imported_tags (set_imported (set_active c (act_at c (cf_vid cf))) _)) with
        (insert_ref (FRContext cf)
           match ov with Some _ => TSome (resolve_prop g (v_type fvtx) (cf_name cf) (set_active c (act_at c (cf_vid cf)))) | None => TNone end
           (imported_tags c)) by (destruct c; reflexivity).
      f_equal. unfold resolve_prop, act_at. rewrite El. destruct ov; destruct c; reflexivity.
    - inv_bind H. injection H as <-. split; [destruct c; repeat split|].
      replace (imported_tags (set_imported c (insert_ref (FRFold ff) x (imported_tags c))))
        with (insert_ref (FRFold ff) x (imported_tags c)) by (destruct c; reflexivity).
      f_equal. cbn [import_value]. unfold fold_count_value in Hx. rewrite a_f_asg_of.
      destruct (lookup_N (ff_eid ff) (folded_contexts c)) as [o|] eqn:E; [|discriminate].
      assert (L : lookup_N (ff_eid ff) (map fc_asg (folded_contexts c)) = Some (option_map (map asg_of) o)).
      { clear Hx. induction (folded_contexts c) as [|[k z] r IH]; [discriminate|].
        cbn in E |- *. destruct (N.eqb (ff_eid ff) k); [now injection E as ->|auto]. }
      rewrite L. destruct o as [l|]; injection Hx as <-; cbn; [now rewrite map_length|reflexivity].
  Qed.

  Lemma Forall2_impl {A B} (R1 R2 : A -> B -> Prop) l1 l2 :
    (forall a b, R1 a b -> R2 a b) -> Forall2 R1 l1 l2 -> Forall2 R2 l1 l2.
  Proof. intros H. induction 1; constructor; auto. Qed.

  Lemma Forall2_compose {A B C} (R1 : A -> B -> Prop) (R2 : B -> C -> Prop) (R : A -> C -> Prop) l1 l2 l3 :
    (forall a b c, R1 a b -> R2 b c -> R a c) -> Forall2 R1 l1 l2 -> Forall2 R2 l2 l3 -> Forall2 R l1 l3.
  Proof.
    intros HR H1. revert l3. induction H1 as [|a b l1 l2 Hab _ IH]; intros l3 H2; inversion H2; subst; constructor; eauto.
  Qed.

  Lemma import_tags_spec vs ss imp ts : forall cs r,
    foldM (fun cs t =>
             match t with
             | FRContext cf =>
                 do fvtx <- vertex_of vs (cf_vid cf);
                 mapM (fun c =>
                         do c1 <- activate_vertex c (cf_vid cf);
                         let value := resolve_prop g (v_type fvtx) (cf_name cf) c1 in
                         do ov <- vertex_at c1 (cf_vid cf);
                         let tv := match ov with Some _ => TSome value | None => TNone end in
                         Ok (set_imported c1 (insert_ref t tv (imported_tags c1)))) cs
             | FRFold ff =>
                 mapM (fun c => do tv <- fold_count_value (ff_eid ff) c;
                                Ok (set_imported c (insert_ref t tv (imported_tags c)))) cs
             end) ts cs = Ok r ->
    Forall2 (fun c y => same_core c y /\
                        imported_tags y = imports_of vs ss imp (asg_of c) ts (imported_tags c)) cs r.
  Proof.
    induction ts as [|t ts IH]; intros cs r H; cbn [foldM imports_of fold_left] in *.
    - injection H as <-. clear. induction cs; constructor; [split; [apply same_core_refl|reflexivity]|assumption].
    - inv_bind H.
      assert (Hstep : Forall2 (fun c y => same_core c y /\
                                 imported_tags y = insert_ref t (import_value vs ss imp (asg_of c) t) (imported_tags c)) cs x).
      { destruct t as [cf|ff].
        - inv_bind Hx. apply mapM_ok in Hx. eapply Forall2_impl; [|exact Hx].
          intros c y Hy. apply (import_one_ctx vs ss imp (FRContext cf) c y). rewrite Hx0. cbn [bind]. exact Hy.
        - apply mapM_ok in Hx. eapply Forall2_impl; [|exact Hx].
          intros c y Hy. apply (import_one_ctx vs ss imp (FRFold ff) c y). exact Hy. }
      eapply Forall2_compose; [|exact Hstep|exact (IH _ _ H)].
      intros a b c (Hs1 & Hi1) (Hs2 & Hi2). split; [eapply same_core_trans; eassumption|].
      unfold imports_of in *. rewrite Hi2, Hi1. now rewrite (same_core_asg _ _ Hs1).
  Qed.

  (* ---- removing the imported tags restores the enclosing imports when the keys were fresh ---- *)
  Definition key_fresh (imp : list (fieldref * tagged)) (t : fieldref) : Prop := lookup_ref t imp = None.

  Lemma remove_insert_fresh {A} (k : fieldref) (a : A) m :
    lookup_ref k m = None -> remove_ref k (insert_ref k a m) = Some m.
  Proof.
    induction m as [|[k' a'] r IH]; cbn [lookup_ref insert_ref remove_ref]; intros H.
    - assert (E : fieldref_eqb k k = true).
      { destruct k as [c|f]; cbn; [now rewrite N.eqb_refl, String.eqb_refl|now rewrite N.eqb_refl]. }
      now rewrite E.
    - destruct (fieldref_eqb k k') eqn:E; [discriminate|]. cbn [remove_ref]. rewrite E. now rewrite (IH H).
  Qed.

  Lemma fieldref_eqb_refl k : fieldref_eqb k k = true.
  Proof. destruct k as [c|f]; cbn; [now rewrite N.eqb_refl, String.eqb_refl|now rewrite N.eqb_refl]. Qed.

  Lemma fieldref_eqb_sym a b : fieldref_eqb a b = fieldref_eqb b a.
  Proof. destruct a, b; cbn; try reflexivity; [now rewrite N.eqb_sym, String.eqb_sym|now rewrite N.eqb_sym]. Qed.

  Lemma fieldref_eqb_trans a b c : fieldref_eqb a b = true -> fieldref_eqb b c = true -> fieldref_eqb a c = true.
  Proof.
    destruct a, b, c; cbn; try discriminate; intros H1 H2.
    - apply andb_prop in H1, H2. destruct H1 as (A1 & A2), H2 as (B1 & B2).
      apply N.eqb_eq in A1, B1. apply String.eqb_eq in A2, B2. rewrite A1, B1, A2, B2.
      now rewrite N.eqb_refl, String.eqb_refl.
    - apply N.eqb_eq in H1, H2. rewrite H1, H2. apply N.eqb_refl.
  Qed.

  Lemma lookup_insert_other {A} (k t : fieldref) (a : A) m :
    fieldref_eqb k t = false -> lookup_ref k (insert_ref t a m) = lookup_ref k m.
  Proof.
    intros H. induction m as [|[k' a'] r IH]; cbn [insert_ref lookup_ref].
    - now rewrite H.
    - destruct (fieldref_eqb t k') eqn:E; cbn [lookup_ref].
      + rewrite H. destruct (fieldref_eqb k k') eqn:E2; [|reflexivity].
        exfalso. rewrite fieldref_eqb_sym in E. pose proof (fieldref_eqb_trans _ _ _ E2 E). congruence.
      + destruct (fieldref_eqb k k'); [reflexivity|exact IH].
  Qed.

  Lemma insert_app_fresh {A} (t : fieldref) (a : A) m ext :
    lookup_ref t m = None -> insert_ref t a (m ++ ext) = m ++ insert_ref t a ext.
  Proof.
    induction m as [|[k' a'] r IH]; cbn [app insert_ref lookup_ref]; intros H; [reflexivity|].
    destruct (fieldref_eqb t k'); [discriminate|]. now rewrite IH.
  Qed.

  Lemma remove_app_fresh {A} (t : fieldref) m (ext : list (fieldref * A)) :
    lookup_ref t m = None ->
    remove_ref t (m ++ ext) = option_map (app m) (remove_ref t ext).
  Proof.
    induction m as [|[k' a'] r IH]; cbn [app remove_ref lookup_ref]; intros H.
    - destruct (remove_ref t ext); reflexivity.
    - destruct (fieldref_eqb t k'); [discriminate|]. rewrite (IH H). destruct (remove_ref t ext); reflexivity.
  Qed.

  Lemma lookup_insert_same {A} (t : fieldref) (a : A) m : lookup_ref t (insert_ref t a m) = Some a.
  Proof.
    induction m as [|[k' a'] r IH]; cbn [insert_ref lookup_ref]; [now rewrite fieldref_eqb_refl|].
    destruct (fieldref_eqb t k') eqn:E; cbn [lookup_ref]; [now rewrite fieldref_eqb_refl|]. now rewrite E.
  Qed.

  Lemma lookup_eqb_compat {A} (m : list (fieldref * A)) k k' :
    fieldref_eqb k k' = true -> lookup_ref k m = lookup_ref k' m.
  Proof.
    intros H. induction m as [|[k2 a2] r IH]; cbn [lookup_ref]; [reflexivity|].
    destruct (fieldref_eqb k k2) eqn:E1, (fieldref_eqb k' k2) eqn:E2; try reflexivity; try exact IH.
    - exfalso. rewrite fieldref_eqb_sym in H. pose proof (fieldref_eqb_trans _ _ _ H E1). congruence.
    - exfalso. pose proof (fieldref_eqb_trans _ _ _ H E2). congruence.
  Qed.

  Fixpoint uniq {A} (ext : list (fieldref * A)) : Prop :=
    match ext with [] => True | (k, _) :: r => lookup_ref k r = None /\ uniq r end.

  Lemma insert_uniq {A} (t : fieldref) (a : A) ext : uniq ext -> uniq (insert_ref t a ext).
  Proof.
    induction ext as [|[k' a'] r IH]; cbn [insert_ref uniq]; intros H; [auto|].
    destruct H as (H1 & H2). destruct (fieldref_eqb t k') eqn:E; cbn [uniq].
    - split; [|assumption]. now rewrite (lookup_eqb_compat r t k' E).
    - split; [|auto]. rewrite lookup_insert_other; [assumption|]. now rewrite fieldref_eqb_sym.
  Qed.

  Lemma remove_none_iff {A} (t : fieldref) (ext : list (fieldref * A)) :
    remove_ref t ext = None <-> lookup_ref t ext = None.
  Proof.
    induction ext as [|[k' a'] r IH]; cbn [remove_ref lookup_ref]; [tauto|].
    destruct (fieldref_eqb t k'); [split; discriminate|]. destruct (remove_ref t r); rewrite <- IH; split; congruence.
  Qed.

  Lemma remove_uniq {A} (t : fieldref) (ext ext' : list (fieldref * A)) :
    uniq ext -> remove_ref t ext = Some ext' ->
    uniq ext' /\ lookup_ref t ext' = None /\
    (forall k, fieldref_eqb k t = false -> lookup_ref k ext' = lookup_ref k ext).
  Proof.
    revert ext'. induction ext as [|[k' a'] r IH]; cbn [remove_ref uniq]; intros ext' U0 H; [discriminate|].
    destruct U0 as (H1 & H2).
    destruct (fieldref_eqb t k') eqn:E.
    - injection H as <-. split; [assumption|]. split.
      + now rewrite (lookup_eqb_compat r t k' E).
      + intros k Hk. cbn [lookup_ref]. destruct (fieldref_eqb k k') eqn:E2; [|reflexivity].
        exfalso. rewrite fieldref_eqb_sym in E. pose proof (fieldref_eqb_trans _ _ _ E2 E). congruence.
    - destruct (remove_ref t r) as [r'|] eqn:Er; [|discriminate]. injection H as <-.
      destruct (IH _ H2 eq_refl) as (U & L & O). cbn [uniq lookup_ref]. split; [split; [|assumption]|split].
      + rewrite O; [assumption|]. destruct (fieldref_eqb k' t) eqn:E3; [|reflexivity]. rewrite fieldref_eqb_sym in E3. congruence.
      + now rewrite E.
      + intros k Hk. destruct (fieldref_eqb k k'); [reflexivity|]. now apply O.
  Qed.

  Definition remove_all {A} (ts : list fieldref) (m : list (fieldref * A)) : list (fieldref * A) :=
    fold_left (fun m t => match remove_ref t m with Some m' => m' | None => m end) ts m.

  Definition covered {A} (ts : list fieldref) (ext : list (fieldref * A)) : Prop :=
    forall k, lookup_ref k ext <> None -> exists t, In t ts /\ fieldref_eqb k t = true.

  Lemma remove_all_covered {A} ts : forall (ext : list (fieldref * A)),
    uniq ext -> covered ts ext -> remove_all ts ext = [].
  Proof.
    induction ts as [|t ts IH]; intros ext U C; cbn [remove_all fold_left].
    - destruct ext as [|[k a] r]; [reflexivity|]. exfalso.
      destruct (C k) as (t & [] & _). cbn [lookup_ref]. now rewrite fieldref_eqb_refl.
    - fold (@remove_all A ts). destruct (remove_ref t ext) as [ext'|] eqn:Er.
      + destruct (remove_uniq _ _ _ U Er) as (U' & L & O). apply IH; [assumption|].
        intros k Hk. destruct (fieldref_eqb k t) eqn:Ek.
        * exfalso. apply Hk. now rewrite (lookup_eqb_compat ext' k t Ek).
        * rewrite (O k Ek) in Hk. destruct (C k Hk) as (t' & [<-|Hin] & Ht'); [congruence|eauto].
      + apply remove_none_iff in Er. apply IH; [assumption|].
        intros k Hk. destruct (C k Hk) as (t' & [<-|Hin] & Ht'); [|eauto].
        exfalso. apply Hk. now rewrite (lookup_eqb_compat ext k t Ht').
  Qed.

  Lemma insert_all_props (vals : fieldref -> tagged) ts : forall ts0 ext,
    uniq ext -> covered ts0 ext -> incl ts ts0 ->
    uniq (fold_left (fun m t => insert_ref t (vals t) m) ts ext) /\
    covered ts0 (fold_left (fun m t => insert_ref t (vals t) m) ts ext).
  Proof.
    induction ts as [|t ts IH]; intros ts0 ext U C I; cbn [fold_left]; [auto|].
    apply IH; [now apply insert_uniq| |intros x Hx; apply I; now right].
    intros k Hk. destruct (fieldref_eqb k t) eqn:Ek.
    - exists t. split; [apply I; now left|assumption].
    - rewrite lookup_insert_other in Hk by assumption. auto.
  Qed.

  Lemma insert_all_app (vals : fieldref -> tagged) ts : forall m ext,
    Forall (key_fresh m) ts ->
    fold_left (fun m t => insert_ref t (vals t) m) ts (m ++ ext) =
    m ++ fold_left (fun m t => insert_ref t (vals t) m) ts ext.
  Proof.
    induction ts as [|t ts IH]; intros m ext F; cbn [fold_left]; [reflexivity|].
    inversion F as [|? ? Ft Fts]; subst. rewrite insert_app_fresh by exact Ft. now apply IH.
  Qed.

  Lemma remove_all_app {A} ts : forall m (ext : list (fieldref * A)),
    Forall (fun t => lookup_ref t m = None) ts -> remove_all ts (m ++ ext) = m ++ remove_all ts ext.
  Proof.
    induction ts as [|t ts IH]; intros m ext F; cbn [remove_all fold_left]; [reflexivity|].
    fold (@remove_all A ts). inversion F as [|? ? Ft Fts]; subst.
    rewrite remove_app_fresh by exact Ft. destruct (remove_ref t ext); cbn [option_map]; now apply IH.
  Qed.

  (* inserting the imported tags of a fold (keys fresh w.r.t. the enclosing imports) and removing
     them afterwards restores the enclosing imports exactly; repeated keys are harmless *)
  Theorem remove_all_inserted (vals : fieldref -> tagged) ts m :
    Forall (key_fresh m) ts ->
    remove_all ts (fold_left (fun m t => insert_ref t (vals t) m) ts m) = m.
  Proof.
    intros F. rewrite <- (app_nil_r m) at 1. rewrite insert_all_app by assumption.
    rewrite remove_all_app by exact F.
    destruct (insert_all_props vals ts ts (@nil (fieldref * tagged)) I (fun k H => False_ind _ (H eq_refl)) (incl_refl _)) as (U & C).
    rewrite (remove_all_covered ts _ U C). apply app_nil_r.
  Qed.

  (* ---------- the fold stage ---------- *)
  Definition fold_one (from : ir_vertex) (h : fold_hdr) (sub_compute : list ctx -> res (list ctx))
             (maxl minl : option Z) (c : ctx) : res (option ctx) :=
    let ns := resolve_nbrs g (v_type from) (fo_name h) (fo_params h) c in
    let imported := imported_tags c in
    do computed <- sub_compute (map (fun n => set_imported (ctx_new (Some n)) imported) ns);
    do ov <- vertex_at c (fo_from h);
    match (match ov with
           | Some _ => match collect_fold_elements computed maxl minl with
                       | Some els => Some (Some els)
                       | None => None
                       end
           | None => Some None
           end) with
    | None => Ok None
    | Some fold_elements =>
        if has_key_N (fo_eid h) (folded_contexts c)
        then Panic "execution.rs:compute_fold folded_contexts.insert_or_error"
        else
          let c1 := set_folded_contexts c (folded_contexts c ++ [(fo_eid h, fold_elements)]) in
          let imp := fold_left (fun m t => match remove_ref t m with Some m' => m' | None => m end)
                               (fo_imported h) (imported_tags c1) in
          Ok (Some (set_imported c1 imp))
    end.

  Definition count_left (eid : N) (c : ctx) : fv :=
    match lookup_N eid (folded_contexts c) with
    | Some (Some l) => U64 (Z.of_nat (List.length l))
    | _ => Null
    end.

  Definition ppass (vs : list ir_vertex) (ss : list step) (imp : list (fieldref * tagged))
             (h : fold_hdr) (from_ty : string) (pf : pfilter) (c : ctx) : bool :=
    filter_passes re_match (pf_op pf) (is_some (active c)) (count_left (fo_eid h) c)
                  (option_map (arg_value g args vs ss imp (asg_of c) (fo_from h) from_ty (active c)) (pf_arg pf)).

  Lemma post_filters_spec vs ss imp h from_ty : forall pfs cs r,
    Forall (clean imp) cs ->
    foldM (fun cs pf =>
             do cs' <- mapM (fun c => do tv <- fold_count_value (fo_eid h) c;
                                      match tv with
                                      | TSome v => Ok (push_value c v)
                                      | TNone => Ok (push_value c Null)
                                      end) cs;
             filter_stage re_match g args vs ss (fo_from h) from_ty (pf_op pf) (pf_arg pf) cs') pfs cs = Ok r ->
    r = filter (fun c => forallb (fun pf => ppass vs ss imp h from_ty pf c) pfs) cs.
  Proof.
    induction pfs as [|pf pfs IH]; intros cs r Hc H; cbn [foldM forallb] in *.
    - injection H as <-. clear. induction cs as [|c l IHl]; [reflexivity|]. cbn. now rewrite <- IHl.
    - inv_bind H. inv_bind Hx.
      assert (Hx1 : x0 = map (fun c => push_value c (count_left (fo_eid h) c)) cs).
      { eapply mapM_ok_map; [|exact Hx0]. intros c y Hy. cbv beta in Hy. inv_bind Hy. unfold fold_count_value in Hx1. unfold count_left.
        destruct (lookup_N (fo_eid h) (folded_contexts c)) as [[l|]|]; try discriminate; injection Hx1 as <-; now injection Hy as <-. }
      subst x0.
      set (lefts := map (count_left (fo_eid h)) cs).
      assert (Hm : map (fun c => push_value c (count_left (fo_eid h) c)) cs =
                   map (fun cl => push_value (fst cl) (snd cl)) (combine cs lefts)).
      { subst lefts. clear. induction cs as [|c cs IHc]; [reflexivity|]. cbn. now rewrite IHc. }
      rewrite Hm in Hx. apply (filter_stage_spec re_match g args vs ss imp) in Hx; auto.
      2:{ subst lefts. now rewrite map_length. }
      assert (Hx2 : flat_map (fun cl : ctx * fv =>
                        if filter_passes re_match (pf_op pf) (is_some (active (fst cl))) (snd cl)
                             (option_map (arg_value g args vs ss imp (asg_of (fst cl)) (fo_from h) from_ty (active (fst cl))) (pf_arg pf))
                        then [fst cl] else []) (combine cs lefts) = filter (ppass vs ss imp h from_ty pf) cs).
      { subst lefts. rewrite flat_map_filter. clear. induction cs as [|c cs IHc]; [reflexivity|].
        cbn [map combine flat_map fst snd]. rewrite IHc. reflexivity. }
      rewrite Hx2 in Hx. subst x. rewrite (IH _ _ (clean_filter _ _ _ Hc) H). apply filter_filter.
  Qed.

  (* the fold is not eligible for the min-count truncation (`take(min)`), or has no minimum *)
  Definition no_min_limit (vs : list ir_vertex) (ss : list step) (h : fold_hdr) (sub : ir_component) : Prop :=
    forall m, get_min_fold_count_limit args h = Ok (Some m) -> min_eligible vs ss h sub = false.

  Lemma collect_no_min {A} (l : list A) maxl :
    collect_fold_elements l maxl None = if match maxl with Some m => Z.ltb m (Z.of_nat (List.length l)) | None => false end
                                        then None else Some l.
  Proof. unfold collect_fold_elements. destruct maxl as [m|]; [destruct (Z.ltb m _)|]; reflexivity. Qed.

  (* what fold_one yields for one prepared context *)
  Lemma fold_one_spec (Pimp : list (fieldref * tagged) -> Prop) (Q : ctx -> Prop) vs ss imp h sub sub_compute fromv maxl c c2 o :
    (forall imp' cs' r', Pimp imp' -> Forall (clean imp') cs' -> Forall fresh cs' -> sub_compute cs' = Ok r' ->
        map asg_of r' = flat_map (fun x => sem_comp re_match g args sub imp' (active x)) cs' /\ Forall Q r') ->
    (forall a, Pimp (imports_of vs ss imp a (fo_imported h) imp)) ->
    find_vertex vs (fo_from h) = Some fromv ->
    get_max_fold_count_limit args h = Ok maxl ->
    Forall (key_fresh imp) (fo_imported h) ->
    clean imp c ->
    same_core c c2 ->
    imported_tags c2 = imports_of vs ss imp (asg_of c) (fo_imported h) imp ->
    active c2 = act_at c (fo_from h) ->
    fold_one fromv h sub_compute maxl None c2 = Ok o ->
    (* the surviving context (before post-filters) stands for the assignment Sem builds, or the
       fold was dropped because it exceeds the maximum — in which case Sem drops it too *)
    match o with
    | Some y =>
        clean imp y /\ active y = act_at c (fo_from h) /\ vertices y = vertices c /\
        folded_values y = folded_values c /\ lookup_N (fo_eid h) (folded_contexts c) = None /\
        exists fe, folded_contexts y = folded_contexts c ++ [(fo_eid h, fe)] /\
          match lookup_N (fo_from h) (vertices c) with
          | Some (Some v) =>
              exists els, fe = Some els /\
                map asg_of els = flat_map (fun n => sem_comp re_match g args sub (imports_of vs ss imp (asg_of c) (fo_imported h) imp) (Some n))
                                          (g_nbrs g (v_type fromv) (fo_name h) (fo_params h) v) /\
                Forall Q els
          | _ => fe = None
          end
    | None =>
        exists v, lookup_N (fo_from h) (vertices c) = Some (Some v) /\
          step_fold re_match g args vs ss imp h (sem_comp re_match g args sub) (asg_of c) = []
    end.
  Proof.
    intros Hsub Hpimp Ef Hmax Hfresh Hc Hsc Himp Hact H.
    destruct Hc as (Hv & Hs & Hp & Hi). destruct Hsc as (S1 & S2 & S3 & S4 & S5 & S6).
    unfold fold_one in H. cbv zeta in H. inv_bind H. inv_bind H.
    set (imp' := imports_of vs ss imp (asg_of c) (fo_imported h) imp) in *.
    set (ns := resolve_nbrs g (v_type fromv) (fo_name h) (fo_params h) c2) in *.
    (* the sub-component run *)
    assert (Hcomp : map asg_of x = flat_map (fun n => sem_comp re_match g args sub imp' (Some n)) ns /\ Forall Q x).
    { rewrite Himp in Hx.
      assert (F1 : Forall (clean imp') (map (fun n : vertex => set_imported (ctx_new (Some n)) imp') ns)).
      { apply Forall_forall. intros y Hy. apply in_map_iff in Hy. destruct Hy as (n & <- & _). repeat split; constructor. }
      assert (F2 : Forall fresh (map (fun n : vertex => set_imported (ctx_new (Some n)) imp') ns)).
      { apply Forall_forall. intros y Hy. apply in_map_iff in Hy. destruct Hy as (n & <- & _). repeat split. }
      destruct (Hsub imp' _ _ (Hpimp _) F1 F2 Hx) as (Hsub1 & HsubQ). split; [|exact HsubQ]. rewrite Hsub1.
      rewrite flat_map_map. apply flat_map_ext_in. intros n _. reflexivity. }
    destruct Hcomp as (Hcomp & HQx).
    unfold vertex_at in Hx0. rewrite S1 in Hx0.
    destruct (lookup_N (fo_from h) (vertices c)) as [ov|] eqn:El; [|discriminate]. injection Hx0 as <-.
    assert (Hns : ns = match ov with Some v => g_nbrs g (v_type fromv) (fo_name h) (fo_params h) v | None => [] end).
    { subst ns. unfold resolve_nbrs. rewrite Hact. unfold act_at. rewrite El. destruct ov; reflexivity. }
    assert (Hrest : forall fe,
               (if has_key_N (fo_eid h) (folded_contexts c2)
                then Panic "execution.rs:compute_fold folded_contexts.insert_or_error"
                else Ok (Some (set_imported (set_folded_contexts c2 (folded_contexts c2 ++ [(fo_eid h, fe)]))
                                 (fold_left (fun m t => match remove_ref t m with Some m' => m' | None => m end)
                                            (fo_imported h)
                                            (imported_tags (set_folded_contexts c2 (folded_contexts c2 ++ [(fo_eid h, fe)]))))))) = Ok o ->
               exists y, o = Some y /\ clean imp y /\ active y = act_at c (fo_from h) /\ vertices y = vertices c /\
                         folded_values y = folded_values c /\ lookup_N (fo_eid h) (folded_contexts c) = None /\
                         folded_contexts y = folded_contexts c ++ [(fo_eid h, fe)]).
    { intros fe Hr. destruct (has_key_N (fo_eid h) (folded_contexts c2)) eqn:Ehk; [discriminate|].
      assert (Hlk : lookup_N (fo_eid h) (folded_contexts c) = None).
      { unfold has_key_N in Ehk. rewrite S4 in Ehk. destruct (lookup_N (fo_eid h) (folded_contexts c)); [discriminate|reflexivity]. }
      assert (Hrm : fold_left (fun m t => match remove_ref t m with Some m' => m' | None => m end) (fo_imported h)
                      (imported_tags (set_folded_contexts c2 (folded_contexts c2 ++ [(fo_eid h, fe)]))) = imp).
      { replace (imported_tags (set_folded_contexts c2 (folded_contexts c2 ++ [(fo_eid h, fe)]))) with (imported_tags c2)
          by (destruct c2; reflexivity).
        rewrite Himp. subst imp'. unfold imports_of. apply (remove_all_inserted _ _ _ Hfresh). }
      rewrite Hrm in Hr. injection Hr as <-.
      eexists. split; [reflexivity|].
      destruct c2 as [a2 vs2 vals2 susp2 fcs2 fvs2 pb2 im2]. cbn in *. subst.
      repeat split; auto. }
    destruct ov as [v|].
    - (* the fold's origin exists *)
      rewrite collect_no_min in H.
      destruct (match maxl with Some m => Z.ltb m (Z.of_nat (List.length x)) | None => false end) eqn:Emax.
      + (* too many elements: dropped; Sem drops it as a count filter fails *)
        injection H as <-. exists v. split; [reflexivity|].
        destruct maxl as [m|]; [|discriminate]. apply Z.ltb_lt in Emax.
        unfold step_fold. rewrite Ef, a_v_asg_of, El.
        unfold imp', imports_of in Hcomp. rewrite Hns in Hcomp. rewrite <- Hcomp.
        rewrite (max_limit_sound re_match g args vs ss imp _ (fo_from h) (v_type fromv) (Some v) h m _ Hmax); [reflexivity|].
        rewrite map_length. exact Emax.
      + destruct (Hrest (Some x) H) as (y0 & Hy0 & Hcl & Ha & Hvy & Hfv & Hlk & Hfc).
        first [subst o | (injection Hy0 as <-)].
        split; [assumption|]. split; [assumption|]. split; [assumption|]. split; [assumption|]. split; [assumption|].
        exists (Some x). split; [assumption|]. exists x. split; [reflexivity|]. split; [|exact HQx].
        rewrite Hcomp, Hns. reflexivity.
    - destruct (Hrest None H) as (y0 & Hy0 & Hcl & Ha & Hvy & Hfv & Hlk & Hfc).
      first [subst o | (injection Hy0 as <-)].
      split; [assumption|]. split; [assumption|]. split; [assumption|]. split; [assumption|]. split; [assumption|].
      exists None. split; [assumption|reflexivity].
  Qed.

  Lemma forallb_ext {A} (f h : A -> bool) l : (forall x, f x = h x) -> forallb f l = forallb h l.
  Proof. intros E. induction l as [|x l IH]; [reflexivity|]. cbn. now rewrite E, IH. Qed.

  Lemma lookup_N_app_fresh {A} (k : N) (l : list (N * A)) v :
    lookup_N k l = None -> lookup_N k (l ++ [(k, v)]) = Some v.
  Proof.
    induction l as [|[k' a] r IH]; cbn [app lookup_N]; [now rewrite N.eqb_refl|].
    destruct (N.eqb k k'); [discriminate|exact IH].
  Qed.

  Lemma asg_of_folded y c eid fe :
    vertices y = vertices c -> folded_contexts y = folded_contexts c ++ [(eid, fe)] ->
    asg_of y = set_af (asg_of c) eid (option_map (map asg_of) fe).
  Proof.
    intros Hv Hf. rewrite !asg_of_eq. unfold set_af. cbn [a_v a_f]. rewrite Hv, Hf, map_app. reflexivity.
  Qed.

  (* what remains of one incoming context after the fold has been computed and its count filters applied *)
  Definition after_fold (Q : ctx -> Prop) (vs : list ir_vertex) (ss : list step) (imp : list (fieldref * tagged)) (h : fold_hdr)
             (sub : ir_component) (c : ctx) (ys : list ctx) : Prop :=
    map asg_of ys = step_fold re_match g args vs ss imp h (sem_comp re_match g args sub) (asg_of c) /\
    Forall (fun y => clean imp y /\ vertices y = vertices c /\ folded_values y = folded_values c /\
                     lookup_N (fo_eid h) (folded_contexts c) = None /\
                     exists fe, folded_contexts y = folded_contexts c ++ [(fo_eid h, fe)] /\
                                match fe with Some els => Forall Q els | None => True end) ys.

  Theorem fold_step_spec (Pimp : list (fieldref * tagged) -> Prop) (Q : ctx -> Prop) vs ss imp h sub sub_compute cs r :
    (forall imp' cs' r', Pimp imp' -> Forall (clean imp') cs' -> Forall fresh cs' -> sub_compute cs' = Ok r' ->
        map asg_of r' = flat_map (fun x => sem_comp re_match g args sub imp' (active x)) cs' /\ Forall Q r') ->
    (forall a, Pimp (imports_of vs ss imp a (fo_imported h) imp)) ->
    no_min_limit vs ss h sub ->
    Forall (key_fresh imp) (fo_imported h) ->
    Forall (clean imp) cs ->
    fold_step re_match g args vs ss h sub sub_compute cs = Ok r ->
    exists yss, Forall2 (after_fold Q vs ss imp h sub) cs yss /\
                mapM (fold_outputs_one g h sub) (List.concat yss) = Ok r.
  Proof.
    intros Hsub Hpimp Hnomin Hfresh Hc H. unfold fold_step in H.
    inv_bind H. unfold vertex_of, expect_some in Hx. destruct (find_vertex vs (fo_from h)) as [fromv|] eqn:Ef; [|discriminate].
    injection Hx as <-.
    inv_bind H. apply (import_tags_spec vs ss imp) in Hx. rename x into cs1.
    inv_bind H. assert (Hcs2 : x = map (fun y => set_active y (act_at y (fo_from h))) cs1).
    { eapply mapM_ok_map; [|exact Hx0]. intros y z. apply activate_vertex_ok. }
    subst x. clear Hx0.
    inv_bind H. rename x into maxl. rename Hx0 into Hmax.
    inv_bind H. rename x into minl0.
    assert (Hminl : match minl0 with
                    | Some m => if min_eligible vs ss h sub then Some m else None
                    | None => None end = None).
    { destruct minl0 as [m|]; [|reflexivity]. now rewrite (Hnomin m Hx0). }
    cbv zeta in H. rewrite Hminl in H. clear Hminl Hx0.
    inv_bind H. rename x into cs3.
    change (filter_mapM _ (map (fun y => set_active y (act_at y (fo_from h))) cs1) = Ok cs3)
      with (filter_mapM (fold_one fromv h sub_compute maxl None) (map (fun y => set_active y (act_at y (fo_from h))) cs1) = Ok cs3) in Hx0.
    apply filter_mapM_ok in Hx0. destruct Hx0 as (-> & HallOk).
    inv_bind H. rename x into cs4.
    (* per-context analysis of the survivors *)
    assert (Hper : exists yss0,
               Forall2 (fun c ys => Forall (clean imp) ys /\
                          ys = match fold_one fromv h sub_compute maxl None (set_active c (act_at c (fo_from h))) with
                               | Ok (Some y) => [y] | _ => [] end) cs1 yss0 /\
               flat_map (fun x => match fold_one fromv h sub_compute maxl None x with Ok (Some y) => [y] | _ => [] end)
                        (map (fun y => set_active y (act_at y (fo_from h))) cs1) = List.concat yss0).
    { clear H Hx0. revert cs Hc Hx. induction cs1 as [|y cs1 IH]; intros cs Hc Hx.
      - exists []. split; constructor.
      - inversion Hx as [|c ? cs' ? (Hs & Hi) Hx']; subst. inversion Hc as [|? ? Hc1 Hc2]; subst.
        inversion HallOk as [|? ? (o & Ho) HallOk']; subst.
        destruct (IH HallOk' cs' Hc2 Hx') as (yss0 & F & E).
        eexists (_ :: yss0). split.
        + constructor; [|exact F]. split; [|reflexivity].
          rewrite Ho. destruct o as [y3|]; [|constructor].
          assert (Hi' : imported_tags (set_active y (act_at y (fo_from h))) = imports_of vs ss imp (asg_of c) (fo_imported h) imp).
          { replace (imported_tags (set_active y (act_at y (fo_from h)))) with (imported_tags y) by (destruct y; reflexivity).
            rewrite Hi. destruct Hc1 as (_ & _ & _ & Hic). now rewrite Hic. }
          assert (Hs' : same_core c (set_active y (act_at y (fo_from h)))).
          { destruct Hs as (S1&S2&S3&S4&S5&S6). destruct y; cbn in *. repeat split; assumption. }
          assert (Ha' : active (set_active y (act_at y (fo_from h))) = act_at c (fo_from h)).
          { destruct Hs as (S1&_). unfold act_at. rewrite S1. destruct y; reflexivity. }
          pose proof (fold_one_spec Pimp Q vs ss imp h sub sub_compute fromv maxl c _ _ Hsub Hpimp Ef Hmax Hfresh Hc1 Hs' Hi' Ha' Ho) as Hspec.
          cbn beta iota in Hspec. destruct Hspec as (Hcl & _). constructor; [exact Hcl|constructor].
        + cbn [map flat_map List.concat]. now rewrite E. }
    destruct Hper as (yss0 & HF0 & Hcat). rewrite Hcat in Hx0.
    assert (Hcl3 : Forall (clean imp) (List.concat yss0)).
    { clear - HF0. induction HF0 as [|c ys l yss (Hcl & _) _ IH]; [constructor|]. cbn [List.concat]. apply Forall_app. auto. }
    apply (post_filters_spec vs ss imp h (v_type fromv)) in Hx0; [|exact Hcl3]. subst cs4.
    (* assemble per incoming context *)
    exists (map (filter (fun c0 => forallb (fun pf => ppass vs ss imp h (v_type fromv) pf c0) (fo_post h))) yss0).
    split.
    - clear H Hcat Hcl3. revert cs Hc Hx yss0 HF0 HallOk.
      induction cs1 as [|y cs1 IH]; intros cs Hc Hx yss0 HF0 HallOk.
      + inversion Hx; subst. inversion HF0; subst. constructor.
      + inversion Hx as [|c ? cs' ? (Hs & Hi) Hx']; subst. inversion Hc as [|? ? Hc1 Hc2]; subst.
        inversion HF0 as [|? ys ? yss' (Hcl & Hys) HF0']; subst.
        inversion HallOk as [|? ? (o & Ho) HallOk']; subst.
        cbn [map]. constructor; [|apply (IH cs' Hc2 Hx' yss' HF0' HallOk')].
        assert (Hi' : imported_tags (set_active y (act_at y (fo_from h))) = imports_of vs ss imp (asg_of c) (fo_imported h) imp).
        { replace (imported_tags (set_active y (act_at y (fo_from h)))) with (imported_tags y) by (destruct y; reflexivity).
          rewrite Hi. destruct Hc1 as (_ & _ & _ & Hic). now rewrite Hic. }
        assert (Hs' : same_core c (set_active y (act_at y (fo_from h)))).
        { destruct Hs as (S1&S2&S3&S4&S5&S6). destruct y; cbn in *. repeat split; assumption. }
        assert (Ha' : active (set_active y (act_at y (fo_from h))) = act_at c (fo_from h)).
        { destruct Hs as (S1&_). unfold act_at. rewrite S1. destruct y; reflexivity. }
        pose proof (fold_one_spec Pimp Q vs ss imp h sub sub_compute fromv maxl c _ _ Hsub Hpimp Ef Hmax Hfresh Hc1 Hs' Hi' Ha' Ho) as Hspec.
        rewrite Ho. cbn beta iota in Hspec. destruct o as [y3|].
        * destruct Hspec as (Hcl3 & Hact & Hv3 & Hfv3 & Hlk & fe & Hfc & Hfe).
          pose proof (asg_of_folded y3 c (fo_eid h) fe Hv3 Hfc) as Hasg.
          unfold after_fold. cbn [filter].
          assert (Hcount : count_left (fo_eid h) y3 = match fe with Some els => U64 (Z.of_nat (List.length els)) | None => Null end).
          { unfold count_left. rewrite Hfc, (lookup_N_app_fresh _ _ fe Hlk). destruct fe; reflexivity. }
          unfold step_fold. rewrite Ef, a_v_asg_of.
          destruct (lookup_N (fo_from h) (vertices c)) as [[v|]|] eqn:El.
          -- destruct Hfe as (els & -> & Hels & HQels). cbn [option_map] in Hasg.
             fold (imports_of vs ss imp (asg_of c) (fo_imported h) imp). rewrite <- Hels.
             rewrite map_length.
             assert (Hpp : forallb (fun pf => ppass vs ss imp h (v_type fromv) pf y3) (fo_post h) =
                           forallb (fun pf => filter_passes re_match (pf_op pf) true (U64 (Z.of_nat (List.length els)))
                                                (option_map (arg_value g args vs ss imp (set_af (asg_of c) (fo_eid h) (Some (map asg_of els)))
                                                               (fo_from h) (v_type fromv) (Some v)) (pf_arg pf))) (fo_post h)).
             { apply forallb_ext. intros pf. unfold ppass. rewrite Hcount, Hasg, Hact. unfold act_at. rewrite El. reflexivity. }
             rewrite Hpp.
             match goal with |- context [if ?b then [y3] else []] => destruct b end.
             ++ split; [cbn [map]; now rewrite Hasg|]. constructor; [|constructor].
                split; [assumption|]. split; [assumption|]. split; [assumption|]. split; [assumption|].
                eexists; split; [eassumption|]; first [exact HQels | exact I].
             ++ split; [reflexivity|constructor].
          -- subst fe. cbn [option_map] in Hasg.
             assert (Hpp : forallb (fun pf => ppass vs ss imp h (v_type fromv) pf y3) (fo_post h) = true).
             { apply forallb_forall. intros pf _. unfold ppass. rewrite Hact. unfold act_at. rewrite El. reflexivity. }
             rewrite Hpp. split; [cbn [map]; now rewrite Hasg|]. constructor; [|constructor].
             split; [assumption|]. split; [assumption|]. split; [assumption|]. split; [assumption|].
                eexists; split; [eassumption|]; first [exact HQels | exact I].
          -- subst fe. cbn [option_map] in Hasg.
             assert (Hpp : forallb (fun pf => ppass vs ss imp h (v_type fromv) pf y3) (fo_post h) = true).
             { apply forallb_forall. intros pf _. unfold ppass. rewrite Hact. unfold act_at. rewrite El. reflexivity. }
             rewrite Hpp. split; [cbn [map]; now rewrite Hasg|]. constructor; [|constructor].
             split; [assumption|]. split; [assumption|]. split; [assumption|]. split; [assumption|].
                eexists; split; [eassumption|]; first [exact HQels | exact I].
        * destruct Hspec as (v & El & Hnil). unfold after_fold. cbn [filter map]. rewrite Hnil. split; [reflexivity|constructor].
    - assert (Hfc : filter (fun c0 => forallb (fun pf => ppass vs ss imp h (v_type fromv) pf c0) (fo_post h)) (List.concat yss0)
                    = List.concat (map (filter (fun c0 => forallb (fun pf => ppass vs ss imp h (v_type fromv) pf c0) (fo_post h))) yss0)).
      { clear. induction yss0 as [|ys yss IH]; [reflexivity|]. cbn [List.concat map]. now rewrite filter_app, IH. }
      rewrite <- Hfc. exact H.
  Qed.
End Fold.
