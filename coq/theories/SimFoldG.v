(* SimFoldG.v — SimFold's fold lemmas generalised over an abstract specification `sub_sem` of the fold's
   sub-component (SimFold.v's versions are the instance sub_sem := sem_comp re_match g args sub).
   Generated from SimFold.v by replacing that term; the proofs only use the hypothesis about sub_compute. *)
From Coq Require Import Lia.
From TF Require Import ValuesProofs Exec Sem ExecLemmas Sim SimRec SimComp FoldLimits SimFold.
Local Open Scope string_scope.
Local Open Scope N_scope.
Local Open Scope list_scope.

Section FoldG.
  Variable re_match : string -> string -> option bool.
  Variable g : graph.
  Variable args : list (string * fv).
  Variable sub_sem : imports -> option vertex -> list asg.

  Notation imports_of := (SimFold.imports_of g).
  Notation fold_one := (SimFold.fold_one g).
  Notation ppass := (SimFold.ppass re_match g args).
  Notation post_filters_spec := (SimFold.post_filters_spec re_match g args).
  Notation import_tags_spec := (SimFold.import_tags_spec g).
  Notation no_min_limit := (SimFold.no_min_limit args).

  (* what fold_one yields for one prepared context *)
  Lemma fold_one_spec_gen (Pimp : list (fieldref * tagged) -> Prop) (Q : ctx -> Prop) vs ss imp h (sub : ir_component) sub_compute fromv maxl c c2 o :
    (forall imp' cs' r', Pimp imp' -> Forall (clean imp') cs' -> Forall fresh cs' -> sub_compute cs' = Ok r' ->
        map asg_of r' = flat_map (fun x => sub_sem imp' (active x)) cs' /\ Forall Q r') ->
    (forall a, Pimp (imports_of vs ss imp a (fo_imported h) imp)) ->
    find_vertex vs (fo_from h) = Some fromv ->
    get_max_fold_count_limit args h = Ok maxl ->
    Forall (key_fresh imp) (fo_imported h) ->
    clean imp c ->
    same_core c c2 ->
    imported_tags c2 = imports_of vs ss imp (asg_of c) (fo_imported h) imp ->
    active c2 = act_at c (fo_from h) ->
    fold_one fromv h sub_compute maxl None c2 = Ok o ->
    (* the surviving context (before post-filters) stands for the assignment Sem builds, or the
       fold was dropped because it exceeds the maximum — in which case Sem drops it too *)
    match o with
    | Some y =>
        clean imp y /\ active y = act_at c (fo_from h) /\ vertices y = vertices c /\
        folded_values y = folded_values c /\ lookup_N (fo_eid h) (folded_contexts c) = None /\
        exists fe, folded_contexts y = folded_contexts c ++ [(fo_eid h, fe)] /\
          match lookup_N (fo_from h) (vertices c) with
          | Some (Some v) =>
              exists els, fe = Some els /\
                map asg_of els = flat_map (fun n => sub_sem (imports_of vs ss imp (asg_of c) (fo_imported h) imp) (Some n))
                                          (g_nbrs g (v_type fromv) (fo_name h) (fo_params h) v) /\
                Forall Q els
          | _ => fe = None
          end
    | None =>
        exists v, lookup_N (fo_from h) (vertices c) = Some (Some v) /\
          step_fold re_match g args vs ss imp h sub_sem (asg_of c) = []
    end.
  Proof.
    intros Hsub Hpimp Ef Hmax Hfresh Hc Hsc Himp Hact H.
    destruct Hc as (Hv & Hs & Hp & Hi). destruct Hsc as (S1 & S2 & S3 & S4 & S5 & S6).
    unfold fold_one in H. cbv zeta in H. inv_bind H. inv_bind H.
    set (imp' := imports_of vs ss imp (asg_of c) (fo_imported h) imp) in *.
    set (ns := resolve_nbrs g (v_type fromv) (fo_name h) (fo_params h) c2) in *.
    (* the sub-component run *)
    assert (Hcomp : map asg_of x = flat_map (fun n => sub_sem imp' (Some n)) ns /\ Forall Q x).
    { rewrite Himp in Hx.
      assert (F1 : Forall (clean imp') (map (fun n : vertex => set_imported (ctx_new (Some n)) imp') ns)).
      { apply Forall_forall. intros y Hy. apply in_map_iff in Hy. destruct Hy as (n & <- & _). repeat split; constructor. }
      assert (F2 : Forall fresh (map (fun n : vertex => set_imported (ctx_new (Some n)) imp') ns)).
      { apply Forall_forall. intros y Hy. apply in_map_iff in Hy. destruct Hy as (n & <- & _). repeat split. }
      destruct (Hsub imp' _ _ (Hpimp _) F1 F2 Hx) as (Hsub1 & HsubQ). split; [|exact HsubQ]. rewrite Hsub1.
      rewrite flat_map_map. apply flat_map_ext_in. intros n _. reflexivity. }
    destruct Hcomp as (Hcomp & HQx).
    unfold vertex_at in Hx0. rewrite S1 in Hx0.
    destruct (lookup_N (fo_from h) (vertices c)) as [ov|] eqn:El; [|discriminate]. injection Hx0 as <-.
    assert (Hns : ns = match ov with Some v => g_nbrs g (v_type fromv) (fo_name h) (fo_params h) v | None => [] end).
    { subst ns. unfold resolve_nbrs. rewrite Hact. unfold act_at. rewrite El. destruct ov; reflexivity. }
    assert (Hrest : forall fe,
               (if has_key_N (fo_eid h) (folded_contexts c2)
                then Panic "execution.rs:compute_fold folded_contexts.insert_or_error"
                else Ok (Some (set_imported (set_folded_contexts c2 (folded_contexts c2 ++ [(fo_eid h, fe)]))
                                 (fold_left (fun m t => match remove_ref t m with Some m' => m' | None => m end)
                                            (fo_imported h)
                                            (imported_tags (set_folded_contexts c2 (folded_contexts c2 ++ [(fo_eid h, fe)]))))))) = Ok o ->
               exists y, o = Some y /\ clean imp y /\ active y = act_at c (fo_from h) /\ vertices y = vertices c /\
                         folded_values y = folded_values c /\ lookup_N (fo_eid h) (folded_contexts c) = None /\
                         folded_contexts y = folded_contexts c ++ [(fo_eid h, fe)]).
    { intros fe Hr. destruct (has_key_N (fo_eid h) (folded_contexts c2)) eqn:Ehk; [discriminate|].
      assert (Hlk : lookup_N (fo_eid h) (folded_contexts c) = None).
      { unfold has_key_N in Ehk. rewrite S4 in Ehk. destruct (lookup_N (fo_eid h) (folded_contexts c)); [discriminate|reflexivity]. }
      assert (Hrm : fold_left (fun m t => match remove_ref t m with Some m' => m' | None => m end) (fo_imported h)
                      (imported_tags (set_folded_contexts c2 (folded_contexts c2 ++ [(fo_eid h, fe)]))) = imp).
      { replace (imported_tags (set_folded_contexts c2 (folded_contexts c2 ++ [(fo_eid h, fe)]))) with (imported_tags c2)
          by (destruct c2; reflexivity).
        rewrite Himp. subst imp'. unfold imports_of. apply (remove_all_inserted _ _ _ Hfresh). }
      rewrite Hrm in Hr. injection Hr as <-.
      eexists. split; [reflexivity|].
      destruct c2 as [a2 vs2 vals2 susp2 fcs2 fvs2 pb2 im2]. cbn in *. subst.
      repeat split; auto. }
    destruct ov as [v|].
    - (* the fold's origin exists *)
      rewrite collect_no_min in H.
      destruct (match maxl with Some m => Z.ltb m (Z.of_nat (List.length x)) | None => false end) eqn:Emax.
      + (* too many elements: dropped; Sem drops it as a count filter fails *)
        injection H as <-. exists v. split; [reflexivity|].
        destruct maxl as [m|]; [|discriminate]. apply Z.ltb_lt in Emax.
        unfold step_fold. rewrite Ef, a_v_asg_of, El.
        unfold imp', imports_of in Hcomp. rewrite Hns in Hcomp. rewrite <- Hcomp.
        rewrite (max_limit_sound re_match g args vs ss imp _ (fo_from h) (v_type fromv) (Some v) h m _ Hmax); [reflexivity|].
        rewrite map_length. exact Emax.
      + destruct (Hrest (Some x) H) as (y0 & Hy0 & Hcl & Ha & Hvy & Hfv & Hlk & Hfc).
        first [subst o | (injection Hy0 as <-)].
        split; [assumption|]. split; [assumption|]. split; [assumption|]. split; [assumption|]. split; [assumption|].
        exists (Some x). split; [assumption|]. exists x. split; [reflexivity|]. split; [|exact HQx].
        rewrite Hcomp, Hns. reflexivity.
    - destruct (Hrest None H) as (y0 & Hy0 & Hcl & Ha & Hvy & Hfv & Hlk & Hfc).
      first [subst o | (injection Hy0 as <-)].
      split; [assumption|]. split; [assumption|]. split; [assumption|]. split; [assumption|]. split; [assumption|].
      exists None. split; [assumption|reflexivity].
  Qed.

  (* what remains of one incoming context after the fold has been computed and its count filters applied *)
  Definition after_fold_gen (Q : ctx -> Prop) (vs : list ir_vertex) (ss : list step) (imp : list (fieldref * tagged)) (h : fold_hdr)
             (sub : ir_component) (c : ctx) (ys : list ctx) : Prop :=
    map asg_of ys = step_fold re_match g args vs ss imp h sub_sem (asg_of c) /\
    Forall (fun y => clean imp y /\ vertices y = vertices c /\ folded_values y = folded_values c /\
                     lookup_N (fo_eid h) (folded_contexts c) = None /\
                     exists fe, folded_contexts y = folded_contexts c ++ [(fo_eid h, fe)] /\
                                match fe with Some els => Forall Q els | None => True end) ys.

  Theorem fold_step_spec_gen (Pimp : list (fieldref * tagged) -> Prop) (Q : ctx -> Prop) vs ss imp h sub sub_compute cs r :
    (forall imp' cs' r', Pimp imp' -> Forall (clean imp') cs' -> Forall fresh cs' -> sub_compute cs' = Ok r' ->
        map asg_of r' = flat_map (fun x => sub_sem imp' (active x)) cs' /\ Forall Q r') ->
    (forall a, Pimp (imports_of vs ss imp a (fo_imported h) imp)) ->
    no_min_limit vs ss h sub ->
    Forall (key_fresh imp) (fo_imported h) ->
    Forall (clean imp) cs ->
    fold_step re_match g args vs ss h sub sub_compute cs = Ok r ->
    exists yss, Forall2 (after_fold_gen Q vs ss imp h sub) cs yss /\
                mapM (fold_outputs_one g h sub) (List.concat yss) = Ok r.
  Proof.
    intros Hsub Hpimp Hnomin Hfresh Hc H. unfold fold_step in H.
    inv_bind H. unfold vertex_of, expect_some in Hx. destruct (find_vertex vs (fo_from h)) as [fromv|] eqn:Ef; [|discriminate].
    injection Hx as <-.
    inv_bind H. apply (import_tags_spec vs ss imp) in Hx. rename x into cs1.
    inv_bind H. assert (Hcs2 : x = map (fun y => set_active y (act_at y (fo_from h))) cs1).
    { eapply mapM_ok_map; [|exact Hx0]. intros y z. apply activate_vertex_ok. }
    subst x. clear Hx0.
    inv_bind H. rename x into maxl. rename Hx0 into Hmax.
    inv_bind H. rename x into minl0.
    assert (Hminl : match minl0 with
                    | Some m => if min_eligible vs ss h sub then Some m else None
                    | None => None end = None).
    { destruct minl0 as [m|]; [|reflexivity]. now rewrite (Hnomin m Hx0). }
    cbv zeta in H. rewrite Hminl in H. clear Hminl Hx0.
    inv_bind H. rename x into cs3.
    change (filter_mapM _ (map (fun y => set_active y (act_at y (fo_from h))) cs1) = Ok cs3)
      with (filter_mapM (fold_one fromv h sub_compute maxl None) (map (fun y => set_active y (act_at y (fo_from h))) cs1) = Ok cs3) in Hx0.
    apply filter_mapM_ok in Hx0. destruct Hx0 as (-> & HallOk).
    inv_bind H. rename x into cs4.
    (* per-context analysis of the survivors *)
    assert (Hper : exists yss0,
               Forall2 (fun c ys => Forall (clean imp) ys /\
                          ys = match fold_one fromv h sub_compute maxl None (set_active c (act_at c (fo_from h))) with
                               | Ok (Some y) => [y] | _ => [] end) cs1 yss0 /\
               flat_map (fun x => match fold_one fromv h sub_compute maxl None x with Ok (Some y) => [y] | _ => [] end)
                        (map (fun y => set_active y (act_at y (fo_from h))) cs1) = List.concat yss0).
    { clear H Hx0. revert cs Hc Hx. induction cs1 as [|y cs1 IH]; intros cs Hc Hx.
      - exists []. split; constructor.
      - inversion Hx as [|c ? cs' ? (Hs & Hi) Hx']; subst. inversion Hc as [|? ? Hc1 Hc2]; subst.
        inversion HallOk as [|? ? (o & Ho) HallOk']; subst.
        destruct (IH HallOk' cs' Hc2 Hx') as (yss0 & F & E).
        eexists (_ :: yss0). split.
        + constructor; [|exact F]. split; [|reflexivity].
          rewrite Ho. destruct o as [y3|]; [|constructor].
          assert (Hi' : imported_tags (set_active y (act_at y (fo_from h))) = imports_of vs ss imp (asg_of c) (fo_imported h) imp).
          { replace (imported_tags (set_active y (act_at y (fo_from h)))) with (imported_tags y) by (destruct y; reflexivity).
            rewrite Hi. destruct Hc1 as (_ & _ & _ & Hic). now rewrite Hic. }
          assert (Hs' : same_core c (set_active y (act_at y (fo_from h)))).
          { destruct Hs as (S1&S2&S3&S4&S5&S6). destruct y; cbn in *. repeat split; assumption. }
          assert (Ha' : active (set_active y (act_at y (fo_from h))) = act_at c (fo_from h)).
          { destruct Hs as (S1&_). unfold act_at. rewrite S1. destruct y; reflexivity. }
          pose proof (fold_one_spec_gen Pimp Q vs ss imp h sub sub_compute fromv maxl c _ _ Hsub Hpimp Ef Hmax Hfresh Hc1 Hs' Hi' Ha' Ho) as Hspec.
          cbn beta iota in Hspec. destruct Hspec as (Hcl & _). constructor; [exact Hcl|constructor].
        + cbn [map flat_map List.concat]. now rewrite E. }
    destruct Hper as (yss0 & HF0 & Hcat). rewrite Hcat in Hx0.
    assert (Hcl3 : Forall (clean imp) (List.concat yss0)).
    { clear - HF0. induction HF0 as [|c ys l yss (Hcl & _) _ IH]; [constructor|]. cbn [List.concat]. apply Forall_app. auto. }
    apply (post_filters_spec vs ss imp h (v_type fromv)) in Hx0; [|exact Hcl3]. subst cs4.
    (* assemble per incoming context *)
    exists (map (filter (fun c0 => forallb (fun pf => ppass vs ss imp h (v_type fromv) pf c0) (fo_post h))) yss0).
    split.
    - clear H Hcat Hcl3. revert cs Hc Hx yss0 HF0 HallOk.
      induction cs1 as [|y cs1 IH]; intros cs Hc Hx yss0 HF0 HallOk.
      + inversion Hx; subst. inversion HF0; subst. constructor.
      + inversion Hx as [|c ? cs' ? (Hs & Hi) Hx']; subst. inversion Hc as [|? ? Hc1 Hc2]; subst.
        inversion HF0 as [|? ys ? yss' (Hcl & Hys) HF0']; subst.
        inversion HallOk as [|? ? (o & Ho) HallOk']; subst.
        cbn [map]. constructor; [|apply (IH cs' Hc2 Hx' yss' HF0' HallOk')].
        assert (Hi' : imported_tags (set_active y (act_at y (fo_from h))) = imports_of vs ss imp (asg_of c) (fo_imported h) imp).
        { replace (imported_tags (set_active y (act_at y (fo_from h)))) with (imported_tags y) by (destruct y; reflexivity).
          rewrite Hi. destruct Hc1 as (_ & _ & _ & Hic). now rewrite Hic. }
        assert (Hs' : same_core c (set_active y (act_at y (fo_from h)))).
        { destruct Hs as (S1&S2&S3&S4&S5&S6). destruct y; cbn in *. repeat split; assumption. }
        assert (Ha' : active (set_active y (act_at y (fo_from h))) = act_at c (fo_from h)).
        { destruct Hs as (S1&_). unfold act_at. rewrite S1. destruct y; reflexivity. }
        pose proof (fold_one_spec_gen Pimp Q vs ss imp h sub sub_compute fromv maxl c _ _ Hsub Hpimp Ef Hmax Hfresh Hc1 Hs' Hi' Ha' Ho) as Hspec.
        rewrite Ho. cbn beta iota in Hspec. destruct o as [y3|].
        * destruct Hspec as (Hcl3 & Hact & Hv3 & Hfv3 & Hlk & fe & Hfc & Hfe).
          pose proof (asg_of_folded y3 c (fo_eid h) fe Hv3 Hfc) as Hasg.
          unfold after_fold_gen. cbn [filter].
          assert (Hcount : count_left (fo_eid h) y3 = match fe with Some els => U64 (Z.of_nat (List.length els)) | None => Null end).
          { unfold count_left. rewrite Hfc, (lookup_N_app_fresh _ _ fe Hlk). destruct fe; reflexivity. }
          unfold step_fold. rewrite Ef, a_v_asg_of.
          destruct (lookup_N (fo_from h) (vertices c)) as [[v|]|] eqn:El.
          -- destruct Hfe as (els & -> & Hels & HQels). cbn [option_map] in Hasg.
             fold (imports_of vs ss imp (asg_of c) (fo_imported h) imp). rewrite <- Hels.
             rewrite map_length.
             assert (Hpp : forallb (fun pf => ppass vs ss imp h (v_type fromv) pf y3) (fo_post h) =
                           forallb (fun pf => filter_passes re_match (pf_op pf) true (U64 (Z.of_nat (List.length els)))
                                                (option_map (arg_value g args vs ss imp (set_af (asg_of c) (fo_eid h) (Some (map asg_of els)))
                                                               (fo_from h) (v_type fromv) (Some v)) (pf_arg pf))) (fo_post h)).
             { apply forallb_ext. intros pf. unfold ppass. rewrite Hcount, Hasg, Hact. unfold act_at. rewrite El. reflexivity. }
             rewrite Hpp.
             match goal with |- context [if ?b then [y3] else []] => destruct b end.
             ++ split; [cbn [map]; now rewrite Hasg|]. constructor; [|constructor].
                split; [assumption|]. split; [assumption|]. split; [assumption|]. split; [assumption|].
                eexists; split; [eassumption|]; first [exact HQels | exact I].
             ++ split; [reflexivity|constructor].
          -- subst fe. cbn [option_map] in Hasg.
             assert (Hpp : forallb (fun pf => ppass vs ss imp h (v_type fromv) pf y3) (fo_post h) = true).
             { apply forallb_forall. intros pf _. unfold ppass. rewrite Hact. unfold act_at. rewrite El. reflexivity. }
             rewrite Hpp. split; [cbn [map]; now rewrite Hasg|]. constructor; [|constructor].
             split; [assumption|]. split; [assumption|]. split; [assumption|]. split; [assumption|].
                eexists; split; [eassumption|]; first [exact HQels | exact I].
          -- subst fe. cbn [option_map] in Hasg.
             assert (Hpp : forallb (fun pf => ppass vs ss imp h (v_type fromv) pf y3) (fo_post h) = true).
             { apply forallb_forall. intros pf _. unfold ppass. rewrite Hact. unfold act_at. rewrite El. reflexivity. }
             rewrite Hpp. split; [cbn [map]; now rewrite Hasg|]. constructor; [|constructor].
             split; [assumption|]. split; [assumption|]. split; [assumption|]. split; [assumption|].
                eexists; split; [eassumption|]; first [exact HQels | exact I].
        * destruct Hspec as (v & El & Hnil). unfold after_fold_gen. cbn [filter map]. rewrite Hnil. split; [reflexivity|constructor].
    - assert (Hfc : filter (fun c0 => forallb (fun pf => ppass vs ss imp h (v_type fromv) pf c0) (fo_post h)) (List.concat yss0)
                    = List.concat (map (filter (fun c0 => forallb (fun pf => ppass vs ss imp h (v_type fromv) pf c0) (fo_post h))) yss0)).
      { clear. induction yss0 as [|ys yss IH]; [reflexivity|]. cbn [List.concat map]. now rewrite filter_app, IH. }
      rewrite <- Hfc. exact H.
  Qed.
End FoldG.
