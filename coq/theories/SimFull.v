(* SimFull.v — the rows: for every query (any nesting of edges and folds) the row built by
   construct_outputs from a DataContext is, name by name, the projection of the assignment the context
   stands for; hence whenever the interpreter model returns rows they are the specification's rows. *)
From Coq Require Import Lia.
From TF Require Import ValuesProofs Exec Sem ExecLemmas Sim SimRec SimComp SimOut SimTop FoldLimits SimFold FoldOut
     SemComplete SimGen WfIRProofs.
Local Open Scope string_scope.
Local Open Scope N_scope.
Local Open Scope list_scope.

Section Full.
  Variable g : graph.

  (* ---------- output keys and output names ---------- *)
  Lemma keys_names_comp : forall c,
    map snd (nested_fold_keys c) = match c with mkComp _ _ ss _ => names_steps ss end.
  Proof.
    induction c as [root vs ss outs IH] using comp_ind'. rewrite nested_fold_keys_eq.
    induction IH as [|[e|h sub] r Hs _ IHr]; cbn [steps_keys names_steps]; [reflexivity|exact IHr|].
    cbn [Psub] in Hs. unfold fold_keys, fs_keys, own_keys, fkey in *. rewrite !map_app, !map_map. cbn [snd].
    rewrite map_id, Hs, IHr. destruct sub as [root' vs' ss' outs']. rewrite all_output_names_eq.
    cbn [c_outputs]. now rewrite <- !app_assoc.
  Qed.

  Lemma keys_names_mk root vs ss outs : map snd (nested_fold_keys (mkComp root vs ss outs)) = names_steps ss.
  Proof. exact (keys_names_comp (mkComp root vs ss outs)). Qed.

  Lemma steps_keys_names ss : map snd (steps_keys ss) = names_steps ss.
  Proof. rewrite <- (nested_fold_keys_eq 0 [] ss []). exact (keys_names_comp (mkComp 0 [] ss [])). Qed.

  Lemma fold_keys_names h sub : map snd (fold_keys h sub) = fo_fsout h ++ all_output_names sub.
  Proof.
    unfold fold_keys, fs_keys, own_keys. rewrite !map_app, !map_map. cbn [snd]. rewrite map_id.
    destruct sub as [root vs ss outs]. rewrite keys_names_mk, all_output_names_eq. reflexivity.
  Qed.

  Lemma own_row_lookup vs a outs n :
    lookup_str n (own_row g vs a outs) = option_map (out_value g vs a) (lookup_str n outs).
  Proof.
    unfold own_row. induction outs as [|[k cf] t IH]; [reflexivity|]. cbn [map lookup_str fst snd].
    destruct (String.eqb n k); [reflexivity|exact IH].
  Qed.

  (* the value of an own output of a fold's component, read from the projection of an element *)
  Lemma own_value_row sub ea n :
    In n (map fst (c_outputs sub)) -> row_get (project g sub ea) n = own_value g sub ea n.
  Proof.
    intros Hn. destruct sub as [root vs ss outs]. cbn [c_outputs c_vertices] in *. unfold row_get, own_value.
    rewrite project_eq, lookup_str_app, own_row_lookup. cbn [c_outputs c_vertices].
    destruct (lookup_str n outs) as [cf|] eqn:E; [reflexivity|].
    exfalso. apply lookup_str_none in E. contradiction.
  Qed.

  (* ---------- the closed form of the fold-output map is the projection ---------- *)
  Lemma project_fspec : forall c,
    NoDup (all_output_names c) -> forall a k, In k (nested_fold_keys c) ->
    row_get (project g c a) (snd k) = vov_to_fv (unwrap (fspec g c (a_f a) k)).
  Proof.
    induction c as [root vs ss outs IH] using comp_ind'. intros Hnd a k Hk.
    rewrite nested_fold_keys_eq in Hk. rewrite project_eq, fspec_eq, all_output_names_eq in *.
    assert (Hn : In (snd k) (names_steps ss)) by (rewrite <- steps_keys_names; now apply in_map).
    assert (Hown : lookup_str (snd k) (own_row g vs a outs) = None).
    { apply lookup_str_none. unfold own_row. rewrite map_map. cbn [fst].
      intros E. exact (FoldOut.NoDup_app_disj _ _ _ Hnd E Hn). }
    unfold row_get. rewrite lookup_str_app, Hown. apply FoldOut.NoDup_app_r in Hnd. clear Hown Hn.
    induction IH as [|[e|h sub] r Hs _ IHr]; cbn [steps_keys names_steps project_steps fspec_steps] in *; [destruct Hk|auto|].
    cbn [Psub] in Hs. rewrite lookup_str_app. rewrite app_assoc in Hnd.
    destruct (key_in k (fold_keys h sub)) eqn:Ek.
    - apply key_in_spec in Ek. clear IHr Hk.
      assert (Hnin : In (snd k) (fo_fsout h ++ all_output_names sub)) by (rewrite <- fold_keys_names; now apply in_map).
      apply FoldOut.NoDup_app_l in Hnd.
      unfold fold_row. destruct (lookup_N (fo_eid h) (a_f a)) as [[l|]|].
      + rewrite lookup_str_app. unfold fold_val.
        destruct (key_in k (fs_keys h)) eqn:Efs.
        * apply key_in_spec in Efs. unfold fs_keys in Efs. apply in_map_iff in Efs. destruct Efs as (n & <- & Hn). cbn [snd].
          now rewrite (lookup_str_map_key _ _ _ Hn).
        * apply key_in_false in Efs.
          assert (Hnfs : ~ In (snd k) (fo_fsout h)).
          { intros E. unfold fold_keys in Ek. apply in_app_iff in Ek. destruct Ek as [Ek|Ek]; [contradiction|].
            assert (E2 : In (snd k) (all_output_names sub)).
            { destruct sub as [root' vs' ss' outs']. rewrite all_output_names_eq.
              rewrite <- (keys_names_mk root' vs' ss' outs').
              apply in_app_iff in Ek. apply in_or_app. destruct Ek as [Ek|Ek].
              - left. unfold own_keys in Ek. apply in_map_iff in Ek. destruct Ek as (o & <- & Ho). cbn [snd c_outputs] in *. now apply in_map.
              - right. now apply in_map. }
            exact (FoldOut.NoDup_app_disj _ _ _ Hnd E E2). }
          assert (Hnone : lookup_str (snd k) (map (fun n => (n, U64 (Z.of_nat (List.length l)))) (fo_fsout h)) = None).
          { apply lookup_str_none. rewrite map_map. cbn [fst]. now rewrite map_id. }
          rewrite Hnone.
          assert (Hsubn : In (snd k) (all_output_names sub)).
          { apply in_app_iff in Hnin. tauto. }
          rewrite (lookup_str_map_key _ _ _ Hsubn). rewrite map_map.
          destruct (key_in k (own_keys h sub)) eqn:Eown.
          -- apply key_in_spec in Eown. unfold own_keys in Eown. apply in_map_iff in Eown. destruct Eown as (o & <- & Ho).
             cbn [snd unwrap vov_to_fv]. rewrite map_map. cbn [vov_to_fv]. f_equal. apply map_ext. intros ea.
             apply own_value_row. now apply in_map.
          -- apply key_in_false in Eown. unfold fold_keys in Ek. rewrite !in_app_iff in Ek.
             destruct Ek as [Ek|[Ek|Ek]]; [contradiction|contradiction|].
             cbn [unwrap vov_to_fv]. rewrite map_map. f_equal. apply map_ext. intros ea.
             apply Hs; [now apply FoldOut.NoDup_app_r in Hnd|assumption].
      + rewrite (lookup_str_map_key _ _ _ Hnin). reflexivity.
      + rewrite (lookup_str_map_key _ _ _ Hnin). reflexivity.
    - apply key_in_false in Ek. destruct (in_app_or _ _ _ Hk) as [Hk'|Hk']; [contradiction|].
      assert (Hn : In (snd k) (names_steps r)) by (rewrite <- steps_keys_names; now apply in_map).
      assert (Hnone : lookup_str (snd k) (fold_row g a h sub) = None).
      { apply lookup_str_none. rewrite fold_row_keys. intros E. exact (FoldOut.NoDup_app_disj _ _ _ Hnd E Hn). }
      rewrite Hnone. apply IHr; [now apply FoldOut.NoDup_app_r in Hnd|assumption].
  Qed.

  (* ---------- the final row ---------- *)
  Fixpoint lookup_name (n : string) (m : fvmap) : option (option vov) :=
    match m with
    | [] => None
    | (k, v) :: r => if String.eqb n (snd k) then Some v else lookup_name n r
    end.

  Definition conv (v : option vov) : fv := match v with Some x => vov_to_fv x | None => Null end.

  Lemma final_loop (fvl : fvmap) : forall r0 row,
    foldM (fun r kv =>
             let name := snd (fst kv) in
             match lookup_str name r with
             | Some _ => Panic "execution.rs:construct_outputs assert!(existing.is_none())"
             | None => Ok (insert_row name (match snd kv with Some x => vov_to_fv x | None => Null end) r)
             end) fvl r0 = Ok row ->
    (forall n, lookup_name n fvl <> None -> lookup_str n r0 = None) /\
    (forall n, lookup_str n row = match lookup_name n fvl with Some v => Some (conv v) | None => lookup_str n r0 end).
  Proof.
    induction fvl as [|[k v] fvl IH]; cbn [foldM lookup_name]; intros r0 row H.
    - injection H as <-. split; [congruence|reflexivity].
    - inv_bind H. cbn [fst snd] in Hx. destruct (lookup_str (snd k) r0) eqn:E0; [discriminate|]. injection Hx as <-.
      destruct (IH _ _ H) as (Hcol & Hl). split.
      + intros n Hn. destruct (String.eqb_spec n (snd k)) as [En|Hne]; [rewrite En; assumption|].
        specialize (Hcol n Hn). rewrite lookup_insert_row in Hcol.
        destruct (String.eqb_spec n (snd k)); [contradiction|assumption].
      + intros n. rewrite Hl. destruct (String.eqb_spec n (snd k)) as [Enk|Hne].
        * rewrite Enk. destruct (lookup_name (snd k) fvl) eqn:En.
          -- exfalso. assert (Hc : lookup_name (snd k) fvl <> None) by congruence. specialize (Hcol _ Hc).
             rewrite lookup_insert_row, String.eqb_refl in Hcol. discriminate.
          -- rewrite lookup_insert_row, String.eqb_refl. reflexivity.
        * destruct (lookup_name n fvl); [reflexivity|]. rewrite lookup_insert_row.
          destruct (String.eqb_spec n (snd k)); [contradiction|reflexivity].
  Qed.

  Lemma lookup_name_some n (m : fvmap) v : lookup_name n m = Some v -> exists eid, In ((eid, n), v) m.
  Proof.
    induction m as [|[[e n'] v'] r IH]; cbn [lookup_name snd]; [discriminate|].
    destruct (String.eqb_spec n n') as [->|Hne].
    - intros [= ->]. exists e. now left.
    - intros H. destruct (IH H) as (eid & Hin). exists eid. now right.
  Qed.

  Lemma lookup_name_none n (m : fvmap) eid v : lookup_name n m = None -> ~ In ((eid, n), v) m.
  Proof.
    induction m as [|[[e n'] v'] r IH]; cbn [lookup_name snd In]; [tauto|].
    destruct (String.eqb_spec n n') as [->|Hne]; [discriminate|].
    intros H [E|E]; [congruence|]. now apply IH.
  Qed.

  Theorem construct_output_full root vs ss outs cx row :
    NoDup (all_output_names (mkComp root vs ss outs)) ->
    FV g (mkComp root vs ss outs) cx ->
    complete (mkComp root vs ss outs) (a_f (asg_of cx)) ->
    values cx = [] ->
    construct_output_one g (mkComp root vs ss outs) (sort_names (map fst outs)) cx = Ok row ->
    row_equiv row (sort_row (project g (mkComp root vs ss outs) (asg_of cx))).
  Proof.
    intros Hnd (Hfnd & Hfl) Hcomp Hvals H. unfold construct_output_one in H. cbn [c_outputs c_vertices] in H.
    inv_bind H. rewrite Hvals in H.
    match type of H with (if ?b then _ else _) = _ => destruct b; [discriminate|] end.
    assert (Hx' : x = map (fun name => match lookup_str name outs with
                                        | Some cf => out_value g vs (asg_of cx) cf
                                        | None => Null end) (sort_names (map fst outs))).
    { eapply mapM_ok_map; [|exact Hx]. intros name y Hy. apply own_output_ok in Hy.
      destruct Hy as (cf & -> & ->). reflexivity. }
    subst x. clear Hx. apply final_loop in H. destruct H as (Hcol & Hl).
    intros n. rewrite Hl, lookup_fold_insert_row, lookup_sort_row, lookup_combine_map.
    rewrite project_eq, lookup_str_app, own_row_lookup. rewrite all_output_names_eq in Hnd.
    assert (Hiff : existsb (String.eqb n) (sort_names (map fst outs)) = true <-> lookup_str n outs <> None).
    { rewrite existsb_eqb_in, in_sort_names. clear. induction outs as [|[k cf] t IH]; cbn [map fst In lookup_str].
      - split; [intros []|congruence].
      - destruct (String.eqb_spec n k) as [->|Hn]; [split; [congruence|now left]|].
        rewrite <- IH. split; [intros [H|H]; [congruence|assumption]|now right]. }
    destruct (lookup_str n outs) as [cf|] eqn:Eo.
    - (* an own output of the root component *)
      assert (Ee : existsb (String.eqb n) (sort_names (map fst outs)) = true) by (apply Hiff; congruence).
      cbn [option_map]. destruct (lookup_name n (folded_values cx)) eqn:En.
      + exfalso. assert (Hc : lookup_name n (folded_values cx) <> None) by congruence. specialize (Hcol n Hc).
        rewrite lookup_fold_insert_row, lookup_combine_map, Ee in Hcol. discriminate.
      + now rewrite Ee.
    - assert (Ee : existsb (String.eqb n) (sort_names (map fst outs)) = false).
      { destruct (existsb (String.eqb n) (sort_names (map fst outs))); [|reflexivity]. exfalso. now apply (proj1 Hiff eq_refl). }
      rewrite Ee. cbn [option_map].
      destruct (lookup_name n (folded_values cx)) as [v|] eqn:En.
      + apply lookup_name_some in En. destruct En as (eid & Hin).
        pose proof (lookup_in _ _ _ Hfnd Hin) as Hlk. rewrite Hfl, fspec_eq in Hlk.
        assert (Hk : In (eid, n) (steps_keys ss)).
        { apply (fspec_defined g ss (a_f (asg_of cx)) (eid, n) Hcomp). congruence. }
        pose proof (project_fspec (mkComp root vs ss outs)) as HP. rewrite all_output_names_eq in HP.
        specialize (HP Hnd (asg_of cx) (eid, n)). rewrite nested_fold_keys_eq in HP. specialize (HP Hk).
        cbn [snd] in HP. rewrite fspec_eq, Hlk in HP. unfold row_get in HP.
        rewrite project_eq, lookup_str_app, own_row_lookup, Eo in HP. cbn [option_map] in HP.
        assert (Hn : In n (names_steps ss)) by (rewrite <- steps_keys_names; change n with (snd (eid, n)); now apply in_map).
        destruct (lookup_str n (project_steps g (asg_of cx) ss)) as [w|] eqn:Ew.
        * rewrite HP. destruct v; reflexivity.
        * exfalso. apply lookup_str_none in Ew. apply Ew.
          clear - Hn. induction ss as [|[e|h sub] r IH]; cbn [names_steps project_steps] in *; [assumption|auto|].
          rewrite map_app, fold_row_keys. rewrite app_assoc in Hn. apply in_app_iff in Hn. apply in_or_app. tauto.
      + (* no entry under that name: it is not an output of the query *)
        destruct (lookup_str n (project_steps g (asg_of cx) ss)) as [w|] eqn:Ew; [|reflexivity].
        exfalso. apply lookup_str_in in Ew. apply (in_map fst) in Ew. cbn [fst] in Ew.
        assert (Hn : In n (names_steps ss)).
        { clear - Ew. induction ss as [|[e|h sub] r IH]; cbn [names_steps project_steps] in *; [assumption|auto|].
          rewrite map_app, fold_row_keys in Ew. rewrite app_assoc. apply in_app_iff in Ew. apply in_or_app. tauto. }
        rewrite <- steps_keys_names in Hn. apply in_map_iff in Hn. destruct Hn as ([eid n'] & E & Hk). cbn [snd] in E. subst n'.
        pose proof (proj2 (fspec_defined g ss (a_f (asg_of cx)) (eid, n) Hcomp) Hk) as Hdef.
        rewrite <- fspec_eq with (root := root) (vs := vs) (outs := outs) in Hdef. rewrite <- Hfl in Hdef.
        destruct (lookup_fvk (eid, n) (folded_values cx)) as [v|] eqn:Elk; [|congruence].
        apply lookup_some_in in Elk. exact (lookup_name_none _ _ _ _ En Elk).
  Qed.
End Full.

(* ---------- whole queries ---------- *)
Section TopFull.
  Variable re_match : string -> string -> option bool.
  Variable g : graph.
  Variable args : list (string * fv).
  Hypothesis Hind : ty_indep g.

  (* Every query — any nesting of plain / @optional / @recurse edges and @fold scopes with outputs,
     count outputs, tags imported into folds and count filters (with the maximum early termination) —
     in which no fold is eligible for the minimum truncation (F9, see C22): whenever the interpreter
     model returns rows, they are exactly the rows of the specification, in the same order. *)
  Theorem interpret_spec q rows :
    wf_comp args [] (q_comp q) -> wf_out (q_comp q) -> NoDup (all_output_names (q_comp q)) ->
    interpret re_match g args q = Ok rows ->
    Forall2 row_equiv rows (sem re_match g args q).
  Proof.
    intros Hwf Hwo Hnd H. unfold interpret in H. inv_bind H.
    destruct q as [rname rparams c vars]. cbn [q_comp q_root_name q_root_params] in *.
    set (starts := g_starts g rname rparams) in *.
    assert (Hc : Forall (clean []) (map (fun v => ctx_new (Some v)) starts)).
    { apply Forall_forall. intros y Hy. apply in_map_iff in Hy. destruct Hy as (v & <- & _). apply ctx_new_clean. }
    assert (Hf : Forall fresh (map (fun v => ctx_new (Some v)) starts)).
    { apply Forall_forall. intros y Hy. apply in_map_iff in Hy. destruct Hy as (v & <- & _). apply ctx_new_fresh. }
    assert (Hk : keys_within [] []).
    { intros k Hl. cbn in Hl. congruence. }
    destruct (compute_component_full re_match g args Hind c [] [] _ x Hwf Hwo Hk Hc Hf Hx) as (E & Hfv & Hcl).
    unfold sem. cbn [q_comp q_root_name q_root_params].
    assert (Hcomp : Forall (fun cx => complete c (a_f (asg_of cx))) x).
    { apply Forall_forall. intros cx Hcx. assert (Hin : In (asg_of cx) (map asg_of x)) by now apply in_map.
      rewrite E in Hin. apply in_flat_map in Hin. destruct Hin as (c0 & _ & Hin). eapply sem_comp_complete; exact Hin. }
    rewrite flat_map_map in E. cbn [active ctx_new] in E. fold starts. rewrite <- E.
    apply mapM_ok in H. clear E Hx Hc Hf.
    destruct c as [root vs ss outs]. cbn [c_outputs] in *.
    induction H as [|cx row l rows' Hrow _ IH]; [constructor|].
    inversion Hcl as [|? ? (Hv & _) Hcl2]; inversion Hfv as [|? ? Hfv1 Hfv2]; inversion Hcomp as [|? ? Hcp1 Hcp2]; subst.
    cbn [map]. constructor; [|apply IH; assumption].
    eapply construct_output_full; eauto.
  Qed.
End TopFull.
