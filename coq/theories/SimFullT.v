(* SimFullT.v — whole queries against the truncating specification SemT. *)
From Coq Require Import Lia.
From TF Require Import ValuesProofs Exec Sem ExecLemmas Sim SimRec SimComp SimOut SimTop FoldLimits SimFold FoldOut
     SemComplete SimGen WfIRProofs SimFull SemT SimFoldT SimGenT.
Local Open Scope string_scope.
Local Open Scope N_scope.
Local Open Scope list_scope.

(* ---------- whole queries ---------- *)
Section TopFullT.
  Variable re_match : string -> string -> option bool.
  Variable g : graph.
  Variable args : list (string * fv).
  Hypothesis Hind : ty_indep g.

  (* Every query, INCLUDING those with folds truncated by take(min): whenever the interpreter model
     returns rows, they are exactly the rows of the truncating specification SemT, in the same order. *)
  Theorem interpret_spec_t q rows :
    wf_comp_t [] (q_comp q) -> wf_out (q_comp q) -> NoDup (all_output_names (q_comp q)) ->
    interpret re_match g args q = Ok rows ->
    Forall2 row_equiv rows (sem_t re_match g args q).
  Proof.
    intros Hwf Hwo Hnd H. unfold interpret in H. inv_bind H.
    destruct q as [rname rparams c vars]. cbn [q_comp q_root_name q_root_params] in *.
    set (starts := g_starts g rname rparams) in *.
    assert (Hc : Forall (clean []) (map (fun v => ctx_new (Some v)) starts)).
    { apply Forall_forall. intros y Hy. apply in_map_iff in Hy. destruct Hy as (v & <- & _). apply ctx_new_clean. }
    assert (Hf : Forall fresh (map (fun v => ctx_new (Some v)) starts)).
    { apply Forall_forall. intros y Hy. apply in_map_iff in Hy. destruct Hy as (v & <- & _). apply ctx_new_fresh. }
    assert (Hk : keys_within [] []).
    { intros k Hl. cbn in Hl. congruence. }
    destruct (compute_component_full_t re_match g args Hind c [] [] _ x Hwf Hwo Hk Hc Hf Hx) as (E & Hfv & Hcl).
    unfold sem_t. cbn [q_comp q_root_name q_root_params].
    assert (Hcomp : Forall (fun cx => complete c (a_f (asg_of cx))) x).
    { apply Forall_forall. intros cx Hcx. assert (Hin : In (asg_of cx) (map asg_of x)) by now apply in_map.
      rewrite E in Hin. apply in_flat_map in Hin. destruct Hin as (c0 & _ & Hin). eapply sem_comp_t_complete; exact Hin. }
    rewrite flat_map_map in E. cbn [active ctx_new] in E. fold starts. rewrite <- E.
    apply mapM_ok in H. clear E Hx Hc Hf.
    destruct c as [root vs ss outs]. cbn [c_outputs] in *.
    induction H as [|cx row l rows' Hrow _ IH]; [constructor|].
    inversion Hcl as [|? ? (Hv & _) Hcl2]; inversion Hfv as [|? ? Hfv1 Hfv2]; inversion Hcomp as [|? ? Hcp1 Hcp2]; subst.
    cbn [map]. constructor; [|apply IH; assumption].
    eapply construct_output_full; eauto.
  Qed.
End TopFullT.
