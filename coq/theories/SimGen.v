(* SimGen.v — component-level refinement for arbitrary nesting of edges and folds (assignment level). *)
From Coq Require Import Lia.
From TF Require Import Exec Sem ExecLemmas Sim SimRec SimComp FoldLimits SimFold SimOut FoldOut SemComplete.
Local Open Scope string_scope.
Local Open Scope N_scope.
Local Open Scope list_scope.

(* ---------- nested induction on components ---------- *)
Section CompInd.
  Variable P : ir_component -> Prop.
  Definition Psub (s : step) : Prop := match s with SFold _ sub => P sub | SEdge _ => True end.
  Hypothesis H : forall root vs ss outs, Forall Psub ss -> P (mkComp root vs ss outs).
  Fixpoint comp_ind' (c : ir_component) : P c :=
    match c with
    | mkComp root vs ss outs =>
        H root vs ss outs
          ((fix go (ss : list step) : Forall Psub ss :=
              match ss with
              | [] => @Forall_nil step Psub
              | s :: r => @Forall_cons step Psub s r
                            (match s return Psub s with
                             | SEdge _ => I
                             | SFold _ sub => comp_ind' sub
                             end) (go r)
              end) ss)
    end.
End CompInd.

Section Gen.
  Variable re_match : string -> string -> option bool.
  Variable g : graph.
  Variable args : list (string * fv).
  Hypothesis Hind : ty_indep g.

  (* the keys of an import map all come from `outer` *)
  Definition keys_within (outer : list fieldref) (imp : list (fieldref * tagged)) : Prop :=
    forall k, lookup_ref k imp <> None -> exists o, In o outer /\ fieldref_eqb k o = true.

  Definition disjoint_keys (ts outer : list fieldref) : Prop :=
    forall t o, In t ts -> In o outer -> fieldref_eqb t o = false.

  (* static well-formedness the refinement needs: recursion depths >= 1; folds not eligible for the
     min-count truncation (that optimisation is the subject of C22); the tags a fold imports are not
     already imported by an enclosing fold *)
  Fixpoint wf_comp (outer : list fieldref) (c : ir_component) {struct c} : Prop :=
    match c with
    | mkComp _ vs ss _ =>
        (fix go (todo : list step) : Prop :=
           match todo with
           | [] => True
           | SEdge e :: r => edge_ok e = true /\ go r
           | SFold h sub :: r =>
               (no_min_limit args vs ss h sub /\ disjoint_keys (fo_imported h) outer /\
                wf_comp (outer ++ fo_imported h) sub) /\ go r
           end) ss
    end.

  Fixpoint wf_steps (outer : list fieldref) (vs : list ir_vertex) (ss : list step) (todo : list step) : Prop :=
    match todo with
    | [] => True
    | SEdge e :: r => edge_ok e = true /\ wf_steps outer vs ss r
    | SFold h sub :: r =>
        (no_min_limit args vs ss h sub /\ disjoint_keys (fo_imported h) outer /\
         wf_comp (outer ++ fo_imported h) sub) /\ wf_steps outer vs ss r
    end.

  Lemma wf_comp_steps outer root vs ss outs : wf_comp outer (mkComp root vs ss outs) <-> wf_steps outer vs ss ss.
  Proof.
    cbn [wf_comp]. generalize ss at 1 3 as whole. intros whole.
    induction ss as [|[e|h sub] r IH]; cbn [wf_steps]; [tauto| |]; rewrite IH; tauto.
  Qed.

  Lemma key_fresh_of outer imp ts :
    keys_within outer imp -> disjoint_keys ts outer -> Forall (key_fresh imp) ts.
  Proof.
    intros Hk Hd. apply Forall_forall. intros t Ht. unfold key_fresh.
    destruct (lookup_ref t imp) eqn:E; [|reflexivity]. exfalso.
    destruct (Hk t) as (o & Ho & Heq); [congruence|]. rewrite (Hd t o Ht Ho) in Heq. discriminate.
  Qed.

  Lemma keys_within_imports vs ss outer imp a ts :
    keys_within outer imp -> keys_within (outer ++ ts) (imports_of g vs ss imp a ts imp).
  Proof.
    intros Hk. unfold imports_of.
    assert (G : forall ts0 m, incl ts0 ts -> keys_within (outer ++ ts) m ->
                keys_within (outer ++ ts) (fold_left (fun m t => insert_ref t (import_value g vs ss imp a t) m) ts0 m)).
    { induction ts0 as [|t ts0 IH]; intros m Hi Hm; cbn [fold_left]; [assumption|].
      apply IH; [intros x Hx; apply Hi; now right|].
      intros k Hl. destruct (fieldref_eqb k t) eqn:Ek.
      - exists t. split; [apply in_or_app; right; apply Hi; now left|assumption].
      - rewrite lookup_insert_other in Hl by assumption. auto. }
    apply G; [apply incl_refl|]. intros k Hl. destruct (Hk k Hl) as (o & Ho & He). exists o. split; [apply in_or_app; now left|assumption].
  Qed.

  (* computing a fold's outputs only touches folded_values *)
  Lemma fold_outputs_one_frame h sub c y :
    fold_outputs_one g h sub c = Ok y ->
    active y = active c /\ vertices y = vertices c /\ values y = values c /\ suspended y = suspended c /\
    folded_contexts y = folded_contexts c /\ piggyback y = piggyback c /\ imported_tags y = imported_tags c.
  Proof.
    unfold fold_outputs_one. intros H. inv_bind H. inv_bind H. cbv zeta in H. inv_bind H.
    destruct (existsb _ x1); [discriminate|]. injection H as <-. destruct c; cbn. repeat split.
  Qed.

  Lemma fold_outputs_keep imp h sub l r :
    Forall (clean imp) l -> mapM (fold_outputs_one g h sub) l = Ok r ->
    map asg_of r = map asg_of l /\ Forall (clean imp) r.
  Proof.
    intros Hc H. apply mapM_ok in H. induction H as [|c y l r Hy _ IH]; [split; constructor|].
    inversion Hc as [|? ? Hc1 Hc2]; subst. destruct (IH Hc2) as (E & F).
    destruct (fold_outputs_one_frame _ _ _ _ Hy) as (A1 & A2 & A3 & A4 & A5 & A6 & A7).
    split.
    - cbn [map]. rewrite E. f_equal. rewrite !asg_of_eq. now rewrite A2, A5.
    - constructor; [|assumption]. destruct Hc1 as (C1 & C2 & C3 & C4). repeat split; congruence.
  Qed.

  (* ---------- the step loop, assignment level only (no side conditions on output names) ---------- *)
  Lemma exec_steps_asg vs ss outer imp todo :
    Forall (Psub (fun sub =>
                         forall outer' imp' cs r, wf_comp outer' sub -> keys_within outer' imp' ->
                           Forall (clean imp') cs -> Forall fresh cs ->
                           compute_component re_match g args sub cs = Ok r ->
                           map asg_of r = flat_map (fun x => sem_comp re_match g args sub imp' (active x)) cs)) todo ->
    wf_steps outer vs ss todo -> keys_within outer imp ->
    forall cs r, Forall (clean imp) cs ->
      exec_steps re_match g args vs ss todo cs = Ok r ->
      map asg_of r = sem_steps re_match g args vs ss imp todo (map asg_of cs) /\ Forall (clean imp) r.
  Proof.
    intros HIH. induction HIH as [|s todo Hs _ IH]; intros Hwf Hk cs r Hc H; cbn [exec_steps sem_steps wf_steps] in *.
    - injection H as <-. split; [reflexivity|assumption].
    - destruct s as [e|h sub].
      + destruct Hwf as (Hok & Hwf). inv_bind H.
        destruct (expand_edge_spec re_match g args Hind vs ss imp e cs x Hok Hc Hx) as (E1 & Hcl & _).
        destruct (IH Hwf Hk x r Hcl H) as (E2 & Hcl2). split; [now rewrite E2, E1|assumption].
      + destruct Hwf as ((Hnm & Hdis & Hwsub) & Hwf). inv_bind H.
        assert (Hfresh : Forall (key_fresh imp) (fo_imported h)) by (eapply key_fresh_of; eassumption).
        assert (Hsub' : forall imp' cs' r', keys_within (outer ++ fo_imported h) imp' ->
                   Forall (clean imp') cs' -> Forall fresh cs' ->
                   compute_component re_match g args sub cs' = Ok r' ->
                   map asg_of r' = flat_map (fun x => sem_comp re_match g args sub imp' (active x)) cs' /\
                   Forall (fun _ => True) r').
        { intros imp' cs' r' Hp Hc' Hf' Hr'. cbn [Psub] in Hs. split; [eapply Hs; eassumption|].
          apply Forall_forall. intros; exact I. }
        assert (Hp' : forall a, keys_within (outer ++ fo_imported h) (imports_of g vs ss imp a (fo_imported h) imp)).
        { intros a. now apply keys_within_imports. }
        destruct (fold_step_spec re_match g args (keys_within (outer ++ fo_imported h)) (fun _ => True) vs ss imp h sub
                                 (compute_component re_match g args sub) cs x Hsub' Hp' Hnm Hfresh Hc Hx) as (yss & HF & Hout).
        idtac.
        assert (Hcy : Forall (clean imp) (List.concat yss)).
        { clear - HF. induction HF as [|c ys l yss (_ & Hy) _ IHf]; [constructor|]. cbn [List.concat]. apply Forall_app. split; [|assumption].
          eapply Forall_impl; [|exact Hy]. intros y (Hcl & _). exact Hcl. }
        destruct (fold_outputs_keep imp h sub _ _ Hcy Hout) as (Ex & Hclx).
        destruct (IH Hwf Hk x r Hclx H) as (E2 & Hcl2). split; [|assumption].
        rewrite E2, Ex. f_equal.
        clear - HF. induction HF as [|c ys l yss (Hy & _) _ IHf]; [reflexivity|].
        cbn [List.concat map flat_map]. now rewrite map_app, IHf, Hy.
  Qed.

  (* ---------- any component, assignment level ---------- *)
  Theorem compute_component_spec : forall c outer imp cs r,
    wf_comp outer c -> keys_within outer imp ->
    Forall (clean imp) cs -> Forall fresh cs ->
    compute_component re_match g args c cs = Ok r ->
    map asg_of r = flat_map (fun x => sem_comp re_match g args c imp (active x)) cs.
  Proof.
    induction c as [root vs ss outs IHss] using comp_ind'. intros outer imp cs r Hwf Hk Hc Hf H.
    rewrite compute_component_eq in H. inv_bind H. inv_bind H.
    unfold vertex_of, expect_some in Hx. destruct (find_vertex vs root) as [rv|] eqn:Er; [|discriminate].
    injection Hx as <-.
    destruct (enter_vertex_spec re_match g args vs ss imp rv cs x0 Hc Hx0) as (-> & Hcl0).
    apply wf_comp_steps in Hwf.
    destruct (exec_steps_asg vs ss outer imp ss IHss Hwf Hk _ r Hcl0 H) as (E & _).
    rewrite E. clear E H Hcl0 Hx0. pose proof (find_vertex_vid _ _ _ Er) as Hvid.
    revert Hc Hf. induction cs as [|c cs IH]; intros Hc Hf; [cbn [filter map flat_map]; apply sem_steps_nil|].
    inversion Hc as [|? ? Hc1 Hc2]; inversion Hf as [|? ? (F1 & F2 & F3) Hf2]; subst.
    cbn [filter flat_map]. rewrite sem_comp_eq, Er.
    assert (Ha : asg_of c = Asg [] []) by (rewrite asg_of_eq, F1, F2; reflexivity).
    rewrite Ha.
    destruct (enter re_match g args vs ss imp (Asg [] []) rv (active c)) eqn:Ee.
    - cbn [map]. rewrite asg_of_recorded, Ha. cbn [set_av a_v a_f app].
      match goal with |- sem_steps _ _ _ _ _ _ _ (?a :: ?l) = _ => change (a :: l) with ([a] ++ l) end.
      rewrite sem_steps_app. f_equal. apply IH; assumption.
    - apply IH; assumption.
  Qed.

  (* ---------- output bookkeeping: static side conditions and frame lemmas ---------- *)
  (* output keys (fold eid, name) and fold eids are pairwise distinct, at every nesting level
     (the frontend guarantees globally unique output names and eids: C11's wf_ir) *)
  Fixpoint wf_out (c : ir_component) {struct c} : Prop :=
    match c with
    | mkComp _ _ ss _ =>
        NoDup (steps_keys ss) /\ NoDup (steps_eids ss) /\
        (fix go (ss : list step) : Prop :=
           match ss with
           | [] => True
           | SEdge _ :: r => go r
           | SFold _ sub :: r => wf_out sub /\ go r
           end) ss
    end.

  Fixpoint wf_out_steps (todo : list step) : Prop :=
    match todo with
    | [] => True
    | SEdge _ :: r => wf_out_steps r
    | SFold _ sub :: r => wf_out sub /\ wf_out_steps r
    end.

  Lemma wf_out_eq root vs ss outs :
    wf_out (mkComp root vs ss outs) <-> NoDup (steps_keys ss) /\ NoDup (steps_eids ss) /\ wf_out_steps ss.
  Proof.
    cbn [wf_out]. assert (E : (fix go (ss : list step) : Prop :=
           match ss with
           | [] => True
           | SEdge _ :: r => go r
           | SFold _ sub :: r => wf_out sub /\ go r
           end) ss <-> wf_out_steps ss).
    { induction ss as [|[e|h sub] r IH]; cbn [wf_out_steps]; [tauto|exact IH|]. rewrite IH. tauto. }
    rewrite E. tauto.
  Qed.

  Definition Qel (sub : ir_component) (el : ctx) : Prop := FV g sub el /\ complete sub (a_f (asg_of el)).

  Lemma FV_frame c c0 x : frame c0 x -> FV g c c0 -> FV g c x.
  Proof.
    intros (F1 & F2) (H1 & H2). split; [now rewrite F2|]. intros k. rewrite F2, H2, !a_f_asg_of, F1. reflexivity.
  Qed.

  Lemma FV_fresh c x : fresh x -> FV g c x.
  Proof.
    intros (_ & F2 & F3). split; [rewrite F3; constructor|]. intros k. rewrite F3, a_f_asg_of, F2.
    destruct c as [root vs ss outs]. rewrite fspec_eq. cbn [map lookup_fvk]. symmetry. apply fspec_nil.
  Qed.

  Lemma FV_recorded c vid x : FV g c x -> FV g c (recorded vid x).
  Proof.
    intros (H1 & H2). assert (E1 : folded_values (recorded vid x) = folded_values x) by (destruct x; reflexivity).
    assert (E2 : folded_contexts (recorded vid x) = folded_contexts x) by (destruct x; reflexivity).
    split; [now rewrite E1|]. intros k. rewrite E1, H2, !a_f_asg_of, E2. reflexivity.
  Qed.

  (* ---------- the step loop, with the output bookkeeping ---------- *)
  Lemma exec_steps_spec root vs ss outs outer imp todo :
    Forall (Psub (fun sub =>
                         forall outer' imp' cs r, wf_comp outer' sub -> wf_out sub -> keys_within outer' imp' ->
                           Forall (clean imp') cs -> Forall fresh cs ->
                           compute_component re_match g args sub cs = Ok r ->
                           map asg_of r = flat_map (fun x => sem_comp re_match g args sub imp' (active x)) cs /\
                           Forall (FV g sub) r /\ Forall (clean imp') r)) todo ->
    wf_steps outer vs ss todo -> keys_within outer imp ->
    wf_out_steps todo -> incl todo ss -> NoDup (steps_keys ss) -> NoDup (steps_eids ss) ->
    forall cs r, Forall (clean imp) cs -> Forall (FV g (mkComp root vs ss outs)) cs ->
      exec_steps re_match g args vs ss todo cs = Ok r ->
      map asg_of r = sem_steps re_match g args vs ss imp todo (map asg_of cs) /\ Forall (clean imp) r /\
      Forall (FV g (mkComp root vs ss outs)) r.
  Proof.
    intros HIH. induction HIH as [|s todo Hs _ IH]; intros Hwf Hk Hwo Hincl Hkeys Heids cs r Hc Hfv H;
      cbn [exec_steps sem_steps wf_steps wf_out_steps] in *.
    - injection H as <-. split; [reflexivity|]. split; assumption.
    - assert (Hincl' : incl todo ss) by (intros y Hy; apply Hincl; now right).
      assert (Hin : In s ss) by (apply Hincl; now left).
      destruct s as [e|h sub].
      + destruct Hwf as (Hok & Hwf). inv_bind H.
        destruct (expand_edge_spec re_match g args Hind vs ss imp e cs x Hok Hc Hx) as (E1 & Hcl & Hfr).
        assert (Hfvx : Forall (FV g (mkComp root vs ss outs)) x).
        { rewrite Forall_forall in Hfr, Hfv. apply Forall_forall. intros y Hy. destruct (Hfr y Hy) as (c0 & Hc0 & Hf).
          eapply FV_frame; [exact Hf|auto]. }
        destruct (IH Hwf Hk Hwo Hincl' Hkeys Heids x r Hcl Hfvx H) as (E2 & Hcl2 & Hfv2).
        split; [now rewrite E2, E1|]. split; assumption.
      + destruct Hwf as ((Hnm & Hdis & Hwsub) & Hwf). destruct Hwo as (Hwosub & Hwo). inv_bind H.
        assert (Hfresh : Forall (key_fresh imp) (fo_imported h)) by (eapply key_fresh_of; eassumption).
        assert (Hsub' : forall imp' cs' r', keys_within (outer ++ fo_imported h) imp' ->
                   Forall (clean imp') cs' -> Forall fresh cs' ->
                   compute_component re_match g args sub cs' = Ok r' ->
                   map asg_of r' = flat_map (fun x => sem_comp re_match g args sub imp' (active x)) cs' /\
                   Forall (Qel sub) r').
        { intros imp' cs' r' Hp Hc' Hf' Hr'. cbn [Psub] in Hs.
          destruct (Hs _ _ _ _ Hwsub Hwosub Hp Hc' Hf' Hr') as (E & Hfvr & _). split; [exact E|].
          apply Forall_forall. intros el Hel. split; [rewrite Forall_forall in Hfvr; auto|].
          assert (Hin' : In (asg_of el) (map asg_of r')) by now apply in_map.
          rewrite E in Hin'. apply in_flat_map in Hin'. destruct Hin' as (x0 & _ & Hx0).
          eapply sem_comp_complete; exact Hx0. }
        assert (Hp' : forall a, keys_within (outer ++ fo_imported h) (imports_of g vs ss imp a (fo_imported h) imp)).
        { intros a. now apply keys_within_imports. }
        destruct (fold_step_spec re_match g args (keys_within (outer ++ fo_imported h)) (Qel sub) vs ss imp h sub
                                 (compute_component re_match g args sub) cs x Hsub' Hp' Hnm Hfresh Hc Hx) as (yss & HF & Hout).
        assert (Hcy : Forall (clean imp) (List.concat yss)).
        { clear - HF. induction HF as [|c ys l yss (_ & Hy) _ IHf]; [constructor|]. cbn [List.concat]. apply Forall_app. split; [|assumption].
          eapply Forall_impl; [|exact Hy]. intros y (Hcl & _). exact Hcl. }
        destruct (fold_outputs_keep imp h sub _ _ Hcy Hout) as (Ex & Hclx).
        (* the output bookkeeping *)
        assert (Hpre : Forall (fun y => exists c0 fe, FV g (mkComp root vs ss outs) c0 /\
                            folded_values y = folded_values c0 /\
                            folded_contexts y = folded_contexts c0 ++ [(fo_eid h, fe)] /\
                            lookup_N (fo_eid h) (folded_contexts c0) = None /\
                            match fe with Some els => Forall (Qel sub) els | None => True end) (List.concat yss)).
        { clear - HF Hfv. revert Hfv. induction HF as [|c ys l yss (_ & Hy) _ IHf]; intros Hfv; [constructor|].
          inversion Hfv as [|? ? Hfc Hfvl]; subst. cbn [List.concat]. apply Forall_app. split; [|auto].
          eapply Forall_impl; [|exact Hy]. intros y (_ & _ & Hv & Hl & fe & Hfe & HQ). exists c, fe. auto. }
        assert (Hfvx : Forall (FV g (mkComp root vs ss outs)) x).
        { apply mapM_ok in Hout. clear - Hout Hpre Hin Hkeys Heids. induction Hout as [|y z l r Hyz _ IHo]; [constructor|].
          inversion Hpre as [|? ? (c0 & fe & Hfc0 & Hv & Hfc & Hl & HQ) Hpre']; subst. constructor; [|auto].
          eapply (fold_outputs_one_FV g root vs ss outs h sub c0 y fe z); eassumption. }
        destruct (IH Hwf Hk Hwo Hincl' Hkeys Heids x r Hclx Hfvx H) as (E2 & Hcl2 & Hfv2). split; [|split; assumption].
        rewrite E2, Ex. f_equal.
        clear - HF. induction HF as [|c ys l yss (Hy & _) _ IHf]; [reflexivity|].
        cbn [List.concat map flat_map]. now rewrite map_app, IHf, Hy.
  Qed.

  (* ---------- any component ---------- *)
  Theorem compute_component_full : forall c outer imp cs r,
    wf_comp outer c -> wf_out c -> keys_within outer imp ->
    Forall (clean imp) cs -> Forall fresh cs ->
    compute_component re_match g args c cs = Ok r ->
    map asg_of r = flat_map (fun x => sem_comp re_match g args c imp (active x)) cs /\
    Forall (FV g c) r /\ Forall (clean imp) r.
  Proof.
    induction c as [root vs ss outs IHss] using comp_ind'. intros outer imp cs r Hwf Hwo Hk Hc Hf H.
    rewrite compute_component_eq in H. inv_bind H. inv_bind H.
    unfold vertex_of, expect_some in Hx. destruct (find_vertex vs root) as [rv|] eqn:Er; [|discriminate].
    injection Hx as <-.
    destruct (enter_vertex_spec re_match g args vs ss imp rv cs x0 Hc Hx0) as (-> & Hcl0).
    apply wf_comp_steps in Hwf. apply (proj1 (wf_out_eq _ _ _ _)) in Hwo. destruct Hwo as (Hkeys & Heids & Hwos).
    assert (Hfv0 : Forall (FV g (mkComp root vs ss outs))
                     (map (recorded (v_vid rv)) (filter (fun c => enter re_match g args vs ss imp (asg_of c) rv (active c)) cs))).
    { apply Forall_forall. intros y Hy. apply in_map_iff in Hy. destruct Hy as (c0 & <- & Hc0). apply filter_In in Hc0.
      apply FV_recorded, FV_fresh. rewrite Forall_forall in Hf. apply Hf. tauto. }
    destruct (exec_steps_spec root vs ss outs outer imp ss IHss Hwf Hk Hwos (incl_refl _) Hkeys Heids _ r Hcl0 Hfv0 H) as (E & Hclr & Hfvr).
    split; [|split; [exact Hfvr|exact Hclr]].
    rewrite E. clear E H Hcl0 Hx0 Hfv0 Hfvr Hclr. pose proof (find_vertex_vid _ _ _ Er) as Hvid.
    revert Hc Hf. induction cs as [|c cs IH]; intros Hc Hf; [cbn [filter map flat_map]; apply sem_steps_nil|].
    inversion Hc as [|? ? Hc1 Hc2]; inversion Hf as [|? ? (F1 & F2 & F3) Hf2]; subst.
    cbn [filter flat_map]. rewrite sem_comp_eq, Er.
    assert (Ha : asg_of c = Asg [] []) by (rewrite asg_of_eq, F1, F2; reflexivity).
    rewrite Ha.
    destruct (enter re_match g args vs ss imp (Asg [] []) rv (active c)) eqn:Ee.
    - cbn [map]. rewrite asg_of_recorded, Ha. cbn [set_av a_v a_f app].
      match goal with |- sem_steps _ _ _ _ _ _ _ (?a :: ?l) = _ => change (a :: l) with ([a] ++ l) end.
      rewrite sem_steps_app. f_equal. apply IH; assumption.
    - apply IH; assumption.
  Qed.
End Gen.
