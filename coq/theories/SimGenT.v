(* SimGenT.v — every component (any nesting of edges and folds, INCLUDING folds truncated by take(min))
   refines the truncating specification SemT, with the fold-output bookkeeping invariant FV.
   Adapted from SimGen.v (the only differences: SemT instead of Sem, and no `no_min_limit` hypothesis). *)
From Coq Require Import Lia.
From TF Require Import Exec Sem ExecLemmas Sim SimRec SimComp FoldLimits SimFold SimOut FoldOut SemComplete SimGen SemT SimFoldT.
Local Open Scope string_scope.
Local Open Scope N_scope.
Local Open Scope list_scope.

Section SemCompleteT.
  Variable re_match : string -> string -> option bool.
  Variable g : graph.
  Variable args : list (string * fv).

  Lemma step_fold_t_af vs ss imp h sub sub_sem a a' :
    In a' (step_fold_t re_match g args vs ss imp h sub sub_sem a) ->
    exists x, a_f a' = a_f a ++ [(fo_eid h, x)].
  Proof.
    unfold step_fold_t. destruct (find_vertex vs (fo_from h)); [|intros []].
    destruct (lookup_N (fo_from h) (a_v a)) as [[v|]|].
    - match goal with |- In _ (if ?b then _ else _) -> _ => destruct b end; [|intros []].
      intros [<-|[]]. eexists. reflexivity.
    - intros [<-|[]]. eexists. reflexivity.
    - intros [<-|[]]. eexists. reflexivity.
  Qed.

  Lemma sem_steps_t_complete vs ss imp todo : forall rows a',
    In a' (sem_steps_t re_match g args vs ss imp todo rows) ->
    exists a, In a rows /\ af_le (a_f a) (a_f a') /\ complete_steps todo (a_f a').
  Proof.
    induction todo as [|[e|h sub] todo IH]; intros rows a' H; cbn [sem_steps_t] in H.
    - exists a'. split; [assumption|]. split; [apply af_le_refl|]. intros h sub [].
    - destruct (IH _ _ H) as (a1 & H1 & Hle & Hc). apply in_flat_map in H1. destruct H1 as (a & Ha & H1).
      exists a. split; [assumption|]. rewrite <- (step_edge_af _ _ _ _ _ _ _ _ _ H1). split; [assumption|].
      intros h sub [E|Hin]; [discriminate|]. now apply (Hc h sub).
    - destruct (IH _ _ H) as (a1 & H1 & Hle & Hc). apply in_flat_map in H1. destruct H1 as (a & Ha & H1).
      destruct (step_fold_t_af _ _ _ _ _ _ _ _ H1) as (x & Hx).
      exists a. split; [assumption|]. split.
      + eapply af_le_trans; [|exact Hle]. rewrite Hx. apply af_le_app.
      + intros h' sub' [E|Hin]; [|now apply (Hc h' sub')]. injection E as <- <-.
        apply Hle. rewrite Hx. apply lookup_N_app_last.
  Qed.

  Lemma sem_comp_t_complete c imp root a : In a (sem_comp_t re_match g args c imp root) -> complete c (a_f a).
  Proof.
    destruct c as [rootvid vs ss outs]. rewrite sem_comp_t_eq. unfold complete.
    destruct (find_vertex vs rootvid); [|intros []].
    match goal with |- In _ (if ?b then _ else _) -> _ => destruct b end; [|intros []].
    intros H. destruct (sem_steps_t_complete _ _ _ _ _ _ H) as (_ & _ & _ & Hc). exact Hc.
  Qed.
End SemCompleteT.

Section GenT.
  Variable re_match : string -> string -> option bool.
  Variable g : graph.
  Variable args : list (string * fv).
  Hypothesis Hind : ty_indep g.

  Notation Qel := (SimGen.Qel g).
  Notation FV_frame := (SimGen.FV_frame g).
  Notation FV_fresh := (SimGen.FV_fresh g).
  Notation FV_recorded := (SimGen.FV_recorded g).
  Notation keys_within_imports := (SimGen.keys_within_imports g).
  Notation fold_outputs_keep := (SimGen.fold_outputs_keep g).

  (* recursion depths >= 1 and fresh import keys, at every level (no condition on fold-count limits) *)
  Fixpoint wf_comp_t (outer : list fieldref) (c : ir_component) {struct c} : Prop :=
    match c with
    | mkComp _ vs ss _ =>
        (fix go (todo : list step) : Prop :=
           match todo with
           | [] => True
           | SEdge e :: r => edge_ok e = true /\ go r
           | SFold h sub :: r =>
               (disjoint_keys (fo_imported h) outer /\ wf_comp_t (outer ++ fo_imported h) sub) /\ go r
           end) ss
    end.

  Fixpoint wf_steps_t (outer : list fieldref) (todo : list step) : Prop :=
    match todo with
    | [] => True
    | SEdge e :: r => edge_ok e = true /\ wf_steps_t outer r
    | SFold h sub :: r => (disjoint_keys (fo_imported h) outer /\ wf_comp_t (outer ++ fo_imported h) sub) /\ wf_steps_t outer r
    end.

  Lemma wf_comp_t_steps outer root vs ss outs : wf_comp_t outer (mkComp root vs ss outs) <-> wf_steps_t outer ss.
  Proof. cbn [wf_comp_t]. induction ss as [|[e|h sub] r IH]; cbn [wf_steps_t]; [tauto| |]; rewrite IH; tauto. Qed.

  (* ---------- the step loop, with the output bookkeeping ---------- *)
  Lemma exec_steps_spec_t root vs ss outs outer imp todo :
    Forall (Psub (fun sub =>
                         forall outer' imp' cs r, wf_comp_t outer' sub -> wf_out sub -> keys_within outer' imp' ->
                           Forall (clean imp') cs -> Forall fresh cs ->
                           compute_component re_match g args sub cs = Ok r ->
                           map asg_of r = flat_map (fun x => sem_comp_t re_match g args sub imp' (active x)) cs /\
                           Forall (FV g sub) r /\ Forall (clean imp') r)) todo ->
    wf_steps_t outer todo -> keys_within outer imp ->
    wf_out_steps todo -> incl todo ss -> NoDup (steps_keys ss) -> NoDup (steps_eids ss) ->
    forall cs r, Forall (clean imp) cs -> Forall (FV g (mkComp root vs ss outs)) cs ->
      exec_steps re_match g args vs ss todo cs = Ok r ->
      map asg_of r = sem_steps_t re_match g args vs ss imp todo (map asg_of cs) /\ Forall (clean imp) r /\
      Forall (FV g (mkComp root vs ss outs)) r.
  Proof.
    intros HIH. induction HIH as [|s todo Hs _ IH]; intros Hwf Hk Hwo Hincl Hkeys Heids cs r Hc Hfv H;
      cbn [exec_steps sem_steps_t wf_steps_t wf_out_steps] in *.
    - injection H as <-. split; [reflexivity|]. split; assumption.
    - assert (Hincl' : incl todo ss) by (intros y Hy; apply Hincl; now right).
      assert (Hin : In s ss) by (apply Hincl; now left).
      destruct s as [e|h sub].
      + destruct Hwf as (Hok & Hwf). inv_bind H.
        destruct (expand_edge_spec re_match g args Hind vs ss imp e cs x Hok Hc Hx) as (E1 & Hcl & Hfr).
        assert (Hfvx : Forall (FV g (mkComp root vs ss outs)) x).
        { rewrite Forall_forall in Hfr, Hfv. apply Forall_forall. intros y Hy. destruct (Hfr y Hy) as (c0 & Hc0 & Hf).
          eapply FV_frame; [exact Hf|auto]. }
        destruct (IH Hwf Hk Hwo Hincl' Hkeys Heids x r Hcl Hfvx H) as (E2 & Hcl2 & Hfv2).
        split; [now rewrite E2, E1|]. split; assumption.
      + destruct Hwf as ((Hdis & Hwsub) & Hwf). destruct Hwo as (Hwosub & Hwo). inv_bind H.
        assert (Hfresh : Forall (key_fresh imp) (fo_imported h)) by (eapply key_fresh_of; eassumption).
        assert (Hsub' : forall imp' cs' r', keys_within (outer ++ fo_imported h) imp' ->
                   Forall (clean imp') cs' -> Forall fresh cs' ->
                   compute_component re_match g args sub cs' = Ok r' ->
                   map asg_of r' = flat_map (fun x => sem_comp_t re_match g args sub imp' (active x)) cs' /\
                   Forall (Qel sub) r').
        { intros imp' cs' r' Hp Hc' Hf' Hr'. cbn [Psub] in Hs.
          destruct (Hs _ _ _ _ Hwsub Hwosub Hp Hc' Hf' Hr') as (E & Hfvr & _). split; [exact E|].
          apply Forall_forall. intros el Hel. split; [rewrite Forall_forall in Hfvr; auto|].
          assert (Hin' : In (asg_of el) (map asg_of r')) by now apply in_map.
          rewrite E in Hin'. apply in_flat_map in Hin'. destruct Hin' as (x0 & _ & Hx0).
          eapply sem_comp_t_complete; exact Hx0. }
        assert (Hp' : forall a, keys_within (outer ++ fo_imported h) (imports_of g vs ss imp a (fo_imported h) imp)).
        { intros a. now apply keys_within_imports. }
        destruct (fold_step_spec_t re_match g args (keys_within (outer ++ fo_imported h)) (Qel sub) vs ss imp h sub
                                 (compute_component re_match g args sub) cs x Hsub' Hp' Hfresh Hc Hx) as (yss & HF & Hout).
        assert (Hcy : Forall (clean imp) (List.concat yss)).
        { clear - HF. induction HF as [|c ys l yss (_ & Hy) _ IHf]; [constructor|]. cbn [List.concat]. apply Forall_app. split; [|assumption].
          eapply Forall_impl; [|exact Hy]. intros y (Hcl & _). exact Hcl. }
        destruct (fold_outputs_keep imp h sub _ _ Hcy Hout) as (Ex & Hclx).
        (* the output bookkeeping *)
        assert (Hpre : Forall (fun y => exists c0 fe, FV g (mkComp root vs ss outs) c0 /\
                            folded_values y = folded_values c0 /\
                            folded_contexts y = folded_contexts c0 ++ [(fo_eid h, fe)] /\
                            lookup_N (fo_eid h) (folded_contexts c0) = None /\
                            match fe with Some els => Forall (Qel sub) els | None => True end) (List.concat yss)).
        { clear - HF Hfv. revert Hfv. induction HF as [|c ys l yss (_ & Hy) _ IHf]; intros Hfv; [constructor|].
          inversion Hfv as [|? ? Hfc Hfvl]; subst. cbn [List.concat]. apply Forall_app. split; [|auto].
          eapply Forall_impl; [|exact Hy]. intros y (_ & _ & Hv & Hl & fe & Hfe & HQ). exists c, fe. auto. }
        assert (Hfvx : Forall (FV g (mkComp root vs ss outs)) x).
        { apply mapM_ok in Hout. clear - Hout Hpre Hin Hkeys Heids. induction Hout as [|y z l r Hyz _ IHo]; [constructor|].
          inversion Hpre as [|? ? (c0 & fe & Hfc0 & Hv & Hfc & Hl & HQ) Hpre']; subst. constructor; [|auto].
          eapply (fold_outputs_one_FV g root vs ss outs h sub c0 y fe z); eassumption. }
        destruct (IH Hwf Hk Hwo Hincl' Hkeys Heids x r Hclx Hfvx H) as (E2 & Hcl2 & Hfv2). split; [|split; assumption].
        rewrite E2, Ex. f_equal.
        clear - HF. induction HF as [|c ys l yss (Hy & _) _ IHf]; [reflexivity|].
        cbn [List.concat map flat_map]. now rewrite map_app, IHf, Hy.
  Qed.

  (* ---------- any component ---------- *)
  Theorem compute_component_full_t : forall c outer imp cs r,
    wf_comp_t outer c -> wf_out c -> keys_within outer imp ->
    Forall (clean imp) cs -> Forall fresh cs ->
    compute_component re_match g args c cs = Ok r ->
    map asg_of r = flat_map (fun x => sem_comp_t re_match g args c imp (active x)) cs /\
    Forall (FV g c) r /\ Forall (clean imp) r.
  Proof.
    induction c as [root vs ss outs IHss] using comp_ind'. intros outer imp cs r Hwf Hwo Hk Hc Hf H.
    rewrite compute_component_eq in H. inv_bind H. inv_bind H.
    unfold vertex_of, expect_some in Hx. destruct (find_vertex vs root) as [rv|] eqn:Er; [|discriminate].
    injection Hx as <-.
    destruct (enter_vertex_spec re_match g args vs ss imp rv cs x0 Hc Hx0) as (-> & Hcl0).
    apply wf_comp_t_steps in Hwf. apply (proj1 (wf_out_eq _ _ _ _)) in Hwo. destruct Hwo as (Hkeys & Heids & Hwos).
    assert (Hfv0 : Forall (FV g (mkComp root vs ss outs))
                     (map (recorded (v_vid rv)) (filter (fun c => enter re_match g args vs ss imp (asg_of c) rv (active c)) cs))).
    { apply Forall_forall. intros y Hy. apply in_map_iff in Hy. destruct Hy as (c0 & <- & Hc0). apply filter_In in Hc0.
      apply FV_recorded, FV_fresh. rewrite Forall_forall in Hf. apply Hf. tauto. }
    destruct (exec_steps_spec_t root vs ss outs outer imp ss IHss Hwf Hk Hwos (incl_refl _) Hkeys Heids _ r Hcl0 Hfv0 H) as (E & Hclr & Hfvr).
    split; [|split; [exact Hfvr|exact Hclr]].
    rewrite E. clear E H Hcl0 Hx0 Hfv0 Hfvr Hclr. pose proof (find_vertex_vid _ _ _ Er) as Hvid.
    revert Hc Hf. induction cs as [|c cs IH]; intros Hc Hf; [cbn [filter map flat_map]; apply sem_steps_t_nil|].
    inversion Hc as [|? ? Hc1 Hc2]; inversion Hf as [|? ? (F1 & F2 & F3) Hf2]; subst.
    cbn [filter flat_map]. rewrite sem_comp_t_eq, Er.
    assert (Ha : asg_of c = Asg [] []) by (rewrite asg_of_eq, F1, F2; reflexivity).
    rewrite Ha.
    destruct (enter re_match g args vs ss imp (Asg [] []) rv (active c)) eqn:Ee.
    - cbn [map]. rewrite asg_of_recorded, Ha. cbn [set_av a_v a_f app].
      match goal with |- sem_steps_t _ _ _ _ _ _ _ (?a :: ?l) = _ => change (a :: l) with ([a] ++ l) end.
      rewrite sem_steps_t_app. f_equal. apply IH; assumption.
    - apply IH; assumption.
  Qed.
End GenT.
