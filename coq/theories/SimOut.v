(* SimOut.v — output construction: the row built by construct_outputs has the same name -> value
   content as the projection of the assignment (rows are maps; compared extensionally). *)
From Coq Require Import Lia.
From TF Require Import ValuesProofs Exec Sem ExecLemmas Sim SimRec SimComp.
Local Open Scope string_scope.
Local Open Scope N_scope.
Local Open Scope list_scope.

Definition row_equiv (r1 r2 : list (string * fv)) : Prop :=
  forall n, lookup_str n r1 = lookup_str n r2.

Lemma row_equiv_refl r : row_equiv r r.
Proof. intros n; reflexivity. Qed.

Lemma leb_refl s : String.leb s s = true.
Proof.
  unfold String.leb. destruct (string_good s) as (Hr & _). unfold c_refl in Hr. now rewrite Hr.
Qed.

Lemma leb_false_neq k k' : String.leb k k' = false -> String.eqb k k' = false.
Proof.
  intros H. destruct (String.eqb_spec k k') as [->|]; [|reflexivity]. now rewrite leb_refl in H.
Qed.

Lemma lookup_insert_row k v r n :
  lookup_str n (insert_row k v r) = if String.eqb n k then Some v else lookup_str n r.
Proof.
  induction r as [|[k' v'] t IH]; cbn [insert_row lookup_str].
  - reflexivity.
  - destruct (String.leb k k') eqn:E; cbn [lookup_str].
    + reflexivity.
    + rewrite IH. destruct (String.eqb_spec n k) as [Hn|Hn].
      * rewrite Hn. now rewrite (leb_false_neq _ _ E).
      * reflexivity.
Qed.

Lemma lookup_insert_row_s k v r n :
  lookup_str n (insert_row_s k v r) = if String.eqb n k then Some v else lookup_str n r.
Proof.
  induction r as [|[k' v'] t IH]; cbn [insert_row_s lookup_str].
  - reflexivity.
  - destruct (String.leb k k') eqn:E; cbn [lookup_str].
    + reflexivity.
    + rewrite IH. destruct (String.eqb_spec n k) as [Hn|Hn].
      * rewrite Hn. now rewrite (leb_false_neq _ _ E).
      * reflexivity.
Qed.

(* sorting a row by insertion keeps, for every name, the FIRST binding of the original list *)
Lemma lookup_sort_row r n : lookup_str n (sort_row r) = lookup_str n r.
Proof.
  induction r as [|[k v] t IH]; [reflexivity|]. cbn [sort_row fold_right fst snd lookup_str].
  fold (sort_row t). rewrite lookup_insert_row_s, IH. reflexivity.
Qed.

Lemma lookup_fold_insert_row (l : list (string * fv)) n :
  lookup_str n (fold_right (fun nv r => insert_row (fst nv) (snd nv) r) [] l) = lookup_str n l.
Proof.
  induction l as [|[k v] t IH]; [reflexivity|]. cbn [fold_right fst snd lookup_str].
  rewrite lookup_insert_row, IH. reflexivity.
Qed.

Lemma in_insert_sorted s x l : In x (insert_sorted s l) <-> x = s \/ In x l.
Proof.
  induction l as [|y l IH]; cbn [insert_sorted]; [cbn; intuition|].
  destruct (String.leb s y); cbn [In]; [intuition|]. rewrite IH. intuition.
Qed.

Lemma in_sort_names x l : In x (sort_names l) <-> In x l.
Proof.
  unfold sort_names. induction l as [|y l IH]; cbn [fold_right In]; [reflexivity|].
  rewrite in_insert_sorted, IH. intuition.
Qed.

Lemma lookup_combine_map {B} (f : string -> B) names n :
  lookup_str n (combine names (map f names)) = if existsb (String.eqb n) names then Some (f n) else None.
Proof.
  induction names as [|k t IH]; [reflexivity|]. cbn [map combine lookup_str existsb].
  destruct (String.eqb_spec n k) as [->|Hn]; [reflexivity|]. cbn [orb]. exact IH.
Qed.

Lemma existsb_eqb_in n l : existsb (String.eqb n) l = true <-> In n l.
Proof.
  rewrite existsb_exists. split.
  - intros (x & Hx & E). apply String.eqb_eq in E. now subst.
  - intros H. exists n. split; [assumption|apply String.eqb_refl].
Qed.

Section Out.
  Variable re_match : string -> string -> option bool.
  Variable g : graph.
  Variable args : list (string * fv).

  (* the value of one own output of component c under assignment a *)
  Definition out_value (vs : list ir_vertex) (a : asg) (cf : ctxfield) : fv :=
    match find_vertex vs (cf_vid cf), lookup_N (cf_vid cf) (a_v a) with
    | Some vtx, Some (Some v) => g_prop g (v_type vtx) (cf_name cf) v
    | _, _ => Null
    end.

  Lemma own_output_ok vs outs cx name y :
    (do cf <- expect_some "root_component.outputs[name]" (lookup_str name outs);
     do ov <- vertex_at cx (cf_vid cf);
     do vtx <- vertex_of vs (cf_vid cf);
     Ok (match ov with Some v => g_prop g (v_type vtx) (cf_name cf) v | None => Null end)) = Ok y ->
    exists cf, lookup_str name outs = Some cf /\ y = out_value vs (asg_of cx) cf.
  Proof.
    intros H. inv_bind H. inv_bind H. inv_bind H. injection H as <-.
    unfold expect_some in Hx. destruct (lookup_str name outs) as [cf|]; [|discriminate]. injection Hx as <-.
    exists cf. split; [reflexivity|]. unfold out_value. rewrite a_v_asg_of.
    unfold vertex_at in Hx0. destruct (lookup_N (cf_vid cf) (vertices cx)) as [ov|]; [|discriminate]. injection Hx0 as <-.
    unfold vertex_of, expect_some in Hx1. destruct (find_vertex vs (cf_vid cf)) as [vtx|]; [|discriminate]. injection Hx1 as <-.
    destruct ov; reflexivity.
  Qed.

  (* a fold-free component: the row is the sorted own outputs *)
  Theorem construct_output_edges_spec root vs ss outs cx row :
    edges_only ss = true -> folded_values cx = [] -> values cx = [] ->
    construct_output_one g (mkComp root vs ss outs) (sort_names (map fst outs)) cx = Ok row ->
    row_equiv row (sort_row (project g (mkComp root vs ss outs) (asg_of cx))).
  Proof.
    intros Hok Hfv Hvals H. unfold construct_output_one in H. cbn [c_outputs c_vertices] in H.
    inv_bind H. rewrite Hfv, Hvals in H.
    destruct (negb (Nat.eqb (List.length (@nil fv) + List.length x) (List.length (sort_names (map fst outs))))); [discriminate|].
    cbn [foldM] in H. injection H as <-.
    assert (Hx' : x = map (fun name => match lookup_str name outs with
                                        | Some cf => out_value vs (asg_of cx) cf
                                        | None => Null end) (sort_names (map fst outs))).
    { eapply mapM_ok_map; [|exact Hx]. intros name y Hy. apply own_output_ok in Hy.
      destruct Hy as (cf & -> & ->). reflexivity. }
    subst x. intros n. rewrite lookup_fold_insert_row, lookup_sort_row, lookup_combine_map.
    (* the projection of a fold-free component *)
    assert (Hproj : project g (mkComp root vs ss outs) (asg_of cx) =
                    map (fun o => (fst o, out_value vs (asg_of cx) (snd o))) outs).
    { cbn [project].
      match goal with |- ?A ++ ?X = _ => assert (HX : X = []) end.
      { clear - Hok. induction ss as [|[e|h s] t IHt]; [reflexivity| |discriminate].
        cbn [edges_only] in Hok. apply andb_prop in Hok. destruct Hok as (_ & Hok). apply IHt. exact Hok. }
      rewrite HX, app_nil_r. reflexivity. }
    rewrite Hproj. clear Hproj Hx.
    assert (Hl : lookup_str n (map (fun o => (fst o, out_value vs (asg_of cx) (snd o))) outs)
                 = option_map (out_value vs (asg_of cx)) (lookup_str n outs)).
    { induction outs as [|[k cf] t IH]; [reflexivity|]. cbn [map lookup_str fst snd].
      destruct (String.eqb n k); [reflexivity|exact IH]. }
    rewrite Hl. clear Hl.
    assert (Hiff : existsb (String.eqb n) (sort_names (map fst outs)) = true <-> lookup_str n outs <> None).
    { rewrite existsb_eqb_in, in_sort_names. clear. induction outs as [|[k cf] t IH]; cbn [map fst In lookup_str].
      - split; [intros []|congruence].
      - destruct (String.eqb_spec n k) as [->|Hn]; [split; [congruence|now left]|].
        rewrite <- IH. split; [intros [H|H]; [congruence|assumption]|now right]. }
    destruct (existsb (String.eqb n) (sort_names (map fst outs))) eqn:E.
    - destruct (lookup_str n outs) as [cf|] eqn:El; [reflexivity|].
      exfalso. now apply (proj1 Hiff eq_refl).
    - destruct (lookup_str n outs) as [cf|] eqn:El; [|reflexivity].
      exfalso. assert (F : false = true) by (apply Hiff; congruence). discriminate.
  Qed.
End Out.
