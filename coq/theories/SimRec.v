(* SimRec.v — @recurse: the piggy-backing expansion rounds of execution.rs list exactly the
   depth-first pre-order of gated paths that Sem.rec_from defines. *)
From Coq Require Import Lia.
From TF Require Import Exec Sem ExecLemmas Sim.
Local Open Scope string_scope.
Local Open Scope N_scope.
Local Open Scope list_scope.

Section Rec.
  Variable g : graph.
  Variables (origin_ty recursing_from endpoint_ty : string) (coerce_to : option string) (e : ir_edge).

  Notation edge := (e_name e).
  Notation ps := (e_params e).

  Definition gate_ctx (c : ctx) : ctx :=
    match coerce_to with
    | Some to => if resolve_coerce g endpoint_ty to c then c else ensure_suspended c
    | None => c
    end.

  Definition gate_v (v : vertex) : bool :=
    match coerce_to with Some to => g_coerce g endpoint_ty to v | None => true end.

  Definition ty_of (first : bool) : string := if first then origin_ty else recursing_from.

  (* one round on the top-level list: gate (except in the first round), then expand *)
  Definition round (first : bool) (l : list ctx) : list ctx :=
    one_recursive_expansion g (ty_of first) e (if first then l else map gate_ctx l).

  Fixpoint rounds (flags : list bool) (l : list ctx) : list ctx :=
    match flags with [] => l | f :: fs => rounds fs (round f l) end.

  Definition flags_of (first : bool) (k : nat) : list bool :=
    match k with O => [] | S k' => first :: repeat false k' end.

  Lemma recursion_rounds_eq k l :
    recursion_rounds g k endpoint_ty coerce_to recursing_from e l = rounds (repeat false k) l.
  Proof.
    revert l. induction k as [|k IH]; intros l; [reflexivity|]. cbn [recursion_rounds repeat rounds].
    rewrite IH. unfold round, ty_of. f_equal. f_equal. unfold gate_ctx. destruct coerce_to; [reflexivity|].
    now rewrite map_id.
  Qed.

  (* ---- flattened dynamics ---- *)
  Definition no_pb (c : ctx) : ctx := set_piggyback c None.

  Definition stepF (first : bool) (c : ctx) : list ctx :=
    match active c with
    | None => [c]
    | Some v =>
        if first || gate_v v then
          match g_nbrs g (ty_of first) edge ps v with
          | [] => [c]
          | ns => ensure_suspended c :: map (fun n => split_and_move c (Some n)) ns
          end
        else [ensure_suspended c]
    end.

  (* inert: no active vertex, hereditarily in the piggyback *)
  Inductive inert : ctx -> Prop :=
  | inert_intro a vs vals susp fcs fvs pb imp :
      a = None -> (forall l, pb = Some l -> Forall inert l) ->
      inert (mkCtx a vs vals susp fcs fvs pb imp).

  Definition pb_inert (c : ctx) : Prop := forall l, piggyback c = Some l -> Forall inert l.

  Definition flat (l : list ctx) : list ctx := flat_map unpack_piggyback l.

  Lemma unpack_eq c :
    unpack_piggyback c =
    (match piggyback c with Some l => flat l | None => [] end) ++ [no_pb c].
  Proof.
    destruct c as [a vs vals susp fcs fvs pb imp]. cbn [unpack_piggyback piggyback]. destruct pb; reflexivity.
  Qed.

  Definition flat_inert (x : ctx) : Prop := active x = None /\ piggyback x = None.

  Lemma inert_unpack c : inert c -> Forall flat_inert (unpack_piggyback c).
  Proof.
    revert c. fix IH 2. intros c Hi. destruct Hi as [a vs vals susp fcs fvs pb imp Ha Hpb].
    rewrite unpack_eq. cbn [piggyback]. apply Forall_app. split.
    - destruct pb as [l|]; [|constructor]. specialize (Hpb l eq_refl). unfold flat.
      induction Hpb as [|x r Hx Hr IHr]; [constructor|]. cbn [flat_map]. apply Forall_app. split; [apply IH; exact Hx|exact IHr].
    - constructor; [|constructor]. subst a. split; reflexivity.
  Qed.

  Lemma flat_inert_all l : Forall inert l -> Forall flat_inert (flat l).
  Proof. induction 1 as [|x r Hx _ IH]; [constructor|]. cbn. apply Forall_app. split; [now apply inert_unpack|exact IH]. Qed.

  Lemma stepF_inert first l : Forall flat_inert l -> flat_map (stepF first) l = l.
  Proof.
    induction 1 as [|x r (Ha & _) _ IH]; [reflexivity|]. cbn [flat_map]. unfold stepF at 1. rewrite Ha. cbn. now rewrite IH.
  Qed.

  Lemma gate_inert c : active c = None -> gate_ctx c = c.
  Proof.
    intros Ha. unfold gate_ctx. destruct coerce_to; [|reflexivity]. unfold resolve_coerce, ensure_suspended. now rewrite Ha.
  Qed.

  Definition riders (c : ctx) : list ctx := match piggyback c with Some l => flat l | None => [] end.

  Lemma unpack_riders c : unpack_piggyback c = riders c ++ [no_pb c].
  Proof. apply unpack_eq. Qed.

  Lemma flat_expander_nil c : flat (recursive_edge_expander c []) = unpack_piggyback c.
  Proof. cbn [recursive_edge_expander]. unfold flat. cbn [flat_map]. apply app_nil_r. Qed.

  Lemma riders_suspended c : riders (ensure_suspended c) = riders c.
  Proof. unfold ensure_suspended. destruct c as [[v|] ? ? ? ? ? ? ?]; reflexivity. Qed.

  Lemma no_pb_suspended c : no_pb (ensure_suspended c) = ensure_suspended (no_pb c).
  Proof. destruct c as [[v|] ? ? ? ? ? ? ?]; reflexivity. Qed.

  Lemma split_no_pb c o : split_and_move (no_pb c) o = split_and_move c o.
  Proof. destruct c; reflexivity. Qed.

  Lemma flat_expander_cons c n1 rest :
    flat (recursive_edge_expander c (n1 :: rest)) =
    riders c ++ no_pb (ensure_suspended c) :: map (fun n => split_and_move c (Some n)) (n1 :: rest).
  Proof.
    cbn [recursive_edge_expander]. unfold flat at 1. cbn [flat_map].
    rewrite unpack_riders. unfold riders at 1. cbn [piggyback set_piggyback].
    replace (piggyback (set_piggyback (split_and_move c (Some n1)) (Some [ensure_suspended c])))
      with (Some [ensure_suspended c]) by (destruct c; reflexivity).
    unfold flat at 1. cbn [flat_map]. rewrite app_nil_r, unpack_riders, riders_suspended.
    rewrite <- !app_assoc. f_equal. cbn [app map]. f_equal.
    replace (no_pb (set_piggyback (split_and_move c (Some n1)) (Some [ensure_suspended c])))
      with (split_and_move c (Some n1)) by (destruct c; reflexivity).
    f_equal.
    induction rest as [|r rest IHr]; [reflexivity|]. cbn [map flat_map]. rewrite IHr.
    rewrite unpack_riders.
    replace (riders (split_and_move (split_and_move c None) (Some r))) with (@nil ctx) by (destruct c; reflexivity).
    cbn [app]. apply (f_equal (fun x => x :: _)). destruct c; reflexivity.
  Qed.

  (* gate then expand one context = step on the flattened context, riders unchanged *)
  Lemma expand_flat (first : bool) (c : ctx) :
    pb_inert c ->
    flat (recursive_edge_expander (if first then c else gate_ctx c)
            (resolve_nbrs g (ty_of first) edge ps (if first then c else gate_ctx c)))
    = flat_map (stepF first) (unpack_piggyback c).
  Proof.
    intros Hpb. rewrite (unpack_riders c), flat_map_app.
    assert (Hr : flat_map (stepF first) (riders c) = riders c).
    { unfold riders. destruct (piggyback c) as [l|] eqn:E; [|reflexivity]. apply stepF_inert, flat_inert_all, Hpb, E. }
    rewrite Hr. clear Hr. cbn [flat_map]. rewrite app_nil_r.
    destruct (active c) as [v|] eqn:Ea.
    - destruct (first || gate_v v) eqn:Ep.
      + (* expands *)
        assert (Hg : (if first then c else gate_ctx c) = c).
        { destruct first; [reflexivity|]. cbn [orb] in Ep. unfold gate_ctx, gate_v, resolve_coerce in *. rewrite Ea.
          destruct coerce_to; [now rewrite Ep|reflexivity]. }
        rewrite Hg. unfold resolve_nbrs. rewrite Ea.
        unfold stepF. replace (active (no_pb c)) with (Some v) by (destruct c; cbn in *; congruence).
        rewrite Ep.
        destruct (g_nbrs g (ty_of first) edge ps v) as [|n1 rest].
        * rewrite flat_expander_nil. apply unpack_riders.
        * rewrite flat_expander_cons, no_pb_suspended.
          apply (f_equal (fun l => riders c ++ ensure_suspended (no_pb c) :: l)).
          apply map_ext. intros n. now rewrite split_no_pb.
      + (* gate fails: the context is suspended and not expanded *)
        destruct first; [discriminate|]. cbn [orb] in Ep.
        assert (Hg : gate_ctx c = ensure_suspended c).
        { unfold gate_ctx, gate_v, resolve_coerce in *. rewrite Ea. destruct coerce_to; [now rewrite Ep|discriminate]. }
        rewrite Hg. unfold resolve_nbrs.
        replace (active (ensure_suspended c)) with (@None vertex) by (unfold ensure_suspended; rewrite Ea; destruct c; reflexivity).
        rewrite flat_expander_nil, unpack_riders, riders_suspended. f_equal.
        unfold stepF. replace (active (no_pb c)) with (Some v) by (destruct c; cbn in *; congruence).
        cbn [orb]. rewrite Ep. now rewrite no_pb_suspended.
    - (* no active vertex: nothing happens *)
      assert (Hg : (if first then c else gate_ctx c) = c).
      { destruct first; [reflexivity|]. now apply gate_inert. }
      rewrite Hg. unfold resolve_nbrs. rewrite Ea. rewrite flat_expander_nil, unpack_riders. f_equal.
      unfold stepF. replace (active (no_pb c)) with (@None vertex) by (destruct c; cbn in *; congruence).
      reflexivity.
  Qed.

  Lemma inert_suspended c : pb_inert c -> inert (ensure_suspended c).
  Proof.
    intros Hpb. destruct c as [[v|] vs vals susp fcs fvs pb imp]; cbn; constructor; auto.
  Qed.

  Lemma expander_pb_inert c ns : pb_inert c -> Forall pb_inert (recursive_edge_expander c ns).
  Proof.
    intros Hpb. destruct ns as [|n1 rest]; cbn [recursive_edge_expander].
    - constructor; [assumption|constructor].
    - constructor.
      + intros l Hl. replace l with [ensure_suspended c] by (destruct c; cbn in Hl; congruence).
        constructor; [now apply inert_suspended|constructor].
      + apply Forall_forall. intros x Hx. apply in_map_iff in Hx. destruct Hx as (n & <- & _).
        intros l Hl. destruct c; discriminate.
  Qed.

  Lemma gate_pb_inert c : pb_inert c -> pb_inert (gate_ctx c).
  Proof.
    intros H. unfold gate_ctx. destruct coerce_to; [|assumption].
    destruct (resolve_coerce g endpoint_ty s c); [assumption|].
    unfold ensure_suspended. destruct c as [[v|] ? ? ? ? ? ? ?]; exact H.
  Qed.

  Lemma round_flat first L :
    Forall pb_inert L -> flat (round first L) = flat_map (stepF first) (flat L) /\ Forall pb_inert (round first L).
  Proof.
    induction 1 as [|c L Hc _ (IH1 & IH2)].
    - unfold round, one_recursive_expansion. destruct first; cbn; split; constructor.
    - pose proof (expand_flat first c Hc) as He.
      unfold round, one_recursive_expansion in *. unfold flat in *.
      split.
      + destruct first; cbn [map flat_map] in *; rewrite !flat_map_app; rewrite He, IH1; reflexivity.
      + destruct first; cbn [map flat_map] in *; (apply Forall_app; split; [|exact IH2]);
          apply expander_pb_inert; [assumption|now apply gate_pb_inert].
  Qed.

  Fixpoint iterF (flags : list bool) (l : list ctx) : list ctx :=
    match flags with [] => l | f :: fs => iterF fs (flat_map (stepF f) l) end.

  Lemma rounds_flat flags : forall L, Forall pb_inert L -> flat (rounds flags L) = iterF flags (flat L).
  Proof.
    induction flags as [|f fs IH]; intros L HL; [reflexivity|]. cbn [rounds iterF].
    destruct (round_flat f L HL) as (H1 & H2). rewrite IH by assumption. now rewrite H1.
  Qed.

  Lemma iterF_app flags : forall l1 l2, iterF flags (l1 ++ l2) = iterF flags l1 ++ iterF flags l2.
  Proof. induction flags as [|f fs IH]; intros; cbn [iterF]; [reflexivity|]. now rewrite flat_map_app, IH. Qed.

  Lemma iterF_flat_map flags l : iterF flags l = flat_map (fun x => iterF flags [x]) l.
  Proof.
    induction l as [|x l IH]; cbn [flat_map].
    - induction flags; cbn; auto.
    - change (x :: l) with ([x] ++ l). now rewrite iterF_app, IH.
  Qed.

  Lemma iterF_fix flags x : (forall f, stepF f x = [x]) -> iterF flags [x] = [x].
  Proof. intros H. induction flags as [|f fs IH]; cbn [iterF flat_map]; [reflexivity|]. now rewrite H, app_nil_r. Qed.

  Lemma stepF_no_active f x : active x = None -> stepF f x = [x].
  Proof. intros H. unfold stepF. now rewrite H. Qed.

  Lemma flags_false k : flags_of false k = repeat false k.
  Proof. destruct k; reflexivity. Qed.

  Lemma unsuspend_suspended c v : active c = Some v -> ensure_unsuspended (ensure_suspended c) = Ok c.
  Proof. intros H. destruct c as [a ? ? ? ? ? ? ?]. cbn in H. subst a. reflexivity. Qed.

  Lemma unsuspend_active c v : active c = Some v -> ensure_unsuspended c = Ok c.
  Proof. intros H. unfold ensure_unsuspended. now rewrite H. Qed.

  (* neighbours do not depend on which of its static types the call names *)
  Hypothesis nbrs_ty_indep : forall v, g_nbrs g origin_ty edge ps v = g_nbrs g recursing_from edge ps v.

  Lemma nbrs_any first v : g_nbrs g (ty_of first) edge ps v = g_nbrs g recursing_from edge ps v.
  Proof. destruct first; [apply nbrs_ty_indep|reflexivity]. Qed.

  (* a context without neighbours stays (possibly suspended by a failing gate) through all later rounds *)
  Lemma dead_end k : forall c v, active c = Some v -> g_nbrs g recursing_from edge ps v = [] ->
    mapM ensure_unsuspended (iterF (repeat false k) [c]) = Ok [c].
  Proof.
    induction k as [|k IH]; intros c v Ha Hn; cbn [repeat iterF flat_map mapM].
    - rewrite (unsuspend_active _ _ Ha). reflexivity.
    - rewrite app_nil_r. unfold stepF at 1. rewrite Ha. cbn [orb]. unfold ty_of. rewrite Hn.
      destruct (gate_v v).
      + now apply IH with v.
      + rewrite iterF_fix by (intros f; apply stepF_no_active; unfold ensure_suspended; rewrite Ha; destruct c; reflexivity).
        cbn [mapM]. rewrite (unsuspend_suspended _ _ Ha). reflexivity.
  Qed.

  Lemma set_active_same c v : active c = Some v -> set_active c (Some v) = c.
  Proof. intros H. destruct c as [a ? ? ? ? ? ? ?]. cbn in H. now subst a. Qed.

  Lemma mapM_unsus_app l1 l2 r1 r2 :
    mapM ensure_unsuspended l1 = Ok r1 -> mapM ensure_unsuspended l2 = Ok r2 ->
    mapM ensure_unsuspended (l1 ++ l2) = Ok (r1 ++ r2).
  Proof. apply mapM_app_ok. Qed.

  (* the flattened rounds list the gated paths in depth-first pre-order *)
  Theorem dfs k : forall first c v,
    active c = Some v -> piggyback c = None ->
    mapM ensure_unsuspended (iterF (flags_of first k) [c]) =
    Ok (map (fun u => set_active c (Some u))
            (rec_from g k first origin_ty recursing_from endpoint_ty coerce_to edge ps v)).
  Proof.
    induction k as [|k IH]; intros first c v Ha Hp.
    - cbn [flags_of iterF mapM rec_from map]. rewrite (unsuspend_active _ _ Ha). cbn. now rewrite (set_active_same _ _ Ha).
    - cbn [flags_of iterF flat_map rec_from]. rewrite app_nil_r.
      fold (gate_v v). unfold stepF at 1. rewrite Ha.
      destruct (first || gate_v v) eqn:Ep.
      + rewrite (nbrs_any first v). change (g_nbrs g (if first then origin_ty else recursing_from) edge ps v) with (g_nbrs g (ty_of first) edge ps v).
        rewrite (nbrs_any first v).
        destruct (g_nbrs g recursing_from edge ps v) as [|n1 rest] eqn:En.
        * cbn [flat_map map]. rewrite (dead_end k c v Ha En). now rewrite (set_active_same _ _ Ha).
        * remember (n1 :: rest) as ns eqn:Hns. clear En Hns n1 rest.
          change (ensure_suspended c :: map (fun n => split_and_move c (Some n)) ns)
            with ([ensure_suspended c] ++ map (fun n => split_and_move c (Some n)) ns).
          rewrite iterF_app.
          rewrite iterF_fix by (intros f; apply stepF_no_active; unfold ensure_suspended; rewrite Ha; destruct c; reflexivity).
          change (map (fun u => set_active c (Some u)) (v :: ?l)) with ([set_active c (Some v)] ++ map (fun u => set_active c (Some u)) l).
          apply mapM_unsus_app.
          -- cbn [mapM]. rewrite (unsuspend_suspended _ _ Ha). cbn. now rewrite (set_active_same _ _ Ha).
          -- rewrite iterF_flat_map.
             induction ns as [|n ns IHn]; [reflexivity|].
             cbn [map flat_map]. rewrite map_app. apply mapM_unsus_app; [|exact IHn].
             rewrite <- flags_false.
             rewrite (IH false (split_and_move c (Some n)) n) by (destruct c; reflexivity).
             f_equal. apply map_ext. intros u. destruct c; cbn in *. now subst.
      + destruct first; [discriminate|]. cbn [orb] in Ep.
        cbn [map]. rewrite iterF_fix by (intros f; apply stepF_no_active; unfold ensure_suspended; rewrite Ha; destruct c; reflexivity).
        cbn [mapM]. rewrite (unsuspend_suspended _ _ Ha). cbn. now rewrite (set_active_same _ _ Ha).
  Qed.
End Rec.

(* ---------- the recursive-edge stage refines Sem.step_edge ---------- *)
Section RecStage.
  Variable re_match : string -> string -> option bool.
  Variable g : graph.
  Variable args : list (string * fv).

  Lemma Ok_inj {A} (a b : A) : Ok a = Ok b -> b = a.
  Proof. congruence. Qed.

  Lemma mapM_flat_map_inv {A B C} (f : B -> res C) (h : A -> list B) l r :
    mapM f (flat_map h l) = Ok r ->
    exists rs, Forall2 (fun x ys => mapM f (h x) = Ok ys) l rs /\ r = List.concat rs.
  Proof.
    revert r. induction l as [|x l IH]; cbn [flat_map]; intros r H.
    - cbn in H. injection H as <-. exists []. split; constructor.
    - apply mapM_app in H. destruct H as (r1 & r2 & H1 & H2 & ->).
      destruct (IH _ H2) as (rs & HF & ->). exists (r1 :: rs). split; [constructor; assumption|reflexivity].
  Qed.

  (* what a stage must deliver for one incoming context before the destination vertex is entered:
     contexts standing for the same assignment, one per candidate, in order *)
  Definition offers (imp : list (fieldref * tagged)) (c : ctx) (cands : list (option vertex)) (xs : list ctx) : Prop :=
    map active xs = cands /\ Forall (fun x => asg_of x = asg_of c /\ clean imp x /\ frame c x) xs.

  Lemma entered_offers vs ss imp tov to c cands xs :
    offers imp c cands xs ->
    map asg_of (map (recorded to) (filter (fun x => enter re_match g args vs ss imp (asg_of x) tov (active x)) xs))
    = flat_map (fun cand => if enter re_match g args vs ss imp (asg_of c) tov cand then [set_av (asg_of c) to cand] else []) cands
    /\ Forall (frame c) (map (recorded to) (filter (fun x => enter re_match g args vs ss imp (asg_of x) tov (active x)) xs)).
  Proof.
    intros (Hm & HF). subst cands. induction HF as [|x xs (Ha & Hcl & Hfr) _ (IH1 & IH2)]; [split; [reflexivity|constructor]|].
    cbn [filter map flat_map]. rewrite Ha.
    destruct (enter re_match g args vs ss imp (asg_of c) tov (active x)); cbn [map app].
    - split.
      + rewrite asg_of_recorded, Ha. f_equal. exact IH1.
      + constructor; [|exact IH2]. destruct Hfr as (F1 & F2). destruct x; split; cbn in *; assumption.
    - split; assumption.
  Qed.

  Definition rec_prep (from : N) (c : ctx) : ctx :=
    set_active (match active c with None => set_suspended c (None :: suspended c) | Some _ => c end)
               (act_at c from).

  Lemma rec_prep_ok from c y :
    (let c' := match active c with None => set_suspended c (None :: suspended c) | Some _ => c end in
     activate_vertex c' from) = Ok y -> y = rec_prep from c.
  Proof.
    cbn zeta. intros H. apply activate_vertex_ok in H. subst y. unfold rec_prep.
    destruct c as [[a|] ? ? ? ? ? ? ?]; reflexivity.
  Qed.

  Lemma rec_prep_props imp from c :
    clean imp c ->
    let c0 := rec_prep from c in
    active c0 = act_at c from /\ piggyback c0 = None /\ asg_of c0 = asg_of c /\ frame c c0 /\
    values c0 = [] /\ imported_tags c0 = imp /\ Forall (fun s => s = None) (suspended c0).
  Proof.
    intros (Hv & Hs & Hp & Hi). unfold rec_prep.
    destruct c as [[a|] vs vals susp fcs fvs pb im]; cbn [active];
      repeat split; try (rewrite !asg_of_eq); cbn in *; auto.
  Qed.

  Lemma set_active_props imp c0 c u :
    piggyback c0 = None -> asg_of c0 = asg_of c -> frame c c0 -> values c0 = [] -> imported_tags c0 = imp ->
    Forall (fun s => s = None) (suspended c0) ->
    asg_of (set_active c0 u) = asg_of c /\ clean imp (set_active c0 u) /\ frame c (set_active c0 u).
  Proof.
    intros Hp Ha (F1 & F2) Hv Hi Hs. rewrite asg_of_set_active. split; [assumption|].
    destruct c0; cbn in *. repeat split; assumption.
  Qed.

  Lemma expand_edge_rec_F vs ss imp e r0 cs r :
    e_rec e = Some r0 -> r_depth r0 <> 0 -> Forall (clean imp) cs ->
    expand_edge re_match g args vs ss e cs = Ok r ->
    exists fromv tov, find_vertex vs (e_from e) = Some fromv /\ find_vertex vs (e_to e) = Some tov /\
      let endpoint_ty := match v_from tov with Some t => t | None => v_type tov end in
      let recursing_from := match r_coerce r0 with Some t => t | None => endpoint_ty end in
      ((forall v, g_nbrs g (v_type fromv) (e_name e) (e_params e) v = g_nbrs g recursing_from (e_name e) (e_params e) v) ->
       exists xss,
         Forall2 (fun c xs =>
                    offers imp c
                      (match act_at c (e_from e) with
                       | Some v => map Some (rec_from g (N.to_nat (r_depth r0)) true (v_type fromv) recursing_from endpoint_ty
                                                      (r_coerce r0) (e_name e) (e_params e) v)
                       | None => [None]
                       end) xs) cs xss /\
         r = map (recorded (e_to e))
                 (filter (fun x => enter re_match g args vs ss imp (asg_of x) tov (active x)) (List.concat xss)) /\
         Forall (clean imp) r).
  Proof.
    intros Hrec Hd Hc H. unfold expand_edge in H. rewrite Hrec in H.
    inv_bind H. inv_bind H. inv_bind H.
    unfold vertex_of, expect_some in Hx, Hx0.
    destruct (find_vertex vs (e_from e)) as [fromv|] eqn:Ef; [|discriminate]. injection Hx as <-.
    destruct (find_vertex vs (e_to e)) as [tov|] eqn:Et; [|discriminate]. injection Hx0 as <-.
    exists fromv, tov. split; [reflexivity|]. split; [reflexivity|]. cbn zeta. intros Hindep.
    pose proof (find_vertex_vid _ _ _ Ef) as Hvf. pose proof (find_vertex_vid _ _ _ Et) as Hvt.
    unfold expand_recursive_edge in Hx1. inv_bind Hx1. rewrite Hvf in Hx.
    assert (Hx2 : x = map (rec_prep (e_from e)) cs).
    { eapply mapM_ok_map; [|exact Hx]. intros c y. apply rec_prep_ok. }
    subst x. clear Hx.
    set (endpoint_ty := match v_from tov with Some t => t | None => v_type tov end) in *.
    set (recursing_from := match r_coerce r0 with Some t => t | None => endpoint_ty end) in *.
    destruct (N.to_nat (r_depth r0)) as [|k] eqn:Ek; [lia|].
    replace (S k - 1)%nat with k in Hx1 by lia.
    rewrite (recursion_rounds_eq g (v_type fromv) recursing_from endpoint_ty (r_coerce r0) e) in Hx1.
    change (one_recursive_expansion g (v_type fromv) e (map (rec_prep (e_from e)) cs))
      with (round g (v_type fromv) recursing_from endpoint_ty (r_coerce r0) e true (map (rec_prep (e_from e)) cs)) in Hx1.
    change (rounds g (v_type fromv) recursing_from endpoint_ty (r_coerce r0) e (repeat false k)
              (round g (v_type fromv) recursing_from endpoint_ty (r_coerce r0) e true (map (rec_prep (e_from e)) cs)))
      with (rounds g (v_type fromv) recursing_from endpoint_ty (r_coerce r0) e (flags_of true (S k)) (map (rec_prep (e_from e)) cs)) in Hx1.
    unfold post_process_recursive_expansion in Hx1.
    assert (Hpb : Forall (pb_inert) (map (rec_prep (e_from e)) cs)).
    { apply Forall_forall. intros y Hy. apply in_map_iff in Hy. destruct Hy as (c & <- & Hin).
      rewrite Forall_forall in Hc. destruct (rec_prep_props imp (e_from e) c (Hc _ Hin)) as (_ & Hp & _).
      intros l Hl. congruence. }
    change (flat_map unpack_piggyback ?l) with (flat l) in Hx1.
    rewrite (rounds_flat g (v_type fromv) recursing_from endpoint_ty (r_coerce r0) e _ _ Hpb) in Hx1.
    assert (Hflat : flat (map (rec_prep (e_from e)) cs) = map (rec_prep (e_from e)) cs).
    { clear Hx1 Hpb. induction cs as [|c cs IH]; [reflexivity|]. cbn [map]. unfold flat in *. cbn [flat_map].
      inversion Hc as [|? ? Hc1 Hc2]; subst. rewrite IH by assumption.
      destruct (rec_prep_props imp (e_from e) c Hc1) as (_ & Hp & _).
      rewrite unpack_eq, Hp. cbn [app]. f_equal. destruct (rec_prep (e_from e) c); cbn in *. now subst. }
    rewrite Hflat in Hx1. rewrite iterF_flat_map, flat_map_map in Hx1.
    apply mapM_flat_map_inv in Hx1. destruct Hx1 as (xss & HF & ->).
    exists xss. split.
    - clear H Hpb Hflat. induction HF as [|c xs cs xss Hxs _ IH]; [constructor|].
      inversion Hc as [|? ? Hc1 Hc2]; subst. constructor; [|apply IH; assumption].
      destruct (rec_prep_props imp (e_from e) c Hc1) as (Hact & Hp & Ha & Hfr & Hv & Hi & Hs).
      destruct (act_at c (e_from e)) as [v|] eqn:Eact.
      + rewrite (dfs g (v_type fromv) recursing_from endpoint_ty (r_coerce r0) e Hindep (S k) true _ v Hact Hp) in Hxs.
        apply Ok_inj in Hxs. subst xs. split.
        * rewrite map_map. apply map_ext. intros u. destruct (rec_prep (e_from e) c); reflexivity.
        * apply Forall_forall. intros y Hy. apply in_map_iff in Hy. destruct Hy as (u & <- & _).
          apply (set_active_props imp); assumption.
      + rewrite iterF_fix in Hxs by (intros f; apply stepF_no_active; exact Hact).
        cbn [mapM] in Hxs. inv_bind Hxs. injection Hxs as <-.
        unfold ensure_unsuspended in Hx. rewrite Hact in Hx.
        destruct (suspended (rec_prep (e_from e) c)) as [|a s] eqn:Es; [discriminate|]. injection Hx as <-.
        inversion Hs as [|? ? Ha0 Hs0]; subst. split; [reflexivity|].
        constructor; [|constructor].
        destruct (rec_prep (e_from e) c) as [a0 vs0 vals0 susp0 fcs0 fvs0 pb0 im0] eqn:Er.
        cbn in *. subst. rewrite asg_of_eq in *. cbn in *. destruct Hfr as (F1 & F2). cbn in *.
        repeat split; auto.
    - rewrite <- Hvt. apply (enter_vertex_spec _ _ _ _ _ imp) in H; [exact H|].
      clear H. apply Forall_forall. intros y Hy. apply in_concat in Hy. destruct Hy as (xs & Hxs & Hy).
      assert (Hall : Forall (fun xs => Forall (clean imp) xs) xss).
      { clear Hxs Hy Hpb Hflat. induction HF as [|c xs0 cs xss Hxs0 _ IH]; [constructor|].
        inversion Hc as [|? ? Hc1 Hc2]; subst. constructor; [|apply IH; assumption].
        destruct (rec_prep_props imp (e_from e) c Hc1) as (Hact & Hp & Ha & Hfr & Hv & Hi & Hs).
        destruct (act_at c (e_from e)) as [v|] eqn:Eact.
        - rewrite (dfs g (v_type fromv) recursing_from endpoint_ty (r_coerce r0) e Hindep (S k) true _ v Hact Hp) in Hxs0.
          apply Ok_inj in Hxs0. subst xs0. apply Forall_forall. intros z Hz. apply in_map_iff in Hz. destruct Hz as (u & <- & _).
          apply (set_active_props imp _ c); assumption.
        - rewrite iterF_fix in Hxs0 by (intros f; apply stepF_no_active; exact Hact).
          cbn [mapM] in Hxs0. inv_bind Hxs0. injection Hxs0 as <-.
          unfold ensure_unsuspended in Hx. rewrite Hact in Hx.
          destruct (suspended (rec_prep (e_from e) c)) as [|a s] eqn:Es; [discriminate|]. injection Hx as <-.
          inversion Hs as [|? ? Ha0 Hs0]; subst. constructor; [|constructor].
          destruct (rec_prep (e_from e) c); cbn in *. subst. repeat split; auto. }
      rewrite Forall_forall in Hall. specialize (Hall _ Hxs). rewrite Forall_forall in Hall. auto.
  Qed.
End RecStage.
