(* SimTop.v — whole-query refinement theorems assembled from the stage lemmas. *)
From Coq Require Import Lia.
From TF Require Import Exec Sem ExecLemmas Sim SimRec SimComp SimOut.
Local Open Scope string_scope.
Local Open Scope N_scope.
Local Open Scope list_scope.

Section Top.
  Variable re_match : string -> string -> option bool.
  Variable g : graph.
  Variable args : list (string * fv).
  Hypothesis Hind : ty_indep g.

  Lemma ctx_new_clean v : clean [] (ctx_new v).
  Proof. repeat split; constructor. Qed.
  Lemma ctx_new_fresh v : fresh (ctx_new v).
  Proof. repeat split. Qed.

  (* Queries without @fold (any nesting of plain / @optional / @recurse edges, coercions, every filter
     operator with variables and tags): whenever the interpreter model returns rows, they are exactly
     the rows of the specification, in the same order (rows compared as name -> value maps). *)
  Theorem interpret_fold_free_spec q rows :
    edges_only (c_steps (q_comp q)) = true ->
    interpret re_match g args q = Ok rows ->
    Forall2 row_equiv rows (sem re_match g args q).
  Proof.
    intros Hok H. unfold interpret in H. inv_bind H.
    destruct q as [rname rparams c vars]. cbn [q_comp q_root_name q_root_params] in *.
    destruct c as [root vs ss outs]. cbn [c_steps c_outputs] in *.
    set (starts := g_starts g rname rparams) in *.
    assert (Hc : Forall (clean []) (map (fun v => ctx_new (Some v)) starts)).
    { apply Forall_forall. intros y Hy. apply in_map_iff in Hy. destruct Hy as (v & <- & _). apply ctx_new_clean. }
    assert (Hf : Forall fresh (map (fun v => ctx_new (Some v)) starts)).
    { apply Forall_forall. intros y Hy. apply in_map_iff in Hy. destruct Hy as (v & <- & _). apply ctx_new_fresh. }
    destruct (compute_component_edges_spec re_match g args Hind root vs ss outs [] _ x Hok Hc Hf Hx) as (E & Hcl & Hfo).
    unfold sem. cbn [q_comp q_root_name q_root_params].
    rewrite flat_map_map in E. cbn [active ctx_new] in E. fold starts. rewrite <- E.
    apply mapM_ok in H. clear E Hx Hc Hf.
    induction H as [|cx row l rows' Hrow _ IH]; [constructor|].
    inversion Hcl as [|? ? (Hv & _) Hcl2]; inversion Hfo as [|? ? (_ & Hfv) Hfo2]; subst.
    cbn [map]. constructor; [|apply IH; assumption].
    eapply construct_output_edges_spec; eauto.
  Qed.
End Top.
