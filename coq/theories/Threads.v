(* Threads.v — C24 (schemas and compiled queries can be shared across threads): the logical core.
   Definitions only; the lemmas are in ThreadsProofs.v.

   What the Rust side looks like.  `Schema`, `IndexedQuery`, `IRQuery`, `Type`, `FieldValue`,
   `EdgeParameters` contain no interior mutability (Arc/BTreeMap/HashMap/Vec/String only; grep for
   Cell|RefCell|Rc<|Mutex|RwLock|Atomic in trustfall_core/src finds them only in the trace/replay test
   adapters and an execution.rs test): once built they are only READ.  The only shared state that is
   ever written after construction are five write-once statics, each accessed through exactly one
   `get_or_init` site with a fixed closure:
     ir/mod.rs:25         TYPENAME_META_FIELD_ARC : OnceLock<Arc<str>>   init = Arc::from("__typename")
     ir/mod.rs:225        NON_NULL_INT_TYPE       : OnceLock<Type>       init = Type::new_named_type("Int", false)
                                                    (which itself calls INT_TYPE_NAME_ARC.get_or_init: a NESTED
                                                     initialisation of another cell, types/base.rs:119)
     ir/types/base.rs:85  STRING_TYPE_NAME_ARC    : OnceLock<Arc<str>>   init = Arc::from("String")
     ir/types/base.rs:86  INT_TYPE_NAME_ARC       : OnceLock<Arc<str>>   init = Arc::from("Int")
     schema/mod.rs:75     BUILTIN_SCALARS         : OnceLock<HashSet<&str>>  init = hashset!{Int,Float,String,Boolean,ID}
                                                    (used through `.contains` only)
   (STRING_TYPE_NAME .. BOOLEAN_TYPE_NAME in types/base.rs:80-83 are plain `static &str` constants.)

   The model.  A thread is a program that READS the shared immutable environment `env : E` (the Arc'd
   schema / compiled queries / dataset) and calls `get_or_init` on numbered write-once cells; the
   initialiser of cell c is a program `inits c` of the same kind (so it may initialise other cells, as
   NON_NULL_INT_TYPE does).  OnceLock semantics (std docs: "many threads may call get_or_init
   concurrently with different initializing functions, but it is guaranteed that only one function will
   be executed"; other callers block until it completes): a cell is Empty, Running (some thread's
   initialiser is in progress — others, and a re-entrant call, block) or Full.  A schedule is a list of
   thread ids; each entry lets that thread take ONE step (a blocked or finished thread stutters), so
   schedules need not be fair.  Every return of get_or_init and every publication is logged.

   Not modelled (rustc's / the hardware's business, hence C24 is PARTIAL): the auto-trait inference that
   makes the types Send + Sync (asserted at compile time by the harness), Arc's atomic reference counts,
   the memory model that makes a published value visible (OnceLock's Release/Acquire). *)
From Coq Require Import List Arith.
Import ListNotations.
Local Open Scope list_scope.

Section Threads.
  Variable E : Type.            (* the shared immutable data *)
  Variable V : Type.            (* values computed by threads and stored in cells *)

  Inductive prog : Type :=
  | Ret (r : V)                                  (* done, with this result *)
  | Read (k : E -> prog)                         (* read shared immutable data, continue *)
  | GetOrInit (c : nat) (k : V -> prog).         (* CELL_c.get_or_init(inits c), continue with what it returns *)

  Variable inits : nat -> prog.                  (* the closure at the (unique) get_or_init site of each static *)
  Variable env : E.

  (* sequential (single-threaded, no memoisation) meaning of a program: what running it alone returns *)
  Inductive Den : prog -> V -> Prop :=
  | DenRet r : Den (Ret r) r
  | DenRead k v : Den (k env) v -> Den (Read k) v
  | DenGoi c k w v : Den (inits c) w -> Den (k w) v -> Den (GetOrInit c k) v.

  Inductive cell := Empty | Running (owner : nat) | Full (v : V).

  (* a thread: the initialisers it is in the middle of (innermost first; the frame below, or `main`,
     is waiting at the GetOrInit that started the frame above it), and its main program *)
  Record thread := mkT { frames : list (nat * prog); main : prog }.

  Inductive event :=
  | EvWrite (t c : nat) (v : V)        (* thread t published v into cell c *)
  | EvReturn (t c : nat) (v : V).      (* a get_or_init on cell c in thread t returned v *)

  Record config := mkC { cells : nat -> cell; threads : list thread; log : list event }.

  Definition upd (cs : nat -> cell) (c : nat) (x : cell) : nat -> cell :=
    fun c' => if Nat.eqb c' c then x else cs c'.

  Definition cur (t : thread) : prog :=
    match frames t with (_, p) :: _ => p | [] => main t end.
  Definition set_cur (t : thread) (p : prog) : thread :=
    match frames t with
    | (c, _) :: fs => mkT ((c, p) :: fs) (main t)
    | [] => mkT [] p
    end.
  Definition push_frame (t : thread) (c : nat) : thread := mkT ((c, inits c) :: frames t) (main t).

  (* one step of thread i *)
  Definition step_thread (i : nat) (cs : nat -> cell) (t : thread) : (nat -> cell) * thread * list event :=
    match cur t with
    | Ret v =>
        match frames t with
        | (c, _) :: fs => (upd cs c (Full v), mkT fs (main t), [EvWrite i c v])   (* initialiser done: publish *)
        | [] => (cs, t, [])                                                       (* finished *)
        end
    | Read k => (cs, set_cur t (k env), [])
    | GetOrInit c k =>
        match cs c with
        | Full w => (cs, set_cur t (k w), [EvReturn i c w])
        | Running _ => (cs, t, [])                                                (* blocked on the Once *)
        | Empty => (upd cs c (Running i), push_frame t c, [])                     (* this thread runs the initialiser *)
        end
    end.

  Fixpoint set_nth {A} (i : nat) (x : A) (l : list A) : list A :=
    match l, i with
    | [], _ => []
    | _ :: r, O => x :: r
    | y :: r, S j => y :: set_nth j x r
    end.

  Definition step (i : nat) (cfg : config) : config :=
    match nth_error (threads cfg) i with
    | None => cfg
    | Some t =>
        match step_thread i (cells cfg) t with
        | (cs', t', ev) => mkC cs' (set_nth i t' (threads cfg)) (log cfg ++ ev)
        end
    end.

  Definition run (sigma : list nat) (cfg : config) : config := fold_left (fun c i => step i c) sigma cfg.

  Definition init_config (ts : list prog) : config := mkC (fun _ => Empty) (map (mkT []) ts) [].

  Definition thread_result (t : thread) : option V :=
    match frames t, main t with
    | [], Ret r => Some r
    | _, _ => None
    end.
  Definition results (cfg : config) : list (option V) := map thread_result (threads cfg).
  Definition result_of (cfg : config) (i : nat) : option V :=
    match nth_error (threads cfg) i with Some t => thread_result t | None => None end.
  Definition all_done (cfg : config) : Prop := Forall (fun t => thread_result t <> None) (threads cfg).

  (* running a program alone for n steps *)
  Definition alone (n : nat) (p : prog) : option V := result_of (run (repeat 0 n) (init_config [p])) 0.

  Fixpoint write_cells (l : list event) : list nat :=
    match l with
    | [] => []
    | EvWrite _ c _ :: r => c :: write_cells r
    | EvReturn _ _ _ :: r => write_cells r
    end.
End Threads.

Arguments Ret {E V}.
Arguments Read {E V}.
Arguments GetOrInit {E V}.
Arguments Empty {V}.
Arguments Running {V}.
Arguments Full {V}.
Arguments EvWrite {V}.
Arguments EvReturn {V}.
Arguments mkT {E V}.
Arguments frames {E V}.
Arguments main {E V}.
Arguments mkC {E V}.
Arguments cells {E V}.
Arguments threads {E V}.
Arguments log {E V}.
Arguments write_cells {V}.
Arguments thread_result {E V}.
Arguments results {E V}.
Arguments result_of {E V}.
Arguments all_done {E V}.
Arguments init_config {E V}.
