(* ThreadsProofs.v — lemmas about Threads.v (C24): under EVERY schedule (fair or not)
   - a write-once cell is published at most once, every get_or_init on it returns the published value,
     and that value is what its initialiser computes sequentially (once_cell_linearisable);
   - a thread that finishes has computed exactly what it computes when run alone
     (readers_schedule_independent): threads that only read shared immutable data and use write-once
     cells cannot observe each other. *)
From Coq Require Import List Arith Lia.
From TF Require Import Threads.
Import ListNotations.
Local Open Scope list_scope.

Lemma nth_error_set_nth {A} (l : list A) : forall i j x,
  nth_error (set_nth i x l) j =
  if Nat.eqb j i then (match nth_error l i with Some _ => Some x | None => None end) else nth_error l j.
Proof.
  induction l as [|y r IH]; intros i j x.
  - cbn [set_nth]. destruct j, i; cbn; try reflexivity. destruct (Nat.eqb j i); reflexivity.
  - destruct i as [|i], j as [|j]; cbn [set_nth nth_error Nat.eqb]; try reflexivity. apply IH.
Qed.

Lemma length_set_nth {A} (l : list A) : forall i x, length (set_nth i x l) = length l.
Proof. induction l as [|y r IH]; intros [|i] x; cbn [set_nth length]; auto. Qed.

Lemma nth_error_ext {A} (l : list A) : forall l', (forall i, nth_error l i = nth_error l' i) -> l = l'.
Proof.
  induction l as [|x r IH]; intros [|y r'] H.
  - reflexivity.
  - specialize (H 0). discriminate.
  - specialize (H 0). discriminate.
  - pose proof (H 0) as H0. cbn in H0. injection H0 as ->. f_equal. apply IH. intros i. exact (H (S i)).
Qed.

Section Proofs.
  Variable E : Type.
  Variable V : Type.
  Variable inits : nat -> prog E V.
  Variable env : E.

  Notation Den := (Den E V inits env).
  Notation step := (step E V inits env).
  Notation run := (run E V inits env).
  Notation step_thread := (step_thread E V inits env).
  Notation cur := (cur E V).
  Notation set_cur := (set_cur E V).
  Notation push_frame := (push_frame E V inits).
  Notation upd := (upd V).
  Notation alone := (alone E V inits env).

  (* ---------- the sequential meaning is a (partial) function ---------- *)
  Lemma Den_functional p v : Den p v -> forall v', Den p v' -> v = v'.
  Proof.
    induction 1 as [r|k v _ IH|c k w v _ IH1 _ IH2]; intros v' H'; inversion H'; subst.
    - reflexivity.
    - now apply IH.
    - match goal with H : Den (inits c) ?w' |- _ => apply IH1 in H; subst w' end. now apply IH2.
  Qed.

  (* ---------- invariant ---------- *)
  Definition thread_sound (t : thread E V) (p0 : prog E V) : Prop :=
    (forall v, Den (main t) v -> Den p0 v) /\
    Forall (fun f => forall v, Den (snd f) v -> Den (inits (fst f)) v) (frames t).

  Definition thread_excl (cs : nat -> cell V) (i : nat) (t : thread E V) : Prop :=
    Forall (fun c => cs c = Running i) (map fst (frames t)) /\ NoDup (map fst (frames t)).

  Record Inv (ts : list (prog E V)) (cfg : config E V) : Prop := {
    inv_len : length (threads cfg) = length ts;
    inv_sound : forall i t p0, nth_error (threads cfg) i = Some t -> nth_error ts i = Some p0 -> thread_sound t p0;
    inv_excl : forall i t, nth_error (threads cfg) i = Some t -> thread_excl (cells cfg) i t;
    inv_full : forall c w, cells cfg c = Full w -> Den (inits c) w;
    inv_ret : forall t c w, In (EvReturn t c w) (log cfg) -> cells cfg c = Full w;
    inv_wr : forall t c w, In (EvWrite t c w) (log cfg) -> cells cfg c = Full w;
    inv_once : NoDup (write_cells (log cfg)) }.

  Lemma in_write_cells c (l : list (event V)) : In c (write_cells l) <-> exists t w, In (EvWrite t c w) l.
  Proof.
    induction l as [|[t' c' w'|t' c' w'] r IH]; cbn [write_cells In].
    - split; [tauto | intros (? & ? & [])].
    - rewrite IH. split.
      + intros [->|(t & w & H)]; [exists t', w'; now left | exists t, w; now right].
      + intros (t & w & [H|H]); [injection H as _ -> _; now left | right; now exists t, w].
    - rewrite IH. split.
      + intros (t & w & H). exists t, w. now right.
      + intros (t & w & [H|H]); [discriminate | now exists t, w].
  Qed.

  Lemma write_cells_app (l l' : list (event V)) : write_cells (l ++ l') = write_cells l ++ write_cells l'.
  Proof.
    induction l as [|[t c w|t c w] r IH]; cbn [write_cells app]; [reflexivity | now rewrite IH | exact IH].
  Qed.

  (* what one step of thread i does, locally *)
  Record local_ok (i : nat) (cs : nat -> cell V) (cs' : nat -> cell V) (t' : thread E V)
         (ev : list (event V)) (p0 : prog E V) : Prop := {
    l_sound : thread_sound t' p0;
    l_mono : forall c, cs' c = cs c \/ (cs c = Empty /\ cs' c = Running i) \/
                       (cs c = Running i /\ exists v, cs' c = Full v);
    l_excl : thread_excl cs' i t';
    l_full : forall c w, cs' c = Full w -> cs c = Full w \/ Den (inits c) w;
    l_ev : forall e, In e ev ->
             match e with
             | EvReturn _ c w => cs' c = Full w
             | EvWrite _ c w => cs' c = Full w /\ cs c = Running i
             end;
    l_ev1 : length ev <= 1 }.

  Lemma sound_set_cur t p0 p' :
    thread_sound t p0 -> (forall v, Den p' v -> Den (cur t) v) -> thread_sound (set_cur t p') p0.
  Proof.
    unfold thread_sound, Threads.cur, Threads.set_cur. intros [Hm Hf] Hp.
    destruct (frames t) as [|[c q] fs]; cbn [frames main].
    - split; [intros v Hv; apply Hm, Hp, Hv | constructor].
    - split; [exact Hm|]. inversion Hf as [|? ? Hq Hfs]; subst. constructor; [|exact Hfs].
      cbn [fst snd] in *. intros v Hv. apply Hq, Hp, Hv.
  Qed.

  Lemma frames_set_cur t p' : map fst (frames (set_cur t p')) = map fst (frames t).
  Proof. unfold Threads.set_cur. destruct (frames t) as [|[c q] fs]; reflexivity. Qed.

  Lemma excl_set_cur cs i t p' : thread_excl cs i t -> thread_excl cs i (set_cur t p').
  Proof. unfold thread_excl. now rewrite frames_set_cur. Qed.

  Lemma upd_same cs c x : upd cs c x c = x.
  Proof. unfold Threads.upd. now rewrite Nat.eqb_refl. Qed.
  Lemma upd_other cs c x c' : c' <> c -> upd cs c x c' = cs c'.
  Proof. unfold Threads.upd. intros H. apply Nat.eqb_neq in H. now rewrite H. Qed.

  Lemma local_ok_same_cells i cs t' ev p0 :
    thread_sound t' p0 -> thread_excl cs i t' ->
    (forall e, In e ev -> match e with EvReturn _ c w => cs c = Full w | EvWrite _ _ _ => False end) ->
    length ev <= 1 -> local_ok i cs cs t' ev p0.
  Proof.
    intros Hs Hx He H1. split.
    - exact Hs.
    - intros c. now left.
    - exact Hx.
    - intros c w H. now left.
    - intros e Hin. specialize (He e Hin). destruct e; [contradiction | exact He].
    - exact H1.
  Qed.

  Lemma step_thread_local i cs t p0 cs' t' ev :
    thread_sound t p0 -> thread_excl cs i t -> (forall c w, cs c = Full w -> Den (inits c) w) ->
    step_thread i cs t = (cs', t', ev) -> local_ok i cs cs' t' ev p0.
  Proof.
    intros Hs Hx Hfull. unfold Threads.step_thread.
    destruct (cur t) as [v|k|c k] eqn:Hc.
    - (* Ret *)
      destruct (frames t) as [|[c0 q0] fs] eqn:Hf.
      + intros [= <- <- <-]. apply local_ok_same_cells; [exact Hs | exact Hx | intros e [] | cbn; lia].
      + intros [= <- <- <-]. unfold Threads.cur in Hc. rewrite Hf in Hc. subst q0.
        destruct Hs as [Hm Hfr]. rewrite Hf in Hfr. inversion Hfr as [|? ? Hq Hfs]; subst.
        destruct Hx as [Hrun Hnd]. rewrite Hf in Hrun, Hnd. cbn [map fst] in Hrun, Hnd.
        inversion Hrun as [|? ? Hr0 Hrs]; subst. inversion Hnd as [|? ? Hnot Hnd']; subst.
        split.
        * split; [exact Hm | exact Hfs].
        * intros c. destruct (Nat.eq_dec c c0) as [->|N].
          -- right; right. split; [exact Hr0|]. exists v. apply upd_same.
          -- left. now apply upd_other.
        * split; cbn [frames]; [|exact Hnd'].
          rewrite Forall_forall in *. intros c Hin. rewrite upd_other; [now apply Hrs|].
          intros ->. exact (Hnot Hin).
        * intros c w. destruct (Nat.eq_dec c c0) as [->|N].
          -- rewrite upd_same. intros [= ->]. right. cbn [fst snd] in Hq. apply Hq. constructor.
          -- rewrite upd_other by exact N. now left.
        * intros e [<-|[]]. split; [apply upd_same | exact Hr0].
        * cbn. lia.
    - (* Read *)
      intros [= <- <- <-]. apply local_ok_same_cells; [| now apply excl_set_cur | intros e [] | cbn; lia].
      apply sound_set_cur; [exact Hs|]. intros v Hv. rewrite Hc. now constructor.
    - (* GetOrInit *)
      destruct (cs c) as [|o|w] eqn:Hcell.
      + (* Empty: this thread becomes the initialiser *)
        intros [= <- <- <-]. destruct Hs as [Hm Hfr]. destruct Hx as [Hrun Hnd].
        split.
        * split; cbn [Threads.push_frame frames main]; [exact Hm|]. constructor; [|exact Hfr]. cbn. auto.
        * intros c'. destruct (Nat.eq_dec c' c) as [->|N].
          -- right; left. split; [exact Hcell | apply upd_same].
          -- left. now apply upd_other.
        * assert (Hnot : ~ In c (map fst (frames t))).
          { intros Hin. rewrite Forall_forall in Hrun. rewrite (Hrun c Hin) in Hcell. discriminate. }
          split; cbn [Threads.push_frame frames map fst].
          -- constructor; [apply upd_same|]. rewrite Forall_forall in *. intros c' Hin.
             rewrite upd_other; [now apply Hrun|]. intros ->. exact (Hnot Hin).
          -- constructor; assumption.
        * intros c' w. destruct (Nat.eq_dec c' c) as [->|N].
          -- rewrite upd_same. discriminate.
          -- rewrite upd_other by exact N. now left.
        * intros e [].
        * cbn. lia.
      + (* Running: blocked *)
        intros [= <- <- <-]. apply local_ok_same_cells; [exact Hs | exact Hx | intros e [] | cbn; lia].
      + (* Full: return the stored value *)
        intros [= <- <- <-]. apply local_ok_same_cells; [| now apply excl_set_cur | | cbn; lia].
        * apply sound_set_cur; [exact Hs|]. intros v Hv. rewrite Hc.
          econstructor; [apply Hfull; exact Hcell | exact Hv].
        * intros e [<-|[]]. exact Hcell.
  Qed.

  Lemma full_stable i (cs cs' : nat -> cell V) :
    (forall c, cs' c = cs c \/ (cs c = Empty /\ cs' c = Running i) \/ (cs c = Running i /\ exists v, cs' c = Full v)) ->
    forall c w, cs c = Full w -> cs' c = Full w.
  Proof.
    intros Hm c w H. destruct (Hm c) as [->|[[H' _]|[H' _]]]; [exact H | congruence | congruence].
  Qed.

  Lemma step_inv ts cfg i : Inv ts cfg -> Inv ts (step i cfg).
  Proof.
    intros HI. unfold Threads.step. destruct (nth_error (threads cfg) i) as [t|] eqn:Ht; [|exact HI].
    destruct (step_thread i (cells cfg) t) as [[cs' t'] ev] eqn:Hs.
    assert (Hp0 : exists p0, nth_error ts i = Some p0).
    { destruct (nth_error ts i) eqn:En; [eauto|]. apply nth_error_None in En.
      assert (i < length (threads cfg)) by (apply nth_error_Some; congruence).
      rewrite (inv_len _ _ HI) in *. lia. }
    destruct Hp0 as [p0 Hp0].
    pose proof (step_thread_local i (cells cfg) t p0 cs' t' ev
                  (inv_sound _ _ HI i t p0 Ht Hp0) (inv_excl _ _ HI i t Ht) (inv_full _ _ HI) Hs) as HL.
    pose proof (full_stable i _ _ (l_mono _ _ _ _ _ _ HL)) as Hstab.
    split; cbn [threads cells log].
    - rewrite length_set_nth. exact (inv_len _ _ HI).
    - intros j tj pj. rewrite nth_error_set_nth, Ht. destruct (Nat.eqb_spec j i) as [->|N].
      + intros [= <-]. rewrite Hp0. intros [= <-]. exact (l_sound _ _ _ _ _ _ HL).
      + apply (inv_sound _ _ HI).
    - intros j tj. rewrite nth_error_set_nth, Ht. destruct (Nat.eqb_spec j i) as [->|N].
      + intros [= <-]. exact (l_excl _ _ _ _ _ _ HL).
      + intros Hj. destruct (inv_excl _ _ HI j tj Hj) as [Hrun Hnd]. split; [|exact Hnd].
        rewrite Forall_forall in *. intros c Hin. specialize (Hrun c Hin).
        destruct (l_mono _ _ _ _ _ _ HL c) as [->|[[H' _]|[H' _]]]; [exact Hrun | congruence|].
        rewrite Hrun in H'. injection H' as ->. contradiction.
    - intros c w H. destruct (l_full _ _ _ _ _ _ HL c w H) as [H'|H']; [exact (inv_full _ _ HI c w H') | exact H'].
    - intros t0 c w Hin. apply in_app_or in Hin. destruct Hin as [Hin|Hin].
      + apply Hstab. exact (inv_ret _ _ HI t0 c w Hin).
      + exact (l_ev _ _ _ _ _ _ HL _ Hin).
    - intros t0 c w Hin. apply in_app_or in Hin. destruct Hin as [Hin|Hin].
      + apply Hstab. exact (inv_wr _ _ HI t0 c w Hin).
      + exact (proj1 (l_ev _ _ _ _ _ _ HL _ Hin)).
    - rewrite write_cells_app. pose proof (l_ev1 _ _ _ _ _ _ HL) as H1.
      destruct ev as [|e [|e' ev']]; [cbn; rewrite app_nil_r; exact (inv_once _ _ HI) | | cbn in H1; lia].
      destruct e as [t0 c w|t0 c w]; cbn [write_cells]; [|rewrite app_nil_r; exact (inv_once _ _ HI)].
      apply NoDup_incl_NoDup with (l := c :: write_cells (log cfg)).
      + constructor; [|exact (inv_once _ _ HI)].
        intros Hin. apply in_write_cells in Hin. destruct Hin as (t1 & w1 & Hin).
        pose proof (inv_wr _ _ HI t1 c w1 Hin) as Hf.
        destruct (l_ev _ _ _ _ _ _ HL (EvWrite t0 c w) (or_introl eq_refl)) as [_ Hr]. congruence.
      + rewrite app_length. cbn. lia.
      + intros x [<-|Hx]; apply in_or_app; [right; now left | now left].
  Qed.

  Lemma init_inv ts : Inv ts (init_config ts).
  Proof.
    split; cbn [init_config threads cells log].
    - apply map_length.
    - intros i t p0 Ht Hp. rewrite nth_error_map, Hp in Ht. injection Ht as <-.
      split; cbn [main frames]; [auto | constructor].
    - intros i t Ht. rewrite nth_error_map in Ht. destruct (nth_error ts i); [|discriminate].
      injection Ht as <-. split; cbn; constructor.
    - discriminate.
    - intros ? ? ? [].
    - intros ? ? ? [].
    - constructor.
  Qed.

  Lemma run_inv ts sigma : forall cfg, Inv ts cfg -> Inv ts (run sigma cfg).
  Proof.
    unfold Threads.run. induction sigma as [|i r IH]; intros cfg HI; cbn [fold_left]; [exact HI|].
    apply IH, step_inv, HI.
  Qed.

  Lemma reachable_inv ts sigma : Inv ts (run sigma (init_config ts)).
  Proof. apply run_inv, init_inv. Qed.

  (* ---------- C24, write-once cells ---------- *)
  Theorem once_cell_linearisable ts sigma :
    let cfg := run sigma (init_config ts) in
    (* the cell is published at most once *)
    NoDup (write_cells (log cfg)) /\
    (* every get_or_init on a cell returns the same value, namely the published one *)
    (forall t c w t' w', In (EvReturn t c w) (log cfg) -> In (EvReturn t' c w') (log cfg) -> w = w') /\
    (forall t c w t' w', In (EvWrite t c w) (log cfg) -> In (EvReturn t' c w') (log cfg) -> w = w') /\
    (* which is what the initialiser computes when run sequentially *)
    (forall t c w, In (EvReturn t c w) (log cfg) -> Den (inits c) w) /\
    (* a returned value was published *)
    (forall t c w, In (EvReturn t c w) (log cfg) -> cells cfg c = Full w).
  Proof.
    intros cfg. pose proof (reachable_inv ts sigma) as HI. fold cfg in HI.
    repeat split.
    - exact (inv_once _ _ HI).
    - intros t c w t' w' H1 H2. pose proof (inv_ret _ _ HI _ _ _ H1). pose proof (inv_ret _ _ HI _ _ _ H2). congruence.
    - intros t c w t' w' H1 H2. pose proof (inv_wr _ _ HI _ _ _ H1). pose proof (inv_ret _ _ HI _ _ _ H2). congruence.
    - intros t c w H. apply (inv_full _ _ HI). exact (inv_ret _ _ HI _ _ _ H).
    - intros t c w H. exact (inv_ret _ _ HI _ _ _ H).
  Qed.

  (* a constant initialiser (Arc::from("Int"), the hashset! literal, ...): every call returns that constant *)
  Corollary constant_initialiser_returned ts sigma c v :
    inits c = Ret v ->
    forall t w, In (EvReturn t c w) (log (run sigma (init_config ts))) -> w = v.
  Proof.
    intros Hc t w H. destruct (once_cell_linearisable ts sigma) as (_ & _ & _ & Hd & _).
    specialize (Hd t c w H). rewrite Hc in Hd. now inversion Hd.
  Qed.

  (* ---------- C24, schedule independence ---------- *)
  Theorem finished_thread_sound ts sigma i r :
    result_of (run sigma (init_config ts)) i = Some r -> exists p, nth_error ts i = Some p /\ Den p r.
  Proof.
    pose proof (reachable_inv ts sigma) as HI. unfold result_of.
    destruct (nth_error (threads (run sigma (init_config ts))) i) as [t|] eqn:Ht; [|discriminate].
    assert (Hp0 : exists p0, nth_error ts i = Some p0).
    { destruct (nth_error ts i) eqn:En; [eauto|]. apply nth_error_None in En.
      assert (i < length (threads (run sigma (init_config ts)))) by (apply nth_error_Some; congruence).
      rewrite (inv_len _ _ HI) in *. lia. }
    destruct Hp0 as [p0 Hp0]. intros Hr. exists p0. split; [exact Hp0|].
    destruct (inv_sound _ _ HI i t p0 Ht Hp0) as [Hm _].
    unfold thread_result in Hr. destruct (frames t); [|discriminate].
    destruct (main t) as [r'| |] eqn:Em; try discriminate. injection Hr as ->.
    apply Hm. constructor.
  Qed.

  Theorem alone_sound n p r : alone n p = Some r -> Den p r.
  Proof.
    unfold Threads.alone. intros H. apply finished_thread_sound in H.
    destruct H as (p' & Hp & Hd). cbn in Hp. now injection Hp as <-.
  Qed.

  (* whatever the schedules, a thread that finishes has the same result; in particular the result it has
     when it runs alone *)
  Theorem readers_schedule_independent ts sigma sigma' i r r' :
    result_of (run sigma (init_config ts)) i = Some r ->
    result_of (run sigma' (init_config ts)) i = Some r' -> r = r'.
  Proof.
    intros H1 H2. apply finished_thread_sound in H1, H2.
    destruct H1 as (p & Hp & Hd), H2 as (p' & Hp' & Hd'). rewrite Hp in Hp'. injection Hp' as <-.
    exact (Den_functional p r Hd r' Hd').
  Qed.

  Theorem readers_agree_with_run_alone ts sigma i p r n r' :
    nth_error ts i = Some p -> result_of (run sigma (init_config ts)) i = Some r -> alone n p = Some r' -> r = r'.
  Proof.
    intros Hp H1 H2. apply finished_thread_sound in H1. destruct H1 as (p' & Hp' & Hd).
    rewrite Hp in Hp'. injection Hp' as <-. apply alone_sound in H2. exact (Den_functional p r Hd r' H2).
  Qed.

  Lemma threads_length ts sigma : length (threads (run sigma (init_config ts))) = length ts.
  Proof. exact (inv_len _ _ (reachable_inv ts sigma)). Qed.

  Lemma nth_error_results (cfg : config E V) i :
    nth_error (results cfg) i = match nth_error (threads cfg) i with Some t => Some (thread_result t) | None => None end.
  Proof. unfold results. apply nth_error_map. Qed.

  (* list form: once every thread has finished, the result vector is the same under every schedule
     = `results (run sigma threads) = map run_alone threads` *)
  Theorem results_schedule_independent ts sigma sigma' :
    all_done (run sigma (init_config ts)) -> all_done (run sigma' (init_config ts)) ->
    results (run sigma (init_config ts)) = results (run sigma' (init_config ts)).
  Proof.
    intros D1 D2. apply nth_error_ext. intros i. rewrite !nth_error_results.
    destruct (nth_error (threads (run sigma (init_config ts))) i) as [t|] eqn:E1;
      destruct (nth_error (threads (run sigma' (init_config ts))) i) as [t'|] eqn:E2.
    - f_equal. unfold all_done in D1, D2. rewrite Forall_forall in D1, D2.
      pose proof (D1 t (nth_error_In _ _ E1)) as N1. pose proof (D2 t' (nth_error_In _ _ E2)) as N2.
      destruct (thread_result t) as [r|] eqn:R1; [|contradiction].
      destruct (thread_result t') as [r'|] eqn:R2; [|contradiction].
      f_equal. apply (readers_schedule_independent ts sigma sigma' i); unfold result_of; [now rewrite E1 | now rewrite E2].
    - exfalso. apply nth_error_None in E2. assert (i < length (threads (run sigma (init_config ts)))) by (apply nth_error_Some; congruence).
      rewrite threads_length in *. lia.
    - exfalso. apply nth_error_None in E1. assert (i < length (threads (run sigma' (init_config ts)))) by (apply nth_error_Some; congruence).
      rewrite threads_length in *. lia.
    - reflexivity.
  Qed.

  Theorem results_are_sequential_values ts sigma :
    all_done (run sigma (init_config ts)) ->
    Forall2 (fun p o => exists r, o = Some r /\ Den p r) ts (results (run sigma (init_config ts))).
  Proof.
    intros D. pose proof (threads_length ts sigma) as HL.
    assert (H : forall i p, nth_error ts i = Some p ->
                exists r, nth_error (results (run sigma (init_config ts))) i = Some (Some r) /\ Den p r).
    { intros i p Hp. rewrite nth_error_results.
      destruct (nth_error (threads (run sigma (init_config ts))) i) as [t|] eqn:E1.
      - unfold all_done in D. rewrite Forall_forall in D. pose proof (D t (nth_error_In _ _ E1)) as N1.
        destruct (thread_result t) as [r|] eqn:R1; [|contradiction]. exists r. split; [reflexivity|].
        assert (Hr : result_of (run sigma (init_config ts)) i = Some r) by (unfold result_of; now rewrite E1).
        apply finished_thread_sound in Hr. destruct Hr as (p' & Hp' & Hd). congruence.
      - exfalso. apply nth_error_None in E1. assert (i < length ts) by (apply nth_error_Some; congruence). lia. }
    assert (HL' : length (results (run sigma (init_config ts))) = length ts) by (unfold results; now rewrite map_length).
    revert H HL'. generalize (results (run sigma (init_config ts))) as rs. clear.
    induction ts as [|p ts IH]; intros [|o rs] H HL; try discriminate; constructor.
    - destruct (H 0 p eq_refl) as (r & Hr & Hd). cbn in Hr. injection Hr as ->. eauto.
    - apply IH; [|now injection HL]. intros i q Hq. exact (H (S i) q Hq).
  Qed.
End Proofs.
