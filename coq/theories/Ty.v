(* Ty.v — model of trustfall_core/src/ir/types/base.rs (Type, Modifiers, Display, Type::parse)
   and of async_graphql_parser::types::Type::new (async-graphql-parser 7.2.1, src/types/mod.rs).
   Model file: definitions only, no proofs (proofs are in TyProofs.v).

   Conventions
   * the record `ty` (base name + Modifiers.mask) comes from TyDef.v;
   * masks are `N`; the only u64 operation that could lose bits (`mask << 2` in new_list_type) is
     written with an explicit truncation `trunc64` (proved to be the identity on well-formed types);
   * the Rust functions that recurse / loop along `as_list` (mask >> 2) are written with fuel
     `mask_fuel` = 33: a u64 mask has at most 32 list levels, so 33 iterations always suffice;
     functions returning `res` report fuel exhaustion as a Panic (proved unreachable on
     well-formed types), boolean ones return false. *)
From TF Require Export TyDef.
From TF Require Import Values Show.
Local Open Scope N_scope.
Local Open Scope string_scope.

(* ---------- Modifiers ---------- *)
Definition NON_NULLABLE_MASK : N := 1.
Definition LIST_MASK : N := 2.
Definition MAX_LIST_DEPTH : N := 30.
(* LIST_MASK << ((MAX_LIST_DEPTH - 1) * 2)  = 2^59 *)
Definition MAX_LIST_DEPTH_MASK : N := N.shiftl LIST_MASK ((MAX_LIST_DEPTH - 1) * 2).

Definition trunc64 (x : N) : N := N.land x (N.ones 64).
Definition mask_fuel : nat := 33.

(* Modifiers::new *)
Definition mod_new (nullable : bool) : N := if nullable then 0 else NON_NULLABLE_MASK.
(* Modifiers::nullable: (mask & NON_NULLABLE_MASK) == 0 *)
Definition mod_nullable (m : N) : bool := N.eqb (N.land m NON_NULLABLE_MASK) 0.
(* Modifiers::is_list: (mask & LIST_MASK) != 0 *)
Definition mod_is_list (m : N) : bool := negb (N.eqb (N.land m LIST_MASK) 0).
(* Modifiers::as_list: is_list().then_some(mask >> 2) *)
Definition mod_as_list (m : N) : option N :=
  if mod_is_list m then Some (N.shiftr m 2) else None.
(* Modifiers::at_max_list_depth *)
Definition mod_at_max_list_depth (m : N) : bool :=
  N.eqb (N.land m MAX_LIST_DEPTH_MASK) MAX_LIST_DEPTH_MASK.

(* ---------- Type: constructors and accessors ---------- *)
(* Type::new_named_type (from_name_and_modifiers only interns the four builtin names) *)
Definition ty_named (base : string) (nullable : bool) : ty := mkTy base (mod_new nullable).

Definition site_new_list : string := "types/base.rs:160 new_list_type: too many nested lists".
(* Type::new_list_type *)
Definition ty_list (inner : ty) (nullable : bool) : res ty :=
  if mod_at_max_list_depth (tmask inner) then Panic site_new_list
  else
    let new_mask := N.lor (trunc64 (N.shiftl (tmask inner) 2)) LIST_MASK in
    let new_mask := if negb nullable then N.lor new_mask NON_NULLABLE_MASK else new_mask in
    Ok (mkTy (tbase inner) new_mask).

(* Type::with_nullability:  mask &= !1   /   mask |= 1   (x & !y on u64 is N.ldiff x y) *)
Definition ty_with_nullability (t : ty) (nullable : bool) : ty :=
  if nullable then mkTy (tbase t) (N.ldiff (tmask t) NON_NULLABLE_MASK)
  else mkTy (tbase t) (N.lor (tmask t) NON_NULLABLE_MASK).

Definition ty_nullable (t : ty) : bool := mod_nullable (tmask t).
Definition ty_is_list (t : ty) : bool := mod_is_list (tmask t).
Definition ty_as_list (t : ty) : option ty :=
  match mod_as_list (tmask t) with Some m => Some (mkTy (tbase t) m) | None => None end.
Definition ty_base_type (t : ty) : string := tbase t.

(* number of list levels (not a Rust function; used to state "list shapes differ") *)
Fixpoint mask_depth (fuel : nat) (m : N) : nat :=
  match fuel with
  | O => O
  | S f => match mod_as_list m with Some m' => S (mask_depth f m') | None => O end
  end.
Definition ty_depth (t : ty) : nat := mask_depth mask_fuel (tmask t).

(* ---------- intersect ---------- *)
Definition site_fuel : string := "model fuel exhausted (more than 32 list levels: impossible for a u64 mask)".

(* Type::intersect_impl *)
Fixpoint intersect_impl (fuel : nat) (a b : ty) : res (option ty) :=
  match fuel with
  | O => Panic site_fuel
  | S f =>
      let nullable := ty_nullable a && ty_nullable b in
      match ty_as_list a, ty_as_list b with
      | None, None => Ok (Some (ty_named (ty_base_type a) nullable))
      | Some l, Some r =>
          do o <- intersect_impl f l r;
          match o with
          | None => Ok None
          | Some inner => do t <- ty_list inner nullable; Ok (Some t)
          end
      | _, _ => Ok None
      end
  end.

(* Type::intersect *)
Definition ty_intersect (a b : ty) : res (option ty) :=
  if negb (String.eqb (ty_base_type a) (ty_base_type b)) then Ok None
  else intersect_impl mask_fuel a b.

(* ---------- equal_ignoring_nullability ---------- *)
Fixpoint eq_ign_null_fuel (fuel : nat) (a b : ty) : bool :=
  match fuel with
  | O => false
  | S f =>
      if negb (String.eqb (ty_base_type a) (ty_base_type b)) then false
      else match ty_as_list a, ty_as_list b with
           | None, None => true
           | Some l, Some r => eq_ign_null_fuel f l r
           | _, _ => false
           end
  end.
Definition ty_eq_ign_null (a b : ty) : bool := eq_ign_null_fuel mask_fuel a b.

(* ---------- is_scalar_only_subtype(self = parent, maybe_subtype = child) ---------- *)
Fixpoint sub_fuel (fuel : nat) (parent child : ty) : bool :=
  match fuel with
  | O => false
  | S f =>
      if negb (ty_nullable parent) && ty_nullable child then false
      else if negb (String.eqb (ty_base_type parent) (ty_base_type child)) then false
      else match ty_as_list parent, ty_as_list child with
           | None, None => true
           | Some p, Some c => sub_fuel f p c
           | _, _ => false
           end
  end.
Definition ty_sub (parent child : ty) : bool := sub_fuel mask_fuel parent child.

(* ---------- is_valid_value ---------- *)
Definition site_enum : string := "types/base.rs:380 unimplemented: enum values are not currently supported".

(* Iterator::all over the list elements: stops at the first `false` (and at the first panic) *)
Fixpoint ty_valid (t : ty) (v : fv) {struct v} : res bool :=
  match v with
  | Null => Ok (ty_nullable t)
  | I64 _ | U64 _ => Ok (negb (ty_is_list t) && String.eqb (ty_base_type t) "Int")
  | F64 _ => Ok (negb (ty_is_list t) && String.eqb (ty_base_type t) "Float")
  | Str _ => Ok (negb (ty_is_list t) && String.eqb (ty_base_type t) "String")
  | Boolv _ => Ok (negb (ty_is_list t) && String.eqb (ty_base_type t) "Boolean")
  | List contents =>
      match ty_as_list t with
      | Some content_type =>
          (fix all (l : list fv) : res bool :=
             match l with
             | [] => Ok true
             | x :: r => do b <- ty_valid content_type x; if b then all r else Ok false
             end) contents
      | None => Ok false
      end
  | Enum _ => Panic site_enum
  end.

(* ---------- is_orderable ---------- *)
Definition ty_orderable (t : ty) : bool :=
  String.eqb (ty_base_type t) "Int" || String.eqb (ty_base_type t) "Float"
  || String.eqb (ty_base_type t) "String".

(* ---------- Display ---------- *)
(* left loop: one "[" per list level *)
Fixpoint disp_left (fuel : nat) (m : N) : string :=
  match fuel with
  | O => ""
  | S f =>
      (if mod_is_list m then "[" else "") ++
      match mod_as_list m with Some m' => disp_left f m' | None => "" end
  end.
(* right loop: the builder before it is reversed *)
Fixpoint disp_builder (fuel : nat) (m : N) : string :=
  match fuel with
  | O => ""
  | S f =>
      (if negb (mod_nullable m) then "!" else "") ++
      (if mod_is_list m then "]" else "") ++
      match mod_as_list m with Some m' => disp_builder f m' | None => "" end
  end.
Fixpoint srev (s : string) : string :=
  match s with EmptyString => EmptyString | String a r => srev r ++ String a EmptyString end.

Definition ty_display (t : ty) : string :=
  disp_left mask_fuel (tmask t) ++ tbase t ++ srev (disp_builder mask_fuel (tmask t)).

(* ---------- async_graphql_parser::types::Type::new ---------- *)
(* async_graphql_parser::types::{Type, BaseType} flattened: a named type or a list, with nullability *)
Inductive gty :=
| GNamed (name : string) (nullable : bool)
| GList (inner : gty) (nullable : bool).

Definition gnullable (g : gty) : bool :=
  match g with GNamed _ n => n | GList _ n => n end.

(* str::strip_prefix(char) / str::strip_suffix(char) for an ASCII char *)
Definition strip_prefix_char (c : ascii) (s : string) : option string :=
  match s with
  | EmptyString => None
  | String a r => if Ascii.eqb a c then Some r else None
  end.
Fixpoint strip_suffix_char (c : ascii) (s : string) : option string :=
  match s with
  | EmptyString => None
  | String a EmptyString => if Ascii.eqb a c then Some EmptyString else None
  | String a r => match strip_suffix_char c r with Some r' => Some (String a r') | None => None end
  end.

(* Type::new: strip one trailing '!', then either "[" inner "]" (recursively) or a name.
   Name::new accepts ANY remainder (also the empty string, spaces, brackets, further '!').
   Every recursive call is on a string at least two characters shorter: fuel = length + 1. *)
Fixpoint gql_type_new (fuel : nat) (s : string) : option gty :=
  match fuel with
  | O => None
  | S f =>
      let (nullable, s1) :=
        match strip_suffix_char "!" s with Some rest => (false, rest) | None => (true, s) end in
      match strip_prefix_char "[" s1 with
      | Some s2 =>
          match strip_suffix_char "]" s2 with
          | None => None
          | Some s3 =>
              match gql_type_new f s3 with
              | None => None
              | Some inner => Some (GList inner nullable)
              end
          end
      | None => Some (GNamed s1 nullable)
      end
  end.

(* ---------- Type::from_type ---------- *)
Definition site_from_type : string := "types/base.rs:270 from_type: too many nested lists".

(* the `while let BaseType::List(..) = base` loop; `g` is the type whose base is inspected, its own
   nullability has already been recorded at bit `i` of `mask` *)
Fixpoint from_type_loop (g : gty) (mask i : N) : res ty :=
  match g with
  | GNamed name _ => Ok (mkTy name mask)
  | GList inner _ =>
      let mask := N.lor mask (N.shiftl LIST_MASK i) in
      let i := i + 2 in
      if N.ltb (MAX_LIST_DEPTH * 2) i then Panic site_from_type
      else
        let mask := if negb (gnullable inner) then N.lor mask (N.shiftl NON_NULLABLE_MASK i) else mask in
        from_type_loop inner mask i
  end.
Definition from_type (g : gty) : res ty :=
  from_type_loop g (if gnullable g then 0 else NON_NULLABLE_MASK) 0.

(* Type::parse.  Ok None = Err(TypeParseError); Panic = the from_type panic on > 30 list levels *)
Definition ty_parse_res (s : string) : res (option ty) :=
  match gql_type_new (S (String.length s)) s with
  | None => Ok None
  | Some g => do t <- from_type g; Ok (Some t)
  end.
(* "did it produce a type": both the error and the panic are None *)
Definition ty_parse (s : string) : option ty :=
  match ty_parse_res s with Ok o => o | Panic _ => None end.

(* ---------- well-formed types and the abstract view ---------- *)
(* a mask is well formed with `fuel` = n+1 when it is n' <= n list levels over a 0/1 scalar mask *)
Fixpoint wf_mask (fuel : nat) (m : N) : bool :=
  match fuel with
  | O => false
  | S f => if mod_is_list m then wf_mask f (N.shiftr m 2) else N.ltb m 2
  end.
(* at most MAX_LIST_DEPTH = 30 list levels *)
Definition wf_ty (t : ty) : bool := wf_mask 31 (tmask t).

Inductive aty := ANamed (nullable : bool) | AList (nullable : bool) (inner : aty).

Fixpoint adepth (a : aty) : nat :=
  match a with ANamed _ => O | AList _ i => S (adepth i) end.
Fixpoint of_aty (a : aty) : N :=
  match a with
  | ANamed nl => if nl then 0 else 1
  | AList nl i => N.lor (N.lor (N.shiftl (of_aty i) 2) 2) (if nl then 0 else 1)
  end.
Fixpoint to_aty (fuel : nat) (m : N) : aty :=
  match fuel with
  | O => ANamed (mod_nullable m)
  | S f => if mod_is_list m then AList (mod_nullable m) (to_aty f (N.shiftr m 2))
           else ANamed (mod_nullable m)
  end.
Definition ty_view (t : ty) : aty := to_aty 31 (tmask t).

(* ---------- rendering for the correspondence check ---------- *)
Definition show_ty (t : ty) : string := ty_display t ++ "#" ++ dn (tmask t).

(* enum-free values (is_valid_value is unimplemented! on FieldValue::Enum: defect F6 / C12) *)
Fixpoint enum_free (v : fv) : bool :=
  match v with
  | Enum _ => false
  | List l => forallb enum_free l
  | _ => true
  end.
(* same, with the display text hex-encoded (for base names with arbitrary bytes) *)
Definition show_ty_hex (t : ty) : string := hex (ty_display t) ++ "#" ++ dn (tmask t).

(* names that survive the text round trip: the parser must not mistake their ends for syntax
   (not ending in '!', not starting with '['); proved sufficient and necessary in TyProofs.v *)
Definition name_ok (s : string) : bool :=
  match strip_suffix_char "!" s with Some _ => false | None => true end &&
  match strip_prefix_char "[" s with Some _ => false | None => true end.
