(* TyDef.v — the representation of trustfall_core::ir::Type (base name + Modifiers bit mask).
   Kept in its own file so that IR.v can mention types without depending on the type operations. *)
From Coq Require Export String NArith.
Record ty := mkTy { tbase : string; tmask : N }.
