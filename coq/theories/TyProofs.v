(* TyProofs.v — lattice laws of the Type model (C17) and the type-text round trip (C16).
   Method: every well-formed mask is `of_aty a` for a unique abstract type `a` of depth <= 30;
   each mask-level model function is proved equal to a structurally recursive function on `aty`;
   the laws are proved there by induction and transported back. *)
From Coq Require Import Lia.
From TF Require Import Values ValuesProofs Ty.
Local Open Scope N_scope.

(* ================================================================== *)
(* 1. strings                                                         *)
(* ================================================================== *)
Local Notation "x +++ y" := (String.append x y) (right associativity, at level 60).

Lemma sapp_assoc (a b c : string) : (a +++ b) +++ c = a +++ (b +++ c).
Proof. induction a as [|x a IH]; cbn; [reflexivity | now rewrite IH]. Qed.
Lemma sapp_nil_r (a : string) : a +++ EmptyString = a.
Proof. induction a as [|x a IH]; cbn; [reflexivity | now rewrite IH]. Qed.
Lemma slen_app (a b : string) : String.length (a +++ b) = (String.length a + String.length b)%nat.
Proof. induction a as [|x a IH]; cbn; [reflexivity | now rewrite IH]. Qed.
Lemma srev_app (a b : string) : srev (a +++ b) = srev b +++ srev a.
Proof.
  induction a as [|x a IH]; cbn.
  - now rewrite sapp_nil_r.
  - now rewrite IH, sapp_assoc.
Qed.

Lemma strip_suffix_snoc c d s :
  strip_suffix_char c (s +++ String d EmptyString) = if Ascii.eqb d c then Some s else None.
Proof.
  induction s as [|x s IH]; cbn [String.append strip_suffix_char].
  - reflexivity.
  - rewrite IH. destruct s; cbn [String.append]; destruct (Ascii.eqb d c); reflexivity.
Qed.

Lemma strip_suffix_inv c s r : strip_suffix_char c s = Some r -> s = r +++ String c EmptyString.
Proof.
  revert r. induction s as [|x s IH]; intros r H; cbn in H; [discriminate|].
  destruct s as [|y s'].
  - destruct (Ascii.eqb_spec x c) as [->|]; [|discriminate]. now injection H as <-.
  - destruct (strip_suffix_char c (String y s')) as [r'|] eqn:E; [|discriminate].
    injection H as <-. cbn. f_equal. now apply IH.
Qed.

Lemma strip_prefix_inv c s r : strip_prefix_char c s = Some r -> s = String c r.
Proof.
  destruct s as [|x s]; cbn; [discriminate|].
  destruct (Ascii.eqb_spec x c) as [->|]; [|discriminate]. now intros [= ->].
Qed.

(* ================================================================== *)
(* 2. masks: one list level                                           *)
(* ================================================================== *)
Definition nnbit (nl : bool) : N := if nl then 0 else 1.
Definition lst (x : N) (nl : bool) : N := N.lor (N.lor (N.shiftl x 2) 2) (nnbit nl).

Lemma of_aty_list nl i : of_aty (AList nl i) = lst (of_aty i) nl.
Proof. reflexivity. Qed.
Lemma of_aty_named nl : of_aty (ANamed nl) = nnbit nl.
Proof. reflexivity. Qed.

Lemma lst_arith x nl : lst x nl = 4 * x + 2 + nnbit nl.
Proof. destruct x as [|p], nl; reflexivity. Qed.

Lemma nullable_lst x nl : mod_nullable (lst x nl) = nl.
Proof. destruct x as [|p], nl; reflexivity. Qed.
Lemma is_list_lst x nl : mod_is_list (lst x nl) = true.
Proof. destruct x as [|p], nl; reflexivity. Qed.
Lemma shiftr_lst x nl : N.shiftr (lst x nl) 2 = x.
Proof. destruct x as [|p], nl; reflexivity. Qed.
Lemma as_list_lst x nl : mod_as_list (lst x nl) = Some x.
Proof. unfold mod_as_list. now rewrite is_list_lst, shiftr_lst. Qed.
Lemma nullable_nnbit nl : mod_nullable (nnbit nl) = nl.
Proof. destruct nl; reflexivity. Qed.
Lemma is_list_nnbit nl : mod_is_list (nnbit nl) = false.
Proof. destruct nl; reflexivity. Qed.
Lemma as_list_nnbit nl : mod_as_list (nnbit nl) = None.
Proof. destruct nl; reflexivity. Qed.

(* every mask with the list bit is one list level over its shifted mask *)
Lemma is_list_view m : mod_is_list m = true -> m = lst (N.shiftr m 2) (mod_nullable m).
Proof.
  destruct m as [|[[p|p|]|[p|p|]|]]; cbn; try discriminate; reflexivity.
Qed.
Lemma not_list_view m : mod_is_list m = false -> N.ltb m 2 = true -> m = nnbit (mod_nullable m).
Proof.
  destruct m as [|[[p|p|]|[p|p|]|]]; cbn; try discriminate; reflexivity.
Qed.

(* ================================================================== *)
(* 3. well-formed masks  <->  abstract types of bounded depth          *)
(* ================================================================== *)
Lemma wf_of_aty a n : (adepth a <= n)%nat -> wf_mask (S n) (of_aty a) = true.
Proof.
  revert n. induction a as [nl|nl i IH]; intros n Hd.
  - cbn [wf_mask of_aty]. change (if nl then 0 else 1) with (nnbit nl).
    rewrite is_list_nnbit. destruct nl; reflexivity.
  - cbn [adepth] in Hd. destruct n as [|n]; [lia|].
    rewrite of_aty_list. cbn [wf_mask]. rewrite is_list_lst, shiftr_lst.
    apply IH. lia.
Qed.

Lemma to_of_aty a n : (adepth a <= n)%nat -> to_aty n (of_aty a) = a.
Proof.
  revert n. induction a as [nl|nl i IH]; intros n Hd.
  - rewrite of_aty_named. destruct n; cbn [to_aty]; rewrite ?is_list_nnbit, nullable_nnbit; reflexivity.
  - cbn [adepth] in Hd. destruct n as [|n]; [lia|].
    rewrite of_aty_list. cbn [to_aty]. rewrite is_list_lst, shiftr_lst, nullable_lst.
    f_equal. apply IH. lia.
Qed.

Lemma of_to_aty n m : wf_mask (S n) m = true ->
  of_aty (to_aty n m) = m /\ (adepth (to_aty n m) <= n)%nat.
Proof.
  revert m. induction n as [|n IH]; intros m H; cbn [wf_mask] in H.
  - destruct (mod_is_list m) eqn:E; [discriminate|].
    cbn [to_aty adepth]. rewrite of_aty_named. split; [|lia]. symmetry. now apply not_list_view.
  - cbn [to_aty]. destruct (mod_is_list m) eqn:E.
    + destruct (IH _ H) as [H1 H2]. cbn [adepth]. rewrite of_aty_list, H1. split; [|lia].
      symmetry. now apply is_list_view.
    + cbn [adepth]. rewrite of_aty_named. split; [|lia]. symmetry. now apply not_list_view.
Qed.

Lemma of_aty_inj a b : of_aty a = of_aty b -> a = b.
Proof.
  intros H.
  pose proof (to_of_aty a (Nat.max (adepth a) (adepth b)) ltac:(lia)) as Ha.
  pose proof (to_of_aty b (Nat.max (adepth a) (adepth b)) ltac:(lia)) as Hb.
  rewrite H in Ha. congruence.
Qed.

(* the concretisation of an abstract type with base name s *)
Definition T (s : string) (a : aty) : ty := mkTy s (of_aty a).

Lemma wf_view t : wf_ty t = true -> exists a, (adepth a <= 30)%nat /\ t = T (tbase t) a.
Proof.
  unfold wf_ty. intros H. destruct (of_to_aty 30 _ H) as [H1 H2].
  exists (to_aty 30 (tmask t)). split; [exact H2|]. destruct t as [s m]. unfold T. cbn in *. now rewrite H1.
Qed.
Lemma wf_view' t : wf_ty t = true -> exists s a, (adepth a <= 30)%nat /\ t = T s a.
Proof. intros H. destruct (wf_view t H) as (a & Hd & E). now exists (tbase t), a. Qed.
Lemma wf_T s a : (adepth a <= 30)%nat -> wf_ty (T s a) = true.
Proof. intros H. unfold wf_ty, T. cbn [tmask]. now apply wf_of_aty. Qed.
Lemma wf_T_inv s a : wf_ty (T s a) = true -> (adepth a <= 30)%nat.
Proof.
  intros H. destruct (wf_view _ H) as (a' & Hd & E). unfold T in E. cbn in E.
  injection E as E. apply of_aty_inj in E. now subst.
Qed.
Lemma T_inj s a s' b : T s a = T s' b -> s = s' /\ a = b.
Proof. unfold T. intros [= -> E]. split; [reflexivity | now apply of_aty_inj]. Qed.

(* ================================================================== *)
(* 4. accessors and constructors on T                                 *)
(* ================================================================== *)
Definition anull (a : aty) : bool := match a with ANamed n => n | AList n _ => n end.
Definition ais_list (a : aty) : bool := match a with ANamed _ => false | AList _ _ => true end.
Definition awith_null (a : aty) (nl : bool) : aty :=
  match a with ANamed _ => ANamed nl | AList _ i => AList nl i end.

Lemma nullable_T s a : ty_nullable (T s a) = anull a.
Proof. unfold ty_nullable, T; cbn [tmask]. destruct a; [apply nullable_nnbit | apply nullable_lst]. Qed.
Lemma is_list_T s a : ty_is_list (T s a) = ais_list a.
Proof. unfold ty_is_list, T; cbn [tmask]. destruct a; [apply is_list_nnbit | apply is_list_lst]. Qed.
Lemma as_list_T_named s nl : ty_as_list (T s (ANamed nl)) = None.
Proof. unfold ty_as_list, T; cbn [tmask]. now rewrite of_aty_named, as_list_nnbit. Qed.
Lemma as_list_T_list s nl i : ty_as_list (T s (AList nl i)) = Some (T s i).
Proof. unfold ty_as_list, T; cbn [tmask tbase]. now rewrite of_aty_list, as_list_lst. Qed.
Lemma named_T s nl : ty_named s nl = T s (ANamed nl).
Proof. unfold ty_named, T, mod_new. destruct nl; reflexivity. Qed.
Lemma base_T s a : tbase (T s a) = s.
Proof. reflexivity. Qed.

Lemma with_nullability_T s a nl : ty_with_nullability (T s a) nl = T s (awith_null a nl).
Proof.
  unfold ty_with_nullability, T. cbn [tmask tbase].
  destruct a as [n|n i]; cbn [awith_null].
  - destruct nl, n; reflexivity.
  - rewrite !of_aty_list. generalize (of_aty i) as x. intros x.
    destruct nl; f_equal; destruct x as [|p], n; reflexivity.
Qed.

(* size bound: of_aty a < 2^(2*depth+1) *)
Lemma of_aty_bound a : of_aty a < 2 ^ (2 * N.of_nat (adepth a) + 1).
Proof.
  induction a as [nl|nl i IH].
  - cbn. destruct nl; reflexivity.
  - rewrite of_aty_list, lst_arith. cbn [adepth].
    replace (2 * N.of_nat (S (adepth i)) + 1) with (2 + (2 * N.of_nat (adepth i) + 1)) by lia.
    rewrite N.pow_add_r. change (2 ^ 2) with 4.
    assert (nnbit nl <= 1) by (destruct nl; cbn; lia). lia.
Qed.

Lemma trunc64_small x : x < 2 ^ 64 -> trunc64 x = x.
Proof. intros H. unfold trunc64. rewrite N.land_ones. now apply N.mod_small. Qed.

(* bit 2k+1 of of_aty a is the list bit of level k *)
Lemma testbit_lst_hi x nl n : N.testbit (lst x nl) (n + 2) = N.testbit x n.
Proof.
  unfold lst. rewrite !N.lor_spec, N.shiftl_spec_high by lia.
  replace (n + 2 - 2) with n by lia.
  assert (H2 : N.testbit 2 (n + 2) = false).
  { change 2 with (2 ^ 1) at 1. apply N.pow2_bits_false. lia. }
  assert (H1 : N.testbit (nnbit nl) (n + 2) = false).
  { destruct nl; cbn [nnbit]; [apply N.bits_0|]. change 1 with (2 ^ 0) at 1. apply N.pow2_bits_false. lia. }
  now rewrite H2, H1, !orb_false_r.
Qed.

Lemma testbit_list_bit a k :
  N.testbit (of_aty a) (2 * N.of_nat k + 1) = Nat.ltb k (adepth a).
Proof.
  revert k. induction a as [nl|nl i IH]; intros k.
  - rewrite of_aty_named. cbn [adepth].
    destruct nl; cbn [nnbit]; [apply N.bits_0|].
    change 1 with (2 ^ 0) at 1. apply N.pow2_bits_false. lia.
  - rewrite of_aty_list. cbn [adepth]. destruct k as [|k].
    + cbn. generalize (of_aty i). intros x. destruct x as [|p], nl; reflexivity.
    + replace (2 * N.of_nat (S k) + 1) with ((2 * N.of_nat k + 1) + 2) by lia.
      rewrite testbit_lst_hi, IH. reflexivity.
Qed.

Lemma at_max_testbit m : mod_at_max_list_depth m = N.testbit m 59.
Proof.
  unfold mod_at_max_list_depth. change MAX_LIST_DEPTH_MASK with (2 ^ 59).
  destruct (N.testbit m 59) eqn:E.
  - apply N.eqb_eq. apply N.bits_inj. intros i.
    rewrite N.land_spec, N.pow2_bits_eqb. destruct (N.eqb_spec 59 i) as [<-|]; [now rewrite E | apply andb_false_r].
  - apply N.eqb_neq. intros H.
    assert (H' : N.testbit (N.land m (2 ^ 59)) 59 = N.testbit (2 ^ 59) 59) by now rewrite H.
    rewrite N.land_spec, E, N.pow2_bits_true in H'. discriminate.
Qed.

Lemma at_max_T s a : mod_at_max_list_depth (tmask (T s a)) = Nat.leb 30 (adepth a).
Proof.
  unfold T; cbn [tmask]. rewrite at_max_testbit.
  change 59 with (2 * N.of_nat 29 + 1). rewrite testbit_list_bit. reflexivity.
Qed.

(* new_list_type on well-formed types: panics exactly at depth 30 *)
Lemma ty_list_T s a nl : (adepth a <= 30)%nat ->
  ty_list (T s a) nl = if Nat.leb 30 (adepth a) then Panic site_new_list else Ok (T s (AList nl a)).
Proof.
  intros Hd. unfold ty_list. rewrite at_max_T.
  destruct (Nat.leb_spec 30 (adepth a)) as [Hge|Hlt]; [reflexivity|].
  f_equal. unfold T. cbn [tmask tbase]. f_equal.
  rewrite of_aty_list. unfold lst.
  rewrite trunc64_small.
  - unfold LIST_MASK, NON_NULLABLE_MASK. destruct nl; cbn [negb nnbit]; [now rewrite N.lor_0_r | reflexivity].
  - rewrite N.shiftl_mul_pow2. pose proof (of_aty_bound a) as B.
    assert (2 ^ (2 * N.of_nat (adepth a) + 1) <= 2 ^ 59) by (apply N.pow_le_mono_r; lia).
    change (2 ^ 64) with (2 ^ 59 * 32). change (2 ^ 2) with 4. lia.
Qed.

(* ================================================================== *)
(* 5. abstract operations and their agreement with the model           *)
(* ================================================================== *)
Fixpoint a_meet (a b : aty) : option aty :=
  match a, b with
  | ANamed x, ANamed y => Some (ANamed (x && y))
  | AList x i, AList y j => option_map (AList (x && y)) (a_meet i j)
  | _, _ => None
  end.
(* a_sub parent child *)
Fixpoint a_sub (p c : aty) : bool :=
  match p, c with
  | ANamed x, ANamed y => implb y x
  | AList x i, AList y j => implb y x && a_sub i j
  | _, _ => false
  end.
Fixpoint a_same (a b : aty) : bool :=
  match a, b with
  | ANamed _, ANamed _ => true
  | AList _ i, AList _ j => a_same i j
  | _, _ => false
  end.

Lemma a_meet_depth a b c : a_meet a b = Some c -> adepth c = adepth a /\ adepth c = adepth b.
Proof.
  revert b c. induction a as [x|x i IH]; intros [y|y j] c H; cbn in H; try discriminate.
  - injection H as <-. now split.
  - destruct (a_meet i j) as [k|] eqn:E; [|discriminate]. injection H as <-.
    destruct (IH _ _ E). cbn. lia.
Qed.

Lemma intersect_impl_T f s s' a b : (adepth a < f)%nat -> (adepth a <= 30)%nat ->
  intersect_impl f (T s a) (T s' b) = Ok (option_map (T s) (a_meet a b)).
Proof.
  revert a b. induction f as [|f IH]; intros a b Hf Hd; [lia|].
  cbn [intersect_impl]. rewrite !nullable_T.
  destruct a as [x|x i], b as [y|y j]; rewrite ?as_list_T_named, ?as_list_T_list; cbn [a_meet option_map anull].
  - unfold ty_base_type. rewrite base_T, named_T. reflexivity.
  - reflexivity.
  - reflexivity.
  - cbn [adepth] in Hf, Hd. rewrite IH by lia. cbn [bind].
    destruct (a_meet i j) as [k|] eqn:E; cbn [option_map]; [|reflexivity].
    destruct (a_meet_depth _ _ _ E) as [D1 _].
    rewrite ty_list_T by lia.
    destruct (Nat.leb_spec 30 (adepth k)); [lia|]. reflexivity.
Qed.

Definition ty_meet (a b : ty) : option ty :=
  match ty_intersect a b with Ok o => o | Panic _ => None end.

Lemma ty_intersect_T s s' a b : (adepth a <= 30)%nat ->
  ty_intersect (T s a) (T s' b) =
  Ok (if String.eqb s s' then option_map (T s) (a_meet a b) else None).
Proof.
  intros Hd. unfold ty_intersect, ty_base_type. rewrite !base_T.
  destruct (String.eqb s s'); cbn [negb]; [|reflexivity].
  apply intersect_impl_T; [unfold mask_fuel; lia | exact Hd].
Qed.

Lemma sub_fuel_T f s s' a b : (adepth a < f)%nat ->
  sub_fuel f (T s a) (T s' b) = String.eqb s s' && a_sub a b.
Proof.
  revert a b. induction f as [|f IH]; intros a b Hf; [lia|].
  cbn [sub_fuel]. rewrite !nullable_T. unfold ty_base_type. rewrite !base_T.
  destruct a as [x|x i], b as [y|y j]; rewrite ?as_list_T_named, ?as_list_T_list; cbn [a_sub anull].
  - destruct x, y, (String.eqb s s'); reflexivity.
  - destruct x, y, (String.eqb s s'); reflexivity.
  - destruct x, y, (String.eqb s s'); reflexivity.
  - cbn [adepth] in Hf. rewrite IH by lia.
    destruct x, y, (String.eqb s s'); reflexivity.
Qed.
Lemma ty_sub_T s s' a b : (adepth a <= 30)%nat ->
  ty_sub (T s a) (T s' b) = String.eqb s s' && a_sub a b.
Proof. intros H. apply sub_fuel_T. unfold mask_fuel. lia. Qed.

Lemma eqn_fuel_T f s s' a b : (adepth a < f)%nat ->
  eq_ign_null_fuel f (T s a) (T s' b) = String.eqb s s' && a_same a b.
Proof.
  revert a b. induction f as [|f IH]; intros a b Hf; [lia|].
  cbn [eq_ign_null_fuel]. unfold ty_base_type. rewrite !base_T.
  destruct a as [x|x i], b as [y|y j]; rewrite ?as_list_T_named, ?as_list_T_list; cbn [a_same].
  - destruct (String.eqb s s'); reflexivity.
  - destruct (String.eqb s s'); reflexivity.
  - destruct (String.eqb s s'); reflexivity.
  - cbn [adepth] in Hf. rewrite IH by lia. destruct (String.eqb s s'); reflexivity.
Qed.
Lemma ty_eqn_T s s' a b : (adepth a <= 30)%nat ->
  ty_eq_ign_null (T s a) (T s' b) = String.eqb s s' && a_same a b.
Proof. intros H. apply eqn_fuel_T. unfold mask_fuel. lia. Qed.

Lemma mask_depth_T f a : (adepth a < f)%nat -> mask_depth f (of_aty a) = adepth a.
Proof.
  revert a. induction f as [|f IH]; intros a Hf; [lia|].
  destruct a as [x|x i]; cbn [mask_depth adepth].
  - now rewrite of_aty_named, as_list_nnbit.
  - rewrite of_aty_list, as_list_lst. cbn [adepth] in Hf. rewrite IH by lia. reflexivity.
Qed.
Lemma ty_depth_T s a : (adepth a <= 30)%nat -> ty_depth (T s a) = adepth a.
Proof. intros H. unfold ty_depth, T. cbn [tmask]. apply mask_depth_T. unfold mask_fuel. lia. Qed.

(* ================================================================== *)
(* 6. the lattice laws on abstract types                              *)
(* ================================================================== *)
Definition obind {A B} (o : option A) (f : A -> option B) : option B :=
  match o with Some a => f a | None => None end.

Lemma a_meet_comm a b : a_meet a b = a_meet b a.
Proof.
  revert b. induction a as [x|x i IH]; intros [y|y j]; cbn; try reflexivity.
  - now rewrite andb_comm.
  - now rewrite IH, andb_comm.
Qed.
Lemma a_meet_idem a : a_meet a a = Some a.
Proof. induction a as [x|x i IH]; cbn; [now rewrite andb_diag | now rewrite IH, andb_diag]. Qed.
Lemma a_meet_assoc a b c :
  obind (a_meet a b) (fun x => a_meet x c) = obind (a_meet b c) (fun y => a_meet a y).
Proof.
  revert b c. induction a as [x|x i IH]; intros [y|y j] [z|z k]; cbn; try reflexivity.
  - now rewrite andb_assoc.
  - destruct (a_meet j k); reflexivity.
  - destruct (a_meet i j); reflexivity.
  - specialize (IH j k).
    destruct (a_meet i j) as [p|], (a_meet j k) as [q|]; cbn [obind option_map a_meet] in *.
    + rewrite IH, andb_assoc. reflexivity.
    + rewrite IH. reflexivity.
    + rewrite <- IH. reflexivity.
    + reflexivity.
Qed.
Lemma a_meet_lower a b c : a_meet a b = Some c -> a_sub a c = true /\ a_sub b c = true.
Proof.
  revert b c. induction a as [x|x i IH]; intros [y|y j] c H; cbn in H; try discriminate.
  - injection H as <-. cbn. destruct x, y; split; reflexivity.
  - destruct (a_meet i j) as [k|] eqn:E; [|discriminate]. injection H as <-.
    destruct (IH _ _ E) as [H1 H2]. cbn. rewrite H1, H2. destruct x, y; split; reflexivity.
Qed.
Lemma a_meet_greatest a b d : a_sub a d = true -> a_sub b d = true ->
  exists c, a_meet a b = Some c /\ a_sub c d = true.
Proof.
  revert b d. induction a as [x|x i IH]; intros [y|y j] [z|z k] H1 H2; cbn in H1, H2; try discriminate.
  - eexists. split; [reflexivity|]. cbn. destruct x, y, z; auto.
  - apply andb_prop in H1, H2. destruct H1 as [H1 H1'], H2 as [H2 H2'].
    destruct (IH _ _ H1' H2') as (c & E & S). exists (AList (x && y) c). cbn. rewrite E. split; [reflexivity|].
    rewrite S. destruct x, y, z; auto.
Qed.
Lemma a_meet_none a b : a_meet a b = None <-> a_same a b = false.
Proof.
  revert b. induction a as [x|x i IH]; intros [y|y j]; cbn; try (split; congruence).
  rewrite <- IH. destruct (a_meet i j); cbn; split; congruence.
Qed.
Lemma a_same_depth a b : a_same a b = true <-> adepth a = adepth b.
Proof.
  revert b. induction a as [x|x i IH]; intros [y|y j]; cbn; try (split; congruence).
  rewrite IH. split; congruence.
Qed.

Lemma a_sub_refl a : a_sub a a = true.
Proof. induction a as [x|x i IH]; cbn; [destruct x; reflexivity | rewrite IH; destruct x; reflexivity]. Qed.
Lemma a_sub_antisym a b : a_sub a b = true -> a_sub b a = true -> a = b.
Proof.
  revert b. induction a as [x|x i IH]; intros [y|y j] H1 H2; cbn in H1, H2; try discriminate.
  - destruct x, y; try discriminate; reflexivity.
  - apply andb_prop in H1, H2. destruct H1 as [H1 H1'], H2 as [H2 H2'].
    rewrite (IH _ H1' H2'). destruct x, y; try discriminate; reflexivity.
Qed.
Lemma a_sub_trans a b c : a_sub a b = true -> a_sub b c = true -> a_sub a c = true.
Proof.
  revert b c. induction a as [x|x i IH]; intros [y|y j] [z|z k] H1 H2; cbn in H1, H2 |- *; try discriminate.
  - destruct x, y, z; try discriminate; reflexivity.
  - apply andb_prop in H1, H2. destruct H1 as [H1 H1'], H2 as [H2 H2'].
    rewrite (IH _ _ H1' H2'). destruct x, y, z; try discriminate; reflexivity.
Qed.
Lemma a_sub_same a b : a_sub a b = true -> a_same a b = true.
Proof.
  revert b. induction a as [x|x i IH]; intros [y|y j] H; cbn in H |- *; try discriminate; [reflexivity|].
  apply andb_prop in H. destruct H as [_ H]. now apply IH.
Qed.
Lemma a_same_refl a : a_same a a = true.
Proof. induction a; cbn; auto. Qed.
Lemma a_same_sym a b : a_same a b = a_same b a.
Proof. revert b. induction a as [x|x i IH]; intros [y|y j]; cbn; auto. Qed.
Lemma a_same_trans a b c : a_same a b = true -> a_same b c = true -> a_same a c = true.
Proof. rewrite !a_same_depth. congruence. Qed.

(* ================================================================== *)
(* 7. is_valid_value                                                   *)
(* ================================================================== *)
Section ValidAll.
  Variable f : fv -> res bool.
  Fixpoint all_res (l : list fv) : res bool :=
    match l with
    | [] => Ok true
    | x :: r => do b <- f x; if b then all_res r else Ok false
    end.
End ValidAll.

Definition scalar_ok (s : string) (a : aty) (name : string) : bool :=
  negb (ais_list a) && String.eqb s name.

Fixpoint a_valid (s : string) (a : aty) (v : fv) {struct v} : res bool :=
  match v with
  | Null => Ok (anull a)
  | I64 _ | U64 _ => Ok (scalar_ok s a "Int")
  | F64 _ => Ok (scalar_ok s a "Float")
  | Str _ => Ok (scalar_ok s a "String")
  | Boolv _ => Ok (scalar_ok s a "Boolean")
  | List l =>
      match a with
      | AList _ i =>
          (fix all (l : list fv) : res bool :=
             match l with
             | [] => Ok true
             | x :: r => do b <- a_valid s i x; if b then all r else Ok false
             end) l
      | ANamed _ => Ok false
      end
  | Enum _ => Panic site_enum
  end.

Lemma a_valid_list s nl i l : a_valid s (AList nl i) (List l) = all_res (a_valid s i) l.
Proof. cbn [a_valid]. induction l as [|x r IH]; cbn [all_res]; [reflexivity|]. now rewrite IH. Qed.

Lemma ty_valid_T s a v : ty_valid (T s a) v = a_valid s a v.
Proof.
  revert a. induction v as [| | | | | | |l IHl] using fv_ind'; intros a;
    try (cbn [ty_valid a_valid]; unfold scalar_ok, ty_base_type; rewrite ?nullable_T, ?is_list_T, ?base_T; reflexivity).
  destruct a as [x|x i].
  - cbn [ty_valid a_valid]. now rewrite as_list_T_named.
  - rewrite a_valid_list. cbn [ty_valid]. rewrite as_list_T_list.
    induction IHl as [|y r Hy Hr IH]; cbn [all_res]; [reflexivity|].
    rewrite Hy. destruct (a_valid s i y) as [[|]|]; cbn [bind]; auto.
Qed.

(* total (panic-free) validity on enum-free values *)
Fixpoint validT (s : string) (a : aty) (v : fv) {struct v} : bool :=
  match v with
  | Null => anull a
  | I64 _ | U64 _ => scalar_ok s a "Int"
  | F64 _ => scalar_ok s a "Float"
  | Str _ => scalar_ok s a "String"
  | Boolv _ => scalar_ok s a "Boolean"
  | List l => match a with AList _ i => forallb (validT s i) l | ANamed _ => false end
  | Enum _ => false
  end.

Lemma a_valid_enum_free s a v : enum_free v = true -> a_valid s a v = Ok (validT s a v).
Proof.
  revert a. induction v as [| | | | | | |l IHl] using fv_ind'; intros a E; try reflexivity; try discriminate.
  destruct a as [x|x i]; [reflexivity|].
  rewrite a_valid_list. cbn [validT]. cbn [enum_free] in E.
  induction IHl as [|y r Hy Hr IH]; cbn [all_res forallb]; [reflexivity|].
  cbn [forallb] in E. apply andb_prop in E. destruct E as [E1 E2].
  rewrite (Hy i E1). cbn [bind]. destruct (validT s i y); cbn [andb]; auto.
Qed.

(* the values on which is_valid_value hits the unimplemented! branch: an Enum that the scan
   reaches, i.e. all elements before it (at every enclosing list level) are valid *)
Fixpoint enum_reached (s : string) (a : aty) (v : fv) {struct v} : bool :=
  match v with
  | Enum _ => true
  | List l =>
      match a with
      | AList _ i =>
          (fix go (l : list fv) : bool :=
             match l with
             | [] => false
             | x :: r => enum_reached s i x || (validT s i x && go r)
             end) l
      | ANamed _ => false
      end
  | _ => false
  end.

Lemma a_valid_panic_iff s a v :
  (enum_reached s a v = true -> a_valid s a v = Panic site_enum) /\
  (enum_reached s a v = false -> a_valid s a v = Ok (validT s a v)).
Proof.
  revert a. induction v as [| | | | | | |l IHl] using fv_ind'; intros a;
    try (split; intros H; try discriminate H; reflexivity).
  destruct a as [x|x i]; [split; intros H; try discriminate H; reflexivity|].
  cbn [a_valid enum_reached validT].
  induction IHl as [|y r Hy Hr IH]; [split; intros H; try discriminate H; reflexivity|].
  destruct (Hy i) as [P1 P2]. cbn [forallb].
  destruct (enum_reached s i y) eqn:E.
  - rewrite (P1 eq_refl). cbn [bind orb]. split; intros H; [reflexivity | discriminate].
  - rewrite (P2 eq_refl). cbn [bind orb]. destruct (validT s i y); cbn [andb].
    + exact IH.
    + split; intros H; [discriminate | reflexivity].
Qed.

(* monotonicity: a value valid for a type is valid for every supertype (all values) *)
Lemma all_res_true_inv f l : all_res f l = Ok true -> Forall (fun x => f x = Ok true) l.
Proof.
  induction l as [|x r IH]; cbn [all_res]; intros H; [constructor|].
  destruct (f x) as [[|]|] eqn:E; cbn [bind] in H; try discriminate.
  constructor; auto.
Qed.
Lemma all_res_true_intro f l : Forall (fun x => f x = Ok true) l -> all_res f l = Ok true.
Proof. induction 1 as [|x r Hx Hr IH]; cbn [all_res]; [reflexivity|]. rewrite Hx. exact IH. Qed.

Lemma a_sub_scalar_ok s a b name : a_sub a b = true -> scalar_ok s b name = scalar_ok s a name.
Proof. destruct a, b; cbn; try discriminate; reflexivity. Qed.

Lemma a_valid_mono s a b v : a_sub a b = true -> a_valid s b v = Ok true -> a_valid s a v = Ok true.
Proof.
  revert a b. induction v as [| | | | | | |l IHl] using fv_ind'; intros a1 a2 S H;
    try (cbn [a_valid] in *; now rewrite <- (a_sub_scalar_ok s a1 a2 _ S)).
  - cbn [a_valid] in *. destruct a1, a2; cbn in *; try discriminate.
    + injection H as ->. now rewrite implb_true_l in S; subst.
    + injection H as ->. apply andb_prop in S. destruct S as [S _]. now rewrite implb_true_l in S; subst.
  - discriminate.
  - destruct a1 as [x|x i], a2 as [y|y j]; cbn [a_sub] in S; try discriminate.
    apply andb_prop in S. destruct S as [_ S].
    rewrite a_valid_list in *. apply all_res_true_intro. apply all_res_true_inv in H.
    rewrite Forall_forall in *. intros z Hz. eapply IHl; eauto.
Qed.

Lemma forallb_andb {A} (f g h : A -> bool) l :
  Forall (fun x => f x = g x && h x) l -> forallb f l = forallb g l && forallb h l.
Proof.
  induction 1 as [|x r Hx Hr IH]; cbn; [reflexivity|]. rewrite Hx, IH.
  destruct (g x), (h x), (forallb g r), (forallb h r); reflexivity.
Qed.

Lemma validT_meet s a b c v : a_meet a b = Some c -> validT s c v = validT s a v && validT s b v.
Proof.
  revert a b c. induction v as [| | | | | | |l IHl] using fv_ind'; intros a1 a2 c M;
    try (destruct a1 as [x|x a1], a2 as [y|y a2]; cbn in M; try discriminate;
         [injection M as <- | destruct (a_meet a1 a2); [injection M as <-|discriminate]];
         cbn; unfold scalar_ok; cbn; try reflexivity;
         match goal with |- context [String.eqb s ?n] => destruct (String.eqb s n); reflexivity end).
  destruct a1 as [x|x i], a2 as [y|y j]; cbn in M; try discriminate.
  { injection M as <-. reflexivity. }
  destruct (a_meet i j) as [k|] eqn:E; [|discriminate]. injection M as <-. cbn [validT].
  apply forallb_andb. rewrite Forall_forall in *. intros z Hz. now apply IHl.
Qed.

(* ================================================================== *)
(* 8. Display and Type::parse                                         *)
(* ================================================================== *)
Definition bang (nl : bool) : string := if nl then EmptyString else String "!" EmptyString.
Definition S1 (c : ascii) : string := String c EmptyString.

Fixpoint lbr (a : aty) : string :=
  match a with ANamed _ => EmptyString | AList _ i => String "[" (lbr i) end.
Fixpoint abuild (a : aty) : string :=
  match a with ANamed nl => bang nl | AList nl i => bang nl +++ String "]" (abuild i) end.
Fixpoint asuffix (a : aty) : string :=
  match a with ANamed nl => bang nl | AList nl i => asuffix i +++ String "]" (bang nl) end.
Fixpoint render (s : string) (a : aty) : string :=
  match a with
  | ANamed nl => s +++ bang nl
  | AList nl i => String "[" (render s i +++ String "]" (bang nl))
  end.

Lemma disp_left_T f a : (adepth a < f)%nat -> disp_left f (of_aty a) = lbr a.
Proof.
  revert a. induction f as [|f IH]; intros a Hf; [lia|].
  destruct a as [x|x i]; cbn [disp_left lbr].
  - now rewrite of_aty_named, is_list_nnbit, as_list_nnbit.
  - rewrite of_aty_list, is_list_lst, as_list_lst. cbn [adepth] in Hf. rewrite IH by lia. reflexivity.
Qed.
Lemma disp_builder_T f a : (adepth a < f)%nat -> disp_builder f (of_aty a) = abuild a.
Proof.
  revert a. induction f as [|f IH]; intros a Hf; [lia|].
  destruct a as [x|x i]; cbn [disp_builder abuild].
  - rewrite of_aty_named, nullable_nnbit, is_list_nnbit, as_list_nnbit. destruct x; reflexivity.
  - rewrite of_aty_list, nullable_lst, is_list_lst, as_list_lst. cbn [adepth] in Hf. rewrite IH by lia.
    destruct x; reflexivity.
Qed.
Lemma srev_bang nl : srev (bang nl) = bang nl.
Proof. destruct nl; reflexivity. Qed.
Lemma srev_abuild a : srev (abuild a) = asuffix a.
Proof.
  induction a as [x|x i IH]; cbn [abuild asuffix]; [apply srev_bang|].
  rewrite srev_app. cbn [srev]. rewrite IH, srev_bang, sapp_assoc. reflexivity.
Qed.
Lemma render_split s a : lbr a +++ s +++ asuffix a = render s a.
Proof.
  induction a as [x|x i IH]; cbn [lbr asuffix render String.append]; [reflexivity|].
  now rewrite <- IH, !sapp_assoc.
Qed.
Lemma ty_display_T s a : (adepth a <= 30)%nat -> ty_display (T s a) = render s a.
Proof.
  intros H. unfold ty_display, T. cbn [tmask tbase].
  rewrite disp_left_T, disp_builder_T by (unfold mask_fuel; lia).
  rewrite srev_abuild. apply render_split.
Qed.

(* gty <-> (name, aty) *)
Fixpoint to_g (s : string) (a : aty) : gty :=
  match a with ANamed nl => GNamed s nl | AList nl i => GList (to_g s i) nl end.
Fixpoint g_name (g : gty) : string :=
  match g with GNamed s _ => s | GList i _ => g_name i end.
Fixpoint g_aty (g : gty) : aty :=
  match g with GNamed _ nl => ANamed nl | GList i nl => AList nl (g_aty i) end.
Lemma to_g_of_g g : to_g (g_name g) (g_aty g) = g.
Proof. induction g as [s nl|i IH nl]; cbn; [reflexivity | now rewrite IH]. Qed.
Lemma g_of_to_g s a : g_name (to_g s a) = s /\ g_aty (to_g s a) = a.
Proof. induction a as [nl|nl i [IH1 IH2]]; cbn; [now split | now rewrite IH1, IH2]. Qed.

Lemma render_len s a : (adepth a <= String.length (render s a))%nat.
Proof.
  induction a as [x|x i IH]; cbn [adepth render String.length]; [lia|].
  rewrite slen_app. lia.
Qed.

Lemma gql_new_render f s a : name_ok s = true -> (adepth a < f)%nat ->
  gql_type_new f (render s a) = Some (to_g s a).
Proof.
  intros Hn. unfold name_ok in Hn. apply andb_prop in Hn. destruct Hn as [Hs Hp].
  destruct (strip_suffix_char "!" s) eqn:Es; [discriminate|].
  destruct (strip_prefix_char "[" s) eqn:Ep; [discriminate|]. clear Hs Hp.
  revert a. induction f as [|f IH]; intros a Hf; [lia|].
  destruct a as [nl|nl i]; cbn [render to_g gql_type_new].
  - destruct nl; cbn [bang].
    + rewrite sapp_nil_r, Es, Ep. reflexivity.
    + rewrite strip_suffix_snoc. cbn [Ascii.eqb Bool.eqb]. now rewrite Ep.
  - cbn [adepth] in Hf. destruct nl; cbn [bang].
    + change (String "[" (render s i +++ String "]" EmptyString))
        with ((String "[" (render s i)) +++ String "]" EmptyString).
      rewrite strip_suffix_snoc. cbn [Ascii.eqb Bool.eqb].
      cbn [String.append strip_prefix_char Ascii.eqb Bool.eqb].
      rewrite strip_suffix_snoc. cbn [Ascii.eqb Bool.eqb].
      rewrite IH by lia. reflexivity.
    + replace (String "[" (render s i +++ String "]" (String "!" EmptyString)))
        with ((String "[" (render s i +++ String "]" EmptyString)) +++ String "!" EmptyString)
        by (cbn [String.append]; f_equal; now rewrite sapp_assoc).
      rewrite strip_suffix_snoc. cbn [Ascii.eqb Bool.eqb].
      cbn [strip_prefix_char Ascii.eqb Bool.eqb].
      rewrite strip_suffix_snoc. cbn [Ascii.eqb Bool.eqb].
      rewrite IH by lia. reflexivity.
Qed.

(* text of a parser-level type *)
Fixpoint g_render (g : gty) : string :=
  match g with
  | GNamed s nl => s +++ bang nl
  | GList i nl => String "[" (g_render i +++ String "]" (bang nl))
  end.
Lemma g_render_render g : g_render g = render (g_name g) (g_aty g).
Proof. induction g as [s nl|i IH nl]; cbn; [reflexivity | now rewrite IH]. Qed.

Lemma gql_new_sound f s g : gql_type_new f s = Some g -> g_render g = s.
Proof.
  revert s g. induction f as [|f IH]; intros s g H; [discriminate|].
  cbn [gql_type_new] in H.
  assert (K : forall nl s1, s = s1 +++ bang nl ->
     match strip_prefix_char "[" s1 with
     | Some s2 => match strip_suffix_char "]" s2 with
                  | None => None
                  | Some s3 => match gql_type_new f s3 with None => None | Some inner => Some (GList inner nl) end
                  end
     | None => Some (GNamed s1 nl)
     end = Some g -> g_render g = s).
  { intros nl s1 -> H1.
    destruct (strip_prefix_char "[" s1) as [s2|] eqn:E2.
    - destruct (strip_suffix_char "]" s2) as [s3|] eqn:E3; [|discriminate].
      destruct (gql_type_new f s3) as [inner|] eqn:E4; [|discriminate].
      injection H1 as <-. cbn [g_render]. rewrite (IH _ _ E4).
      apply strip_prefix_inv in E2. apply strip_suffix_inv in E3. subst.
      cbn [String.append]. f_equal. now rewrite sapp_assoc.
    - injection H1 as <-. reflexivity. }
  destruct (strip_suffix_char "!" s) as [rest|] eqn:E1.
  - apply (K false rest); [|exact H]. now apply strip_suffix_inv in E1.
  - apply (K true s); [|exact H]. cbn [bang]. now rewrite sapp_nil_r.
Qed.

(* from_type: accumulates the mask from the outside in *)
Lemma lor_shift_step lo nn i x :
  N.lor (N.lor (N.lor lo (N.shiftl nn i)) (N.shiftl 2 i)) (N.shiftl x (i + 2)) =
  N.lor lo (N.shiftl (N.lor (N.lor (N.shiftl x 2) 2) nn) i).
Proof.
  rewrite !N.shiftl_lor, N.shiftl_shiftl. replace (2 + i) with (i + 2) by lia.
  apply N.bits_inj. intros n. rewrite !N.lor_spec.
  destruct (N.testbit lo n), (N.testbit (N.shiftl nn i) n), (N.testbit (N.shiftl 2 i) n),
    (N.testbit (N.shiftl x (i + 2)) n); reflexivity.
Qed.

Lemma from_type_loop_spec g : forall (k : nat) (lo : N), (k <= 30)%nat ->
  from_type_loop g (N.lor lo (N.shiftl (nnbit (gnullable g)) (N.of_nat (2 * k)))) (N.of_nat (2 * k)) =
  if Nat.leb (k + adepth (g_aty g)) 30
  then Ok (mkTy (g_name g) (N.lor lo (N.shiftl (of_aty (g_aty g)) (N.of_nat (2 * k)))))
  else Panic site_from_type.
Proof.
  induction g as [s nl|i IH nl]; intros k lo Hk.
  - cbn [from_type_loop g_aty g_name adepth gnullable of_aty].
    destruct (Nat.leb_spec (k + 0) 30) as [_|Hk']; [reflexivity | lia].
  - cbn [from_type_loop g_aty g_name adepth gnullable].
    unfold MAX_LIST_DEPTH, LIST_MASK, NON_NULLABLE_MASK.
    destruct (N.ltb_spec (30 * 2) (N.of_nat (2 * k) + 2)) as [Hp|Hp].
    + destruct (Nat.leb_spec (k + S (adepth (g_aty i))) 30) as [Hq|Hq]; [lia | reflexivity].
    + assert (Hk1 : (S k <= 30)%nat) by lia.
      replace (N.of_nat (2 * k) + 2) with (N.of_nat (2 * S k)) by lia.
      set (lo' := N.lor (N.lor lo (N.shiftl (nnbit nl) (N.of_nat (2 * k)))) (N.shiftl 2 (N.of_nat (2 * k)))).
      assert (E : (if negb (gnullable i) then N.lor lo' (N.shiftl 1 (N.of_nat (2 * S k))) else lo') =
                  N.lor lo' (N.shiftl (nnbit (gnullable i)) (N.of_nat (2 * S k)))).
      { destruct (gnullable i); cbn [negb nnbit]; [now rewrite N.shiftl_0_l, N.lor_0_r | reflexivity]. }
      rewrite E, (IH (S k) lo' Hk1).
      replace (S k + adepth (g_aty i))%nat with (k + S (adepth (g_aty i)))%nat by lia.
      destruct (Nat.leb (k + S (adepth (g_aty i))) 30); [|reflexivity].
      f_equal. f_equal. unfold lo'. rewrite of_aty_list. unfold lst.
      replace (N.of_nat (2 * S k)) with (N.of_nat (2 * k) + 2) by lia.
      apply lor_shift_step.
Qed.

Lemma from_type_spec g :
  from_type g = if Nat.leb (adepth (g_aty g)) 30 then Ok (T (g_name g) (g_aty g)) else Panic site_from_type.
Proof.
  unfold from_type. pose proof (from_type_loop_spec g 0 0) as H.
  cbn [Nat.mul N.of_nat Nat.add] in H. rewrite N.shiftl_0_r, N.lor_0_l in H.
  unfold NON_NULLABLE_MASK. change (if gnullable g then 0 else 1) with (nnbit (gnullable g)).
  rewrite H by lia. rewrite N.shiftl_0_r, N.lor_0_l. reflexivity.
Qed.

(* Type::parse on the text of a well-formed type with a round-trippable name *)
Lemma parse_render s a : name_ok s = true ->
  ty_parse_res (render s a) =
  if Nat.leb (adepth a) 30 then Ok (Some (T s a)) else Panic site_from_type.
Proof.
  intros Hn. unfold ty_parse_res.
  rewrite (gql_new_render _ s a Hn) by (pose proof (render_len s a); lia).
  rewrite from_type_spec. destruct (g_of_to_g s a) as [-> ->].
  destruct (Nat.leb (adepth a) 30); reflexivity.
Qed.

Lemma parse_display_roundtrip t : wf_ty t = true -> name_ok (tbase t) = true ->
  ty_parse_res (ty_display t) = Ok (Some t).
Proof.
  intros W Hn. destruct (wf_view' _ W) as (s & a & Hd & ->). rewrite base_T in Hn.
  rewrite ty_display_T by exact Hd. rewrite parse_render by exact Hn.
  destruct (Nat.leb_spec (adepth a) 30); [reflexivity | lia].
Qed.

(* whatever Type::parse accepts is printed back verbatim, and is well formed *)
Lemma parse_sound s t : ty_parse_res s = Ok (Some t) -> wf_ty t = true /\ ty_display t = s.
Proof.
  unfold ty_parse_res. destruct (gql_type_new (S (String.length s)) s) as [g|] eqn:E; [|discriminate].
  rewrite from_type_spec. destruct (Nat.leb_spec (adepth (g_aty g)) 30) as [Hd|Hd]; [|discriminate].
  cbn [bind]. intros [= <-]. split; [now apply wf_T|].
  rewrite ty_display_T by exact Hd. rewrite <- g_render_render. now apply (gql_new_sound _ _ _ E).
Qed.

(* name_ok is necessary: the nullable named type over a bad name does not survive *)
Lemma name_ok_necessary s : ty_parse_res (ty_display (ty_named s true)) = Ok (Some (ty_named s true)) ->
  name_ok s = true.
Proof.
  rewrite named_T. rewrite ty_display_T by (cbn; lia). cbn [render bang]. rewrite sapp_nil_r.
  unfold ty_parse_res. destruct (gql_type_new (S (String.length s)) s) as [g|] eqn:E; [|discriminate].
  rewrite from_type_spec. destruct (Nat.leb (adepth (g_aty g)) 30); [|discriminate].
  cbn [bind]. intros H0.
  assert (H : T (g_name g) (g_aty g) = T s (ANamed true)) by congruence. clear H0.
  apply T_inj in H. destruct H as [Hname Haty].
  cbn [gql_type_new] in E. unfold name_ok.
  destruct (strip_suffix_char "!" s) as [rest|] eqn:E1.
  - exfalso. destruct (strip_prefix_char "[" rest) as [s2|].
    + destruct (strip_suffix_char "]" s2) as [s3|]; [|discriminate].
      destruct (gql_type_new (String.length s) s3); [|discriminate].
      injection E as <-. discriminate Haty.
    + injection E as <-. discriminate Haty.
  - destruct (strip_prefix_char "[" s) as [s2|]; [|reflexivity].
    exfalso. destruct (strip_suffix_char "]" s2) as [s3|]; [|discriminate].
    destruct (gql_type_new (String.length s) s3); [|discriminate].
    injection E as <-. discriminate Haty.
Qed.

(* ================================================================== *)
(* 9. the laws on model types (transport)                             *)
(* ================================================================== *)
Tactic Notation "wfd" hyp(H) ident(s) ident(a) ident(Hd) :=
  apply wf_view' in H; destruct H as (s & a & Hd & ->).

Lemma ty_meet_T s s' a b : (adepth a <= 30)%nat ->
  ty_meet (T s a) (T s' b) = if String.eqb s s' then option_map (T s) (a_meet a b) else None.
Proof. intros H. unfold ty_meet. now rewrite ty_intersect_T. Qed.

(* intersect never panics on well-formed types *)
Lemma ty_intersect_ok a b : wf_ty a = true -> wf_ty b = true -> ty_intersect a b = Ok (ty_meet a b).
Proof. intros Wa Wb. wfd Wa s a0 Hd. wfd Wb s0 a1 Hd0. rewrite ty_meet_T, ty_intersect_T by assumption. reflexivity. Qed.

Lemma ty_meet_wf a b c : wf_ty a = true -> wf_ty b = true -> ty_meet a b = Some c ->
  wf_ty c = true /\ tbase c = tbase a /\ tbase c = tbase b /\ ty_depth c = ty_depth a /\ ty_depth c = ty_depth b.
Proof.
  intros Wa Wb. wfd Wa s a0 Hd. wfd Wb s0 a1 Hd0. rewrite ty_meet_T by assumption.
  destruct (String.eqb_spec s s0) as [<-|]; [|discriminate].
  destruct (a_meet a0 a1) as [k|] eqn:E; [|discriminate]. cbn [option_map]. intros [= <-].
  destruct (a_meet_depth _ _ _ E) as [D1 D2].
  rewrite !ty_depth_T by lia. rewrite !base_T. repeat split; try assumption. apply wf_T. lia.
Qed.

Lemma ty_meet_comm a b : wf_ty a = true -> wf_ty b = true -> ty_meet a b = ty_meet b a.
Proof.
  intros Wa Wb. wfd Wa s a0 Hd. wfd Wb s0 a1 Hd0. rewrite !ty_meet_T by assumption.
  rewrite (String.eqb_sym s0 s). destruct (String.eqb_spec s s0) as [<-|]; [|reflexivity].
  now rewrite a_meet_comm.
Qed.

Lemma ty_meet_idem a : wf_ty a = true -> ty_meet a a = Some a.
Proof. intros Wa. wfd Wa s a0 Hd. rewrite ty_meet_T by assumption. now rewrite String.eqb_refl, a_meet_idem. Qed.

Lemma ty_meet_assoc a b c : wf_ty a = true -> wf_ty b = true -> wf_ty c = true ->
  obind (ty_meet a b) (fun x => ty_meet x c) = obind (ty_meet b c) (fun y => ty_meet a y).
Proof.
  intros Wa Wb Wc. wfd Wa s a0 Hd. wfd Wb s0 a1 Hd0. wfd Wc s1 a2 Hd1. rewrite !ty_meet_T by assumption.
  pose proof (a_meet_assoc a0 a1 a2) as A.
  destruct (String.eqb_spec s s0) as [<-|N1]; destruct (String.eqb_spec s s1) as [<-|N2]; cbn [obind].
  - destruct (a_meet a0 a1) as [p|] eqn:E1, (a_meet a1 a2) as [q|] eqn:E2; cbn [obind option_map] in *.
    + destruct (a_meet_depth _ _ _ E1). rewrite !ty_meet_T by lia. rewrite String.eqb_refl. now rewrite A.
    + destruct (a_meet_depth _ _ _ E1). rewrite !ty_meet_T by lia. rewrite String.eqb_refl. now rewrite A.
    + rewrite !ty_meet_T by lia. rewrite String.eqb_refl. now rewrite <- A.
    + reflexivity.
  - destruct (a_meet a0 a1) as [p|] eqn:E1; cbn [obind option_map]; [|reflexivity].
    destruct (a_meet_depth _ _ _ E1). rewrite ty_meet_T by lia.
    destruct (String.eqb_spec s s1); [contradiction | reflexivity].
  - destruct (String.eqb_spec s0 s) as [->|N3]; [contradiction|]. reflexivity.
  - destruct (String.eqb_spec s0 s1) as [<-|N3]; cbn [obind]; [|reflexivity].
    destruct (a_meet a1 a2) as [q|] eqn:E2; cbn [obind option_map]; [|reflexivity].
    rewrite ty_meet_T by lia. destruct (String.eqb_spec s s0); [contradiction | reflexivity].
Qed.

Lemma ty_meet_lower a b c : wf_ty a = true -> wf_ty b = true -> ty_meet a b = Some c ->
  ty_sub a c = true /\ ty_sub b c = true.
Proof.
  intros Wa Wb. wfd Wa s a0 Hd. wfd Wb s0 a1 Hd0. rewrite ty_meet_T by assumption.
  destruct (String.eqb_spec s s0) as [<-|]; [|discriminate].
  destruct (a_meet a0 a1) as [k|] eqn:E; [|discriminate]. cbn [option_map]. intros [= <-].
  rewrite !ty_sub_T by assumption. rewrite String.eqb_refl. cbn [andb]. now apply a_meet_lower.
Qed.

Lemma ty_meet_greatest a b d : wf_ty a = true -> wf_ty b = true -> wf_ty d = true ->
  ty_sub a d = true -> ty_sub b d = true -> exists c, ty_meet a b = Some c /\ ty_sub c d = true.
Proof.
  intros Wa Wb Wd. wfd Wa s a0 Hd. wfd Wb s0 a1 Hd0. wfd Wd s1 a2 Hd1. rewrite !ty_sub_T by assumption.
  intros H1 H2. apply andb_prop in H1, H2. destruct H1 as [E1 H1], H2 as [E2 H2].
  apply String.eqb_eq in E1, E2. subst s s0.
  destruct (a_meet_greatest _ _ _ H1 H2) as (c & M & S).
  exists (T s1 c). rewrite ty_meet_T by assumption. rewrite String.eqb_refl, M. split; [reflexivity|].
  destruct (a_meet_depth _ _ _ M). rewrite ty_sub_T by lia. now rewrite String.eqb_refl.
Qed.

Lemma ty_meet_none_eqn a b : wf_ty a = true -> wf_ty b = true ->
  (ty_meet a b = None <-> ty_eq_ign_null a b = false).
Proof.
  intros Wa Wb. wfd Wa s a0 Hd. wfd Wb s0 a1 Hd0. rewrite ty_meet_T, ty_eqn_T by assumption.
  destruct (String.eqb s s0); cbn [andb]; [|split; reflexivity].
  rewrite <- a_meet_none. destruct (a_meet a0 a1); cbn; split; congruence.
Qed.

Lemma ty_eqn_iff a b : wf_ty a = true -> wf_ty b = true ->
  (ty_eq_ign_null a b = true <-> tbase a = tbase b /\ ty_depth a = ty_depth b).
Proof.
  intros Wa Wb. wfd Wa s a0 Hd. wfd Wb s0 a1 Hd0. rewrite ty_eqn_T, !ty_depth_T, !base_T by assumption.
  rewrite andb_true_iff, String.eqb_eq, a_same_depth. reflexivity.
Qed.

Lemma ty_meet_none a b : wf_ty a = true -> wf_ty b = true ->
  (ty_meet a b = None <-> tbase a <> tbase b \/ ty_depth a <> ty_depth b).
Proof.
  intros Wa Wb. rewrite (ty_meet_none_eqn a b Wa Wb).
  pose proof (ty_eqn_iff a b Wa Wb) as I.
  destruct (ty_eq_ign_null a b).
  - split; [discriminate|]. destruct (proj1 I eq_refl) as [E1 E2]. intros [H|H]; contradiction.
  - split; [intros _|reflexivity].
    destruct (String.string_dec (tbase a) (tbase b)) as [E1|N1]; [|now left].
    destruct (Nat.eq_dec (ty_depth a) (ty_depth b)) as [E2|N2]; [|now right].
    assert (false = true) by (apply I; now split). discriminate.
Qed.

Lemma ty_sub_refl a : wf_ty a = true -> ty_sub a a = true.
Proof. intros Wa. wfd Wa s a0 Hd. rewrite ty_sub_T by assumption. now rewrite String.eqb_refl, a_sub_refl. Qed.
Lemma ty_sub_antisym a b : wf_ty a = true -> wf_ty b = true ->
  ty_sub a b = true -> ty_sub b a = true -> a = b.
Proof.
  intros Wa Wb. wfd Wa s a0 Hd. wfd Wb s0 a1 Hd0. rewrite !ty_sub_T by assumption. intros H1 H2.
  apply andb_prop in H1, H2. destruct H1 as [E1 H1], H2 as [_ H2]. apply String.eqb_eq in E1. subst.
  now rewrite (a_sub_antisym _ _ H1 H2).
Qed.
Lemma ty_sub_trans a b c : wf_ty a = true -> wf_ty b = true -> wf_ty c = true ->
  ty_sub a b = true -> ty_sub b c = true -> ty_sub a c = true.
Proof.
  intros Wa Wb Wc. wfd Wa s a0 Hd. wfd Wb s0 a1 Hd0. wfd Wc s1 a2 Hd1. rewrite !ty_sub_T by assumption. intros H1 H2.
  apply andb_prop in H1, H2. destruct H1 as [E1 H1], H2 as [E2 H2]. apply String.eqb_eq in E1, E2. subst.
  now rewrite String.eqb_refl, (a_sub_trans _ _ _ H1 H2).
Qed.
Lemma ty_sub_eqn a b : wf_ty a = true -> wf_ty b = true -> ty_sub a b = true -> ty_eq_ign_null a b = true.
Proof.
  intros Wa Wb. wfd Wa s a0 Hd. wfd Wb s0 a1 Hd0. rewrite ty_sub_T, ty_eqn_T by assumption. intros H.
  apply andb_prop in H. destruct H as [E H]. now rewrite E, (a_sub_same _ _ H).
Qed.
(* sub = same shape and base, and nullability implied level by level; in particular it forces
   the same list depth *)
Lemma ty_eqn_refl a : wf_ty a = true -> ty_eq_ign_null a a = true.
Proof. intros Wa. wfd Wa s a0 Hd. rewrite ty_eqn_T by assumption. now rewrite String.eqb_refl, a_same_refl. Qed.
Lemma ty_eqn_sym a b : wf_ty a = true -> wf_ty b = true -> ty_eq_ign_null a b = ty_eq_ign_null b a.
Proof.
  intros Wa Wb. wfd Wa s a0 Hd. wfd Wb s0 a1 Hd0. rewrite !ty_eqn_T by assumption.
  now rewrite String.eqb_sym, a_same_sym.
Qed.
Lemma ty_eqn_trans a b c : wf_ty a = true -> wf_ty b = true -> wf_ty c = true ->
  ty_eq_ign_null a b = true -> ty_eq_ign_null b c = true -> ty_eq_ign_null a c = true.
Proof.
  intros Wa Wb Wc. rewrite !ty_eqn_iff by assumption. intros [-> ->] [-> ->]. now split.
Qed.

(* is_valid_value *)
Lemma ty_valid_mono a b v : wf_ty a = true -> wf_ty b = true ->
  ty_sub a b = true -> ty_valid b v = Ok true -> ty_valid a v = Ok true.
Proof.
  intros Wa Wb. wfd Wa s a0 Hd. wfd Wb s0 a1 Hd0. rewrite ty_sub_T by assumption. intros H.
  apply andb_prop in H. destruct H as [E H]. apply String.eqb_eq in E. subst.
  rewrite !ty_valid_T. now apply a_valid_mono.
Qed.

Lemma ty_valid_meet a b c v : wf_ty a = true -> wf_ty b = true -> enum_free v = true ->
  ty_meet a b = Some c ->
  (ty_valid c v = Ok true <-> ty_valid a v = Ok true /\ ty_valid b v = Ok true).
Proof.
  intros Wa Wb Ev. wfd Wa s a0 Hd. wfd Wb s0 a1 Hd0. rewrite ty_meet_T by assumption.
  destruct (String.eqb_spec s s0) as [<-|]; [|discriminate].
  destruct (a_meet a0 a1) as [k|] eqn:E; [|discriminate]. cbn [option_map]. intros [= <-].
  rewrite !ty_valid_T, !a_valid_enum_free by assumption. rewrite (validT_meet s _ _ _ v E).
  destruct (validT s a0 v), (validT s a1 v); cbn; split; try intros [? ?]; try split; congruence.
Qed.

Lemma ty_valid_enum_free_ok t v : enum_free v = true -> exists b, ty_valid t v = Ok b.
Proof.
  revert t. induction v as [| | | | | | |l IHl] using fv_ind'; intros t E; try (eexists; reflexivity); try discriminate.
  cbn [ty_valid]. destruct (ty_as_list t) as [ct|]; [|eexists; reflexivity].
  cbn [enum_free] in E. induction IHl as [|y r Hy Hr IH]; [eexists; reflexivity|].
  cbn [forallb] in E. apply andb_prop in E. destruct E as [E1 E2].
  destruct (Hy ct E1) as [[|] ->]; cbn [bind]; [now apply IH | eexists; reflexivity].
Qed.

Lemma ty_view_T s a : (adepth a <= 30)%nat -> ty_view (T s a) = a.
Proof. intros H. unfold ty_view, T. cbn [tmask]. apply to_of_aty. lia. Qed.

Lemma ty_valid_panic_iff t v : wf_ty t = true ->
  ((exists site, ty_valid t v = Panic site) <-> enum_reached (tbase t) (ty_view t) v = true).
Proof.
  intros W. wfd W s a Hd. rewrite ty_valid_T, base_T, ty_view_T by assumption.
  destruct (a_valid_panic_iff s a v) as [P1 P2].
  destruct (enum_reached s a v).
  - split; [reflexivity|]. intros _. eexists. now apply P1.
  - rewrite (P2 eq_refl). split; [intros [site H]; discriminate | discriminate].
Qed.

(* constructors, accessors *)
Lemma ty_depth_le t : wf_ty t = true -> (ty_depth t <= 30)%nat.
Proof. intros W. wfd W s a Hd. now rewrite ty_depth_T. Qed.

Lemma ty_named_wf s nl :
  wf_ty (ty_named s nl) = true /\ ty_nullable (ty_named s nl) = nl /\ ty_is_list (ty_named s nl) = false /\
  ty_as_list (ty_named s nl) = None /\ tbase (ty_named s nl) = s /\ ty_depth (ty_named s nl) = O.
Proof.
  rewrite named_T, nullable_T, is_list_T, as_list_T_named, base_T, ty_depth_T by (cbn; lia).
  repeat split. apply wf_T. cbn. lia.
Qed.

Lemma ty_list_spec t nl : wf_ty t = true ->
  if Nat.eqb (ty_depth t) 30 then ty_list t nl = Panic site_new_list
  else exists t', ty_list t nl = Ok t' /\ wf_ty t' = true /\ ty_as_list t' = Some t /\
                  ty_nullable t' = nl /\ ty_is_list t' = true /\ tbase t' = tbase t /\
                  ty_depth t' = S (ty_depth t) /\ tmask t' < 2 ^ 64.
Proof.
  intros W. wfd W s a Hd. rewrite ty_depth_T, ty_list_T by assumption.
  destruct (Nat.eqb_spec (adepth a) 30) as [E|E].
  - rewrite E. reflexivity.
  - destruct (Nat.leb_spec 30 (adepth a)); [lia|].
    exists (T s (AList nl a)). rewrite as_list_T_list, nullable_T, is_list_T, base_T, ty_depth_T by (cbn; lia).
    repeat split. { apply wf_T. cbn. lia. }
    unfold T. cbn [tmask]. pose proof (of_aty_bound (AList nl a)) as B. cbn [adepth] in B.
    assert (2 ^ (2 * N.of_nat (S (adepth a)) + 1) <= 2 ^ 64) by (apply N.pow_le_mono_r; lia). lia.
Qed.

Lemma ty_as_list_wf t t' : wf_ty t = true -> ty_as_list t = Some t' ->
  wf_ty t' = true /\ tbase t' = tbase t /\ ty_depth t = S (ty_depth t').
Proof.
  intros W. wfd W s a Hd. destruct a as [x|x i].
  - now rewrite as_list_T_named.
  - rewrite as_list_T_list. intros [= <-]. cbn [adepth] in Hd.
    rewrite !ty_depth_T, !base_T by (cbn; lia). repeat split. apply wf_T. lia.
Qed.

Lemma ty_is_list_as_list t : ty_is_list t = match ty_as_list t with Some _ => true | None => false end.
Proof. unfold ty_is_list, ty_as_list, mod_as_list. destruct (mod_is_list (tmask t)); reflexivity. Qed.

Lemma ty_with_nullability_spec t nl : wf_ty t = true ->
  wf_ty (ty_with_nullability t nl) = true /\ ty_nullable (ty_with_nullability t nl) = nl /\
  ty_as_list (ty_with_nullability t nl) = ty_as_list t /\ tbase (ty_with_nullability t nl) = tbase t /\
  ty_eq_ign_null (ty_with_nullability t nl) t = true.
Proof.
  intros W. wfd W s a Hd. rewrite with_nullability_T, nullable_T, base_T.
  assert (D : adepth (awith_null a nl) = adepth a) by (destruct a; reflexivity).
  rewrite ty_eqn_T by lia. rewrite String.eqb_refl.
  repeat split.
  - apply wf_T. lia.
  - destruct a; reflexivity.
  - destruct a; cbn [awith_null]; [now rewrite !as_list_T_named | now rewrite !as_list_T_list].
  - cbn [andb]. apply a_same_depth. exact D.
Qed.

(* well-formed = reachable from the two constructors *)
Inductive ty_reach : ty -> Prop :=
| reach_named s nl : ty_reach (ty_named s nl)
| reach_list t nl t' : ty_reach t -> ty_list t nl = Ok t' -> ty_reach t'.

Lemma wf_iff_reach t : wf_ty t = true <-> ty_reach t.
Proof.
  split.
  - intros W. wfd W s a Hd. induction a as [nl|nl i IH].
    + rewrite <- named_T. constructor.
    + cbn [adepth] in Hd. apply (reach_list (T s i) nl); [apply IH; lia|].
      rewrite ty_list_T by lia. destruct (Nat.leb_spec 30 (adepth i)); [lia | reflexivity].
  - induction 1 as [s nl|t nl t' R IH L].
    + apply ty_named_wf.
    + pose proof (ty_list_spec t nl IH) as S. destruct (Nat.eqb (ty_depth t) 30).
      * rewrite S in L. discriminate.
      * destruct S as (t'' & L' & W & _). rewrite L' in L. now injection L as <-.
Qed.

(* fuel adequacy: more fuel never changes the answer on well-formed types *)
Lemma sub_fuel_adequate f a b : wf_ty a = true -> wf_ty b = true -> (31 <= f)%nat ->
  sub_fuel f a b = ty_sub a b.
Proof.
  intros Wa Wb Hf. wfd Wa s a0 Hd. wfd Wb s0 a1 Hd0. rewrite ty_sub_T by assumption. apply sub_fuel_T. lia.
Qed.
Lemma intersect_fuel_adequate f a b : wf_ty a = true -> wf_ty b = true -> (31 <= f)%nat ->
  intersect_impl f a b = intersect_impl mask_fuel a b.
Proof.
  intros Wa Wb Hf. wfd Wa s a0 Hd. wfd Wb s0 a1 Hd0. rewrite !intersect_impl_T; try assumption; try reflexivity; unfold mask_fuel; lia.
Qed.

Lemma parse_display_roundtrip_opt t : wf_ty t = true -> name_ok (tbase t) = true ->
  ty_parse (ty_display t) = Some t.
Proof. intros W Hn. unfold ty_parse. now rewrite parse_display_roundtrip. Qed.

(* helpers for the non-vacuity examples of C17.v / C16.v *)
Definition ex_t (s : string) : ty := match ty_parse s with Some t => t | None => mkTy "?" 0 end.
Fixpoint nest (n : nat) (t : ty) : res ty :=
  match n with O => Ok t | S k => do t' <- nest k t; ty_list t' (Nat.even k) end.
Fixpoint deep_text (n : nat) : string :=
  match n with
  | O => "Int!"
  | S k => String "[" (deep_text k +++ (if Nat.even k then "]" else "]!"))
  end.
