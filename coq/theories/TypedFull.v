(* TypedFull.v — C13 for the rows of the engine model, for every query that meets the hypotheses of
   the whole-query refinement theorem (SimFull.interpret_spec / WfCheck.spec_hyps). *)
From TF Require Import Values Graph Exec Sem ExecLemmas Sim SimRec SimComp SimOut SimTop TyProofs WfIR WfIRProofs
     SimGen SimFull WfCheck SimFinal.
Local Open Scope string_scope.
Local Open Scope list_scope.

Theorem engine_rows_typed re g args S q ix q' rows :
  ty_indep g -> conforms S g -> wf_ir q = true -> spec_hyps args q' = true -> outputs_typed S (rq_comp q) ->
  index_query q = Ok (inr ix) -> lower_query q = Ok q' ->
  interpret re g args q' = Ok rows ->
  forall row, In row rows ->
    (forall n, lookup_str n row <> None <-> In n (map fst (ix_outputs ix))) /\
    forall n t v, In (n, (t, v)) (ix_outputs ix) -> ty_valid t (row_get row n) = Ok true.
Proof.
  intros Hind Hconf Hwf Hh Hot Hi Hl Hrows row Hrow.
  destruct (spec_hyps_sound args q' Hh) as (H1 & H2 & H3).
  pose proof (interpret_spec re g args Hind q' rows H1 H2 H3 Hrows) as HF2.
  destruct (Forall2_in_l _ _ _ _ HF2 Hrow) as (srow & Hs & Heq).
  destruct (sem_rows_carry_indexed_outputs re g args q ix q' Hi Hl srow Hs) as (_ & Hk).
  split.
  - intros n. rewrite (Heq n). apply Hk.
  - intros n t v Hin. unfold row_get. rewrite (Heq n).
    exact (row_typed re g args S q ix q' Hconf Hwf Hot Hi Hl srow Hs n t v Hin).
Qed.

(* the same with the unrestricted refinement theorem (folds truncated by take(min) included) *)
Theorem engine_rows_typed_all re g args S q ix q' rows :
  ty_indep g -> conforms S g -> wf_ir q = true -> refine_hyps args q' = true -> outputs_typed S (rq_comp q) ->
  index_query q = Ok (inr ix) -> lower_query q = Ok q' ->
  interpret re g args q' = Ok rows ->
  forall row, In row rows ->
    (forall n, lookup_str n row <> None <-> In n (map fst (ix_outputs ix))) /\
    forall n t v, In (n, (t, v)) (ix_outputs ix) -> ty_valid t (row_get row n) = Ok true.
Proof.
  intros Hind Hconf Hwf Hh Hot Hi Hl Hrows row Hrow.
  pose proof (interpret_refines_sem_checked re g args q' rows Hind Hh Hrows) as HF2.
  destruct (Forall2_in_l _ _ _ _ HF2 Hrow) as (srow & Hs & Heq).
  destruct (sem_rows_carry_indexed_outputs re g args q ix q' Hi Hl srow Hs) as (_ & Hk).
  split.
  - intros n. rewrite (Heq n). apply Hk.
  - intros n t v Hin. unfold row_get. rewrite (Heq n).
    exact (row_typed re g args S q ix q' Hconf Hwf Hot Hi Hl srow Hs n t v Hin).
Qed.
