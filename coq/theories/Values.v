(* Values.v — model of trustfall_core/src/ir/value.rs (FieldValue, PartialEq, PartialOrd).
   Model file: definitions only, no proofs (proofs are in ValuesProofs.v). *)
From Coq Require Export List ZArith NArith Bool String Ascii.
Export ListNotations.
Open Scope Z_scope.

(* Outcome of a transcribed Rust function: a value, or a panic at a named site. *)
Inductive res (A : Type) := Ok (a : A) | Panic (site : string).
Arguments Ok {A} a.
Arguments Panic {A} site.
Definition bind {A B} (r : res A) (f : A -> res B) : res B :=
  match r with Ok a => f a | Panic s => Panic s end.
Notation "'do' x <- r ; k" := (bind r (fun x => k)) (at level 200, x name, r at level 100, k at level 200).

(* FieldValue.  F64 carries the IEEE-754 binary64 bit pattern (as printed by f64::to_bits). *)
Inductive fv :=
| Null
| I64 (z : Z)
| U64 (z : Z)
| F64 (bits : N)
| Str (s : string)
| Boolv (b : bool)
| Enum (s : string)
| List (l : list fv).

Definition i64_min : Z := - 2^63.
Definition i64_max : Z := 2^63 - 1.
Definition u64_max : Z := 2^64 - 1.

(* ---- floats: finite binary64 compared through the sign-magnitude key of the bit pattern ---- *)
Definition f64_exp (bits : N) : N := N.land (N.shiftr bits 52) 2047.
Definition f64_finite (bits : N) : bool := andb (N.ltb bits (2^64)) (negb (N.eqb (f64_exp bits) 2047)).
(* key: -0.0 and +0.0 both map to 0; finite IEEE order = integer order of keys *)
Definition f64_key (bits : N) : Z :=
  let mag := Z.of_N (N.land bits (2^63 - 1)) in
  if N.testbit bits 63 then - mag else mag.

(* ---- well-formed values: what the Rust types can hold ---- *)
Fixpoint wf (v : fv) : bool :=
  match v with
  | Null => true
  | I64 z => (i64_min <=? z) && (z <=? i64_max)
  | U64 z => (0 <=? z) && (z <=? u64_max)
  | F64 b => f64_finite b
  | Str _ | Boolv _ | Enum _ => true
  | List l => forallb wf l
  end.

(* FieldValue::discriminant *)
Definition discriminant (v : fv) : Z :=
  match v with
  | Null => 0 | I64 _ => 1 | U64 _ => 2 | F64 _ => 3 | Str _ => 4 | Boolv _ => 5 | Enum _ => 6 | List _ => 7
  end.

(* FieldValue::compare_i64_to_u64, with its three branches *)
Definition compare_i64_to_u64 (signed unsigned : Z) : comparison :=
  if unsigned <=? i64_max then Z.compare signed unsigned          (* unsigned.try_into::<i64>() ok *)
  else if 0 <=? signed then Z.compare signed unsigned             (* u64::try_from(signed) ok *)
  else Lt.                                                        (* both out of each other's range *)

Definition rev_cmp (c : comparison) : comparison := CompOpp c.

Definition bool_cmp (a b : bool) : comparison :=
  match a, b with false, true => Lt | true, false => Gt | _, _ => Eq end.

(* <[T] as PartialOrd>::partial_cmp: lexicographic, then by length *)
Section ListCmp.
  Variable A : Type.
  Variable c : A -> A -> res comparison.
  Fixpoint list_cmp (l r : list A) : res comparison :=
    match l, r with
    | [], [] => Ok Eq
    | [], _ :: _ => Ok Lt
    | _ :: _, [] => Ok Gt
    | x :: l', y :: r' =>
        do o <- c x y;
        match o with Eq => list_cmp l' r' | _ => Ok o end
    end.
End ListCmp.
Arguments list_cmp {A} c l r.

Definition finite_guard (l r : N) {A} (k : res A) : res A :=
  if f64_finite l then (if f64_finite r then k else Panic "value.rs:assert r0.is_finite")
  else Panic "value.rs:assert l0.is_finite".

(* PartialOrd::partial_cmp.  The Rust function returns Option<Ordering>; on finite floats it is
   always Some, and non-finite floats hit the assert!, so the model returns res comparison. *)
Fixpoint fv_cmp (a b : fv) {struct a} : res comparison :=
  match a, b with
  | I64 l, U64 r => Ok (compare_i64_to_u64 l r)
  | U64 l, I64 r => Ok (rev_cmp (compare_i64_to_u64 r l))
  | U64 l, U64 r => Ok (Z.compare l r)
  | I64 l, I64 r => Ok (Z.compare l r)
  | F64 l, F64 r => finite_guard l r (Ok (Z.compare (f64_key l) (f64_key r)))
  | Str l, Str r => Ok (String.compare l r)
  | Boolv l, Boolv r => Ok (bool_cmp l r)
  | List l, List r =>
      (fix go (l r : list fv) {struct l} : res comparison :=
         match l, r with
         | [], [] => Ok Eq
         | [], _ :: _ => Ok Lt
         | _ :: _, [] => Ok Gt
         | x :: l', y :: r' =>
             do o <- fv_cmp x y;
             match o with Eq => go l' r' | _ => Ok o end
         end) l r
  | Enum l, Enum r => Ok (String.compare l r)
  | _, _ => Ok (Z.compare (discriminant a) (discriminant b))
  end.

(* PartialEq::eq (with structural_eq inlined for the non-mixed cases) *)
Fixpoint fv_eq (a b : fv) {struct a} : res bool :=
  match a, b with
  | I64 l, U64 r => Ok (match compare_i64_to_u64 l r with Eq => true | _ => false end)
  | U64 l, I64 r => Ok (match compare_i64_to_u64 r l with Eq => true | _ => false end)
  | U64 l, U64 r => Ok (Z.eqb l r)
  | I64 l, I64 r => Ok (Z.eqb l r)
  | F64 l, F64 r => finite_guard l r (Ok (Z.eqb (f64_key l) (f64_key r)))
  | Str l, Str r => Ok (String.eqb l r)
  | Boolv l, Boolv r => Ok (Bool.eqb l r)
  | List l, List r =>
      (* slice equality: lengths first, then element-wise, stopping at the first difference *)
      if negb (Nat.eqb (List.length l) (List.length r)) then Ok false else
      (fix go (l r : list fv) {struct l} : res bool :=
         match l, r with
         | [], [] => Ok true
         | x :: l', y :: r' =>
             do e <- fv_eq x y;
             if e then go l' r' else Ok false
         | _, _ => Ok false
         end) l r
  | Enum l, Enum r => Ok (String.eqb l r)
  | _, _ => Ok (Z.eqb (discriminant a) (discriminant b))
  end.

(* Convenience total versions for well-formed values (proved equal under wf in ValuesProofs.v) *)
Definition cmp_t (a b : fv) : comparison := match fv_cmp a b with Ok c => c | Panic _ => Eq end.
Definition eq_t (a b : fv) : bool := match fv_eq a b with Ok c => c | Panic _ => false end.

(* numeric view of integer values *)
Definition int_val (v : fv) : option Z :=
  match v with I64 z | U64 z => Some z | _ => None end.
