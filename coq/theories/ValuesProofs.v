(* ValuesProofs.v — order and equality laws of the FieldValue model (C08). *)
From Coq Require Import Lia.
From TF Require Import Values.
Open Scope Z_scope.

(* ---------- nested induction principle ---------- *)
Section FvInd.
  Variable P : fv -> Prop.
  Hypothesis HNull : P Null.
  Hypothesis HI : forall z, P (I64 z).
  Hypothesis HU : forall z, P (U64 z).
  Hypothesis HF : forall b, P (F64 b).
  Hypothesis HS : forall s, P (Str s).
  Hypothesis HB : forall b, P (Boolv b).
  Hypothesis HE : forall s, P (Enum s).
  Hypothesis HL : forall l, Forall P l -> P (List l).
  Fixpoint fv_ind' (v : fv) : P v :=
    match v with
    | Null => HNull | I64 z => HI z | U64 z => HU z | F64 b => HF b | Str s => HS s
    | Boolv b => HB b | Enum s => HE s
    | List l => HL l ((fix go (l : list fv) : Forall P l :=
                        match l with [] => Forall_nil _ | x :: xs => Forall_cons _ (fv_ind' x) (go xs) end) l)
    end.
End FvInd.

(* ---------- panic-free total versions ---------- *)
Section LexT.
  Variable A : Type.
  Variable c : A -> A -> comparison.
  Fixpoint lexT (l r : list A) : comparison :=
    match l, r with
    | [], [] => Eq
    | [], _ :: _ => Lt
    | _ :: _, [] => Gt
    | x :: l', y :: r' => match c x y with Eq => lexT l' r' | o => o end
    end.
End LexT.
Arguments lexT {A} c l r.

Fixpoint cmpT (a b : fv) {struct a} : comparison :=
  match a, b with
  | I64 l, U64 r => compare_i64_to_u64 l r
  | U64 l, I64 r => rev_cmp (compare_i64_to_u64 r l)
  | U64 l, U64 r => Z.compare l r
  | I64 l, I64 r => Z.compare l r
  | F64 l, F64 r => Z.compare (f64_key l) (f64_key r)
  | Str l, Str r => String.compare l r
  | Boolv l, Boolv r => bool_cmp l r
  | List l, List r =>
      (fix go (l r : list fv) {struct l} : comparison :=
         match l, r with
         | [], [] => Eq
         | [], _ :: _ => Lt
         | _ :: _, [] => Gt
         | x :: l', y :: r' => match cmpT x y with Eq => go l' r' | o => o end
         end) l r
  | Enum l, Enum r => String.compare l r
  | _, _ => Z.compare (discriminant a) (discriminant b)
  end.

Lemma cmpT_list l r : cmpT (List l) (List r) = lexT cmpT l r.
Proof. reflexivity. Qed.

Definition eqT (a b : fv) : bool := match cmpT a b with Eq => true | _ => false end.

(* ---------- a comparator is an "order comparator" ---------- *)
Definition c_refl {A} (c : A -> A -> comparison) x := c x x = Eq.
Definition c_anti {A} (c : A -> A -> comparison) x := forall y, c y x = CompOpp (c x y).
Definition c_trans {A} (c : A -> A -> comparison) x :=
  forall y z, c x y = Lt -> c y z = Lt -> c x z = Lt.
Definition c_eql {A} (c : A -> A -> comparison) x := forall y z, c x y = Eq -> c x z = c y z.
Definition c_eqr {A} (c : A -> A -> comparison) x := forall y z, c y z = Eq -> c x y = c x z.
Definition c_good {A} (c : A -> A -> comparison) x :=
  c_refl c x /\ c_anti c x /\ c_trans c x /\ c_eql c x /\ c_eqr c x.

Lemma lex_good {A} (c : A -> A -> comparison) (l : list A) :
  Forall (c_good c) l -> c_good (lexT c) l.
Proof.
  induction 1 as [|x l (Hr & Ha & Ht & Hel & Her) _ (IHr & IHa & IHt & IHel & IHer)].
  - repeat split.
    + intros [|y r]; reflexivity.
    + intros [|y r] [|z s]; cbn; congruence.
    + intros [|y r] [|z s]; cbn; try congruence; try (destruct (c y z); congruence).
    + intros [|y r] [|z s]; cbn; try congruence; try (destruct (c y z); congruence).
  - repeat split.
    + unfold c_refl in *. cbn. rewrite Hr. exact IHr.
    + intros [|y r]; cbn; [reflexivity|]. rewrite (Ha y).
      destruct (c x y); cbn; try reflexivity. apply IHa.
    + intros [|y r] [|z s]; cbn; try congruence.
      destruct (c x y) eqn:E1.
      * rewrite (Hel y z E1). destruct (c y z) eqn:E2; try congruence. apply IHt.
      * intros _. destruct (c y z) eqn:E2; try congruence.
        -- rewrite <- (Her y z E2), E1. auto.
        -- rewrite (Ht y z E1 E2). auto.
      * congruence.
    + intros [|y r] [|z s]; cbn; try congruence; try (destruct (c x y); congruence).
      destruct (c x y) eqn:E1; try congruence.
      rewrite (Hel y z E1). intros H. destruct (c y z); try reflexivity. now apply IHel.
    + intros [|y r] [|z s]; cbn; try congruence; try (destruct (c y z); congruence).
      destruct (c y z) eqn:E2; try congruence.
      rewrite (Her y z E2). intros H. destruct (c x z); try reflexivity. now apply IHer.
Qed.

(* ---------- base comparators are good ---------- *)
Lemma Zcmp_good x : c_good Z.compare x.
Proof.
  repeat split.
  - apply Z.compare_refl.
  - intros y. apply Z.compare_antisym.
  - intros y z H1 H2. rewrite Z.compare_lt_iff in *. lia.
  - intros y z H. apply Z.compare_eq in H. now subst.
  - intros y z H. apply Z.compare_eq in H. now subst.
Qed.

Lemma Ncmp_good x : c_good N.compare x.
Proof.
  repeat split.
  - apply N.compare_refl.
  - intros y. apply N.compare_antisym.
  - intros y z H1 H2. rewrite N.compare_lt_iff in *. lia.
  - intros y z H. apply N.compare_eq in H. now subst.
  - intros y z H. apply N.compare_eq in H. now subst.
Qed.

Lemma good_via {A B} (f : A -> B) (c : B -> B -> comparison) x :
  c_good c (f x) -> c_good (fun a b => c (f a) (f b)) x.
Proof.
  intros (Hr & Ha & Ht & Hel & Her). repeat split.
  - exact Hr.
  - intros y. apply Ha.
  - intros y z. apply Ht.
  - intros y z. apply Hel.
  - intros y z. apply Her.
Qed.

Lemma string_cmp_lex s t :
  String.compare s t = lexT Ascii.compare (list_ascii_of_string s) (list_ascii_of_string t).
Proof. revert t; induction s as [|a s IH]; destruct t as [|b t]; cbn; try reflexivity.
  rewrite IH. reflexivity. Qed.

Lemma ascii_good a : c_good Ascii.compare a.
Proof. unfold Ascii.compare. apply (good_via N_of_ascii N.compare). apply Ncmp_good. Qed.

Lemma good_ext {A} (c c' : A -> A -> comparison) x :
  (forall a b, c a b = c' a b) -> c_good c' x -> c_good c x.
Proof.
  intros E (Hr & Ha & Ht & Hel & Her).
  split; [|split; [|split; [|split]]].
  - unfold c_refl. rewrite E. exact Hr.
  - intros y. rewrite !E. apply Ha.
  - intros y z. rewrite !E. apply Ht.
  - intros y z. rewrite !E. apply Hel.
  - intros y z. rewrite !E. apply Her.
Qed.

Lemma string_good s : c_good String.compare s.
Proof.
  apply (good_ext _ (fun a b => lexT Ascii.compare (list_ascii_of_string a) (list_ascii_of_string b))).
  - apply string_cmp_lex.
  - apply (good_via list_ascii_of_string (lexT Ascii.compare)). apply lex_good.
    apply Forall_forall. intros a _. apply ascii_good.
Qed.

Lemma bool_good b : c_good bool_cmp b.
Proof. destruct b; repeat split; try (intros [|]); try (intros [|]); cbn; easy. Qed.

(* compare_i64_to_u64 is numeric comparison, for all arguments *)
Lemma compare_i64_to_u64_Z l r : compare_i64_to_u64 l r = Z.compare l r.
Proof.
  unfold compare_i64_to_u64, i64_max.
  destruct (r <=? 2 ^ 63 - 1) eqn:E1; [reflexivity|].
  destruct (0 <=? l) eqn:E2; [reflexivity|].
  symmetry. apply Z.compare_lt_iff. apply Z.leb_gt in E1, E2. lia.
Qed.

(* ---------- classes ---------- *)
Definition cls (v : fv) : Z :=
  match v with
  | Null => 0 | I64 _ | U64 _ => 1 | F64 _ => 3 | Str _ => 4 | Boolv _ => 5 | Enum _ => 6 | List _ => 7
  end.

Definition ival (v : fv) : Z := match v with I64 z | U64 z => z | _ => 0 end.

Lemma cmpT_cross a b : cls a <> cls b -> cmpT a b = Z.compare (cls a) (cls b).
Proof. destruct a, b; cbn; intros H; try reflexivity; try (exfalso; apply H; reflexivity). Qed.

Lemma cmpT_int a b : cls a = 1 -> cls b = 1 -> cmpT a b = Z.compare (ival a) (ival b).
Proof.
  destruct a, b; cbn; try discriminate; intros _ _; try reflexivity.
  - apply compare_i64_to_u64_Z.
  - rewrite compare_i64_to_u64_Z. unfold rev_cmp. symmetry. apply Z.compare_antisym.
Qed.

(* A uniform description: every value is compared first by class, then inside the class. *)
Definition inclass (a b : fv) : comparison :=
  match a, b with
  | F64 l, F64 r => Z.compare (f64_key l) (f64_key r)
  | Str l, Str r | Enum l, Enum r => String.compare l r
  | Boolv l, Boolv r => bool_cmp l r
  | List l, List r => lexT cmpT l r
  | Null, Null => Eq
  | _, _ => Z.compare (ival a) (ival b)
  end.

Lemma cmpT_same a b : cls a = cls b -> cmpT a b = inclass a b.
Proof.
  intros H. destruct a, b; try discriminate H; try reflexivity;
    try (apply cmpT_int; reflexivity).
Qed.

Lemma cmpT_split a b :
  cmpT a b = if Z.eqb (cls a) (cls b) then inclass a b else Z.compare (cls a) (cls b).
Proof.
  destruct (Z.eqb_spec (cls a) (cls b)) as [E|E]; [now apply cmpT_same | now apply cmpT_cross].
Qed.

Lemma cls_range a : 0 <= cls a <= 7.
Proof. destruct a; cbn; lia. Qed.

(* goodness of cmpT, by nested induction *)
Lemma inclass_good_nonlist a : (forall l, a <> List l) ->
  c_refl inclass a /\
  (forall y, cls y = cls a -> inclass y a = CompOpp (inclass a y)) /\
  (forall y z, cls y = cls a -> cls z = cls a -> inclass a y = Lt -> inclass y z = Lt -> inclass a z = Lt) /\
  (forall y z, cls y = cls a -> cls z = cls a -> inclass a y = Eq -> inclass a z = inclass y z) /\
  (forall y z, cls y = cls a -> cls z = cls a -> inclass y z = Eq -> inclass a y = inclass a z).
Proof.
  intros NL.
  destruct a; try (exfalso; eapply NL; reflexivity).
  - (* Null *) repeat split; intros; destruct y; try discriminate; try destruct z; try discriminate; auto.
  - (* I64 *) destruct (Zcmp_good z) as (Hr & Ha & Ht & Hel & Her). repeat split.
    + exact (Hr).
    + intros y Hy; destruct y; try discriminate; cbn; apply Ha.
    + intros y z0 Hy Hz; destruct y; try discriminate; destruct z0; try discriminate; cbn; apply Ht.
    + intros y z0 Hy Hz; destruct y; try discriminate; destruct z0; try discriminate; cbn; apply Hel.
    + intros y z0 Hy Hz; destruct y; try discriminate; destruct z0; try discriminate; cbn; apply Her.
  - (* U64 *) destruct (Zcmp_good z) as (Hr & Ha & Ht & Hel & Her). repeat split.
    + exact (Hr).
    + intros y Hy; destruct y; try discriminate; cbn; apply Ha.
    + intros y z0 Hy Hz; destruct y; try discriminate; destruct z0; try discriminate; cbn; apply Ht.
    + intros y z0 Hy Hz; destruct y; try discriminate; destruct z0; try discriminate; cbn; apply Hel.
    + intros y z0 Hy Hz; destruct y; try discriminate; destruct z0; try discriminate; cbn; apply Her.
  - (* F64 *) destruct (Zcmp_good (f64_key bits)) as (Hr & Ha & Ht & Hel & Her). repeat split.
    + exact Hr.
    + intros y Hy; destruct y; try discriminate; cbn; apply Ha.
    + intros y z0 Hy Hz; destruct y; try discriminate; destruct z0; try discriminate; cbn; apply Ht.
    + intros y z0 Hy Hz; destruct y; try discriminate; destruct z0; try discriminate; cbn; apply Hel.
    + intros y z0 Hy Hz; destruct y; try discriminate; destruct z0; try discriminate; cbn; apply Her.
  - (* Str *) destruct (string_good s) as (Hr & Ha & Ht & Hel & Her). repeat split.
    + exact Hr.
    + intros y Hy; destruct y; try discriminate; cbn; apply Ha.
    + intros y z0 Hy Hz; destruct y; try discriminate; destruct z0; try discriminate; cbn; apply Ht.
    + intros y z0 Hy Hz; destruct y; try discriminate; destruct z0; try discriminate; cbn; apply Hel.
    + intros y z0 Hy Hz; destruct y; try discriminate; destruct z0; try discriminate; cbn; apply Her.
  - (* Bool *) destruct (bool_good b) as (Hr & Ha & Ht & Hel & Her). repeat split.
    + exact Hr.
    + intros y Hy; destruct y; try discriminate; cbn; apply Ha.
    + intros y z0 Hy Hz; destruct y; try discriminate; destruct z0; try discriminate; cbn; apply Ht.
    + intros y z0 Hy Hz; destruct y; try discriminate; destruct z0; try discriminate; cbn; apply Hel.
    + intros y z0 Hy Hz; destruct y; try discriminate; destruct z0; try discriminate; cbn; apply Her.
  - (* Enum *) destruct (string_good s) as (Hr & Ha & Ht & Hel & Her). repeat split.
    + exact Hr.
    + intros y Hy; destruct y; try discriminate; cbn; apply Ha.
    + intros y z0 Hy Hz; destruct y; try discriminate; destruct z0; try discriminate; cbn; apply Ht.
    + intros y z0 Hy Hz; destruct y; try discriminate; destruct z0; try discriminate; cbn; apply Hel.
    + intros y z0 Hy Hz; destruct y; try discriminate; destruct z0; try discriminate; cbn; apply Her.
Qed.

Lemma inclass_good_list l : Forall (c_good cmpT) l ->
  c_refl inclass (List l) /\
  (forall y, cls y = 7 -> inclass y (List l) = CompOpp (inclass (List l) y)) /\
  (forall y z, cls y = 7 -> cls z = 7 -> inclass (List l) y = Lt -> inclass y z = Lt -> inclass (List l) z = Lt) /\
  (forall y z, cls y = 7 -> cls z = 7 -> inclass (List l) y = Eq -> inclass (List l) z = inclass y z) /\
  (forall y z, cls y = 7 -> cls z = 7 -> inclass y z = Eq -> inclass (List l) y = inclass (List l) z).
Proof.
  intros H. destruct (lex_good cmpT l H) as (Hr & Ha & Ht & Hel & Her). repeat split.
  - exact Hr.
  - intros y Hy; destruct y; try discriminate; cbn; apply Ha.
  - intros y z0 Hy Hz; destruct y; try discriminate; destruct z0; try discriminate; cbn; apply Ht.
  - intros y z0 Hy Hz; destruct y; try discriminate; destruct z0; try discriminate; cbn; apply Hel.
  - intros y z0 Hy Hz; destruct y; try discriminate; destruct z0; try discriminate; cbn; apply Her.
Qed.

Lemma good_from_inclass a :
  c_refl inclass a ->
  (forall y, cls y = cls a -> inclass y a = CompOpp (inclass a y)) ->
  (forall y z, cls y = cls a -> cls z = cls a -> inclass a y = Lt -> inclass y z = Lt -> inclass a z = Lt) ->
  (forall y z, cls y = cls a -> cls z = cls a -> inclass a y = Eq -> inclass a z = inclass y z) ->
  (forall y z, cls y = cls a -> cls z = cls a -> inclass y z = Eq -> inclass a y = inclass a z) ->
  c_good cmpT a.
Proof.
  intros Hr Ha Ht Hel Her. repeat split.
  - unfold c_refl. rewrite cmpT_split, Z.eqb_refl. exact Hr.
  - intros y. rewrite !cmpT_split. rewrite (Z.eqb_sym (cls y) (cls a)).
    destruct (Z.eqb_spec (cls a) (cls y)) as [E|E].
    + apply Ha. now symmetry.
    + apply Z.compare_antisym.
  - intros y z. rewrite !cmpT_split.
    destruct (Z.eqb_spec (cls a) (cls y)) as [E1|E1];
    destruct (Z.eqb_spec (cls y) (cls z)) as [E2|E2];
    destruct (Z.eqb_spec (cls a) (cls z)) as [E3|E3]; try congruence.
    + apply Ht; congruence.
    + intros H1 H2. rewrite Z.compare_lt_iff in H1, H2. lia.
    + intros H1 H2. rewrite Z.compare_lt_iff in *. lia.
  - intros y z. rewrite !cmpT_split.
    destruct (Z.eqb_spec (cls a) (cls y)) as [E1|E1].
    2:{ intros H. apply Z.compare_eq in H. contradiction. }
    rewrite <- E1.
    destruct (Z.eqb_spec (cls a) (cls z)) as [E3|E3]; [|reflexivity].
    intros H. apply Hel; congruence.
  - intros y z. rewrite !cmpT_split.
    destruct (Z.eqb_spec (cls y) (cls z)) as [E2|E2].
    2:{ intros H. apply Z.compare_eq in H. contradiction. }
    rewrite <- E2.
    destruct (Z.eqb_spec (cls a) (cls y)) as [E1|E1]; [|reflexivity].
    intros H. apply Her; congruence.
Qed.

Theorem cmpT_good : forall a, c_good cmpT a.
Proof.
  induction a using fv_ind'.
  1-7: (match goal with |- c_good cmpT ?v =>
         destruct (inclass_good_nonlist v) as (Hr & Ha & Ht & Hel & Her);
         [intros ? ?; discriminate | apply good_from_inclass; assumption] end).
  destruct (inclass_good_list l H) as (Hr & Ha & Ht & Hel & Her).
  apply good_from_inclass; assumption.
Qed.

(* ---------- the laws, stated directly ---------- *)
Lemma cmpT_refl a : cmpT a a = Eq.
Proof. apply cmpT_good. Qed.
Lemma cmpT_antisym a b : cmpT b a = CompOpp (cmpT a b).
Proof. apply cmpT_good. Qed.
Lemma cmpT_trans a b c : cmpT a b = Lt -> cmpT b c = Lt -> cmpT a c = Lt.
Proof. apply cmpT_good. Qed.
Lemma cmpT_eq_l a b c : cmpT a b = Eq -> cmpT a c = cmpT b c.
Proof. apply cmpT_good. Qed.
Lemma cmpT_eq_r a b c : cmpT b c = Eq -> cmpT a b = cmpT a c.
Proof. apply cmpT_good. Qed.
Lemma cmpT_total a b : cmpT a b = Lt \/ cmpT a b = Eq \/ cmpT b a = Lt.
Proof. rewrite (cmpT_antisym a b). destruct (cmpT a b); cbn; auto. Qed.

Lemma eqT_refl a : eqT a a = true.
Proof. unfold eqT. now rewrite cmpT_refl. Qed.
Lemma eqT_sym a b : eqT a b = eqT b a.
Proof. unfold eqT. rewrite (cmpT_antisym a b). destruct (cmpT a b); reflexivity. Qed.
Lemma eqT_trans a b c : eqT a b = true -> eqT b c = true -> eqT a c = true.
Proof.
  unfold eqT. destruct (cmpT a b) eqn:E1; try discriminate. intros _.
  rewrite (cmpT_eq_l a b c E1). auto.
Qed.
Lemma eqT_int_mixed z : eqT (I64 z) (U64 z) = true /\ eqT (U64 z) (I64 z) = true.
Proof. unfold eqT. rewrite !cmpT_int by reflexivity. cbn. now rewrite Z.compare_refl. Qed.
Lemma cmpT_ints a b x y : int_val a = Some x -> int_val b = Some y -> cmpT a b = Z.compare x y.
Proof.
  intros Ha Hb. rewrite cmpT_int.
  - destruct a; try discriminate; destruct b; try discriminate; cbn in *; congruence.
  - destruct a; try discriminate; reflexivity.
  - destruct b; try discriminate; reflexivity.
Qed.

(* ---------- the transcribed functions agree with the total versions on well-formed values ---------- *)
Lemma fv_cmp_ok : forall a b, wf a = true -> wf b = true -> fv_cmp a b = Ok (cmpT a b).
Proof.
  induction a using fv_ind'; intros b' Wa Wb; destruct b'; try reflexivity.
  - cbn in *. unfold finite_guard. now rewrite Wa, Wb.
  - cbn [wf] in Wa, Wb. revert l0 Wb. induction H as [|x l Hx Hl IH]; intros [|y r] Wb; try reflexivity.
    cbn in Wa, Wb. apply andb_prop in Wa, Wb. destruct Wa as [Wx Wl], Wb as [Wy Wr].
    specialize (IH Wl r Wr). cbn. cbn in IH. rewrite (Hx y Wx Wy). cbn.
    destruct (cmpT x y); try reflexivity. exact IH.
Qed.

Lemma eq_list_aux (l r : list fv) :
  Forall (fun x => forall y, wf x = true -> wf y = true -> fv_eq x y = Ok (eqT x y)) l ->
  forallb wf l = true -> forallb wf r = true -> List.length l = List.length r ->
  (fix go (l r : list fv) {struct l} : res bool :=
         match l, r with
         | [], [] => Ok true
         | x :: l', y :: r' =>
             do e <- fv_eq x y;
             if e then go l' r' else Ok false
         | _, _ => Ok false
         end) l r = Ok (match lexT cmpT l r with Eq => true | _ => false end).
Proof.
  intros H. revert r. induction H as [|x l Hx Hl IH]; intros [|y r] Wl Wr Len; try discriminate; try reflexivity.
  cbn in Wl, Wr. apply andb_prop in Wl, Wr. destruct Wl as [Wx Wl], Wr as [Wy Wr].
  cbn in Len. injection Len as Len. rewrite (Hx y Wx Wy). cbn. unfold eqT.
  destruct (cmpT x y); try reflexivity. now apply IH.
Qed.

Lemma lexT_len_neq (l r : list fv) : List.length l <> List.length r -> lexT cmpT l r <> Eq.
Proof.
  revert r; induction l as [|x l IH]; destruct r as [|y r]; cbn; try congruence.
  intros Hl. destruct (cmpT x y); try congruence. apply IH. congruence.
Qed.

Lemma fv_eq_ok : forall a b, wf a = true -> wf b = true -> fv_eq a b = Ok (eqT a b).
Proof.
  induction a using fv_ind'; intros b' Wa Wb; destruct b'; try reflexivity; unfold eqT; cbn [fv_eq cmpT].
  - now rewrite Z.eqb_compare.
  - unfold rev_cmp. destruct (compare_i64_to_u64 z0 z); reflexivity.
  - now rewrite Z.eqb_compare.
  - cbn in *. unfold finite_guard. rewrite Wa, Wb. now rewrite Z.eqb_compare.
  - destruct (String.eqb_spec s s0) as [->|N].
    + destruct (string_good s0) as (Hr & _). now rewrite Hr.
    + destruct (String.compare s s0) eqn:E; try reflexivity.
      apply String.compare_eq_iff in E. contradiction.
  - destruct b, b0; reflexivity.
  - destruct (String.eqb_spec s s0) as [->|N].
    + destruct (string_good s0) as (Hr & _). now rewrite Hr.
    + destruct (String.compare s s0) eqn:E; try reflexivity.
      apply String.compare_eq_iff in E. contradiction.
  - match goal with |- _ = Ok (match ?t with Eq => _ | _ => _ end) => change t with (lexT cmpT l l0) end.
    destruct (Nat.eqb_spec (List.length l) (List.length l0)) as [E|E]; cbn [negb].
    + apply eq_list_aux; auto.
    + pose proof (lexT_len_neq l l0 E). destruct (lexT cmpT l l0); congruence.
Qed.
