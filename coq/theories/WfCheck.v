(* WfCheck.v — executable versions of the side conditions of the whole-query refinement theorem
   (SimFull.interpret_spec), with soundness proofs, so that concrete queries (and every query the
   harness generates) can be checked against them by computation. *)
From TF Require Import ValuesProofs Exec Sem ExecLemmas Sim SimRec SimComp SimOut FoldLimits SimFold FoldOut SimGen.
Local Open Scope string_scope.
Local Open Scope N_scope.
Local Open Scope list_scope.

Section Check.
  Variable args : list (string * fv).

  Definition no_min_limitb (vs : list ir_vertex) (ss : list step) (h : fold_hdr) (sub : ir_component) : bool :=
    match get_min_fold_count_limit args h with
    | Ok (Some _) => negb (min_eligible vs ss h sub)
    | _ => true
    end.

  Lemma no_min_limitb_sound vs ss h sub : no_min_limitb vs ss h sub = true -> no_min_limit args vs ss h sub.
  Proof.
    unfold no_min_limitb, no_min_limit. intros H m Hm. rewrite Hm in H.
    now apply Bool.negb_true_iff in H.
  Qed.

  Definition disjoint_keysb (ts outer : list fieldref) : bool :=
    forallb (fun t => forallb (fun o => negb (fieldref_eqb t o)) outer) ts.

  Lemma disjoint_keysb_sound ts outer : disjoint_keysb ts outer = true -> disjoint_keys ts outer.
  Proof.
    unfold disjoint_keysb, disjoint_keys. intros H t o Ht Ho. rewrite forallb_forall in H.
    specialize (H t Ht). rewrite forallb_forall in H. specialize (H o Ho). now apply Bool.negb_true_iff in H.
  Qed.

  Fixpoint wf_compb (outer : list fieldref) (c : ir_component) {struct c} : bool :=
    match c with
    | mkComp _ vs ss _ =>
        (fix go (todo : list step) : bool :=
           match todo with
           | [] => true
           | SEdge e :: r => edge_ok e && go r
           | SFold h sub :: r =>
               no_min_limitb vs ss h sub && disjoint_keysb (fo_imported h) outer &&
               wf_compb (outer ++ fo_imported h) sub && go r
           end) ss
    end.

  Lemma wf_compb_sound : forall c outer, wf_compb outer c = true -> wf_comp args outer c.
  Proof.
    induction c as [root vs ss outs IH] using comp_ind'. intros outer H. cbn [wf_compb wf_comp] in *.
    assert (G : forall todo,
               Forall (Psub (fun sub => forall outer, wf_compb outer sub = true -> wf_comp args outer sub)) todo ->
               (fix go (todo : list step) : bool :=
                  match todo with
                  | [] => true
                  | SEdge e :: r => edge_ok e && go r
                  | SFold h sub :: r =>
                      no_min_limitb vs ss h sub && disjoint_keysb (fo_imported h) outer &&
                      wf_compb (outer ++ fo_imported h) sub && go r
                  end) todo = true ->
               (fix go (todo : list step) : Prop :=
                  match todo with
                  | [] => True
                  | SEdge e :: r => edge_ok e = true /\ go r
                  | SFold h sub :: r =>
                      (no_min_limit args vs ss h sub /\ disjoint_keys (fo_imported h) outer /\
                       wf_comp args (outer ++ fo_imported h) sub) /\ go r
                  end) todo).
    { intros todo HF. induction HF as [|[e|h sub] r Hs _ IHr]; intros Hb; [exact I| |].
      - apply andb_prop in Hb. destruct Hb as (H1 & H2). split; [assumption|apply IHr; assumption].
      - apply andb_prop in Hb. destruct Hb as (Hb & H4). apply andb_prop in Hb. destruct Hb as (Hb & H3).
        apply andb_prop in Hb. destruct Hb as (H1 & H2). cbn [Psub] in Hs.
        split; [|apply IHr; assumption]. split; [now apply no_min_limitb_sound|].
        split; [now apply disjoint_keysb_sound|apply Hs; assumption]. }
    apply G; assumption.
  Qed.
End Check.

(* ---------- duplicate-freeness by computation ---------- *)
Fixpoint nodupb {A} (eqb : A -> A -> bool) (l : list A) : bool :=
  match l with
  | [] => true
  | x :: r => negb (existsb (eqb x) r) && nodupb eqb r
  end.

Lemma nodupb_sound {A} (eqb : A -> A -> bool) (l : list A) :
  (forall x y, x = y -> eqb x y = true) -> nodupb eqb l = true -> NoDup l.
Proof.
  intros Hrefl. induction l as [|x r IH]; cbn [nodupb]; intros H; [constructor|].
  apply andb_prop in H. destruct H as (H1 & H2). constructor; [|auto].
  intros Hin. apply Bool.negb_true_iff in H1. rewrite <- Bool.not_true_iff_false in H1. apply H1.
  apply existsb_exists. exists x. split; [assumption|now apply Hrefl].
Qed.

Fixpoint wf_outb (c : ir_component) {struct c} : bool :=
  match c with
  | mkComp _ _ ss _ =>
      nodupb fv_key_eqb (steps_keys ss) && nodupb N.eqb (steps_eids ss) &&
      (fix go (ss : list step) : bool :=
         match ss with
         | [] => true
         | SEdge _ :: r => go r
         | SFold _ sub :: r => wf_outb sub && go r
         end) ss
  end.

Lemma wf_outb_sound : forall c, wf_outb c = true -> wf_out c.
Proof.
  induction c as [root vs ss outs IH] using comp_ind'. intros H. cbn [wf_outb wf_out] in *.
  apply andb_prop in H. destruct H as (H & H3). apply andb_prop in H. destruct H as (H1 & H2).
  split; [|split].
  - apply (nodupb_sound fv_key_eqb); [intros x y ->; apply fv_key_eqb_refl|assumption].
  - apply (nodupb_sound N.eqb); [intros x y ->; apply N.eqb_refl|assumption].
  - clear H1 H2. induction IH as [|[e|h sub] r Hs _ IHr]; [exact I|apply IHr; exact H3|].
    apply andb_prop in H3. destruct H3 as (Ha & Hb). cbn [Psub] in Hs. split; [apply Hs; exact Ha|apply IHr; exact Hb].
Qed.

Definition names_nodupb (c : ir_component) : bool := nodupb String.eqb (all_output_names c).

Lemma names_nodupb_sound c : names_nodupb c = true -> NoDup (all_output_names c).
Proof. apply nodupb_sound. intros x y ->. apply String.eqb_refl. Qed.

(* all hypotheses of SimFull.interpret_spec about the query, as one computable test *)
Definition spec_hyps (args : list (string * fv)) (q : ir_query) : bool :=
  wf_compb args [] (q_comp q) && wf_outb (q_comp q) && names_nodupb (q_comp q).

Lemma spec_hyps_sound args q : spec_hyps args q = true ->
  wf_comp args [] (q_comp q) /\ wf_out (q_comp q) /\ NoDup (all_output_names (q_comp q)).
Proof.
  unfold spec_hyps. intros H. apply andb_prop in H. destruct H as (H & H3). apply andb_prop in H. destruct H as (H1 & H2).
  split; [now apply wf_compb_sound|]. split; [now apply wf_outb_sound|now apply names_nodupb_sound].
Qed.
