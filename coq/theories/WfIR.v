(* WfIR.v — the structural invariants of a compiled query (property C11) as an executable
   validator `wf_ir : raw_query -> bool` over the Rust-shaped IR.  Definitions only.

   Every clause is one of the invariants listed in the comment at the top of
   `IndexedQuery::try_from` (ir/indexed.rs, "TODO: most of the above"), in the statement of C11, or in
   DESIGN.md Appendix A.4 (#1-#8); what the frontend's numbering (frontend/mod.rs: vid_maker /
   eid_maker handed out in one depth-first pass) and tag handling (frontend/tags.rs) establish. *)
From TF Require Export Indexed.
From TF Require Import Values Graph SimComp.
Local Open Scope string_scope.
Local Open Scope N_scope.
Local Open Scope list_scope.

(* ---------- flattening a query, in the order the indexer visits it ---------- *)
Fixpoint all_vids (c : raw_comp) : list N :=
  match c with
  | RComp _ vs _ fs _ =>
      map v_vid vs ++ flat_map (fun f => match f with RFold _ sub => all_vids sub end) fs
  end.
Fixpoint all_eids (c : raw_comp) : list N :=
  match c with
  | RComp _ _ es fs _ =>
      map e_eid es ++ flat_map (fun f => match f with RFold h sub => fo_eid h :: all_eids sub end) fs
  end.
(* every output name: component outputs, then per fold its count outputs and its contents *)
Fixpoint all_outs (c : raw_comp) : list string :=
  match c with
  | RComp _ _ _ fs outs =>
      map fst outs ++ flat_map (fun f => match f with RFold h sub => fo_fsout h ++ all_outs sub end) fs
  end.

(* ---------- tag uses ---------- *)
Definition arg_tags (a : option argument) : list fieldref :=
  match a with Some (ATag r) => [r] | _ => [] end.
Definition vertex_tags (v : ir_vertex) : list fieldref := flat_map (fun f => arg_tags (vf_arg f)) (v_filters v).
Definition post_tags (h : fold_hdr) : list fieldref := flat_map (fun p => arg_tags (pf_arg p)) (fo_post h).
(* all tag operands of a component subtree: vertex filters, and the post-filters of the folds it
   contains (a fold's post-filters belong to the component the fold starts FROM: the frontend
   resolves them after leaving the fold, make_fold) *)
Fixpoint tags_used (c : raw_comp) : list fieldref :=
  match c with
  | RComp _ vs _ fs _ =>
      flat_map vertex_tags vs ++
      flat_map (fun f => match f with RFold h sub => post_tags h ++ tags_used sub end) fs
  end.

Definition mem_ref (t : fieldref) (l : list fieldref) : bool := existsb (fieldref_eqb t) l.

(* is the tag defined by this component (its vertices `vids`, its folds `feids`)? *)
Definition defined_in (vids feids : list N) (t : fieldref) : bool :=
  match t with
  | FRContext cf => memN (cf_vid cf) vids
  | FRFold ff => memN (ff_eid ff) feids
  end.

(* A tag operand used at `use_vid` (the filtered vertex; for a fold's post-filter: the fold's to_vid,
   which is what the frontend passes to reference_tag) inside the component (vids, feids), whose
   enclosing folds import `avail`:
   - defined by this component: at a vid <= the using vertex (so, vids being handed out in
     processing order, its vertex is already recorded; equality = the filtered vertex itself), resp.
     its fold has a lower eid than the edge leading to the using vertex (the fold is completed);
   - otherwise it must be imported by an enclosing fold (it lives on the ancestor path). *)
Definition tag_ok (vids feids : list N) (avail : list fieldref) (use_vid : N) (t : fieldref) : bool :=
  match t with
  | FRContext cf =>
      if memN (cf_vid cf) vids then N.leb (cf_vid cf) use_vid else mem_ref t avail
  | FRFold ff =>
      N.eqb (ff_root ff) (ff_eid ff + 1) &&
      (if memN (ff_eid ff) feids then N.ltb (ff_eid ff + 1) use_vid else mem_ref t avail)
  end.

(* every VariableRef is recorded in IRQuery.variables with use_type.is_scalar_only_subtype(recorded) *)
Definition var_ok (vars : list (string * ty)) (a : option argument) : bool :=
  match a with
  | Some (AVar x t) => match lookup_str x vars with Some t0 => ty_sub t t0 | None => false end
  | _ => true
  end.

Definition arg_wf (vars : list (string * ty)) (vids feids : list N) (avail : list fieldref) (use_vid : N)
           (a : option argument) : bool :=
  var_ok vars a && forallb (tag_ok vids feids avail use_vid) (arg_tags a).

Definition vertex_wf vars vids feids avail (v : ir_vertex) : bool :=
  forallb (fun f => arg_wf vars vids feids avail (v_vid v) (vf_arg f)) (v_filters v).

(* a non-fold edge: eid i leads to vid i+1, stays inside the component, goes from a lower to a
   higher vid, and a recursive edge has depth >= 1 *)
Definition edge_wf (vids : list N) (e : ir_edge) : bool :=
  N.eqb (e_to e) (e_eid e + 1) && memN (e_from e) vids && memN (e_to e) vids
  && N.ltb (e_from e) (e_to e) && edge_ok e.

(* a fold edge: eid i leads to vid i+1 = the root of the folded component, starts in this component;
   post-filter operands; every imported tag is defined by THIS component, early enough *)
Definition fold_hdr_wf vars vids feids avail (h : fold_hdr) (sub_root : N) : bool :=
  N.eqb (fo_to h) (fo_eid h + 1) && memN (fo_from h) vids && N.ltb (fo_from h) (fo_to h)
  && N.eqb (fo_to h) sub_root
  && forallb (fun p => arg_wf vars vids feids avail (fo_to h) (pf_arg p)) (fo_post h)
  && forallb (tag_ok vids feids [] (fo_to h)) (fo_imported h).

(* imported_tags, as a set, = the tags used inside the fold that this (the parent) component defines *)
Definition imports_exact (vids feids : list N) (h : fold_hdr) (used : list fieldref) : bool :=
  let expected := filter (defined_in vids feids) used in
  forallb (fun t => mem_ref t (fo_imported h)) expected
  && forallb (fun t => mem_ref t expected) (fo_imported h).

(* the eids of a component subtree with root r are exactly r, r+1, .., r+n-1 (with global
   distinctness); in particular a fold's eid (= r-1) is below every eid inside the fold *)
Definition interval_ok (c : raw_comp) : bool :=
  let es := all_eids c in
  forallb (fun e => N.leb (raw_root c) e && N.ltb e (raw_root c + N.of_nat (List.length es))) es.

Fixpoint sortedN (l : list N) : bool :=
  match l with
  | a :: (b :: _) as r => N.ltb a b && sortedN r
  | _ => true
  end.
Fixpoint nodupN (l : list N) : bool :=
  match l with [] => true | a :: r => negb (memN a r) && nodupN r end.
Fixpoint nodup_str (l : list string) : bool :=
  match l with [] => true | a :: r => negb (mem_str a r) && nodup_str r end.

Fixpoint wf_comp (vars : list (string * ty)) (avail : list fieldref) (c : raw_comp) {struct c} : bool :=
  match c with
  | RComp root vs es fs outs =>
      let vids := map v_vid vs in
      let feids := map (fun f => fo_eid (rf_hdr f)) fs in
      (* BTreeMap iteration order of edges / folds *)
      sortedN (map e_eid es) && sortedN feids
      (* the root is a vertex; every other vertex is entered by an edge of this component *)
      && memN root vids
      && forallb (fun v => N.eqb v root || memN v (map e_to es)) vids
      && forallb (edge_wf vids) es
      && forallb (vertex_wf vars vids feids avail) vs
      (* outputs name vertices of their own component *)
      && forallb (fun o => memN (cf_vid (snd o)) vids) outs
      && forallb (fun f => match f with
                           | RFold h sub =>
                               fold_hdr_wf vars vids feids avail h (raw_root sub)
                               && interval_ok sub
                               && imports_exact vids feids h (tags_used sub)
                               && wf_comp vars (fo_imported h ++ avail) sub
                           end) fs
  end.

Definition wf_ir (q : raw_query) : bool :=
  let c := rq_comp q in
  wf_comp (rq_vars q) [] c
  && nodupN (all_vids c) && nodupN (all_eids c) && nodup_str (all_outs c)
  && interval_ok c.

(* ---------- the class on which indexing can still panic (Type::new_list_type) ----------
   an output whose own list depth plus the number of enclosing @fold levels exceeds 30 *)
Fixpoint shallow_comp (d : nat) (c : raw_comp) {struct c} : bool :=
  match c with
  | RComp _ _ _ fs outs =>
      forallb (fun o => wf_ty (cf_ty (snd o)) && Nat.leb (ty_depth (cf_ty (snd o)) + d) 30) outs
      && forallb (fun f => match f with
                           | RFold h sub =>
                               (match fo_fsout h with [] => true | _ => Nat.leb d 30 end)
                               && shallow_comp (S d) sub
                           end) fs
  end.
Definition shallow_outputs (q : raw_query) : bool := shallow_comp O (rq_comp q).

(* fold-free queries (the hypothesis of the engine refinement theorems proved so far) *)
Definition fold_free (q : raw_query) : bool :=
  match raw_folds (rq_comp q) with [] => true | _ => false end.

(* ---------- C13: "the adapter returns schema-conforming values", schema-lite ----------
   the schema as far as output typing needs it: vertex type -> property -> declared type *)
Definition schema_lite := string -> string -> option ty.
(* every property value the data source hands out is valid for the property's declared type *)
Definition conforms (S : schema_lite) (g : graph) : Prop :=
  forall T p t v, S T p = Some t -> ty_valid t (g_prop g T p v) = Ok true.
(* every output's recorded field_type is the (well-formed) declared type of that property on the
   output vertex' type (part of typed_ir; established by the frontend from the schema) *)
Fixpoint outputs_typed (S : schema_lite) (c : raw_comp) {struct c} : Prop :=
  match c with
  | RComp _ vs _ fs outs =>
      (forall n cf, In (n, cf) outs ->
         wf_ty (cf_ty cf) = true /\
         forall vtx, find_vertex vs (cf_vid cf) = Some vtx -> S (v_type vtx) (cf_name cf) = Some (cf_ty cf))
      /\ (fix go (l : list raw_fold) : Prop :=
            match l with
            | [] => True
            | RFold _ sub :: r => outputs_typed S sub /\ go r
            end) fs
  end.

(* rendering for the run-time oracle *)
Definition show_wf (q : raw_query) : string := if wf_ir q then "WF" else "NOT-WF".
