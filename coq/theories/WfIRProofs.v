(* WfIRProofs.v — lemmas behind C11 (wf_ir is sufficient for lowering and indexing; links to the
   engine proofs) and C13 (rows carry exactly the declared outputs, typed as declared). *)
From Coq Require Import Lia Sorted Permutation.
From TF Require Import Values Graph Exec Sem ExecLemmas Sim SimRec SimComp SimOut SimTop TyProofs WfIR.
Local Open Scope string_scope.
Local Open Scope N_scope.
Local Open Scope list_scope.

(* ================================================================== *)
(* 0. reflection of the boolean helpers                                *)
(* ================================================================== *)
Lemma memN_In x l : memN x l = true <-> In x l.
Proof.
  unfold memN. rewrite existsb_exists. split.
  - intros (y & Hy & E). apply N.eqb_eq in E. now subst.
  - intros H. exists x. split; [assumption|apply N.eqb_refl].
Qed.
Lemma memN_false x l : memN x l = false <-> ~ In x l.
Proof. rewrite <- memN_In. destruct (memN x l); split; congruence. Qed.

Lemma mem_str_In x l : mem_str x l = true <-> In x l.
Proof.
  unfold mem_str. rewrite existsb_exists. split.
  - intros (y & Hy & E). apply String.eqb_eq in E. now subst.
  - intros H. exists x. split; [assumption|apply String.eqb_refl].
Qed.

Lemma nodupN_NoDup l : nodupN l = true <-> NoDup l.
Proof.
  induction l as [|a l IH]; cbn [nodupN].
  - split; [constructor|reflexivity].
  - rewrite andb_true_iff, negb_true_iff, memN_false, IH. split.
    + intros (H1 & H2). now constructor.
    + intros H. inversion H; subst. auto.
Qed.
Lemma nodup_str_NoDup l : nodup_str l = true <-> NoDup l.
Proof.
  induction l as [|a l IH]; cbn [nodup_str].
  - split; [constructor|reflexivity].
  - rewrite andb_true_iff, negb_true_iff, IH. split.
    + intros (H1 & H2). constructor; [|assumption]. rewrite <- mem_str_In. congruence.
    + intros H. inversion H as [|? ? Hn Hd]; subst. split; [|assumption].
      destruct (mem_str a l) eqn:E; [|reflexivity]. apply mem_str_In in E. contradiction.
Qed.

Lemma sortedN_strong l : sortedN l = true -> StronglySorted N.lt l.
Proof.
  intros H. apply Sorted_StronglySorted; [intros x y z; apply N.lt_trans|].
  induction l as [|a [|b r] IH]; [constructor|repeat constructor|].
  cbn [sortedN] in H. apply andb_prop in H. destruct H as (H1 & H2).
  constructor; [apply IH; exact H2|]. constructor. now apply N.ltb_lt.
Qed.

Lemma StronglySorted_NoDup l : StronglySorted N.lt l -> NoDup l.
Proof.
  induction 1 as [|a l _ IH HF]; constructor; [|assumption].
  intros Hin. rewrite Forall_forall in HF. specialize (HF _ Hin). lia.
Qed.

Lemma NoDup_app_l {A} (l1 l2 : list A) : NoDup (l1 ++ l2) -> NoDup l1.
Proof. induction l1 as [|a l1 IH]; cbn; [constructor|]. intros H. inversion H; subst. constructor; [|auto]. rewrite in_app_iff in *. tauto. Qed.
Lemma NoDup_app_r {A} (l1 l2 : list A) : NoDup (l1 ++ l2) -> NoDup l2.
Proof. induction l1 as [|a l1 IH]; cbn; [auto|]. intros H. inversion H; auto. Qed.
Lemma NoDup_app_disj {A} (l1 l2 : list A) x : NoDup (l1 ++ l2) -> In x l1 -> In x l2 -> False.
Proof.
  induction l1 as [|a l1 IH]; cbn; [tauto|]. intros H [->|H1] H2; inversion H; subst.
  - apply H3. apply in_or_app. now right.
  - eauto.
Qed.
Lemma NoDup_app_intro {A} (l1 l2 : list A) :
  NoDup l1 -> NoDup l2 -> (forall x, In x l1 -> In x l2 -> False) -> NoDup (l1 ++ l2).
Proof.
  induction l1 as [|a l1 IH]; cbn; [auto|]. intros H1 H2 Hd. inversion H1; subst.
  constructor.
  - rewrite in_app_iff. intros [H|H]; [contradiction|]. eapply Hd; [left; reflexivity|exact H].
  - apply IH; auto. intros x Hx. apply Hd. now right.
Qed.

(* ================================================================== *)
(* 1. induction over components                                        *)
(* ================================================================== *)
Section RawInd.
  Variable P : raw_comp -> Prop.
  Hypothesis Hstep : forall root vs es fs outs,
    Forall (fun f => P (rf_comp f)) fs -> P (RComp root vs es fs outs).
  Fixpoint raw_comp_ind' (c : raw_comp) : P c :=
    match c with
    | RComp root vs es fs outs =>
        Hstep root vs es fs outs
          ((fix go (l : list raw_fold) : Forall (fun f => P (rf_comp f)) l :=
              match l with
              | [] => Forall_nil _
              | f :: r =>
                  Forall_cons f
                    (match f return P (rf_comp f) with RFold h sub => raw_comp_ind' sub end) (go r)
              end) fs)
    end.
End RawInd.

Definition step_P (P : ir_component -> Prop) (s : step) : Prop :=
  match s with SEdge _ => True | SFold _ sub => P sub end.
Section CompInd.
  Variable P : ir_component -> Prop.
  Hypothesis Hstep : forall root vs ss outs, Forall (step_P P) ss -> P (mkComp root vs ss outs).
  Fixpoint ir_component_ind' (c : ir_component) : P c :=
    match c with
    | mkComp root vs ss outs =>
        Hstep root vs ss outs
          ((fix go (l : list step) : Forall (step_P P) l :=
              match l with
              | [] => Forall_nil _
              | s :: r =>
                  Forall_cons s
                    (match s as s0 return step_P P s0 with
                     | SEdge _ => I
                     | SFold _ sub => ir_component_ind' sub
                     end) (go r)
              end) ss)
    end.
End CompInd.

(* sub-lists of the flattenings *)
Lemma all_eids_fold_incl root vs es fs outs h sub :
  In (RFold h sub) fs -> incl (fo_eid h :: all_eids sub) (all_eids (RComp root vs es fs outs)).
Proof.
  intros Hin x Hx. cbn [all_eids]. apply in_or_app. right. apply in_flat_map.
  exists (RFold h sub). split; [assumption|exact Hx].
Qed.

Lemma NoDup_flat_map_in {A B} (f : A -> list B) l x : NoDup (flat_map f l) -> In x l -> NoDup (f x).
Proof.
  induction l as [|a l IH]; cbn [flat_map]; [intros _ []|].
  intros Hn [->|Hin]; [eapply NoDup_app_l; exact Hn|]. apply IH; [eapply NoDup_app_r; exact Hn|exact Hin].
Qed.

Lemma all_eids_fold_nodup root vs es fs outs h sub :
  NoDup (all_eids (RComp root vs es fs outs)) -> In (RFold h sub) fs -> NoDup (fo_eid h :: all_eids sub).
Proof.
  cbn [all_eids]. intros Hn Hin. apply NoDup_app_r in Hn.
  exact (NoDup_flat_map_in _ _ _ Hn Hin).
Qed.

(* ================================================================== *)
(* 2. the merge loop                                                   *)
(* ================================================================== *)
Fixpoint steps_edges (ss : list step) : list ir_edge :=
  match ss with [] => [] | SEdge e :: r => e :: steps_edges r | SFold _ _ :: r => steps_edges r end.
Fixpoint steps_folds (ss : list step) : list (fold_hdr * ir_component) :=
  match ss with [] => [] | SEdge _ :: r => steps_folds r | SFold h c :: r => (h, c) :: steps_folds r end.

Lemma steps_edges_map es : steps_edges (map SEdge es) = es.
Proof. induction es as [|e r IH]; cbn; [reflexivity|now rewrite IH]. Qed.
Lemma steps_folds_map_edges es : steps_folds (map SEdge es) = [].
Proof. induction es as [|e r IH]; cbn; auto. Qed.
Lemma steps_edges_map_folds fs : steps_edges (map (fun hc : fold_hdr * ir_component => SFold (fst hc) (snd hc)) fs) = [].
Proof. induction fs as [|[h c] r IH]; cbn; auto. Qed.
Lemma steps_folds_map fs : steps_folds (map (fun hc : fold_hdr * ir_component => SFold (fst hc) (snd hc)) fs) = fs.
Proof. induction fs as [|[h c] r IH]; cbn; [reflexivity|now rewrite IH]. Qed.

Lemma in_steps ss s :
  In s ss <-> match s with SEdge e => In e (steps_edges ss) | SFold h c => In (h, c) (steps_folds ss) end.
Proof.
  induction ss as [|[e'|h' c'] r IH]; cbn [In steps_edges steps_folds].
  - destruct s; tauto.
  - rewrite IH. destruct s as [e|h c]; cbn [In]; [|split; [intros [H|H]; [discriminate|exact H]|tauto]].
    split; [intros [[= ->]|H]; auto|intros [->|H]; auto].
  - rewrite IH. destruct s as [e|h c]; cbn [In]; [split; [intros [H|H]; [discriminate|exact H]|tauto]|].
    split; [intros [[= -> ->]|H]; auto|intros [[= -> ->]|H]; auto].
Qed.

Lemma merge_steps_nil fs : merge_steps [] fs = Ok (map (fun hc => SFold (fst hc) (snd hc)) fs).
Proof. reflexivity. Qed.
Lemma merge_steps_cons e es' fs :
  merge_steps (e :: es') fs =
  match fs with
  | [] => Ok (SEdge e :: map SEdge es')
  | (h, c) :: fs' =>
      match N.compare (fo_eid h) (e_eid e) with
      | Gt => do r <- merge_steps es' fs; Ok (SEdge e :: r)
      | Lt => do r <- merge_steps (e :: es') fs'; Ok (SFold h c :: r)
      | Eq => Panic "execution.rs:compute_component unreachable (fold.eid == edge.eid)"
      end
  end.
Proof. destruct fs as [|[h c] fs']; reflexivity. Qed.

Definition fold_eids (fs : list (fold_hdr * ir_component)) : list N := map (fun hc => fo_eid (fst hc)) fs.

Lemma merge_steps_ok es : forall fs,
  StronglySorted N.lt (map e_eid es) -> StronglySorted N.lt (fold_eids fs) ->
  (forall x, In x (map e_eid es) -> In x (fold_eids fs) -> False) ->
  exists ss, merge_steps es fs = Ok ss /\ steps_edges ss = es /\ steps_folds ss = fs
             /\ StronglySorted N.lt (map step_eid ss).
Proof.
  induction es as [|e es' IHe]; intros fs He Hf Hd.
  - rewrite merge_steps_nil. eexists. split; [reflexivity|].
    rewrite steps_edges_map_folds, steps_folds_map. repeat split.
    rewrite map_map. cbn [step_eid fst snd]. exact Hf.
  - induction fs as [|[h c] fs' IHf].
    + rewrite merge_steps_cons. eexists. split; [reflexivity|].
      cbn [steps_edges steps_folds]. rewrite steps_edges_map, steps_folds_map_edges. repeat split.
      change (SEdge e :: map SEdge es') with (map SEdge (e :: es')). rewrite map_map. exact He.
    + rewrite merge_steps_cons.
      cbn [map fold_eids fst] in He, Hf, Hd. fold (fold_eids fs') in Hf, Hd.
      inversion He as [|? ? He1 He2]; inversion Hf as [|? ? Hf1 Hf2]; subst.
      destruct (N.compare_spec (fo_eid h) (e_eid e)) as [E|L|G].
      * exfalso. apply (Hd (e_eid e)); [now left|left; now rewrite E].
      * (* the fold goes first *)
        destruct IHf as (ss & Hm & E1 & E2 & Hs).
        { exact Hf1. } { intros x Hx Hy. apply (Hd x Hx). now right. }
        rewrite Hm. cbn [bind]. eexists. split; [reflexivity|].
        cbn [steps_edges steps_folds map step_eid]. rewrite E1, E2. repeat split.
        constructor; [exact Hs|]. apply Forall_forall. intros x Hx.
        apply in_map_iff in Hx. destruct Hx as (s & <- & Hs').
        apply in_steps in Hs'. destruct s as [e0|h0 c0]; cbn [step_eid].
        -- rewrite E1 in Hs'. destruct Hs' as [<-|Hs']; [exact L|].
           rewrite Forall_forall in He2. specialize (He2 (e_eid e0) (in_map _ _ _ Hs')). lia.
        -- rewrite E2 in Hs'. rewrite Forall_forall in Hf2. apply Hf2.
           unfold fold_eids. apply in_map_iff. exists (h0, c0). auto.
      * (* the edge goes first *)
        destruct (IHe ((h, c) :: fs')) as (ss & Hm & E1 & E2 & Hs).
        { exact He1. } { exact Hf. } { intros x Hx. apply Hd. now right. }
        rewrite Hm. cbn [bind]. eexists. split; [reflexivity|].
        cbn [steps_edges steps_folds map step_eid]. rewrite E1, E2. repeat split.
        constructor; [exact Hs|]. apply Forall_forall. intros x Hx.
        apply in_map_iff in Hx. destruct Hx as (s & <- & Hs').
        apply in_steps in Hs'. destruct s as [e0|h0 c0]; cbn [step_eid].
        -- rewrite E1 in Hs'. rewrite Forall_forall in He2. apply He2. now apply in_map.
        -- rewrite E2 in Hs'. destruct Hs' as [[= -> ->]|Hs']; [exact G|].
           rewrite Forall_forall in Hf2.
           assert (fo_eid h < fo_eid h0).
           { apply Hf2. unfold fold_eids. apply in_map_iff. exists (h0, c0). auto. }
           lia.
Qed.

(* ================================================================== *)
(* 3. the visited-vid asserts                                          *)
(* ================================================================== *)
Definition step_from (s : step) : N := match s with SEdge e => e_from e | SFold h _ => fo_from h end.
Definition step_to (s : step) : N := match s with SEdge e => e_to e | SFold h _ => fo_to h end.

Lemma check_visits_ok ss : forall visited,
  StronglySorted N.lt (map step_eid ss) ->
  (forall s, In s ss -> step_to s = step_eid s + 1 /\ step_from s < step_to s) ->
  (forall s, In s ss -> In (step_from s) visited \/ exists s', In s' ss /\ step_to s' = step_from s) ->
  (forall s, In s ss -> ~ In (step_to s) visited) ->
  check_visits visited ss = Ok tt.
Proof.
  induction ss as [|s r IH]; intros visited Hs Hshape Hfrom Hto; [reflexivity|].
  cbn [check_visits].
  replace (match s with SEdge e => (e_from e, e_to e) | SFold h _ => (fo_from h, fo_to h) end)
    with (step_from s, step_to s) by (destruct s; reflexivity).
  cbn [map] in Hs. inversion Hs as [|? ? Hs1 Hs2]; subst.
  destruct (Hshape s (or_introl eq_refl)) as (Et & Hlt).
  assert (Hv : In (step_from s) visited).
  { destruct (Hfrom s (or_introl eq_refl)) as [H|(s' & [<-|Hin] & E)]; [exact H|lia|].
    destruct (Hshape s' (or_intror Hin)) as (Et' & _).
    rewrite Forall_forall in Hs2. specialize (Hs2 _ (in_map step_eid _ _ Hin)). lia. }
  apply memN_In in Hv. rewrite Hv. cbn [negb].
  assert (Hn : memN (step_to s) (step_from s :: visited) = false).
  { apply memN_false. intros [E|Hin]; [lia|]. exact (Hto s (or_introl eq_refl) Hin). }
  rewrite Hn. apply IH.
  - exact Hs1.
  - intros s0 H0. apply Hshape. now right.
  - intros s0 H0. destruct (Hfrom s0 (or_intror H0)) as [H|(s' & [<-|Hin] & E)].
    + left. now right.
    + left. left. exact E.
    + right. exists s'. auto.
  - intros s0 H0 [E|Hin].
    + destruct (Hshape s0 (or_intror H0)) as (Et0 & _).
      rewrite Forall_forall in Hs2. specialize (Hs2 _ (in_map step_eid _ _ H0)). lia.
    + exact (Hto s0 (or_intror H0) Hin).
Qed.
