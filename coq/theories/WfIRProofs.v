(* WfIRProofs.v — lemmas behind C11 (wf_ir is sufficient for lowering and indexing; links to the
   engine proofs) and C13 (rows carry exactly the declared outputs, typed as declared). *)
From Coq Require Import Lia Sorted Permutation.
From TF Require Import Values Graph Exec Sem ExecLemmas Sim SimRec SimComp SimOut SimTop TyProofs WfIR.
Local Open Scope string_scope.
Local Open Scope N_scope.
Local Open Scope list_scope.

(* ================================================================== *)
(* 0. reflection of the boolean helpers                                *)
(* ================================================================== *)
Lemma memN_In x l : memN x l = true <-> In x l.
Proof.
  unfold memN. rewrite existsb_exists. split.
  - intros (y & Hy & E). apply N.eqb_eq in E. now subst.
  - intros H. exists x. split; [assumption|apply N.eqb_refl].
Qed.
Lemma memN_false x l : memN x l = false <-> ~ In x l.
Proof. rewrite <- memN_In. destruct (memN x l); split; congruence. Qed.

Lemma mem_str_In x l : mem_str x l = true <-> In x l.
Proof.
  unfold mem_str. rewrite existsb_exists. split.
  - intros (y & Hy & E). apply String.eqb_eq in E. now subst.
  - intros H. exists x. split; [assumption|apply String.eqb_refl].
Qed.

Lemma nodupN_NoDup l : nodupN l = true <-> NoDup l.
Proof.
  induction l as [|a l IH]; cbn [nodupN].
  - split; [constructor|reflexivity].
  - rewrite andb_true_iff, negb_true_iff, memN_false, IH. split.
    + intros (H1 & H2). now constructor.
    + intros H. inversion H; subst. auto.
Qed.
Lemma nodup_str_NoDup l : nodup_str l = true <-> NoDup l.
Proof.
  induction l as [|a l IH]; cbn [nodup_str].
  - split; [constructor|reflexivity].
  - rewrite andb_true_iff, negb_true_iff, IH. split.
    + intros (H1 & H2). constructor; [|assumption]. rewrite <- mem_str_In. congruence.
    + intros H. inversion H as [|? ? Hn Hd]; subst. split; [|assumption].
      destruct (mem_str a l) eqn:E; [|reflexivity]. apply mem_str_In in E. contradiction.
Qed.

Lemma sortedN_strong l : sortedN l = true -> StronglySorted N.lt l.
Proof.
  intros H. apply Sorted_StronglySorted; [intros x y z; apply N.lt_trans|].
  induction l as [|a [|b r] IH]; [constructor|repeat constructor|].
  cbn [sortedN] in H. apply andb_prop in H. destruct H as (H1 & H2).
  constructor; [apply IH; exact H2|]. constructor. now apply N.ltb_lt.
Qed.

Lemma StronglySorted_NoDup l : StronglySorted N.lt l -> NoDup l.
Proof.
  induction 1 as [|a l _ IH HF]; constructor; [|assumption].
  intros Hin. rewrite Forall_forall in HF. specialize (HF _ Hin). lia.
Qed.

Lemma NoDup_app_l {A} (l1 l2 : list A) : NoDup (l1 ++ l2) -> NoDup l1.
Proof. induction l1 as [|a l1 IH]; cbn; [constructor|]. intros H. inversion H; subst. constructor; [|auto]. rewrite in_app_iff in *. tauto. Qed.
Lemma NoDup_app_r {A} (l1 l2 : list A) : NoDup (l1 ++ l2) -> NoDup l2.
Proof. induction l1 as [|a l1 IH]; cbn; [auto|]. intros H. inversion H; auto. Qed.
Lemma NoDup_app_disj {A} (l1 l2 : list A) x : NoDup (l1 ++ l2) -> In x l1 -> In x l2 -> False.
Proof.
  induction l1 as [|a l1 IH]; cbn; [tauto|]. intros H [->|H1] H2; inversion H; subst.
  - apply H3. apply in_or_app. now right.
  - eauto.
Qed.
Lemma NoDup_app_intro {A} (l1 l2 : list A) :
  NoDup l1 -> NoDup l2 -> (forall x, In x l1 -> In x l2 -> False) -> NoDup (l1 ++ l2).
Proof.
  induction l1 as [|a l1 IH]; cbn; [auto|]. intros H1 H2 Hd. inversion H1; subst.
  constructor.
  - rewrite in_app_iff. intros [H|H]; [contradiction|]. eapply Hd; [left; reflexivity|exact H].
  - apply IH; auto. intros x Hx. apply Hd. now right.
Qed.

(* ================================================================== *)
(* 1. induction over components                                        *)
(* ================================================================== *)
Section RawInd.
  Variable P : raw_comp -> Prop.
  Hypothesis Hstep : forall root vs es fs outs,
    Forall (fun f => P (rf_comp f)) fs -> P (RComp root vs es fs outs).
  Fixpoint raw_comp_ind' (c : raw_comp) : P c :=
    match c with
    | RComp root vs es fs outs =>
        Hstep root vs es fs outs
          ((fix go (l : list raw_fold) : Forall (fun f => P (rf_comp f)) l :=
              match l with
              | [] => Forall_nil _
              | f :: r =>
                  Forall_cons f
                    (match f return P (rf_comp f) with RFold h sub => raw_comp_ind' sub end) (go r)
              end) fs)
    end.
End RawInd.

Definition step_P (P : ir_component -> Prop) (s : step) : Prop :=
  match s with SEdge _ => True | SFold _ sub => P sub end.
Section CompInd.
  Variable P : ir_component -> Prop.
  Hypothesis Hstep : forall root vs ss outs, Forall (step_P P) ss -> P (mkComp root vs ss outs).
  Fixpoint ir_component_ind' (c : ir_component) : P c :=
    match c with
    | mkComp root vs ss outs =>
        Hstep root vs ss outs
          ((fix go (l : list step) : Forall (step_P P) l :=
              match l with
              | [] => Forall_nil _
              | s :: r =>
                  Forall_cons s
                    (match s as s0 return step_P P s0 with
                     | SEdge _ => I
                     | SFold _ sub => ir_component_ind' sub
                     end) (go r)
              end) ss)
    end.
End CompInd.

(* sub-lists of the flattenings *)
Lemma all_eids_fold_incl root vs es fs outs h sub :
  In (RFold h sub) fs -> incl (fo_eid h :: all_eids sub) (all_eids (RComp root vs es fs outs)).
Proof.
  intros Hin x Hx. cbn [all_eids]. apply in_or_app. right. apply in_flat_map.
  exists (RFold h sub). split; [assumption|exact Hx].
Qed.

Lemma NoDup_flat_map_in {A B} (f : A -> list B) l x : NoDup (flat_map f l) -> In x l -> NoDup (f x).
Proof.
  induction l as [|a l IH]; cbn [flat_map]; [intros _ []|].
  intros Hn [->|Hin]; [eapply NoDup_app_l; exact Hn|]. apply IH; [eapply NoDup_app_r; exact Hn|exact Hin].
Qed.

Lemma all_eids_fold_nodup root vs es fs outs h sub :
  NoDup (all_eids (RComp root vs es fs outs)) -> In (RFold h sub) fs -> NoDup (fo_eid h :: all_eids sub).
Proof.
  cbn [all_eids]. intros Hn Hin. apply NoDup_app_r in Hn.
  exact (NoDup_flat_map_in _ _ _ Hn Hin).
Qed.

(* ================================================================== *)
(* 2. the merge loop                                                   *)
(* ================================================================== *)
Fixpoint steps_edges (ss : list step) : list ir_edge :=
  match ss with [] => [] | SEdge e :: r => e :: steps_edges r | SFold _ _ :: r => steps_edges r end.
Fixpoint steps_folds (ss : list step) : list (fold_hdr * ir_component) :=
  match ss with [] => [] | SEdge _ :: r => steps_folds r | SFold h c :: r => (h, c) :: steps_folds r end.

Lemma steps_edges_map es : steps_edges (map SEdge es) = es.
Proof. induction es as [|e r IH]; cbn; [reflexivity|now rewrite IH]. Qed.
Lemma steps_folds_map_edges es : steps_folds (map SEdge es) = [].
Proof. induction es as [|e r IH]; cbn; auto. Qed.
Lemma steps_edges_map_folds fs : steps_edges (map (fun hc : fold_hdr * ir_component => SFold (fst hc) (snd hc)) fs) = [].
Proof. induction fs as [|[h c] r IH]; cbn; auto. Qed.
Lemma steps_folds_map fs : steps_folds (map (fun hc : fold_hdr * ir_component => SFold (fst hc) (snd hc)) fs) = fs.
Proof. induction fs as [|[h c] r IH]; cbn; [reflexivity|now rewrite IH]. Qed.

Lemma in_steps ss s :
  In s ss <-> match s with SEdge e => In e (steps_edges ss) | SFold h c => In (h, c) (steps_folds ss) end.
Proof.
  induction ss as [|[e'|h' c'] r IH]; cbn [In steps_edges steps_folds].
  - destruct s; tauto.
  - rewrite IH. destruct s as [e|h c]; cbn [In]; [|split; [intros [H|H]; [discriminate|exact H]|tauto]].
    split; [intros [[= ->]|H]; auto|intros [->|H]; auto].
  - rewrite IH. destruct s as [e|h c]; cbn [In]; [split; [intros [H|H]; [discriminate|exact H]|tauto]|].
    split; [intros [[= -> ->]|H]; auto|intros [[= -> ->]|H]; auto].
Qed.

Lemma merge_steps_nil fs : merge_steps [] fs = Ok (map (fun hc => SFold (fst hc) (snd hc)) fs).
Proof. reflexivity. Qed.
Lemma merge_steps_cons e es' fs :
  merge_steps (e :: es') fs =
  match fs with
  | [] => Ok (SEdge e :: map SEdge es')
  | (h, c) :: fs' =>
      match N.compare (fo_eid h) (e_eid e) with
      | Gt => do r <- merge_steps es' fs; Ok (SEdge e :: r)
      | Lt => do r <- merge_steps (e :: es') fs'; Ok (SFold h c :: r)
      | Eq => Panic "execution.rs:compute_component unreachable (fold.eid == edge.eid)"
      end
  end.
Proof. destruct fs as [|[h c] fs']; reflexivity. Qed.

Definition fold_eids (fs : list (fold_hdr * ir_component)) : list N := map (fun hc => fo_eid (fst hc)) fs.

Lemma merge_steps_ok es : forall fs,
  StronglySorted N.lt (map e_eid es) -> StronglySorted N.lt (fold_eids fs) ->
  (forall x, In x (map e_eid es) -> In x (fold_eids fs) -> False) ->
  exists ss, merge_steps es fs = Ok ss /\ steps_edges ss = es /\ steps_folds ss = fs
             /\ StronglySorted N.lt (map step_eid ss).
Proof.
  induction es as [|e es' IHe]; intros fs He Hf Hd.
  - rewrite merge_steps_nil. eexists. split; [reflexivity|].
    rewrite steps_edges_map_folds, steps_folds_map. repeat split.
    rewrite map_map. cbn [step_eid fst snd]. exact Hf.
  - induction fs as [|[h c] fs' IHf].
    + rewrite merge_steps_cons. eexists. split; [reflexivity|].
      cbn [steps_edges steps_folds]. rewrite steps_edges_map, steps_folds_map_edges. repeat split.
      change (SEdge e :: map SEdge es') with (map SEdge (e :: es')). rewrite map_map. exact He.
    + rewrite merge_steps_cons.
      cbn [map fold_eids fst] in He, Hf, Hd. fold (fold_eids fs') in Hf, Hd.
      inversion He as [|? ? He1 He2]; inversion Hf as [|? ? Hf1 Hf2]; subst.
      destruct (N.compare_spec (fo_eid h) (e_eid e)) as [E|L|G].
      * exfalso. apply (Hd (e_eid e)); [now left|left; now rewrite E].
      * (* the fold goes first *)
        destruct IHf as (ss & Hm & E1 & E2 & Hs).
        { exact Hf1. } { intros x Hx Hy. apply (Hd x Hx). now right. }
        rewrite Hm. cbn [bind]. eexists. split; [reflexivity|].
        cbn [steps_edges steps_folds map step_eid]. rewrite E1, E2. repeat split.
        constructor; [exact Hs|]. apply Forall_forall. intros x Hx.
        apply in_map_iff in Hx. destruct Hx as (s & <- & Hs').
        apply in_steps in Hs'. destruct s as [e0|h0 c0]; cbn [step_eid].
        -- rewrite E1 in Hs'. destruct Hs' as [<-|Hs']; [exact L|].
           rewrite Forall_forall in He2. specialize (He2 (e_eid e0) (in_map _ _ _ Hs')). lia.
        -- rewrite E2 in Hs'. rewrite Forall_forall in Hf2. apply Hf2.
           unfold fold_eids. apply in_map_iff. exists (h0, c0). auto.
      * (* the edge goes first *)
        destruct (IHe ((h, c) :: fs')) as (ss & Hm & E1 & E2 & Hs).
        { exact He1. } { exact Hf. } { intros x Hx. apply Hd. now right. }
        rewrite Hm. cbn [bind]. eexists. split; [reflexivity|].
        cbn [steps_edges steps_folds map step_eid]. rewrite E1, E2. repeat split.
        constructor; [exact Hs|]. apply Forall_forall. intros x Hx.
        apply in_map_iff in Hx. destruct Hx as (s & <- & Hs').
        apply in_steps in Hs'. destruct s as [e0|h0 c0]; cbn [step_eid].
        -- rewrite E1 in Hs'. rewrite Forall_forall in He2. apply He2. now apply in_map.
        -- rewrite E2 in Hs'. destruct Hs' as [[= -> ->]|Hs']; [exact G|].
           rewrite Forall_forall in Hf2.
           assert (fo_eid h < fo_eid h0).
           { apply Hf2. unfold fold_eids. apply in_map_iff. exists (h0, c0). auto. }
           lia.
Qed.

(* ================================================================== *)
(* 3. the visited-vid asserts                                          *)
(* ================================================================== *)
Definition step_from (s : step) : N := match s with SEdge e => e_from e | SFold h _ => fo_from h end.
Definition step_to (s : step) : N := match s with SEdge e => e_to e | SFold h _ => fo_to h end.

Lemma check_visits_ok ss : forall visited,
  StronglySorted N.lt (map step_eid ss) ->
  (forall s, In s ss -> step_to s = step_eid s + 1 /\ step_from s < step_to s) ->
  (forall s, In s ss -> In (step_from s) visited \/ exists s', In s' ss /\ step_to s' = step_from s) ->
  (forall s, In s ss -> ~ In (step_to s) visited) ->
  check_visits visited ss = Ok tt.
Proof.
  induction ss as [|s r IH]; intros visited Hs Hshape Hfrom Hto; [reflexivity|].
  cbn [check_visits].
  replace (match s with SEdge e => (e_from e, e_to e) | SFold h _ => (fo_from h, fo_to h) end)
    with (step_from s, step_to s) by (destruct s; reflexivity).
  cbn [map] in Hs. inversion Hs as [|? ? Hs1 Hs2]; subst.
  destruct (Hshape s (or_introl eq_refl)) as (Et & Hlt).
  assert (Hv : In (step_from s) visited).
  { destruct (Hfrom s (or_introl eq_refl)) as [H|(s' & [<-|Hin] & E)]; [exact H|lia|].
    destruct (Hshape s' (or_intror Hin)) as (Et' & _).
    rewrite Forall_forall in Hs2. specialize (Hs2 _ (in_map step_eid _ _ Hin)). lia. }
  apply memN_In in Hv. rewrite Hv. cbn [negb].
  assert (Hn : memN (step_to s) (step_from s :: visited) = false).
  { apply memN_false. intros [E|Hin]; [lia|]. exact (Hto s (or_introl eq_refl) Hin). }
  rewrite Hn. apply IH.
  - exact Hs1.
  - intros s0 H0. apply Hshape. now right.
  - intros s0 H0. destruct (Hfrom s0 (or_intror H0)) as [H|(s' & [<-|Hin] & E)].
    + left. now right.
    + left. left. exact E.
    + right. exists s'. auto.
  - intros s0 H0 [E|Hin].
    + destruct (Hshape s0 (or_intror H0)) as (Et0 & _).
      rewrite Forall_forall in Hs2. specialize (Hs2 _ (in_map step_eid _ _ H0)). lia.
    + exact (Hto s0 (or_intror H0) Hin).
Qed.

Lemma merge_steps_proj es : forall fs ss,
  merge_steps es fs = Ok ss -> steps_edges ss = es /\ steps_folds ss = fs.
Proof.
  induction es as [|e es' IHe]; intros fs ss H.
  - rewrite merge_steps_nil in H. injection H as <-. now rewrite steps_edges_map_folds, steps_folds_map.
  - revert ss H. induction fs as [|[h c] fs' IHf]; intros ss H; rewrite merge_steps_cons in H.
    + injection H as <-. cbn [steps_edges steps_folds]. now rewrite steps_edges_map, steps_folds_map_edges.
    + destruct (N.compare (fo_eid h) (e_eid e)); [discriminate| |]; inv_bind H; injection H as <-.
      * destruct (IHf _ Hx) as (E1 & E2). cbn [steps_edges steps_folds]. now rewrite E1, E2.
      * destruct (IHe _ _ Hx) as (E1 & E2). cbn [steps_edges steps_folds]. now rewrite E1, E2.
Qed.

(* ================================================================== *)
(* 4. what wf_comp says, clause by clause                              *)
(* ================================================================== *)
Definition comp_vids (vs : list ir_vertex) : list N := map v_vid vs.
Definition comp_feids (fs : list raw_fold) : list N := map (fun f => fo_eid (rf_hdr f)) fs.

Lemma wf_comp_inv vars avail root vs es fs outs :
  wf_comp vars avail (RComp root vs es fs outs) = true ->
  sortedN (map e_eid es) = true /\ sortedN (comp_feids fs) = true /\ In root (comp_vids vs) /\
  (forall v, In v (comp_vids vs) -> v = root \/ In v (map e_to es)) /\
  (forall e, In e es -> edge_wf (comp_vids vs) e = true) /\
  (forall v, In v vs -> vertex_wf vars (comp_vids vs) (comp_feids fs) avail v = true) /\
  (forall o, In o outs -> In (cf_vid (snd o)) (comp_vids vs)) /\
  (forall h sub, In (RFold h sub) fs ->
     fold_hdr_wf vars (comp_vids vs) (comp_feids fs) avail h (raw_root sub) = true /\
     interval_ok sub = true /\
     imports_exact (comp_vids vs) (comp_feids fs) h (tags_used sub) = true /\
     wf_comp vars (fo_imported h ++ avail) sub = true).
Proof.
  cbn [wf_comp]. fold (comp_vids vs). fold (comp_feids fs). intros H.
  apply andb_prop in H. destruct H as (H & Hfolds).
  apply andb_prop in H. destruct H as (H & Houts).
  apply andb_prop in H. destruct H as (H & Hverts).
  apply andb_prop in H. destruct H as (H & Hedges).
  apply andb_prop in H. destruct H as (H & Hentered).
  apply andb_prop in H. destruct H as (H & Hroot).
  apply andb_prop in H. destruct H as (Hse & Hsf).
  rewrite forallb_forall in Hfolds, Houts, Hverts, Hedges, Hentered.
  split; [exact Hse|]. split; [exact Hsf|]. split; [now apply memN_In|].
  split; [|split; [exact Hedges|split; [exact Hverts|split]]].
  - intros v Hv. specialize (Hentered _ Hv). apply orb_prop in Hentered. destruct Hentered as [E|E].
    + left. now apply N.eqb_eq.
    + right. now apply memN_In.
  - intros o Ho. apply memN_In. auto.
  - intros h sub Hin. specialize (Hfolds _ Hin). cbn beta iota in Hfolds.
    apply andb_prop in Hfolds. destruct Hfolds as (Hf & Hw).
    apply andb_prop in Hf. destruct Hf as (Hf & Him).
    apply andb_prop in Hf. destruct Hf as (Hf & Hiv). auto.
Qed.

Lemma edge_wf_inv vids e : edge_wf vids e = true ->
  e_to e = e_eid e + 1 /\ In (e_from e) vids /\ In (e_to e) vids /\ e_from e < e_to e /\ edge_ok e = true.
Proof.
  unfold edge_wf. intros H.
  apply andb_prop in H. destruct H as (H & H5). apply andb_prop in H. destruct H as (H & H4).
  apply andb_prop in H. destruct H as (H & H3). apply andb_prop in H. destruct H as (H1 & H2).
  apply N.eqb_eq in H1. apply memN_In in H2. apply memN_In in H3. apply N.ltb_lt in H4. auto.
Qed.

Lemma fold_hdr_wf_inv vars vids feids avail h r : fold_hdr_wf vars vids feids avail h r = true ->
  fo_to h = fo_eid h + 1 /\ In (fo_from h) vids /\ fo_from h < fo_to h /\ fo_to h = r /\
  (forall p, In p (fo_post h) -> arg_wf vars vids feids avail (fo_to h) (pf_arg p) = true) /\
  (forall t, In t (fo_imported h) -> tag_ok vids feids [] (fo_to h) t = true).
Proof.
  unfold fold_hdr_wf. intros H.
  apply andb_prop in H. destruct H as (H & H6). apply andb_prop in H. destruct H as (H & H5).
  apply andb_prop in H. destruct H as (H & H4). apply andb_prop in H. destruct H as (H & H3).
  apply andb_prop in H. destruct H as (H1 & H2).
  apply N.eqb_eq in H1. apply memN_In in H2. apply N.ltb_lt in H3. apply N.eqb_eq in H4.
  rewrite forallb_forall in H5, H6. auto 10.
Qed.

Lemma interval_ok_inv c : interval_ok c = true ->
  forall e, In e (all_eids c) -> raw_root c <= e /\ e < raw_root c + N.of_nat (List.length (all_eids c)).
Proof.
  unfold interval_ok. intros H e He. rewrite forallb_forall in H. specialize (H _ He).
  apply andb_prop in H. destruct H as (H1 & H2). apply N.leb_le in H1. apply N.ltb_lt in H2. auto.
Qed.

(* ================================================================== *)
(* 5. lowering succeeds on well-formed components                      *)
(* ================================================================== *)
Fixpoint lower_folds (fs : list raw_fold) : res (list (fold_hdr * ir_component)) :=
  match fs with
  | [] => Ok []
  | RFold h sub :: r => do s <- lower sub; do r' <- lower_folds r; Ok ((h, s) :: r')
  end.

Lemma lower_eq root vs es fs outs :
  lower (RComp root vs es fs outs) =
  (do fs' <- lower_folds fs;
   do steps <- merge_steps es fs';
   do _ <- check_visits [root] steps;
   Ok (mkComp root vs steps outs)).
Proof.
  cbn [lower]. f_equal.
Qed.

Lemma lower_folds_inv fs : forall fs', lower_folds fs = Ok fs' ->
  Forall2 (fun f hc => fst hc = rf_hdr f /\ lower (rf_comp f) = Ok (snd hc)) fs fs'.
Proof.
  induction fs as [|[h sub] r IH]; intros fs' H; cbn [lower_folds] in H.
  - injection H as <-. constructor.
  - inv_bind H. inv_bind H. injection H as <-. constructor; [cbn; auto|]. now apply IH.
Qed.

Lemma Forall2_in_r {A B} (R : A -> B -> Prop) l1 l2 y :
  Forall2 R l1 l2 -> In y l2 -> exists x, In x l1 /\ R x y.
Proof.
  induction 1 as [|a b l1 l2 Hab _ IH]; [intros []|].
  intros [<-|Hin]; [exists a; split; [now left|assumption]|].
  destruct (IH Hin) as (x & Hx & HR). exists x. split; [now right|assumption].
Qed.
Lemma Forall2_in_l {A B} (R : A -> B -> Prop) l1 l2 x :
  Forall2 R l1 l2 -> In x l1 -> exists y, In y l2 /\ R x y.
Proof.
  induction 1 as [|a b l1 l2 Hab _ IH]; [intros []|].
  intros [<-|Hin]; [exists b; split; [now left|assumption]|].
  destruct (IH Hin) as (y & Hy & HR). exists y. split; [now right|assumption].
Qed.

Lemma lower_inv root vs es fs outs c' :
  lower (RComp root vs es fs outs) = Ok c' ->
  exists fs' steps, lower_folds fs = Ok fs' /\ merge_steps es fs' = Ok steps /\
                    c' = mkComp root vs steps outs.
Proof.
  rewrite lower_eq. intros H. inv_bind H. inv_bind H. inv_bind H. injection H as <-. eauto.
Qed.

Lemma lower_ok vars : forall c avail,
  wf_comp vars avail c = true -> NoDup (all_eids c) -> interval_ok c = true ->
  exists c', lower c = Ok c'.
Proof.
  induction c as [root vs es fs outs IHfs] using raw_comp_ind'. intros avail Hwf Hnd Hiv.
  pose proof (wf_comp_inv _ _ _ _ _ _ _ Hwf) as (Hse & Hsf & Hroot & Hent & Hedges & _ & _ & Hfolds).
  (* 1. the folded components *)
  assert (Hlf : exists fs', lower_folds fs = Ok fs').
  { assert (Hall : forall h sub, In (RFold h sub) fs -> exists c', lower sub = Ok c').
    { intros h sub Hin. rewrite Forall_forall in IHfs. specialize (IHfs _ Hin). cbn [rf_comp] in IHfs.
      destruct (Hfolds h sub Hin) as (_ & Hiv' & _ & Hwf').
      apply (IHfs _ Hwf'); [|exact Hiv'].
      pose proof (all_eids_fold_nodup _ _ _ _ _ _ _ Hnd Hin) as Hn. now inversion Hn. }
    clear - Hall. induction fs as [|[h sub] r IH]; [exists []; reflexivity|].
    destruct (Hall h sub (or_introl eq_refl)) as (c' & Hc').
    destruct IH as (r' & Hr'); [intros h0 s0 H0; apply (Hall h0 s0); now right|].
    cbn [lower_folds]. rewrite Hc', Hr'. cbn [bind]. eauto. }
  destruct Hlf as (fs' & Hlf).
  pose proof (lower_folds_inv _ _ Hlf) as HF2.
  assert (Efe : fold_eids fs' = comp_feids fs).
  { clear - HF2. unfold fold_eids, comp_feids. induction HF2 as [|f hc l1 l2 (E & _) _ IH]; [reflexivity|].
    cbn [map]. now rewrite IH, E. }
  (* 2. the merge *)
  destruct (merge_steps_ok es fs') as (ss & Hm & Ees & Efs & Hsorted).
  { now apply sortedN_strong. } { rewrite Efe. now apply sortedN_strong. }
  { rewrite Efe. intros x Hx Hy. cbn [all_eids] in Hnd. apply (NoDup_app_disj _ _ x Hnd Hx).
    unfold comp_feids in Hy. apply in_map_iff in Hy. destruct Hy as ([h sub] & <- & Hin).
    apply in_flat_map. exists (RFold h sub). split; [assumption|now left]. }
  (* 3. the visited asserts *)
  assert (Hstep : forall s, In s ss ->
            step_to s = step_eid s + 1 /\ step_from s < step_to s /\ In (step_from s) (comp_vids vs)
            /\ In (step_eid s) (all_eids (RComp root vs es fs outs))).
  { intros s Hs. apply in_steps in Hs. destruct s as [e|h c0].
    - rewrite Ees in Hs. destruct (edge_wf_inv _ _ (Hedges _ Hs)) as (E1 & E2 & _ & E4 & _).
      cbn [step_to step_eid step_from]. repeat split; try assumption.
      cbn [all_eids]. apply in_or_app. left. now apply in_map.
    - rewrite Efs in Hs. destruct (Forall2_in_r _ _ _ _ HF2 Hs) as ([h' sub] & Hin & (Eh & _)).
      cbn [fst rf_hdr] in Eh. subst h'.
      destruct (Hfolds _ _ Hin) as (Hh & _). destruct (fold_hdr_wf_inv _ _ _ _ _ _ Hh) as (E1 & E2 & E3 & _).
      cbn [step_to step_eid step_from]. repeat split; try assumption.
      apply (all_eids_fold_incl root vs es fs outs h sub Hin). now left. }
  assert (Hcv : check_visits [root] ss = Ok tt).
  { apply check_visits_ok.
    - exact Hsorted.
    - intros s Hs. destruct (Hstep s Hs) as (E1 & E2 & _). auto.
    - intros s Hs. destruct (Hstep s Hs) as (_ & _ & E3 & _).
      destruct (Hent _ E3) as [->|Hin]; [left; now left|].
      right. apply in_map_iff in Hin. destruct Hin as (e' & E & He').
      exists (SEdge e'). split; [|exact E]. apply in_steps. now rewrite Ees.
    - intros s Hs [E|[]]. destruct (Hstep s Hs) as (E1 & _ & _ & E4).
      destruct (interval_ok_inv _ Hiv _ E4) as (Hlo & _). cbn [raw_root] in Hlo. lia. }
  rewrite lower_eq, Hlf. cbn [bind]. rewrite Hm. cbn [bind]. rewrite Hcv. cbn [bind]. eauto.
Qed.

Lemma wf_ir_inv q : wf_ir q = true ->
  wf_comp (rq_vars q) [] (rq_comp q) = true /\ NoDup (all_vids (rq_comp q)) /\ NoDup (all_eids (rq_comp q))
  /\ NoDup (all_outs (rq_comp q)) /\ interval_ok (rq_comp q) = true.
Proof.
  unfold wf_ir. intros H.
  apply andb_prop in H. destruct H as (H & H5). apply andb_prop in H. destruct H as (H & H4).
  apply andb_prop in H. destruct H as (H & H3). apply andb_prop in H. destruct H as (H1 & H2).
  apply nodupN_NoDup in H2. apply nodupN_NoDup in H3. apply nodup_str_NoDup in H4. auto.
Qed.

Theorem wf_ir_lower_ok q : wf_ir q = true -> exists q', lower_query q = Ok q'.
Proof.
  intros H. destruct (wf_ir_inv q H) as (Hwf & _ & Hne & _ & Hiv).
  destruct (lower_ok _ _ _ Hwf Hne Hiv) as (c' & Hc'). unfold lower_query. rewrite Hc'. cbn [bind]. eauto.
Qed.

(* ================================================================== *)
(* 6. what a successful indexing run has built                         *)
(* ================================================================== *)
Lemma lookup_N_app {A} k (l1 l2 : list (N * A)) :
  lookup_N k (l1 ++ l2) = match lookup_N k l1 with Some x => Some x | None => lookup_N k l2 end.
Proof. induction l1 as [|[k' a] r IH]; cbn [app lookup_N]; [reflexivity|]. destruct (N.eqb k k'); auto. Qed.
Lemma lookup_str_app {A} k (l1 l2 : list (string * A)) :
  lookup_str k (l1 ++ l2) = match lookup_str k l1 with Some x => Some x | None => lookup_str k l2 end.
Proof. induction l1 as [|[k' a] r IH]; cbn [app lookup_str]; [reflexivity|]. destruct (String.eqb k k'); auto. Qed.

Lemma lookup_N_none {A} k (l : list (N * A)) : lookup_N k l = None <-> ~ In k (map fst l).
Proof.
  induction l as [|[k' a] r IH]; cbn [lookup_N map fst In]; [tauto|].
  destruct (N.eqb_spec k k') as [->|Hn]; [split; [discriminate|tauto]|].
  rewrite IH. split; [intros H [E|H']; [congruence|auto]|tauto].
Qed.
Lemma lookup_str_none {A} k (l : list (string * A)) : lookup_str k l = None <-> ~ In k (map fst l).
Proof.
  induction l as [|[k' a] r IH]; cbn [lookup_str map fst In]; [tauto|].
  destruct (String.eqb_spec k k') as [->|Hn]; [split; [discriminate|tauto]|].
  rewrite IH. split; [intros H [E|H']; [congruence|auto]|tauto].
Qed.
Lemma lookup_N_in {A} k (a : A) (l : list (N * A)) : lookup_N k l = Some a -> In (k, a) l.
Proof.
  induction l as [|[k' a'] r IH]; cbn [lookup_N]; [discriminate|].
  destruct (N.eqb_spec k k') as [->|Hn]; [intros [= ->]; now left|right; auto].
Qed.
Lemma lookup_N_nodup {A} k (a : A) (l : list (N * A)) :
  NoDup (map fst l) -> In (k, a) l -> lookup_N k l = Some a.
Proof.
  induction l as [|[k' a'] r IH]; cbn [lookup_N map fst]; [intros _ []|].
  intros Hn [[= -> ->]|Hin]; [now rewrite N.eqb_refl|]. inversion Hn; subst.
  destruct (N.eqb_spec k k') as [->|Hne]; [|auto]. exfalso. apply H1. apply in_map_iff. exists (k', a). auto.
Qed.
Lemma lookup_str_in {A} k (a : A) (l : list (string * A)) : lookup_str k l = Some a -> In (k, a) l.
Proof.
  induction l as [|[k' a'] r IH]; cbn [lookup_str]; [discriminate|].
  destruct (String.eqb_spec k k') as [->|Hn]; [intros [= ->]; now left|right; auto].
Qed.
Lemma lookup_str_nodup {A} k (a : A) (l : list (string * A)) :
  NoDup (map fst l) -> In (k, a) l -> lookup_str k l = Some a.
Proof.
  induction l as [|[k' a'] r IH]; cbn [lookup_str map fst]; [intros _ []|].
  intros Hn [[= -> ->]|Hin]; [now rewrite String.eqb_refl|]. inversion Hn; subst.
  destruct (String.eqb_spec k k') as [->|Hne]; [|auto]. exfalso. apply H1. apply in_map_iff. exists (k', a). auto.
Qed.

Lemma ix_has_key_N_false {A} k (l : list (N * A)) : Indexed.has_key_N k l = false <-> ~ In k (map fst l).
Proof. unfold Indexed.has_key_N. rewrite <- lookup_N_none. destruct (lookup_N k l); split; congruence. Qed.
Lemma ix_has_key_str_false {A} k (l : list (string * A)) : has_key_str k l = false <-> ~ In k (map fst l).
Proof. unfold has_key_str. rewrite <- lookup_str_none. destruct (lookup_str k l); split; congruence. Qed.

Lemma add_vertices_shape root vars vs : forall vids vids',
  add_vertices root vars vs vids = inr vids' -> vids' = vids ++ map (fun v => (v_vid v, root)) vs.
Proof.
  induction vs as [|v r IH]; intros vids vids' H; cbn [add_vertices] in H.
  - injection H as <-. now rewrite app_nil_r.
  - destruct (Indexed.has_key_N (v_vid v) vids); [discriminate|].
    destruct (check_filters_vars vars (v_filters v)); [discriminate|].
    rewrite (IH _ _ H). cbn [map]. now rewrite <- app_assoc.
Qed.

Lemma add_edges_shape root es vids : forall eids eids',
  add_edges root es vids eids = inr eids' -> eids' = eids ++ map (fun e => (e_eid e, false)) es.
Proof.
  induction es as [|e r IH]; intros eids eids' H; cbn [add_edges] in H.
  - injection H as <-. now rewrite app_nil_r.
  - destruct (negb (e_eid e + 1 =? e_to e)); [discriminate|].
    destruct (owner_check root vids (e_from e) 5%Z 6%Z); [discriminate|].
    destruct (owner_check root vids (e_to e) 7%Z 8%Z); [discriminate|].
    destruct (Indexed.has_key_N (e_eid e) eids); [discriminate|].
    rewrite (IH _ _ H). cbn [map]. now rewrite <- app_assoc.
Qed.

Lemma add_outputs_shape root opt stack outs vids : forall acc acc',
  add_outputs root opt stack outs vids acc = Ok (inr acc') ->
  exists no, acc' = acc ++ no /\ map fst no = map fst outs /\
    forall n t v, In (n, (t, v)) no ->
      exists cf, In (n, cf) outs /\ v = cf_vid cf /\ get_output_type (cf_vid cf) (cf_ty cf) opt stack = Ok t.
Proof.
  induction outs as [|[name cf] r IH]; intros acc acc' H; cbn [add_outputs] in H.
  - injection H as <-. exists []. rewrite app_nil_r. split; [reflexivity|]. split; [reflexivity|]. intros ? ? ? [].
  - destruct (owner_check root vids (cf_vid cf) 1%Z 2%Z); [discriminate|].
    inv_bind H. destruct (has_key_str name acc); [discriminate|].
    destruct (IH _ _ H) as (no & -> & E & Hno).
    exists ((name, (x, cf_vid cf)) :: no). rewrite <- app_assoc. cbn [app map fst]. split; [reflexivity|].
    split; [now rewrite E|].
    intros n t v [[= <- <- <-]|Hin].
    + exists cf. split; [now left|]. auto.
    + destruct (Hno _ _ _ Hin) as (cf' & Hcf & Ev & Ht). exists cf'. split; [now right|auto].
Qed.

Lemma add_fsouts_shape h opt stack names : forall acc acc',
  add_fsouts h opt stack names acc = Ok (inr acc') ->
  exists no, acc' = acc ++ no /\ map fst no = names /\
    forall n t v, In (n, (t, v)) no ->
      In n names /\ v = fo_to h /\ get_output_type (fo_from h) count_type opt stack = Ok t.
Proof.
  induction names as [|name r IH]; intros acc acc' H; cbn [add_fsouts] in H.
  - injection H as <-. exists []. rewrite app_nil_r. split; [reflexivity|]. split; [reflexivity|]. intros ? ? ? [].
  - inv_bind H. destruct (has_key_str name acc); [discriminate|].
    destruct (IH _ _ H) as (no & -> & E & Hno).
    exists ((name, (x, fo_to h)) :: no). rewrite <- app_assoc. cbn [app map fst]. split; [reflexivity|].
    split; [now rewrite E|].
    intros n t v [[= <- <- <-]|Hin].
    + split; [now left|]. auto.
    + destruct (Hno _ _ _ Hin) as (Hn & Ev & Ht). split; [now right|auto].
Qed.

Lemma fold_header_shape root opt stack h sub st st2 :
  fold_header root opt stack h sub st = Ok (inr st2) ->
  st_vids st2 = st_vids st /\ st_eids st2 = st_eids st ++ [(fo_eid h, true)] /\
  exists no, st_outs st2 = st_outs st ++ no /\ map fst no = fo_fsout h /\
    forall n t v, In (n, (t, v)) no ->
      In n (fo_fsout h) /\ v = fo_to h /\ get_output_type (fo_from h) count_type opt stack = Ok t.
Proof.
  unfold fold_header. intros H.
  destruct (negb (fo_eid h + 1 =? fo_to h)); [discriminate|].
  destruct (owner_check root (st_vids st) (fo_from h) 11%Z 12%Z); [discriminate|].
  destruct (negb (fo_to h =? raw_root sub)); [discriminate|].
  destruct (Indexed.has_key_N (fo_eid h) (st_eids st)); [discriminate|].
  inv_bind H. destruct x as [e|outs']; [discriminate|]. injection H as <-. cbn [st_vids st_eids st_outs].
  split; [reflexivity|]. split; [reflexivity|]. exact (add_fsouts_shape _ _ _ _ _ _ Hx).
Qed.

Lemma fold_loop_inv {S} (body : fold_hdr -> raw_comp -> S -> ires S)
      (Pf : raw_fold -> Prop) (Q : list raw_fold -> S -> S -> Prop) :
  (forall st, Q [] st st) ->
  (forall h sub r st st1 st', Pf (RFold h sub) -> body h sub st = Ok (inr st1) -> Q r st1 st' ->
                              Q (RFold h sub :: r) st st') ->
  forall fs, Forall Pf fs -> forall st st', fold_loop body fs st = Ok (inr st') -> Q fs st st'.
Proof.
  intros Hnil Hcons fs HF. induction HF as [|[h sub] r Hp _ IH]; intros st st' H; cbn [fold_loop] in H.
  - injection H as <-. apply Hnil.
  - inv_bind H. destruct x as [e|st1]; [discriminate|]. eapply Hcons; eauto.
Qed.

(* the declared outputs, relationally: name, type, vid *)
Inductive declares : raw_comp -> list bool -> string -> ty -> N -> Prop :=
| decl_own root vs es fs outs stack n cf t :
    In (n, cf) outs ->
    get_output_type (cf_vid cf) (cf_ty cf) (optional_vertices es) stack = Ok t ->
    declares (RComp root vs es fs outs) stack n t (cf_vid cf)
| decl_count root vs es fs outs stack h sub n t :
    In (RFold h sub) fs -> In n (fo_fsout h) ->
    get_output_type (fo_from h) count_type (optional_vertices es) stack = Ok t ->
    declares (RComp root vs es fs outs) stack n t (fo_to h)
| decl_inner root vs es fs outs stack h sub n t v :
    In (RFold h sub) fs ->
    declares sub (memN (fo_from h) (optional_vertices es) :: stack) n t v ->
    declares (RComp root vs es fs outs) stack n t v.

Definition sub_vids (f : raw_fold) : list N := match f with RFold _ sub => all_vids sub end.
Definition sub_eids (f : raw_fold) : list N := match f with RFold h sub => fo_eid h :: all_eids sub end.
Definition sub_outs (f : raw_fold) : list string := match f with RFold h sub => fo_fsout h ++ all_outs sub end.

Lemma all_vids_eq root vs es fs outs :
  all_vids (RComp root vs es fs outs) = map v_vid vs ++ flat_map sub_vids fs.
Proof. reflexivity. Qed.
Lemma all_eids_eq root vs es fs outs :
  all_eids (RComp root vs es fs outs) = map e_eid es ++ flat_map sub_eids fs.
Proof. reflexivity. Qed.
Lemma all_outs_eq root vs es fs outs :
  all_outs (RComp root vs es fs outs) = map fst outs ++ flat_map sub_outs fs.
Proof. reflexivity. Qed.

Definition grows (keysv keyse : list N) (keyso : list string) (decl : string -> ty -> N -> Prop)
           (st st' : ixstate) : Prop :=
  exists nv ne no,
    st_vids st' = st_vids st ++ nv /\ map fst nv = keysv /\
    st_eids st' = st_eids st ++ ne /\ map fst ne = keyse /\
    st_outs st' = st_outs st ++ no /\ map fst no = keyso /\
    forall n t v, In (n, (t, v)) no -> decl n t v.

Lemma add_shape vars : forall c stack st st',
  add_data_from_component vars c stack st = Ok (inr st') ->
  grows (all_vids c) (all_eids c) (all_outs c) (declares c stack) st st'.
Proof.
  induction c as [root vs es fs outs IHfs] using raw_comp_ind'. intros stack st st' H.
  cbn [add_data_from_component] in H.
  destruct (negb match find_vertex vs root with Some _ => true | None => false end); [discriminate|].
  destruct (add_vertices root vars vs (st_vids st)) as [e|vids] eqn:Ev; [discriminate|].
  inv_bind H. destruct x as [e|outs1]; [discriminate|].
  destruct (add_edges root es vids (st_eids st)) as [e|eids1] eqn:Ee; [discriminate|].
  apply add_vertices_shape in Ev. apply add_edges_shape in Ee.
  destruct (add_outputs_shape _ _ _ _ _ _ _ Hx) as (no0 & Eo & Eno & Hno0).
  set (opt := optional_vertices es) in *.
  (* the folds loop *)
  pose (Q := fun (l : list raw_fold) (s s' : ixstate) =>
          grows (flat_map sub_vids l) (flat_map sub_eids l) (flat_map sub_outs l)
                (fun n t v => exists h sub, In (RFold h sub) l /\
                   ((In n (fo_fsout h) /\ v = fo_to h /\ get_output_type (fo_from h) count_type opt stack = Ok t)
                    \/ declares sub (memN (fo_from h) opt :: stack) n t v)) s s').
  assert (HQ : Q fs (mkSt vids eids1 outs1) st').
  { revert H. apply (fold_loop_inv _ (fun f => forall stack st st',
        add_data_from_component vars (rf_comp f) stack st = Ok (inr st') ->
        grows (all_vids (rf_comp f)) (all_eids (rf_comp f)) (all_outs (rf_comp f)) (declares (rf_comp f) stack) st st') Q).
    - intros s. exists [], [], []. rewrite !app_nil_r. cbn [flat_map map]. repeat split. intros ? ? ? [].
    - intros h sub r s s1 s' Hp Hb (nv & ne & no & E1 & K1 & E2 & K2 & E3 & K3 & Hd).
      inv_bind Hb. destruct x as [e|s2]; [discriminate|].
      destruct (fold_header_shape _ _ _ _ _ _ _ Hx0) as (F1 & F2 & (nof & F3 & F4 & F5)).
      destruct (Hp _ _ _ Hb) as (nv' & ne' & no' & G1 & K1' & G2 & K2' & G3 & K3' & Hd'). cbn [rf_comp] in *.
      exists (nv' ++ nv), ((fo_eid h, true) :: ne' ++ ne), (nof ++ no' ++ no).
      cbn [flat_map sub_vids sub_eids sub_outs].
      rewrite E1, G1, F1, E2, G2, F2, E3, G3, F3, <- !app_assoc. cbn [app].
      split; [reflexivity|]. split; [now rewrite map_app, K1', K1|]. split; [reflexivity|].
      split; [cbn [map fst]; now rewrite map_app, K2', K2|]. split; [reflexivity|].
      split; [now rewrite !map_app, F4, K3', K3|].
      intros n t v Hin. rewrite !in_app_iff in Hin. destruct Hin as [Hin|[Hin|Hin]].
      + exists h, sub. split; [now left|]. left. exact (F5 _ _ _ Hin).
      + exists h, sub. split; [now left|]. right. exact (Hd' _ _ _ Hin).
      + destruct (Hd _ _ _ Hin) as (h' & sub' & Hin' & Hc). exists h', sub'. split; [now right|exact Hc].
    - exact IHfs. }
  destruct HQ as (nv & ne & no & E1 & K1 & E2 & K2 & E3 & K3 & Hd). cbn [st_vids st_eids st_outs] in *.
  exists (map (fun v => (v_vid v, root)) vs ++ nv), (map (fun e => (e_eid e, false)) es ++ ne), (no0 ++ no).
  rewrite all_vids_eq, all_eids_eq, all_outs_eq.
  rewrite E1, Ev, E2, Ee, E3, Eo, <- !app_assoc, !map_app, K1, K2, K3, Eno, !map_map. cbn [fst].
  repeat split.
  intros n t v Hin. rewrite in_app_iff in Hin. destruct Hin as [Hin|Hin].
  - destruct (Hno0 _ _ _ Hin) as (cf & Hcf & -> & Ht). eapply decl_own; eauto.
  - destruct (Hd _ _ _ Hin) as (h & sub & Hin' & [(Hn & -> & Ht)|Hdec]).
    + eapply decl_count; eauto.
    + eapply decl_inner; eauto.
Qed.

(* ================================================================== *)
(* 7. indexing succeeds on well-formed queries with shallow outputs    *)
(* ================================================================== *)
Lemma NoDup_app3_l {A} (a b c : list A) : NoDup (a ++ b ++ c) -> NoDup (a ++ b).
Proof. rewrite app_assoc. apply NoDup_app_l. Qed.

Lemma wrap_lists_T s : forall stack a, (adepth a + List.length stack <= 30)%nat ->
  exists a', wrap_lists (T s a) stack = Ok (T s a') /\ adepth a' = (adepth a + List.length stack)%nat.
Proof.
  induction stack as [|b r IH]; intros a Hd; cbn [wrap_lists List.length] in *.
  - exists a. split; [reflexivity|lia].
  - rewrite ty_list_T by lia. destruct (Nat.leb_spec 30 (adepth a)); [lia|]. cbn [bind].
    destruct (IH (AList b a)) as (a' & E & D); [cbn [adepth]; lia|].
    exists a'. split; [exact E|]. cbn [adepth] in D. lia.
Qed.

Lemma get_output_type_ok v ft opt stack :
  wf_ty ft = true -> (ty_depth ft + List.length stack <= 30)%nat ->
  exists t, get_output_type v ft opt stack = Ok t /\ wf_ty t = true.
Proof.
  intros W Hd. destruct (wf_view' _ W) as (s & a & Ha & ->). rewrite ty_depth_T in Hd by assumption.
  unfold get_output_type. destruct (memN v opt).
  - rewrite with_nullability_T.
    assert (D : adepth (awith_null a true) = adepth a) by (destruct a; reflexivity).
    destruct (wrap_lists_T s stack (awith_null a true)) as (a' & E & D'); [lia|].
    exists (T s a'). split; [exact E|]. apply wf_T. lia.
  - destruct (wrap_lists_T s stack a) as (a' & E & D'); [lia|].
    exists (T s a'). split; [exact E|]. apply wf_T. lia.
Qed.

Lemma count_type_wf : wf_ty count_type = true /\ ty_depth count_type = O.
Proof. unfold count_type. pose proof (ty_named_wf "Int" false) as H. tauto. Qed.

Lemma var_checks_ok vars vids feids avail v :
  vertex_wf vars vids feids avail v = true -> check_filters_vars vars (v_filters v) = None.
Proof.
  unfold vertex_wf. induction (v_filters v) as [|f r IH]; cbn [forallb check_filters_vars]; [reflexivity|].
  intros H. apply andb_prop in H. destruct H as (Hf & Hr). rewrite (IH Hr).
  unfold arg_wf in Hf. apply andb_prop in Hf. destruct Hf as (Hv & _).
  unfold check_filter_var, var_ok in *. destruct (vf_arg f) as [[r0|x t]|]; try reflexivity.
  destruct (lookup_str x vars) as [t0|]; [|discriminate]. now rewrite Hv.
Qed.

Lemma add_vertices_ok root vars vs : forall vids,
  (forall v, In v vs -> check_filters_vars vars (v_filters v) = None) ->
  NoDup (map fst vids ++ map v_vid vs) ->
  exists vids', add_vertices root vars vs vids = inr vids'.
Proof.
  induction vs as [|v r IH]; intros vids Hc Hn; cbn [add_vertices]; [eauto|].
  assert (Hk : Indexed.has_key_N (v_vid v) vids = false).
  { apply ix_has_key_N_false. intros Hin. apply (NoDup_app_disj _ _ _ Hn Hin). now left. }
  rewrite Hk, (Hc v (or_introl eq_refl)). apply IH.
  - intros v' Hv'. apply Hc. now right.
  - rewrite map_app. cbn [map fst]. rewrite <- app_assoc. exact Hn.
Qed.

Lemma lookup_N_own (root : N) vs v : In v (map v_vid vs) ->
  lookup_N v (map (fun x => (v_vid x, root)) vs) = Some root.
Proof.
  induction vs as [|x r IH]; cbn [map In lookup_N]; [intros []|].
  destruct (N.eqb_spec v (v_vid x)) as [->|Hne]; [reflexivity|]. intros [E|Hin]; [congruence|auto].
Qed.

Lemma owner_check_ok root vids v a b : lookup_N v vids = Some root -> owner_check root vids v a b = None.
Proof. unfold owner_check. intros ->. now rewrite N.eqb_refl. Qed.

Lemma add_outputs_ok root opt stack outs vids : forall acc,
  (forall n cf, In (n, cf) outs ->
     lookup_N (cf_vid cf) vids = Some root /\
     exists t, get_output_type (cf_vid cf) (cf_ty cf) opt stack = Ok t) ->
  NoDup (map fst acc ++ map fst outs) ->
  exists acc', add_outputs root opt stack outs vids acc = Ok (inr acc').
Proof.
  induction outs as [|[name cf] r IH]; intros acc Ho Hn; cbn [add_outputs]; [eauto|].
  destruct (Ho name cf (or_introl eq_refl)) as (Hl & t & Ht).
  rewrite (owner_check_ok _ _ _ _ _ Hl), Ht. cbn [bind].
  assert (Hk : has_key_str name acc = false).
  { apply ix_has_key_str_false. intros Hin. apply (NoDup_app_disj _ _ _ Hn Hin). now left. }
  rewrite Hk. apply IH.
  - intros n cf' Hin. apply (Ho n cf'). now right.
  - rewrite map_app. cbn [map fst]. rewrite <- app_assoc. exact Hn.
Qed.

Lemma add_edges_ok root es vids : forall eids,
  (forall e, In e es -> e_to e = e_eid e + 1 /\ lookup_N (e_from e) vids = Some root
                        /\ lookup_N (e_to e) vids = Some root) ->
  NoDup (map fst eids ++ map e_eid es) ->
  exists eids', add_edges root es vids eids = inr eids'.
Proof.
  induction es as [|e r IH]; intros eids He Hn; cbn [add_edges]; [eauto|].
  destruct (He e (or_introl eq_refl)) as (E1 & E2 & E3).
  rewrite E1, N.eqb_refl. cbn [negb].
  rewrite (owner_check_ok _ _ _ _ _ E2). rewrite <- E1, (owner_check_ok _ _ _ _ _ E3).
  assert (Hk : Indexed.has_key_N (e_eid e) eids = false).
  { apply ix_has_key_N_false. intros Hin. apply (NoDup_app_disj _ _ _ Hn Hin). now left. }
  rewrite Hk. apply IH.
  - intros e' Hin. apply He. now right.
  - rewrite map_app. cbn [map fst]. rewrite <- app_assoc. exact Hn.
Qed.

Lemma add_fsouts_ok h opt stack names : forall acc,
  (names = [] \/ exists t, get_output_type (fo_from h) count_type opt stack = Ok t) ->
  NoDup (map fst acc ++ names) ->
  exists acc', add_fsouts h opt stack names acc = Ok (inr acc').
Proof.
  induction names as [|name r IH]; intros acc Ht Hn; cbn [add_fsouts]; [eauto|].
  destruct Ht as [Ht|(t & Ht)]; [discriminate|]. rewrite Ht. cbn [bind].
  assert (Hk : has_key_str name acc = false).
  { apply ix_has_key_str_false. intros Hin. apply (NoDup_app_disj _ _ _ Hn Hin). now left. }
  rewrite Hk. apply IH; [right; eauto|].
  rewrite map_app. cbn [map fst]. rewrite <- app_assoc. exact Hn.
Qed.

Lemma fold_loop_ok {S} (body : fold_hdr -> raw_comp -> S -> ires S)
      (Pf : raw_fold -> Prop) (I : list raw_fold -> S -> Prop) :
  (forall h sub r st, Pf (RFold h sub) -> I (RFold h sub :: r) st ->
                      exists st1, body h sub st = Ok (inr st1) /\ I r st1) ->
  forall fs, Forall Pf fs -> forall st, I fs st -> exists st', fold_loop body fs st = Ok (inr st').
Proof.
  intros Hstep fs HF. induction HF as [|[h sub] r Hp _ IH]; intros st Hi; cbn [fold_loop]; [eauto|].
  destruct (Hstep _ _ _ _ Hp Hi) as (st1 & Hb & Hi1). rewrite Hb. cbn [bind]. apply IH. exact Hi1.
Qed.

Lemma shallow_comp_inv d root vs es fs outs :
  shallow_comp d (RComp root vs es fs outs) = true ->
  (forall o, In o outs -> wf_ty (cf_ty (snd o)) = true /\ (ty_depth (cf_ty (snd o)) + d <= 30)%nat) /\
  (forall h sub, In (RFold h sub) fs -> (fo_fsout h = [] \/ (d <= 30)%nat) /\ shallow_comp (S d) sub = true).
Proof.
  cbn [shallow_comp]. intros H. apply andb_prop in H. destruct H as (H1 & H2).
  rewrite forallb_forall in H1, H2. split.
  - intros o Ho. specialize (H1 _ Ho). apply andb_prop in H1. destruct H1 as (W & D).
    apply Nat.leb_le in D. auto.
  - intros h sub Hin. specialize (H2 _ Hin). cbn beta iota in H2. apply andb_prop in H2. destruct H2 as (C & Sh).
    split; [|exact Sh]. destruct (fo_fsout h); [now left|right; now apply Nat.leb_le].
Qed.

Lemma add_ok vars : forall c avail stack st,
  wf_comp vars avail c = true -> shallow_comp (List.length stack) c = true ->
  NoDup (map fst (st_vids st) ++ all_vids c) ->
  NoDup (map fst (st_eids st) ++ all_eids c) ->
  NoDup (map fst (st_outs st) ++ all_outs c) ->
  exists st', add_data_from_component vars c stack st = Ok (inr st').
Proof.
  induction c as [root vs es fs outs IHfs] using raw_comp_ind'. intros avail stack st Hwf Hsh Hnv Hne Hno.
  pose proof (wf_comp_inv _ _ _ _ _ _ _ Hwf) as (Hse & Hsf & Hroot & Hent & Hedges & Hverts & Houts & Hfolds).
  destruct (shallow_comp_inv _ _ _ _ _ _ Hsh) as (Hsho & Hshf).
  rewrite all_vids_eq in Hnv. rewrite all_eids_eq in Hne. rewrite all_outs_eq in Hno.
  cbn [add_data_from_component].
  (* -1 *)
  assert (Hfv : exists rv, find_vertex vs root = Some rv).
  { clear - Hroot. unfold comp_vids in Hroot. induction vs as [|v r IH]; [destruct Hroot|].
    cbn [find_vertex]. destruct (N.eqb_spec (v_vid v) root); [eauto|].
    apply IH. destruct Hroot as [E|H]; [congruence|exact H]. }
  destruct Hfv as (rv & ->). cbn [negb].
  (* vertices *)
  destruct (add_vertices_ok root vars vs (st_vids st)) as (vids & Ev).
  { intros v Hv. eapply var_checks_ok. apply Hverts. exact Hv. }
  { eapply NoDup_app3_l. exact Hnv. }
  rewrite Ev. pose proof (add_vertices_shape _ _ _ _ _ Ev) as Evs.
  assert (Hown : forall v, In v (comp_vids vs) -> lookup_N v vids = Some root).
  { intros v Hv. rewrite Evs, lookup_N_app.
    assert (Hnone : lookup_N v (st_vids st) = None).
    { apply lookup_N_none. intros Hin. apply (NoDup_app_disj _ _ v Hnv Hin). apply in_or_app. now left. }
    rewrite Hnone. now apply lookup_N_own. }
  set (opt := optional_vertices es).
  (* outputs *)
  destruct (add_outputs_ok root opt stack outs vids (st_outs st)) as (outs1 & Eo).
  { intros n cf Hin. split; [apply Hown; exact (Houts _ Hin)|].
    destruct (Hsho _ Hin) as (W & D). cbn [snd] in W, D.
    destruct (get_output_type_ok (cf_vid cf) (cf_ty cf) opt stack W D) as (t & Ht & _). eauto. }
  { eapply NoDup_app3_l. exact Hno. }
  rewrite Eo. cbn [bind].
  destruct (add_outputs_shape _ _ _ _ _ _ _ Eo) as (no0 & Eos & Kno0 & _).
  (* edges *)
  destruct (add_edges_ok root es vids (st_eids st)) as (eids1 & Ee).
  { intros e He. destruct (edge_wf_inv _ _ (Hedges _ He)) as (E1 & E2 & E3 & _). auto. }
  { eapply NoDup_app3_l. exact Hne. }
  rewrite Ee. pose proof (add_edges_shape _ _ _ _ _ Ee) as Ees.
  (* folds *)
  apply (fold_loop_ok _
           (fun f => In f fs /\
              forall avail stack st,
                wf_comp vars avail (rf_comp f) = true -> shallow_comp (List.length stack) (rf_comp f) = true ->
                NoDup (map fst (st_vids st) ++ all_vids (rf_comp f)) ->
                NoDup (map fst (st_eids st) ++ all_eids (rf_comp f)) ->
                NoDup (map fst (st_outs st) ++ all_outs (rf_comp f)) ->
                exists st', add_data_from_component vars (rf_comp f) stack st = Ok (inr st'))
           (fun l s =>
              NoDup (map fst (st_vids s) ++ flat_map sub_vids l) /\
              NoDup (map fst (st_eids s) ++ flat_map sub_eids l) /\
              NoDup (map fst (st_outs s) ++ flat_map sub_outs l) /\
              forall v, In v (comp_vids vs) -> lookup_N v (st_vids s) = Some root)).
  - intros h sub r s (Hin & IH) (Iv & Ie & Io & Il). cbn [rf_comp flat_map sub_vids sub_eids sub_outs] in *.
    destruct (Hfolds _ _ Hin) as (Hh & Hiv & _ & Hwf').
    destruct (fold_hdr_wf_inv _ _ _ _ _ _ Hh) as (F1 & F2 & _ & F4 & _).
    destruct (Hshf _ _ Hin) as (Hc & Hsh').
    (* header *)
    assert (Hhdr : exists s2, fold_header root opt stack h sub s = Ok (inr s2)).
    { unfold fold_header. rewrite F1, N.eqb_refl. cbn [negb].
      rewrite (owner_check_ok _ _ _ _ _ (Il _ F2)). rewrite <- F1, F4, N.eqb_refl. cbn [negb].
      assert (Hk : Indexed.has_key_N (fo_eid h) (st_eids s) = false).
      { apply ix_has_key_N_false. intros Hk. apply (NoDup_app_disj _ _ _ Ie Hk). now left. }
      rewrite Hk.
      destruct (add_fsouts_ok h opt stack (fo_fsout h) (st_outs s)) as (o' & Eo').
      { destruct Hc as [Hc|Hc]; [now left|right].
        destruct count_type_wf as (W & D).
        destruct (get_output_type_ok (fo_from h) count_type opt stack W) as (t & Ht & _); [rewrite D; exact Hc|eauto]. }
      { eapply NoDup_app3_l. rewrite <- app_assoc in Io. exact Io. }
      rewrite Eo'. cbn [bind]. eauto. }
    destruct Hhdr as (s2 & Hs2). rewrite Hs2. cbn [bind].
    destruct (fold_header_shape _ _ _ _ _ _ _ Hs2) as (G1 & G2 & (nof & G3 & G4 & _)).
    destruct (IH (fo_imported h ++ avail) (memN (fo_from h) opt :: stack) s2) as (s1 & Hs1).
    + exact Hwf'. + exact Hsh'.
    + rewrite G1. eapply NoDup_app3_l. exact Iv.
    + rewrite G2, map_app. cbn [map fst]. rewrite <- app_assoc. cbn [app].
      change (fo_eid h :: all_eids sub ++ flat_map sub_eids r) with ((fo_eid h :: all_eids sub) ++ flat_map sub_eids r) in Ie.
      eapply NoDup_app3_l. exact Ie.
    + rewrite G3, map_app, G4, <- app_assoc. rewrite <- app_assoc in Io. rewrite (app_assoc (fo_fsout h)) in Io.
      rewrite app_assoc. rewrite app_assoc in Io. eapply NoDup_app_l. exact Io.
    + exists s1. split; [exact Hs1|].
      destruct (add_shape _ _ _ _ _ Hs1) as (nv & ne & no & A1 & K1 & A2 & K2 & A3 & K3 & _).
      repeat split.
      * rewrite A1, G1, map_app, K1, <- app_assoc. exact Iv.
      * rewrite A2, G2, !map_app, K2. cbn [map fst]. rewrite <- !app_assoc. cbn [app]. exact Ie.
      * rewrite A3, G3, !map_app, K3, G4, <- !app_assoc. rewrite <- app_assoc in Io. exact Io.
      * intros v Hv. rewrite A1, G1, lookup_N_app, (Il _ Hv). reflexivity.
  - apply Forall_forall. intros [h sub] Hin. split; [exact Hin|].
    rewrite Forall_forall in IHfs. exact (IHfs _ Hin).
  - cbn [st_vids st_eids st_outs]. repeat split.
    + rewrite Evs, map_app, map_map. cbn [fst]. rewrite <- app_assoc. exact Hnv.
    + rewrite Ees, map_app, map_map. cbn [fst]. rewrite <- app_assoc. exact Hne.
    + rewrite Eos, map_app, Kno0, <- app_assoc. exact Hno.
    + exact Hown.
Qed.

Theorem indexed_ok q : wf_ir q = true -> shallow_outputs q = true ->
  exists ix, index_query q = Ok (inr ix).
Proof.
  intros H Hs. destruct (wf_ir_inv q H) as (Hwf & Hnv & Hne & Hno & _).
  destruct (add_ok (rq_vars q) (rq_comp q) [] [] (mkSt [] [] []) Hwf Hs) as (st' & E); try assumption.
  unfold index_query. rewrite E. cbn [bind]. eauto.
Qed.
