(* WfIRProofs.v — lemmas behind C11 (wf_ir is sufficient for lowering and indexing; links to the
   engine proofs) and C13 (rows carry exactly the declared outputs, typed as declared). *)
From Coq Require Import Lia Sorted Permutation.
From TF Require Import Values Graph Exec Sem ExecLemmas Sim SimRec SimComp SimOut SimTop TyProofs WfIR.
Local Open Scope string_scope.
Local Open Scope N_scope.
Local Open Scope list_scope.

(* ================================================================== *)
(* 0. reflection of the boolean helpers                                *)
(* ================================================================== *)
Lemma memN_In x l : memN x l = true <-> In x l.
Proof.
  unfold memN. rewrite existsb_exists. split.
  - intros (y & Hy & E). apply N.eqb_eq in E. now subst.
  - intros H. exists x. split; [assumption|apply N.eqb_refl].
Qed.
Lemma memN_false x l : memN x l = false <-> ~ In x l.
Proof. rewrite <- memN_In. destruct (memN x l); split; congruence. Qed.

Lemma mem_str_In x l : mem_str x l = true <-> In x l.
Proof.
  unfold mem_str. rewrite existsb_exists. split.
  - intros (y & Hy & E). apply String.eqb_eq in E. now subst.
  - intros H. exists x. split; [assumption|apply String.eqb_refl].
Qed.

Lemma nodupN_NoDup l : nodupN l = true <-> NoDup l.
Proof.
  induction l as [|a l IH]; cbn [nodupN].
  - split; [constructor|reflexivity].
  - rewrite andb_true_iff, negb_true_iff, memN_false, IH. split.
    + intros (H1 & H2). now constructor.
    + intros H. inversion H; subst. auto.
Qed.
Lemma nodup_str_NoDup l : nodup_str l = true <-> NoDup l.
Proof.
  induction l as [|a l IH]; cbn [nodup_str].
  - split; [constructor|reflexivity].
  - rewrite andb_true_iff, negb_true_iff, IH. split.
    + intros (H1 & H2). constructor; [|assumption]. rewrite <- mem_str_In. congruence.
    + intros H. inversion H as [|? ? Hn Hd]; subst. split; [|assumption].
      destruct (mem_str a l) eqn:E; [|reflexivity]. apply mem_str_In in E. contradiction.
Qed.

Lemma sortedN_strong l : sortedN l = true -> StronglySorted N.lt l.
Proof.
  intros H. apply Sorted_StronglySorted; [intros x y z; apply N.lt_trans|].
  induction l as [|a [|b r] IH]; [constructor|repeat constructor|].
  cbn [sortedN] in H. apply andb_prop in H. destruct H as (H1 & H2).
  constructor; [apply IH; exact H2|]. constructor. now apply N.ltb_lt.
Qed.

Lemma StronglySorted_NoDup l : StronglySorted N.lt l -> NoDup l.
Proof.
  induction 1 as [|a l _ IH HF]; constructor; [|assumption].
  intros Hin. rewrite Forall_forall in HF. specialize (HF _ Hin). lia.
Qed.

Lemma NoDup_app_l {A} (l1 l2 : list A) : NoDup (l1 ++ l2) -> NoDup l1.
Proof. induction l1 as [|a l1 IH]; cbn; [constructor|]. intros H. inversion H; subst. constructor; [|auto]. rewrite in_app_iff in *. tauto. Qed.
Lemma NoDup_app_r {A} (l1 l2 : list A) : NoDup (l1 ++ l2) -> NoDup l2.
Proof. induction l1 as [|a l1 IH]; cbn; [auto|]. intros H. inversion H; auto. Qed.
Lemma NoDup_app_disj {A} (l1 l2 : list A) x : NoDup (l1 ++ l2) -> In x l1 -> In x l2 -> False.
Proof.
  induction l1 as [|a l1 IH]; cbn; [tauto|]. intros H [->|H1] H2; inversion H; subst.
  - apply H3. apply in_or_app. now right.
  - eauto.
Qed.
Lemma NoDup_app_intro {A} (l1 l2 : list A) :
  NoDup l1 -> NoDup l2 -> (forall x, In x l1 -> In x l2 -> False) -> NoDup (l1 ++ l2).
Proof.
  induction l1 as [|a l1 IH]; cbn; [auto|]. intros H1 H2 Hd. inversion H1; subst.
  constructor.
  - rewrite in_app_iff. intros [H|H]; [contradiction|]. eapply Hd; [left; reflexivity|exact H].
  - apply IH; auto. intros x Hx. apply Hd. now right.
Qed.

(* ================================================================== *)
(* 1. induction over components                                        *)
(* ================================================================== *)
Section RawInd.
  Variable P : raw_comp -> Prop.
  Hypothesis Hstep : forall root vs es fs outs,
    Forall (fun f => P (rf_comp f)) fs -> P (RComp root vs es fs outs).
  Fixpoint raw_comp_ind' (c : raw_comp) : P c :=
    match c with
    | RComp root vs es fs outs =>
        Hstep root vs es fs outs
          ((fix go (l : list raw_fold) : Forall (fun f => P (rf_comp f)) l :=
              match l with
              | [] => Forall_nil _
              | f :: r =>
                  Forall_cons f
                    (match f return P (rf_comp f) with RFold h sub => raw_comp_ind' sub end) (go r)
              end) fs)
    end.
End RawInd.

Definition step_P (P : ir_component -> Prop) (s : step) : Prop :=
  match s with SEdge _ => True | SFold _ sub => P sub end.
Section CompInd.
  Variable P : ir_component -> Prop.
  Hypothesis Hstep : forall root vs ss outs, Forall (step_P P) ss -> P (mkComp root vs ss outs).
  Fixpoint ir_component_ind' (c : ir_component) : P c :=
    match c with
    | mkComp root vs ss outs =>
        Hstep root vs ss outs
          ((fix go (l : list step) : Forall (step_P P) l :=
              match l with
              | [] => Forall_nil _
              | s :: r =>
                  Forall_cons s
                    (match s as s0 return step_P P s0 with
                     | SEdge _ => I
                     | SFold _ sub => ir_component_ind' sub
                     end) (go r)
              end) ss)
    end.
End CompInd.

(* sub-lists of the flattenings *)
Lemma all_eids_fold_incl root vs es fs outs h sub :
  In (RFold h sub) fs -> incl (fo_eid h :: all_eids sub) (all_eids (RComp root vs es fs outs)).
Proof.
  intros Hin x Hx. cbn [all_eids]. apply in_or_app. right. apply in_flat_map.
  exists (RFold h sub). split; [assumption|exact Hx].
Qed.

Lemma NoDup_flat_map_in {A B} (f : A -> list B) l x : NoDup (flat_map f l) -> In x l -> NoDup (f x).
Proof.
  induction l as [|a l IH]; cbn [flat_map]; [intros _ []|].
  intros Hn [->|Hin]; [eapply NoDup_app_l; exact Hn|]. apply IH; [eapply NoDup_app_r; exact Hn|exact Hin].
Qed.

Lemma all_eids_fold_nodup root vs es fs outs h sub :
  NoDup (all_eids (RComp root vs es fs outs)) -> In (RFold h sub) fs -> NoDup (fo_eid h :: all_eids sub).
Proof.
  cbn [all_eids]. intros Hn Hin. apply NoDup_app_r in Hn.
  exact (NoDup_flat_map_in _ _ _ Hn Hin).
Qed.

(* ================================================================== *)
(* 2. the merge loop                                                   *)
(* ================================================================== *)
Fixpoint steps_edges (ss : list step) : list ir_edge :=
  match ss with [] => [] | SEdge e :: r => e :: steps_edges r | SFold _ _ :: r => steps_edges r end.
Fixpoint steps_folds (ss : list step) : list (fold_hdr * ir_component) :=
  match ss with [] => [] | SEdge _ :: r => steps_folds r | SFold h c :: r => (h, c) :: steps_folds r end.

Lemma steps_edges_map es : steps_edges (map SEdge es) = es.
Proof. induction es as [|e r IH]; cbn; [reflexivity|now rewrite IH]. Qed.
Lemma steps_folds_map_edges es : steps_folds (map SEdge es) = [].
Proof. induction es as [|e r IH]; cbn; auto. Qed.
Lemma steps_edges_map_folds fs : steps_edges (map (fun hc : fold_hdr * ir_component => SFold (fst hc) (snd hc)) fs) = [].
Proof. induction fs as [|[h c] r IH]; cbn; auto. Qed.
Lemma steps_folds_map fs : steps_folds (map (fun hc : fold_hdr * ir_component => SFold (fst hc) (snd hc)) fs) = fs.
Proof. induction fs as [|[h c] r IH]; cbn; [reflexivity|now rewrite IH]. Qed.

Lemma in_steps ss s :
  In s ss <-> match s with SEdge e => In e (steps_edges ss) | SFold h c => In (h, c) (steps_folds ss) end.
Proof.
  induction ss as [|[e'|h' c'] r IH]; cbn [In steps_edges steps_folds].
  - destruct s; tauto.
  - rewrite IH. destruct s as [e|h c]; cbn [In]; [|split; [intros [H|H]; [discriminate|exact H]|tauto]].
    split; [intros [[= ->]|H]; auto|intros [->|H]; auto].
  - rewrite IH. destruct s as [e|h c]; cbn [In]; [split; [intros [H|H]; [discriminate|exact H]|tauto]|].
    split; [intros [[= -> ->]|H]; auto|intros [[= -> ->]|H]; auto].
Qed.

Lemma merge_steps_nil fs : merge_steps [] fs = Ok (map (fun hc => SFold (fst hc) (snd hc)) fs).
Proof. reflexivity. Qed.
Lemma merge_steps_cons e es' fs :
  merge_steps (e :: es') fs =
  match fs with
  | [] => Ok (SEdge e :: map SEdge es')
  | (h, c) :: fs' =>
      match N.compare (fo_eid h) (e_eid e) with
      | Gt => do r <- merge_steps es' fs; Ok (SEdge e :: r)
      | Lt => do r <- merge_steps (e :: es') fs'; Ok (SFold h c :: r)
      | Eq => Panic "execution.rs:compute_component unreachable (fold.eid == edge.eid)"
      end
  end.
Proof. destruct fs as [|[h c] fs']; reflexivity. Qed.

Definition fold_eids (fs : list (fold_hdr * ir_component)) : list N := map (fun hc => fo_eid (fst hc)) fs.

Lemma merge_steps_ok es : forall fs,
  StronglySorted N.lt (map e_eid es) -> StronglySorted N.lt (fold_eids fs) ->
  (forall x, In x (map e_eid es) -> In x (fold_eids fs) -> False) ->
  exists ss, merge_steps es fs = Ok ss /\ steps_edges ss = es /\ steps_folds ss = fs
             /\ StronglySorted N.lt (map step_eid ss).
Proof.
  induction es as [|e es' IHe]; intros fs He Hf Hd.
  - rewrite merge_steps_nil. eexists. split; [reflexivity|].
    rewrite steps_edges_map_folds, steps_folds_map. repeat split.
    rewrite map_map. cbn [step_eid fst snd]. exact Hf.
  - induction fs as [|[h c] fs' IHf].
    + rewrite merge_steps_cons. eexists. split; [reflexivity|].
      cbn [steps_edges steps_folds]. rewrite steps_edges_map, steps_folds_map_edges. repeat split.
      change (SEdge e :: map SEdge es') with (map SEdge (e :: es')). rewrite map_map. exact He.
    + rewrite merge_steps_cons.
      cbn [map fold_eids fst] in He, Hf, Hd. fold (fold_eids fs') in Hf, Hd.
      inversion He as [|? ? He1 He2]; inversion Hf as [|? ? Hf1 Hf2]; subst.
      destruct (N.compare_spec (fo_eid h) (e_eid e)) as [E|L|G].
      * exfalso. apply (Hd (e_eid e)); [now left|left; now rewrite E].
      * (* the fold goes first *)
        destruct IHf as (ss & Hm & E1 & E2 & Hs).
        { exact Hf1. } { intros x Hx Hy. apply (Hd x Hx). now right. }
        rewrite Hm. cbn [bind]. eexists. split; [reflexivity|].
        cbn [steps_edges steps_folds map step_eid]. rewrite E1, E2. repeat split.
        constructor; [exact Hs|]. apply Forall_forall. intros x Hx.
        apply in_map_iff in Hx. destruct Hx as (s & <- & Hs').
        apply in_steps in Hs'. destruct s as [e0|h0 c0]; cbn [step_eid].
        -- rewrite E1 in Hs'. destruct Hs' as [<-|Hs']; [exact L|].
           rewrite Forall_forall in He2. specialize (He2 (e_eid e0) (in_map _ _ _ Hs')). lia.
        -- rewrite E2 in Hs'. rewrite Forall_forall in Hf2. apply Hf2.
           unfold fold_eids. apply in_map_iff. exists (h0, c0). auto.
      * (* the edge goes first *)
        destruct (IHe ((h, c) :: fs')) as (ss & Hm & E1 & E2 & Hs).
        { exact He1. } { exact Hf. } { intros x Hx. apply Hd. now right. }
        rewrite Hm. cbn [bind]. eexists. split; [reflexivity|].
        cbn [steps_edges steps_folds map step_eid]. rewrite E1, E2. repeat split.
        constructor; [exact Hs|]. apply Forall_forall. intros x Hx.
        apply in_map_iff in Hx. destruct Hx as (s & <- & Hs').
        apply in_steps in Hs'. destruct s as [e0|h0 c0]; cbn [step_eid].
        -- rewrite E1 in Hs'. rewrite Forall_forall in He2. apply He2. now apply in_map.
        -- rewrite E2 in Hs'. destruct Hs' as [[= -> ->]|Hs']; [exact G|].
           rewrite Forall_forall in Hf2.
           assert (fo_eid h < fo_eid h0).
           { apply Hf2. unfold fold_eids. apply in_map_iff. exists (h0, c0). auto. }
           lia.
Qed.

(* ================================================================== *)
(* 3. the visited-vid asserts                                          *)
(* ================================================================== *)
Definition step_from (s : step) : N := match s with SEdge e => e_from e | SFold h _ => fo_from h end.
Definition step_to (s : step) : N := match s with SEdge e => e_to e | SFold h _ => fo_to h end.

Lemma check_visits_ok ss : forall visited,
  StronglySorted N.lt (map step_eid ss) ->
  (forall s, In s ss -> step_to s = step_eid s + 1 /\ step_from s < step_to s) ->
  (forall s, In s ss -> In (step_from s) visited \/ exists s', In s' ss /\ step_to s' = step_from s) ->
  (forall s, In s ss -> ~ In (step_to s) visited) ->
  check_visits visited ss = Ok tt.
Proof.
  induction ss as [|s r IH]; intros visited Hs Hshape Hfrom Hto; [reflexivity|].
  cbn [check_visits].
  replace (match s with SEdge e => (e_from e, e_to e) | SFold h _ => (fo_from h, fo_to h) end)
    with (step_from s, step_to s) by (destruct s; reflexivity).
  cbn [map] in Hs. inversion Hs as [|? ? Hs1 Hs2]; subst.
  destruct (Hshape s (or_introl eq_refl)) as (Et & Hlt).
  assert (Hv : In (step_from s) visited).
  { destruct (Hfrom s (or_introl eq_refl)) as [H|(s' & [<-|Hin] & E)]; [exact H|lia|].
    destruct (Hshape s' (or_intror Hin)) as (Et' & _).
    rewrite Forall_forall in Hs2. specialize (Hs2 _ (in_map step_eid _ _ Hin)). lia. }
  apply memN_In in Hv. rewrite Hv. cbn [negb].
  assert (Hn : memN (step_to s) (step_from s :: visited) = false).
  { apply memN_false. intros [E|Hin]; [lia|]. exact (Hto s (or_introl eq_refl) Hin). }
  rewrite Hn. apply IH.
  - exact Hs1.
  - intros s0 H0. apply Hshape. now right.
  - intros s0 H0. destruct (Hfrom s0 (or_intror H0)) as [H|(s' & [<-|Hin] & E)].
    + left. now right.
    + left. left. exact E.
    + right. exists s'. auto.
  - intros s0 H0 [E|Hin].
    + destruct (Hshape s0 (or_intror H0)) as (Et0 & _).
      rewrite Forall_forall in Hs2. specialize (Hs2 _ (in_map step_eid _ _ H0)). lia.
    + exact (Hto s0 (or_intror H0) Hin).
Qed.

Lemma merge_steps_proj es : forall fs ss,
  merge_steps es fs = Ok ss -> steps_edges ss = es /\ steps_folds ss = fs.
Proof.
  induction es as [|e es' IHe]; intros fs ss H.
  - rewrite merge_steps_nil in H. injection H as <-. now rewrite steps_edges_map_folds, steps_folds_map.
  - revert ss H. induction fs as [|[h c] fs' IHf]; intros ss H; rewrite merge_steps_cons in H.
    + injection H as <-. cbn [steps_edges steps_folds]. now rewrite steps_edges_map, steps_folds_map_edges.
    + destruct (N.compare (fo_eid h) (e_eid e)); [discriminate| |]; inv_bind H; injection H as <-.
      * destruct (IHf _ Hx) as (E1 & E2). cbn [steps_edges steps_folds]. now rewrite E1, E2.
      * destruct (IHe _ _ Hx) as (E1 & E2). cbn [steps_edges steps_folds]. now rewrite E1, E2.
Qed.

(* ================================================================== *)
(* 4. what wf_comp says, clause by clause                              *)
(* ================================================================== *)
Definition comp_vids (vs : list ir_vertex) : list N := map v_vid vs.
Definition comp_feids (fs : list raw_fold) : list N := map (fun f => fo_eid (rf_hdr f)) fs.

Lemma wf_comp_inv vars avail root vs es fs outs :
  wf_comp vars avail (RComp root vs es fs outs) = true ->
  sortedN (map e_eid es) = true /\ sortedN (comp_feids fs) = true /\ In root (comp_vids vs) /\
  (forall v, In v (comp_vids vs) -> v = root \/ In v (map e_to es)) /\
  (forall e, In e es -> edge_wf (comp_vids vs) e = true) /\
  (forall v, In v vs -> vertex_wf vars (comp_vids vs) (comp_feids fs) avail v = true) /\
  (forall o, In o outs -> In (cf_vid (snd o)) (comp_vids vs)) /\
  (forall h sub, In (RFold h sub) fs ->
     fold_hdr_wf vars (comp_vids vs) (comp_feids fs) avail h (raw_root sub) = true /\
     interval_ok sub = true /\
     imports_exact (comp_vids vs) (comp_feids fs) h (tags_used sub) = true /\
     wf_comp vars (fo_imported h ++ avail) sub = true).
Proof.
  cbn [wf_comp]. fold (comp_vids vs). fold (comp_feids fs). intros H.
  apply andb_prop in H. destruct H as (H & Hfolds).
  apply andb_prop in H. destruct H as (H & Houts).
  apply andb_prop in H. destruct H as (H & Hverts).
  apply andb_prop in H. destruct H as (H & Hedges).
  apply andb_prop in H. destruct H as (H & Hentered).
  apply andb_prop in H. destruct H as (H & Hroot).
  apply andb_prop in H. destruct H as (Hse & Hsf).
  rewrite forallb_forall in Hfolds, Houts, Hverts, Hedges, Hentered.
  split; [exact Hse|]. split; [exact Hsf|]. split; [now apply memN_In|].
  split; [|split; [exact Hedges|split; [exact Hverts|split]]].
  - intros v Hv. specialize (Hentered _ Hv). apply orb_prop in Hentered. destruct Hentered as [E|E].
    + left. now apply N.eqb_eq.
    + right. now apply memN_In.
  - intros o Ho. apply memN_In. auto.
  - intros h sub Hin. specialize (Hfolds _ Hin). cbn beta iota in Hfolds.
    apply andb_prop in Hfolds. destruct Hfolds as (Hf & Hw).
    apply andb_prop in Hf. destruct Hf as (Hf & Him).
    apply andb_prop in Hf. destruct Hf as (Hf & Hiv). auto.
Qed.

Lemma edge_wf_inv vids e : edge_wf vids e = true ->
  e_to e = e_eid e + 1 /\ In (e_from e) vids /\ In (e_to e) vids /\ e_from e < e_to e /\ edge_ok e = true.
Proof.
  unfold edge_wf. intros H.
  apply andb_prop in H. destruct H as (H & H5). apply andb_prop in H. destruct H as (H & H4).
  apply andb_prop in H. destruct H as (H & H3). apply andb_prop in H. destruct H as (H1 & H2).
  apply N.eqb_eq in H1. apply memN_In in H2. apply memN_In in H3. apply N.ltb_lt in H4. auto.
Qed.

Lemma fold_hdr_wf_inv vars vids feids avail h r : fold_hdr_wf vars vids feids avail h r = true ->
  fo_to h = fo_eid h + 1 /\ In (fo_from h) vids /\ fo_from h < fo_to h /\ fo_to h = r /\
  (forall p, In p (fo_post h) -> arg_wf vars vids feids avail (fo_to h) (pf_arg p) = true) /\
  (forall t, In t (fo_imported h) -> tag_ok vids feids [] (fo_to h) t = true).
Proof.
  unfold fold_hdr_wf. intros H.
  apply andb_prop in H. destruct H as (H & H6). apply andb_prop in H. destruct H as (H & H5).
  apply andb_prop in H. destruct H as (H & H4). apply andb_prop in H. destruct H as (H & H3).
  apply andb_prop in H. destruct H as (H1 & H2).
  apply N.eqb_eq in H1. apply memN_In in H2. apply N.ltb_lt in H3. apply N.eqb_eq in H4.
  rewrite forallb_forall in H5, H6. auto 10.
Qed.

Lemma interval_ok_inv c : interval_ok c = true ->
  forall e, In e (all_eids c) -> raw_root c <= e /\ e < raw_root c + N.of_nat (List.length (all_eids c)).
Proof.
  unfold interval_ok. intros H e He. rewrite forallb_forall in H. specialize (H _ He).
  apply andb_prop in H. destruct H as (H1 & H2). apply N.leb_le in H1. apply N.ltb_lt in H2. auto.
Qed.

(* ================================================================== *)
(* 5. lowering succeeds on well-formed components                      *)
(* ================================================================== *)
Fixpoint lower_folds (fs : list raw_fold) : res (list (fold_hdr * ir_component)) :=
  match fs with
  | [] => Ok []
  | RFold h sub :: r => do s <- lower sub; do r' <- lower_folds r; Ok ((h, s) :: r')
  end.

Lemma lower_eq root vs es fs outs :
  lower (RComp root vs es fs outs) =
  (do fs' <- lower_folds fs;
   do steps <- merge_steps es fs';
   do _ <- check_visits [root] steps;
   Ok (mkComp root vs steps outs)).
Proof.
  cbn [lower]. f_equal.
Qed.

Lemma lower_folds_inv fs : forall fs', lower_folds fs = Ok fs' ->
  Forall2 (fun f hc => fst hc = rf_hdr f /\ lower (rf_comp f) = Ok (snd hc)) fs fs'.
Proof.
  induction fs as [|[h sub] r IH]; intros fs' H; cbn [lower_folds] in H.
  - injection H as <-. constructor.
  - inv_bind H. inv_bind H. injection H as <-. constructor; [cbn; auto|]. now apply IH.
Qed.

Lemma Forall2_in_r {A B} (R : A -> B -> Prop) l1 l2 y :
  Forall2 R l1 l2 -> In y l2 -> exists x, In x l1 /\ R x y.
Proof.
  induction 1 as [|a b l1 l2 Hab _ IH]; [intros []|].
  intros [<-|Hin]; [exists a; split; [now left|assumption]|].
  destruct (IH Hin) as (x & Hx & HR). exists x. split; [now right|assumption].
Qed.
Lemma Forall2_in_l {A B} (R : A -> B -> Prop) l1 l2 x :
  Forall2 R l1 l2 -> In x l1 -> exists y, In y l2 /\ R x y.
Proof.
  induction 1 as [|a b l1 l2 Hab _ IH]; [intros []|].
  intros [<-|Hin]; [exists b; split; [now left|assumption]|].
  destruct (IH Hin) as (y & Hy & HR). exists y. split; [now right|assumption].
Qed.

Lemma lower_inv root vs es fs outs c' :
  lower (RComp root vs es fs outs) = Ok c' ->
  exists fs' steps, lower_folds fs = Ok fs' /\ merge_steps es fs' = Ok steps /\
                    c' = mkComp root vs steps outs.
Proof.
  rewrite lower_eq. intros H. inv_bind H. inv_bind H. inv_bind H. injection H as <-. eauto.
Qed.

Lemma lower_ok vars : forall c avail,
  wf_comp vars avail c = true -> NoDup (all_eids c) -> interval_ok c = true ->
  exists c', lower c = Ok c'.
Proof.
  induction c as [root vs es fs outs IHfs] using raw_comp_ind'. intros avail Hwf Hnd Hiv.
  pose proof (wf_comp_inv _ _ _ _ _ _ _ Hwf) as (Hse & Hsf & Hroot & Hent & Hedges & _ & _ & Hfolds).
  (* 1. the folded components *)
  assert (Hlf : exists fs', lower_folds fs = Ok fs').
  { assert (Hall : forall h sub, In (RFold h sub) fs -> exists c', lower sub = Ok c').
    { intros h sub Hin. rewrite Forall_forall in IHfs. specialize (IHfs _ Hin). cbn [rf_comp] in IHfs.
      destruct (Hfolds h sub Hin) as (_ & Hiv' & _ & Hwf').
      apply (IHfs _ Hwf'); [|exact Hiv'].
      pose proof (all_eids_fold_nodup _ _ _ _ _ _ _ Hnd Hin) as Hn. now inversion Hn. }
    clear - Hall. induction fs as [|[h sub] r IH]; [exists []; reflexivity|].
    destruct (Hall h sub (or_introl eq_refl)) as (c' & Hc').
    destruct IH as (r' & Hr'); [intros h0 s0 H0; apply (Hall h0 s0); now right|].
    cbn [lower_folds]. rewrite Hc', Hr'. cbn [bind]. eauto. }
  destruct Hlf as (fs' & Hlf).
  pose proof (lower_folds_inv _ _ Hlf) as HF2.
  assert (Efe : fold_eids fs' = comp_feids fs).
  { clear - HF2. unfold fold_eids, comp_feids. induction HF2 as [|f hc l1 l2 (E & _) _ IH]; [reflexivity|].
    cbn [map]. now rewrite IH, E. }
  (* 2. the merge *)
  destruct (merge_steps_ok es fs') as (ss & Hm & Ees & Efs & Hsorted).
  { now apply sortedN_strong. } { rewrite Efe. now apply sortedN_strong. }
  { rewrite Efe. intros x Hx Hy. cbn [all_eids] in Hnd. apply (NoDup_app_disj _ _ x Hnd Hx).
    unfold comp_feids in Hy. apply in_map_iff in Hy. destruct Hy as ([h sub] & <- & Hin).
    apply in_flat_map. exists (RFold h sub). split; [assumption|now left]. }
  (* 3. the visited asserts *)
  assert (Hstep : forall s, In s ss ->
            step_to s = step_eid s + 1 /\ step_from s < step_to s /\ In (step_from s) (comp_vids vs)
            /\ In (step_eid s) (all_eids (RComp root vs es fs outs))).
  { intros s Hs. apply in_steps in Hs. destruct s as [e|h c0].
    - rewrite Ees in Hs. destruct (edge_wf_inv _ _ (Hedges _ Hs)) as (E1 & E2 & _ & E4 & _).
      cbn [step_to step_eid step_from]. repeat split; try assumption.
      cbn [all_eids]. apply in_or_app. left. now apply in_map.
    - rewrite Efs in Hs. destruct (Forall2_in_r _ _ _ _ HF2 Hs) as ([h' sub] & Hin & (Eh & _)).
      cbn [fst rf_hdr] in Eh. subst h'.
      destruct (Hfolds _ _ Hin) as (Hh & _). destruct (fold_hdr_wf_inv _ _ _ _ _ _ Hh) as (E1 & E2 & E3 & _).
      cbn [step_to step_eid step_from]. repeat split; try assumption.
      apply (all_eids_fold_incl root vs es fs outs h sub Hin). now left. }
  assert (Hcv : check_visits [root] ss = Ok tt).
  { apply check_visits_ok.
    - exact Hsorted.
    - intros s Hs. destruct (Hstep s Hs) as (E1 & E2 & _). auto.
    - intros s Hs. destruct (Hstep s Hs) as (_ & _ & E3 & _).
      destruct (Hent _ E3) as [->|Hin]; [left; now left|].
      right. apply in_map_iff in Hin. destruct Hin as (e' & E & He').
      exists (SEdge e'). split; [|exact E]. apply in_steps. now rewrite Ees.
    - intros s Hs [E|[]]. destruct (Hstep s Hs) as (E1 & _ & _ & E4).
      destruct (interval_ok_inv _ Hiv _ E4) as (Hlo & _). cbn [raw_root] in Hlo. lia. }
  rewrite lower_eq, Hlf. cbn [bind]. rewrite Hm. cbn [bind]. rewrite Hcv. cbn [bind]. eauto.
Qed.

Lemma wf_ir_inv q : wf_ir q = true ->
  wf_comp (rq_vars q) [] (rq_comp q) = true /\ NoDup (all_vids (rq_comp q)) /\ NoDup (all_eids (rq_comp q))
  /\ NoDup (all_outs (rq_comp q)) /\ interval_ok (rq_comp q) = true.
Proof.
  unfold wf_ir. intros H.
  apply andb_prop in H. destruct H as (H & H5). apply andb_prop in H. destruct H as (H & H4).
  apply andb_prop in H. destruct H as (H & H3). apply andb_prop in H. destruct H as (H1 & H2).
  apply nodupN_NoDup in H2. apply nodupN_NoDup in H3. apply nodup_str_NoDup in H4. auto.
Qed.

Theorem wf_ir_lower_ok q : wf_ir q = true -> exists q', lower_query q = Ok q'.
Proof.
  intros H. destruct (wf_ir_inv q H) as (Hwf & _ & Hne & _ & Hiv).
  destruct (lower_ok _ _ _ Hwf Hne Hiv) as (c' & Hc'). unfold lower_query. rewrite Hc'. cbn [bind]. eauto.
Qed.

(* ================================================================== *)
(* 6. what a successful indexing run has built                         *)
(* ================================================================== *)
Lemma lookup_N_app {A} k (l1 l2 : list (N * A)) :
  lookup_N k (l1 ++ l2) = match lookup_N k l1 with Some x => Some x | None => lookup_N k l2 end.
Proof. induction l1 as [|[k' a] r IH]; cbn [app lookup_N]; [reflexivity|]. destruct (N.eqb k k'); auto. Qed.
Lemma lookup_str_app {A} k (l1 l2 : list (string * A)) :
  lookup_str k (l1 ++ l2) = match lookup_str k l1 with Some x => Some x | None => lookup_str k l2 end.
Proof. induction l1 as [|[k' a] r IH]; cbn [app lookup_str]; [reflexivity|]. destruct (String.eqb k k'); auto. Qed.

Lemma lookup_N_none {A} k (l : list (N * A)) : lookup_N k l = None <-> ~ In k (map fst l).
Proof.
  induction l as [|[k' a] r IH]; cbn [lookup_N map fst In]; [tauto|].
  destruct (N.eqb_spec k k') as [->|Hn]; [split; [discriminate|tauto]|].
  rewrite IH. split; [intros H [E|H']; [congruence|auto]|tauto].
Qed.
Lemma lookup_str_none {A} k (l : list (string * A)) : lookup_str k l = None <-> ~ In k (map fst l).
Proof.
  induction l as [|[k' a] r IH]; cbn [lookup_str map fst In]; [tauto|].
  destruct (String.eqb_spec k k') as [->|Hn]; [split; [discriminate|tauto]|].
  rewrite IH. split; [intros H [E|H']; [congruence|auto]|tauto].
Qed.
Lemma lookup_N_in {A} k (a : A) (l : list (N * A)) : lookup_N k l = Some a -> In (k, a) l.
Proof.
  induction l as [|[k' a'] r IH]; cbn [lookup_N]; [discriminate|].
  destruct (N.eqb_spec k k') as [->|Hn]; [intros [= ->]; now left|right; auto].
Qed.
Lemma lookup_N_nodup {A} k (a : A) (l : list (N * A)) :
  NoDup (map fst l) -> In (k, a) l -> lookup_N k l = Some a.
Proof.
  induction l as [|[k' a'] r IH]; cbn [lookup_N map fst]; [intros _ []|].
  intros Hn [[= -> ->]|Hin]; [now rewrite N.eqb_refl|]. inversion Hn; subst.
  destruct (N.eqb_spec k k') as [->|Hne]; [|auto]. exfalso. apply H1. apply in_map_iff. exists (k', a). auto.
Qed.
Lemma lookup_str_in {A} k (a : A) (l : list (string * A)) : lookup_str k l = Some a -> In (k, a) l.
Proof.
  induction l as [|[k' a'] r IH]; cbn [lookup_str]; [discriminate|].
  destruct (String.eqb_spec k k') as [->|Hn]; [intros [= ->]; now left|right; auto].
Qed.
Lemma lookup_str_nodup {A} k (a : A) (l : list (string * A)) :
  NoDup (map fst l) -> In (k, a) l -> lookup_str k l = Some a.
Proof.
  induction l as [|[k' a'] r IH]; cbn [lookup_str map fst]; [intros _ []|].
  intros Hn [[= -> ->]|Hin]; [now rewrite String.eqb_refl|]. inversion Hn; subst.
  destruct (String.eqb_spec k k') as [->|Hne]; [|auto]. exfalso. apply H1. apply in_map_iff. exists (k', a). auto.
Qed.

Lemma ix_has_key_N_false {A} k (l : list (N * A)) : Indexed.has_key_N k l = false <-> ~ In k (map fst l).
Proof. unfold Indexed.has_key_N. rewrite <- lookup_N_none. destruct (lookup_N k l); split; congruence. Qed.
Lemma ix_has_key_str_false {A} k (l : list (string * A)) : has_key_str k l = false <-> ~ In k (map fst l).
Proof. unfold has_key_str. rewrite <- lookup_str_none. destruct (lookup_str k l); split; congruence. Qed.

Lemma add_vertices_shape root vars vs : forall vids vids',
  add_vertices root vars vs vids = inr vids' -> vids' = vids ++ map (fun v => (v_vid v, root)) vs.
Proof.
  induction vs as [|v r IH]; intros vids vids' H; cbn [add_vertices] in H.
  - injection H as <-. now rewrite app_nil_r.
  - destruct (Indexed.has_key_N (v_vid v) vids); [discriminate|].
    destruct (check_filters_vars vars (v_filters v)); [discriminate|].
    rewrite (IH _ _ H). cbn [map]. now rewrite <- app_assoc.
Qed.

Lemma add_edges_shape root es vids : forall eids eids',
  add_edges root es vids eids = inr eids' -> eids' = eids ++ map (fun e => (e_eid e, false)) es.
Proof.
  induction es as [|e r IH]; intros eids eids' H; cbn [add_edges] in H.
  - injection H as <-. now rewrite app_nil_r.
  - destruct (negb (e_eid e + 1 =? e_to e)); [discriminate|].
    destruct (owner_check root vids (e_from e) 5%Z 6%Z); [discriminate|].
    destruct (owner_check root vids (e_to e) 7%Z 8%Z); [discriminate|].
    destruct (Indexed.has_key_N (e_eid e) eids); [discriminate|].
    rewrite (IH _ _ H). cbn [map]. now rewrite <- app_assoc.
Qed.

Lemma add_outputs_shape root opt stack outs vids : forall acc acc',
  add_outputs root opt stack outs vids acc = Ok (inr acc') ->
  exists no, acc' = acc ++ no /\ map fst no = map fst outs /\
    forall n t v, In (n, (t, v)) no ->
      exists cf, In (n, cf) outs /\ v = cf_vid cf /\ get_output_type (cf_vid cf) (cf_ty cf) opt stack = Ok t.
Proof.
  induction outs as [|[name cf] r IH]; intros acc acc' H; cbn [add_outputs] in H.
  - injection H as <-. exists []. rewrite app_nil_r. split; [reflexivity|]. split; [reflexivity|]. intros ? ? ? [].
  - destruct (owner_check root vids (cf_vid cf) 1%Z 2%Z); [discriminate|].
    inv_bind H. destruct (has_key_str name acc); [discriminate|].
    destruct (IH _ _ H) as (no & -> & E & Hno).
    exists ((name, (x, cf_vid cf)) :: no). rewrite <- app_assoc. cbn [app map fst]. split; [reflexivity|].
    split; [now rewrite E|].
    intros n t v [[= <- <- <-]|Hin].
    + exists cf. split; [now left|]. auto.
    + destruct (Hno _ _ _ Hin) as (cf' & Hcf & Ev & Ht). exists cf'. split; [now right|auto].
Qed.

Lemma add_fsouts_shape h opt stack names : forall acc acc',
  add_fsouts h opt stack names acc = Ok (inr acc') ->
  exists no, acc' = acc ++ no /\ map fst no = names /\
    forall n t v, In (n, (t, v)) no ->
      In n names /\ v = fo_to h /\ get_output_type (fo_from h) count_type opt stack = Ok t.
Proof.
  induction names as [|name r IH]; intros acc acc' H; cbn [add_fsouts] in H.
  - injection H as <-. exists []. rewrite app_nil_r. split; [reflexivity|]. split; [reflexivity|]. intros ? ? ? [].
  - inv_bind H. destruct (has_key_str name acc); [discriminate|].
    destruct (IH _ _ H) as (no & -> & E & Hno).
    exists ((name, (x, fo_to h)) :: no). rewrite <- app_assoc. cbn [app map fst]. split; [reflexivity|].
    split; [now rewrite E|].
    intros n t v [[= <- <- <-]|Hin].
    + split; [now left|]. auto.
    + destruct (Hno _ _ _ Hin) as (Hn & Ev & Ht). split; [now right|auto].
Qed.

Lemma fold_header_shape root opt stack h sub st st2 :
  fold_header root opt stack h sub st = Ok (inr st2) ->
  st_vids st2 = st_vids st /\ st_eids st2 = st_eids st ++ [(fo_eid h, true)] /\
  exists no, st_outs st2 = st_outs st ++ no /\ map fst no = fo_fsout h /\
    forall n t v, In (n, (t, v)) no ->
      In n (fo_fsout h) /\ v = fo_to h /\ get_output_type (fo_from h) count_type opt stack = Ok t.
Proof.
  unfold fold_header. intros H.
  destruct (negb (fo_eid h + 1 =? fo_to h)); [discriminate|].
  destruct (owner_check root (st_vids st) (fo_from h) 11%Z 12%Z); [discriminate|].
  destruct (negb (fo_to h =? raw_root sub)); [discriminate|].
  destruct (Indexed.has_key_N (fo_eid h) (st_eids st)); [discriminate|].
  inv_bind H. destruct x as [e|outs']; [discriminate|]. injection H as <-. cbn [st_vids st_eids st_outs].
  split; [reflexivity|]. split; [reflexivity|]. exact (add_fsouts_shape _ _ _ _ _ _ Hx).
Qed.

Lemma fold_loop_inv {S} (body : fold_hdr -> raw_comp -> S -> ires S)
      (Pf : raw_fold -> Prop) (Q : list raw_fold -> S -> S -> Prop) :
  (forall st, Q [] st st) ->
  (forall h sub r st st1 st', Pf (RFold h sub) -> body h sub st = Ok (inr st1) -> Q r st1 st' ->
                              Q (RFold h sub :: r) st st') ->
  forall fs, Forall Pf fs -> forall st st', fold_loop body fs st = Ok (inr st') -> Q fs st st'.
Proof.
  intros Hnil Hcons fs HF. induction HF as [|[h sub] r Hp _ IH]; intros st st' H; cbn [fold_loop] in H.
  - injection H as <-. apply Hnil.
  - inv_bind H. destruct x as [e|st1]; [discriminate|]. eapply Hcons; eauto.
Qed.

(* the declared outputs, relationally: name, type, vid *)
Inductive declares : raw_comp -> list bool -> string -> ty -> N -> Prop :=
| decl_own root vs es fs outs stack n cf t :
    In (n, cf) outs ->
    get_output_type (cf_vid cf) (cf_ty cf) (optional_vertices es) stack = Ok t ->
    declares (RComp root vs es fs outs) stack n t (cf_vid cf)
| decl_count root vs es fs outs stack h sub n t :
    In (RFold h sub) fs -> In n (fo_fsout h) ->
    get_output_type (fo_from h) count_type (optional_vertices es) stack = Ok t ->
    declares (RComp root vs es fs outs) stack n t (fo_to h)
| decl_inner root vs es fs outs stack h sub n t v :
    In (RFold h sub) fs ->
    declares sub (memN (fo_from h) (optional_vertices es) :: stack) n t v ->
    declares (RComp root vs es fs outs) stack n t v.

Definition sub_vids (f : raw_fold) : list N := match f with RFold _ sub => all_vids sub end.
Definition sub_eids (f : raw_fold) : list N := match f with RFold h sub => fo_eid h :: all_eids sub end.
Definition sub_outs (f : raw_fold) : list string := match f with RFold h sub => fo_fsout h ++ all_outs sub end.

Lemma all_vids_eq root vs es fs outs :
  all_vids (RComp root vs es fs outs) = map v_vid vs ++ flat_map sub_vids fs.
Proof. reflexivity. Qed.
Lemma all_eids_eq root vs es fs outs :
  all_eids (RComp root vs es fs outs) = map e_eid es ++ flat_map sub_eids fs.
Proof. reflexivity. Qed.
Lemma all_outs_eq root vs es fs outs :
  all_outs (RComp root vs es fs outs) = map fst outs ++ flat_map sub_outs fs.
Proof. reflexivity. Qed.

Definition grows (keysv keyse : list N) (keyso : list string) (decl : string -> ty -> N -> Prop)
           (st st' : ixstate) : Prop :=
  exists nv ne no,
    st_vids st' = st_vids st ++ nv /\ map fst nv = keysv /\
    st_eids st' = st_eids st ++ ne /\ map fst ne = keyse /\
    st_outs st' = st_outs st ++ no /\ map fst no = keyso /\
    forall n t v, In (n, (t, v)) no -> decl n t v.

Lemma add_shape vars : forall c stack st st',
  add_data_from_component vars c stack st = Ok (inr st') ->
  grows (all_vids c) (all_eids c) (all_outs c) (declares c stack) st st'.
Proof.
  induction c as [root vs es fs outs IHfs] using raw_comp_ind'. intros stack st st' H.
  cbn [add_data_from_component] in H.
  destruct (negb match find_vertex vs root with Some _ => true | None => false end); [discriminate|].
  destruct (add_vertices root vars vs (st_vids st)) as [e|vids] eqn:Ev; [discriminate|].
  inv_bind H. destruct x as [e|outs1]; [discriminate|].
  destruct (add_edges root es vids (st_eids st)) as [e|eids1] eqn:Ee; [discriminate|].
  apply add_vertices_shape in Ev. apply add_edges_shape in Ee.
  destruct (add_outputs_shape _ _ _ _ _ _ _ Hx) as (no0 & Eo & Eno & Hno0).
  set (opt := optional_vertices es) in *.
  (* the folds loop *)
  pose (Q := fun (l : list raw_fold) (s s' : ixstate) =>
          grows (flat_map sub_vids l) (flat_map sub_eids l) (flat_map sub_outs l)
                (fun n t v => exists h sub, In (RFold h sub) l /\
                   ((In n (fo_fsout h) /\ v = fo_to h /\ get_output_type (fo_from h) count_type opt stack = Ok t)
                    \/ declares sub (memN (fo_from h) opt :: stack) n t v)) s s').
  assert (HQ : Q fs (mkSt vids eids1 outs1) st').
  { revert H. apply (fold_loop_inv _ (fun f => forall stack st st',
        add_data_from_component vars (rf_comp f) stack st = Ok (inr st') ->
        grows (all_vids (rf_comp f)) (all_eids (rf_comp f)) (all_outs (rf_comp f)) (declares (rf_comp f) stack) st st') Q).
    - intros s. exists [], [], []. rewrite !app_nil_r. cbn [flat_map map]. repeat split. intros ? ? ? [].
    - intros h sub r s s1 s' Hp Hb (nv & ne & no & E1 & K1 & E2 & K2 & E3 & K3 & Hd).
      inv_bind Hb. destruct x as [e|s2]; [discriminate|].
      destruct (fold_header_shape _ _ _ _ _ _ _ Hx0) as (F1 & F2 & (nof & F3 & F4 & F5)).
      destruct (Hp _ _ _ Hb) as (nv' & ne' & no' & G1 & K1' & G2 & K2' & G3 & K3' & Hd'). cbn [rf_comp] in *.
      exists (nv' ++ nv), ((fo_eid h, true) :: ne' ++ ne), (nof ++ no' ++ no).
      cbn [flat_map sub_vids sub_eids sub_outs].
      rewrite E1, G1, F1, E2, G2, F2, E3, G3, F3, <- !app_assoc. cbn [app].
      split; [reflexivity|]. split; [now rewrite map_app, K1', K1|]. split; [reflexivity|].
      split; [cbn [map fst]; now rewrite map_app, K2', K2|]. split; [reflexivity|].
      split; [now rewrite !map_app, F4, K3', K3|].
      intros n t v Hin. rewrite !in_app_iff in Hin. destruct Hin as [Hin|[Hin|Hin]].
      + exists h, sub. split; [now left|]. left. exact (F5 _ _ _ Hin).
      + exists h, sub. split; [now left|]. right. exact (Hd' _ _ _ Hin).
      + destruct (Hd _ _ _ Hin) as (h' & sub' & Hin' & Hc). exists h', sub'. split; [now right|exact Hc].
    - exact IHfs. }
  destruct HQ as (nv & ne & no & E1 & K1 & E2 & K2 & E3 & K3 & Hd). cbn [st_vids st_eids st_outs] in *.
  exists (map (fun v => (v_vid v, root)) vs ++ nv), (map (fun e => (e_eid e, false)) es ++ ne), (no0 ++ no).
  rewrite all_vids_eq, all_eids_eq, all_outs_eq.
  rewrite E1, Ev, E2, Ee, E3, Eo, <- !app_assoc, !map_app, K1, K2, K3, Eno, !map_map. cbn [fst].
  repeat split.
  intros n t v Hin. rewrite in_app_iff in Hin. destruct Hin as [Hin|Hin].
  - destruct (Hno0 _ _ _ Hin) as (cf & Hcf & -> & Ht). eapply decl_own; eauto.
  - destruct (Hd _ _ _ Hin) as (h & sub & Hin' & [(Hn & -> & Ht)|Hdec]).
    + eapply decl_count; eauto.
    + eapply decl_inner; eauto.
Qed.

(* ================================================================== *)
(* 7. indexing succeeds on well-formed queries with shallow outputs    *)
(* ================================================================== *)
Lemma NoDup_app3_l {A} (a b c : list A) : NoDup (a ++ b ++ c) -> NoDup (a ++ b).
Proof. rewrite app_assoc. apply NoDup_app_l. Qed.

Lemma NoDup_app4_l {A} (a b c d : list A) : NoDup (a ++ b ++ c ++ d) -> NoDup (a ++ b ++ c).
Proof. rewrite (app_assoc b), app_assoc. intros H. now apply NoDup_app_l in H. Qed.

Lemma wrap_lists_T s : forall stack a, (adepth a + List.length stack <= 30)%nat ->
  exists a', wrap_lists (T s a) stack = Ok (T s a') /\ adepth a' = (adepth a + List.length stack)%nat.
Proof.
  induction stack as [|b r IH]; intros a Hd; cbn [wrap_lists List.length] in *.
  - exists a. split; [reflexivity|lia].
  - rewrite ty_list_T by lia. destruct (Nat.leb_spec 30 (adepth a)); [lia|]. cbn [bind].
    destruct (IH (AList b a)) as (a' & E & D); [cbn [adepth]; lia|].
    exists a'. split; [exact E|]. cbn [adepth] in D. lia.
Qed.

Lemma get_output_type_ok v ft opt stack :
  wf_ty ft = true -> (ty_depth ft + List.length stack <= 30)%nat ->
  exists t, get_output_type v ft opt stack = Ok t /\ wf_ty t = true.
Proof.
  intros W Hd. destruct (wf_view' _ W) as (s & a & Ha & ->). rewrite ty_depth_T in Hd by assumption.
  unfold get_output_type. destruct (memN v opt).
  - rewrite with_nullability_T.
    assert (D : adepth (awith_null a true) = adepth a) by (destruct a; reflexivity).
    destruct (wrap_lists_T s stack (awith_null a true)) as (a' & E & D'); [lia|].
    exists (T s a'). split; [exact E|]. apply wf_T. lia.
  - destruct (wrap_lists_T s stack a) as (a' & E & D'); [lia|].
    exists (T s a'). split; [exact E|]. apply wf_T. lia.
Qed.

Lemma count_type_wf : wf_ty count_type = true /\ ty_depth count_type = O.
Proof. unfold count_type. pose proof (ty_named_wf "Int" false) as H. tauto. Qed.

Lemma var_checks_ok vars vids feids avail v :
  vertex_wf vars vids feids avail v = true -> check_filters_vars vars (v_filters v) = None.
Proof.
  unfold vertex_wf. induction (v_filters v) as [|f r IH]; cbn [forallb check_filters_vars]; [reflexivity|].
  intros H. apply andb_prop in H. destruct H as (Hf & Hr). rewrite (IH Hr).
  unfold arg_wf in Hf. apply andb_prop in Hf. destruct Hf as (Hv & _).
  unfold check_filter_var, var_ok in *. destruct (vf_arg f) as [[r0|x t]|]; try reflexivity.
  destruct (lookup_str x vars) as [t0|]; [|discriminate]. now rewrite Hv.
Qed.

Lemma add_vertices_ok root vars vs : forall vids,
  (forall v, In v vs -> check_filters_vars vars (v_filters v) = None) ->
  NoDup (map fst vids ++ map v_vid vs) ->
  exists vids', add_vertices root vars vs vids = inr vids'.
Proof.
  induction vs as [|v r IH]; intros vids Hc Hn; cbn [add_vertices]; [eauto|].
  assert (Hk : Indexed.has_key_N (v_vid v) vids = false).
  { apply ix_has_key_N_false. intros Hin. apply (NoDup_app_disj _ _ _ Hn Hin). now left. }
  rewrite Hk, (Hc v (or_introl eq_refl)). apply IH.
  - intros v' Hv'. apply Hc. now right.
  - rewrite map_app. cbn [map fst]. rewrite <- app_assoc. exact Hn.
Qed.

Lemma lookup_N_own (root : N) vs v : In v (map v_vid vs) ->
  lookup_N v (map (fun x => (v_vid x, root)) vs) = Some root.
Proof.
  induction vs as [|x r IH]; cbn [map In lookup_N]; [intros []|].
  destruct (N.eqb_spec v (v_vid x)) as [->|Hne]; [reflexivity|]. intros [E|Hin]; [congruence|auto].
Qed.

Lemma owner_check_ok root vids v a b : lookup_N v vids = Some root -> owner_check root vids v a b = None.
Proof. unfold owner_check. intros ->. now rewrite N.eqb_refl. Qed.

Lemma add_outputs_ok root opt stack outs vids : forall acc,
  (forall n cf, In (n, cf) outs ->
     lookup_N (cf_vid cf) vids = Some root /\
     exists t, get_output_type (cf_vid cf) (cf_ty cf) opt stack = Ok t) ->
  NoDup (map fst acc ++ map fst outs) ->
  exists acc', add_outputs root opt stack outs vids acc = Ok (inr acc').
Proof.
  induction outs as [|[name cf] r IH]; intros acc Ho Hn; cbn [add_outputs]; [eauto|].
  destruct (Ho name cf (or_introl eq_refl)) as (Hl & t & Ht).
  rewrite (owner_check_ok _ _ _ _ _ Hl), Ht. cbn [bind].
  assert (Hk : has_key_str name acc = false).
  { apply ix_has_key_str_false. intros Hin. apply (NoDup_app_disj _ _ _ Hn Hin). now left. }
  rewrite Hk. apply IH.
  - intros n cf' Hin. apply (Ho n cf'). now right.
  - rewrite map_app. cbn [map fst]. rewrite <- app_assoc. exact Hn.
Qed.

Lemma add_edges_ok root es vids : forall eids,
  (forall e, In e es -> e_to e = e_eid e + 1 /\ lookup_N (e_from e) vids = Some root
                        /\ lookup_N (e_to e) vids = Some root) ->
  NoDup (map fst eids ++ map e_eid es) ->
  exists eids', add_edges root es vids eids = inr eids'.
Proof.
  induction es as [|e r IH]; intros eids He Hn; cbn [add_edges]; [eauto|].
  destruct (He e (or_introl eq_refl)) as (E1 & E2 & E3).
  rewrite E1, N.eqb_refl. cbn [negb].
  rewrite (owner_check_ok _ _ _ _ _ E2). rewrite <- E1, (owner_check_ok _ _ _ _ _ E3).
  assert (Hk : Indexed.has_key_N (e_eid e) eids = false).
  { apply ix_has_key_N_false. intros Hin. apply (NoDup_app_disj _ _ _ Hn Hin). now left. }
  rewrite Hk. apply IH.
  - intros e' Hin. apply He. now right.
  - rewrite map_app. cbn [map fst]. rewrite <- app_assoc. exact Hn.
Qed.

Lemma add_fsouts_ok h opt stack names : forall acc,
  (names = [] \/ exists t, get_output_type (fo_from h) count_type opt stack = Ok t) ->
  NoDup (map fst acc ++ names) ->
  exists acc', add_fsouts h opt stack names acc = Ok (inr acc').
Proof.
  induction names as [|name r IH]; intros acc Ht Hn; cbn [add_fsouts]; [eauto|].
  destruct Ht as [Ht|(t & Ht)]; [discriminate|]. rewrite Ht. cbn [bind].
  assert (Hk : has_key_str name acc = false).
  { apply ix_has_key_str_false. intros Hin. apply (NoDup_app_disj _ _ _ Hn Hin). now left. }
  rewrite Hk. apply IH; [right; eauto|].
  rewrite map_app. cbn [map fst]. rewrite <- app_assoc. exact Hn.
Qed.

Lemma fold_loop_ok {S} (body : fold_hdr -> raw_comp -> S -> ires S)
      (Pf : raw_fold -> Prop) (I : list raw_fold -> S -> Prop) :
  (forall h sub r st, Pf (RFold h sub) -> I (RFold h sub :: r) st ->
                      exists st1, body h sub st = Ok (inr st1) /\ I r st1) ->
  forall fs, Forall Pf fs -> forall st, I fs st -> exists st', fold_loop body fs st = Ok (inr st').
Proof.
  intros Hstep fs HF. induction HF as [|[h sub] r Hp _ IH]; intros st Hi; cbn [fold_loop]; [eauto|].
  destruct (Hstep _ _ _ _ Hp Hi) as (st1 & Hb & Hi1). rewrite Hb. cbn [bind]. apply IH. exact Hi1.
Qed.

Lemma shallow_comp_inv d root vs es fs outs :
  shallow_comp d (RComp root vs es fs outs) = true ->
  (forall o, In o outs -> wf_ty (cf_ty (snd o)) = true /\ (ty_depth (cf_ty (snd o)) + d <= 30)%nat) /\
  (forall h sub, In (RFold h sub) fs -> (fo_fsout h = [] \/ (d <= 30)%nat) /\ shallow_comp (S d) sub = true).
Proof.
  cbn [shallow_comp]. intros H. apply andb_prop in H. destruct H as (H1 & H2).
  rewrite forallb_forall in H1, H2. split.
  - intros o Ho. specialize (H1 _ Ho). apply andb_prop in H1. destruct H1 as (W & D).
    apply Nat.leb_le in D. auto.
  - intros h sub Hin. specialize (H2 _ Hin). cbn beta iota in H2. apply andb_prop in H2. destruct H2 as (C & Sh).
    split; [|exact Sh]. destruct (fo_fsout h); [now left|right; now apply Nat.leb_le].
Qed.

Lemma add_ok vars : forall c avail stack st,
  wf_comp vars avail c = true -> shallow_comp (List.length stack) c = true ->
  NoDup (map fst (st_vids st) ++ all_vids c) ->
  NoDup (map fst (st_eids st) ++ all_eids c) ->
  NoDup (map fst (st_outs st) ++ all_outs c) ->
  exists st', add_data_from_component vars c stack st = Ok (inr st').
Proof.
  induction c as [root vs es fs outs IHfs] using raw_comp_ind'. intros avail stack st Hwf Hsh Hnv Hne Hno.
  pose proof (wf_comp_inv _ _ _ _ _ _ _ Hwf) as (Hse & Hsf & Hroot & Hent & Hedges & Hverts & Houts & Hfolds).
  destruct (shallow_comp_inv _ _ _ _ _ _ Hsh) as (Hsho & Hshf).
  rewrite all_vids_eq in Hnv. rewrite all_eids_eq in Hne. rewrite all_outs_eq in Hno.
  cbn [add_data_from_component].
  (* -1 *)
  assert (Hfv : exists rv, find_vertex vs root = Some rv).
  { clear - Hroot. unfold comp_vids in Hroot. induction vs as [|v r IH]; [destruct Hroot|].
    cbn [find_vertex]. destruct (N.eqb_spec (v_vid v) root); [eauto|].
    apply IH. destruct Hroot as [E|H]; [congruence|exact H]. }
  destruct Hfv as (rv & ->). cbn [negb].
  (* vertices *)
  destruct (add_vertices_ok root vars vs (st_vids st)) as (vids & Ev).
  { intros v Hv. eapply var_checks_ok. apply Hverts. exact Hv. }
  { eapply NoDup_app3_l. exact Hnv. }
  rewrite Ev. pose proof (add_vertices_shape _ _ _ _ _ Ev) as Evs.
  assert (Hown : forall v, In v (comp_vids vs) -> lookup_N v vids = Some root).
  { intros v Hv. rewrite Evs, lookup_N_app.
    assert (Hnone : lookup_N v (st_vids st) = None).
    { apply lookup_N_none. intros Hin. apply (NoDup_app_disj _ _ v Hnv Hin). apply in_or_app. now left. }
    rewrite Hnone. now apply lookup_N_own. }
  set (opt := optional_vertices es).
  (* outputs *)
  destruct (add_outputs_ok root opt stack outs vids (st_outs st)) as (outs1 & Eo).
  { intros n cf Hin. split; [apply Hown; exact (Houts _ Hin)|].
    destruct (Hsho _ Hin) as (W & D). cbn [snd] in W, D.
    destruct (get_output_type_ok (cf_vid cf) (cf_ty cf) opt stack W D) as (t & Ht & _). eauto. }
  { eapply NoDup_app3_l. exact Hno. }
  rewrite Eo. cbn [bind].
  destruct (add_outputs_shape _ _ _ _ _ _ _ Eo) as (no0 & Eos & Kno0 & _).
  (* edges *)
  destruct (add_edges_ok root es vids (st_eids st)) as (eids1 & Ee).
  { intros e He. destruct (edge_wf_inv _ _ (Hedges _ He)) as (E1 & E2 & E3 & _). auto. }
  { eapply NoDup_app3_l. exact Hne. }
  rewrite Ee. pose proof (add_edges_shape _ _ _ _ _ Ee) as Ees.
  (* folds *)
  apply (fold_loop_ok _
           (fun f => In f fs /\
              forall avail stack st,
                wf_comp vars avail (rf_comp f) = true -> shallow_comp (List.length stack) (rf_comp f) = true ->
                NoDup (map fst (st_vids st) ++ all_vids (rf_comp f)) ->
                NoDup (map fst (st_eids st) ++ all_eids (rf_comp f)) ->
                NoDup (map fst (st_outs st) ++ all_outs (rf_comp f)) ->
                exists st', add_data_from_component vars (rf_comp f) stack st = Ok (inr st'))
           (fun l s =>
              NoDup (map fst (st_vids s) ++ flat_map sub_vids l) /\
              NoDup (map fst (st_eids s) ++ flat_map sub_eids l) /\
              NoDup (map fst (st_outs s) ++ flat_map sub_outs l) /\
              forall v, In v (comp_vids vs) -> lookup_N v (st_vids s) = Some root)).
  - intros h sub r s (Hin & IH) (Iv & Ie & Io & Il). cbn [rf_comp flat_map sub_vids sub_eids sub_outs] in *.
    destruct (Hfolds _ _ Hin) as (Hh & Hiv & _ & Hwf').
    destruct (fold_hdr_wf_inv _ _ _ _ _ _ Hh) as (F1 & F2 & _ & F4 & _).
    destruct (Hshf _ _ Hin) as (Hc & Hsh').
    (* header *)
    assert (Hhdr : exists s2, fold_header root opt stack h sub s = Ok (inr s2)).
    { unfold fold_header. rewrite F1, N.eqb_refl. cbn [negb].
      rewrite (owner_check_ok _ _ _ _ _ (Il _ F2)). rewrite <- F1, F4, N.eqb_refl. cbn [negb].
      assert (Hk : Indexed.has_key_N (fo_eid h) (st_eids s) = false).
      { apply ix_has_key_N_false. intros Hk. apply (NoDup_app_disj _ _ _ Ie Hk). now left. }
      rewrite Hk.
      destruct (add_fsouts_ok h opt stack (fo_fsout h) (st_outs s)) as (o' & Eo').
      { destruct Hc as [Hc|Hc]; [now left|right].
        destruct count_type_wf as (W & D).
        destruct (get_output_type_ok (fo_from h) count_type opt stack W) as (t & Ht & _); [rewrite D; exact Hc|eauto]. }
      { eapply NoDup_app3_l. rewrite <- app_assoc in Io. exact Io. }
      rewrite Eo'. cbn [bind]. eauto. }
    destruct Hhdr as (s2 & Hs2). rewrite Hs2. cbn [bind].
    destruct (fold_header_shape _ _ _ _ _ _ _ Hs2) as (G1 & G2 & (nof & G3 & G4 & _)).
    destruct (IH (fo_imported h ++ avail) (memN (fo_from h) opt :: stack) s2) as (s1 & Hs1).
    + exact Hwf'. + exact Hsh'.
    + rewrite G1. eapply NoDup_app3_l. exact Iv.
    + rewrite G2, map_app. cbn [map fst]. rewrite <- app_assoc. cbn [app].
      change (fo_eid h :: all_eids sub ++ flat_map sub_eids r) with ((fo_eid h :: all_eids sub) ++ flat_map sub_eids r) in Ie.
      eapply NoDup_app3_l. exact Ie.
    + rewrite G3, map_app, G4, <- app_assoc. rewrite <- app_assoc in Io.
      eapply NoDup_app4_l. exact Io.
    + exists s1. split; [exact Hs1|].
      destruct (add_shape _ _ _ _ _ Hs1) as (nv & ne & no & A1 & K1 & A2 & K2 & A3 & K3 & _).
      repeat split.
      * rewrite A1, G1, map_app, K1, <- app_assoc. exact Iv.
      * rewrite A2, G2, !map_app, K2. cbn [map fst]. rewrite <- !app_assoc. cbn [app]. exact Ie.
      * rewrite A3, G3, !map_app, K3, G4, <- !app_assoc. rewrite <- app_assoc in Io. exact Io.
      * intros v Hv. rewrite A1, G1, lookup_N_app, (Il _ Hv). reflexivity.
  - apply Forall_forall. intros [h sub] Hin. split; [exact Hin|].
    rewrite Forall_forall in IHfs. exact (IHfs _ Hin).
  - cbn [st_vids st_eids st_outs]. repeat split.
    + rewrite Evs, map_app, map_map. cbn [fst]. rewrite <- app_assoc. exact Hnv.
    + rewrite Ees, map_app, map_map. cbn [fst]. rewrite <- app_assoc. exact Hne.
    + rewrite Eos, map_app, Kno0, <- app_assoc. exact Hno.
    + exact Hown.
Qed.

Theorem indexed_ok q : wf_ir q = true -> shallow_outputs q = true ->
  exists ix, index_query q = Ok (inr ix).
Proof.
  intros H Hs. destruct (wf_ir_inv q H) as (Hwf & Hnv & Hne & Hno & _).
  destruct (add_ok (rq_vars q) (rq_comp q) [] [] (mkSt [] [] []) Hwf Hs) as (st' & E); try assumption.
  unfold index_query. rewrite E. cbn [bind]. eauto.
Qed.

(* ================================================================== *)
(* 8. links to the engine proofs                                       *)
(* ================================================================== *)
Lemma merge_steps_nofolds es : merge_steps es [] = Ok (map SEdge es).
Proof. destruct es; reflexivity. Qed.

Lemma edges_only_map es : (forall e, In e es -> edge_ok e = true) -> edges_only (map SEdge es) = true.
Proof.
  induction es as [|e r IH]; intros H; cbn [map edges_only]; [reflexivity|].
  rewrite (H e (or_introl eq_refl)). apply IH. intros e' He'. apply H. now right.
Qed.

(* the hypothesis of SimTop.interpret_fold_free_spec / C01_engine_refines_spec_fold_free *)
Theorem wf_ir_edges_only q q' :
  wf_ir q = true -> fold_free q = true -> lower_query q = Ok q' ->
  edges_only (c_steps (q_comp q')) = true.
Proof.
  intros Hwf Hff Hl. destruct (wf_ir_inv q Hwf) as (Hc & _).
  destruct q as [rn rp [root vs es fs outs] vars]. unfold fold_free in Hff. cbn [rq_comp raw_folds rq_vars] in *.
  destruct fs; [|discriminate].
  pose proof (wf_comp_inv _ _ _ _ _ _ _ Hc) as (_ & _ & _ & _ & Hedges & _).
  unfold lower_query in Hl. cbn [rq_comp] in Hl. rewrite lower_eq in Hl. cbn [lower_folds bind] in Hl.
  rewrite merge_steps_nofolds in Hl. cbn [bind] in Hl.
  destruct (check_visits [root] (map SEdge es)); cbn [bind] in Hl; [|discriminate].
  injection Hl as <-. cbn [q_comp c_steps]. apply edges_only_map.
  intros e He. now destruct (edge_wf_inv _ _ (Hedges _ He)) as (_ & _ & _ & _ & Hok).
Qed.

Theorem wf_fold_free_engine_refines re g args q q' rows :
  ty_indep g -> wf_ir q = true -> fold_free q = true -> lower_query q = Ok q' ->
  interpret re g args q' = Ok rows ->
  Forall2 row_equiv rows (sem re g args q').
Proof.
  intros Hi Hwf Hff Hl Hr. eapply interpret_fold_free_spec; eauto using wf_ir_edges_only.
Qed.

Fixpoint all_edges (c : raw_comp) : list ir_edge :=
  match c with
  | RComp _ _ es fs _ => es ++ flat_map (fun f => match f with RFold _ sub => all_edges sub end) fs
  end.

Lemma wf_comp_edges_ok vars : forall c avail, wf_comp vars avail c = true ->
  forall e, In e (all_edges c) -> edge_ok e = true.
Proof.
  induction c as [root vs es fs outs IHfs] using raw_comp_ind'. intros avail Hwf e He.
  pose proof (wf_comp_inv _ _ _ _ _ _ _ Hwf) as (_ & _ & _ & _ & Hedges & _ & _ & Hfolds).
  cbn [all_edges] in He. apply in_app_or in He. destruct He as [He|He].
  - now destruct (edge_wf_inv _ _ (Hedges _ He)) as (_ & _ & _ & _ & Hok).
  - apply in_flat_map in He. destruct He as ([h sub] & Hin & He).
    rewrite Forall_forall in IHfs. destruct (Hfolds _ _ Hin) as (_ & _ & _ & Hw).
    exact (IHfs _ Hin _ Hw _ He).
Qed.

(* the hypothesis `r_depth r0 <> 0` of ExecNoPanic.recursive_expansion_no_panic, for every edge *)
Theorem wf_ir_recursion_depth q : wf_ir q = true ->
  forall e r, In e (all_edges (rq_comp q)) -> e_rec e = Some r -> r_depth r <> 0.
Proof.
  intros Hwf e r He Hr. destruct (wf_ir_inv q Hwf) as (Hc & _).
  pose proof (wf_comp_edges_ok _ _ _ Hc e He) as Hok. unfold edge_ok in Hok. rewrite Hr in Hok.
  destruct (N.eqb_spec (r_depth r) 0); [discriminate|assumption].
Qed.

Theorem index_query_contents q ix : index_query q = Ok (inr ix) ->
  map fst (ix_vids ix) = all_vids (rq_comp q) /\
  map fst (ix_eids ix) = all_eids (rq_comp q) /\
  map fst (ix_outputs ix) = all_outs (rq_comp q).
Proof.
  unfold index_query. intros H. inv_bind H. destruct x as [e|st]; [discriminate|]. injection H as <-.
  destruct (add_shape _ _ _ _ _ Hx) as (nv & ne & no & A1 & K1 & A2 & K2 & A3 & K3 & _).
  cbn [ix_vids ix_eids ix_outputs st_vids st_eids st_outs app] in *. subst. auto.
Qed.

(* ================================================================== *)
(* 9. C13: rows carry exactly the declared output names                *)
(* ================================================================== *)
Section Rows.
  Variable g : graph.

  Definition own_row (vs : list ir_vertex) (a : asg) (outs : list (string * ctxfield)) : row :=
    map (fun o => (fst o, out_value g vs a (snd o))) outs.

  Definition fold_row (a : asg) (h : fold_hdr) (sub : ir_component) : row :=
    match lookup_N (fo_eid h) (a_f a) with
    | Some (Some l) =>
        map (fun n => (n, U64 (Z.of_nat (List.length l)))) (fo_fsout h) ++
        map (fun n => (n, List (map (fun r => row_get r n) (map (project g sub) l)))) (all_output_names sub)
    | _ => map (fun n => (n, Null)) (fo_fsout h ++ all_output_names sub)
    end.

  Fixpoint project_steps (a : asg) (ss : list step) : row :=
    match ss with
    | [] => []
    | SEdge _ :: r => project_steps a r
    | SFold h sub :: r => fold_row a h sub ++ project_steps a r
    end.

  Lemma project_eq root vs ss outs a :
    project g (mkComp root vs ss outs) a = own_row vs a outs ++ project_steps a ss.
  Proof.
    cbn [project]. f_equal. induction ss as [|[e|h sub] r IH]; cbn [project_steps]; [reflexivity|exact IH|].
    rewrite <- IH. reflexivity.
  Qed.

  Fixpoint names_steps (ss : list step) : list string :=
    match ss with
    | [] => []
    | SEdge _ :: r => names_steps r
    | SFold h sub :: r => fo_fsout h ++ all_output_names sub ++ names_steps r
    end.

  Lemma all_output_names_eq root vs ss outs :
    all_output_names (mkComp root vs ss outs) = map fst outs ++ names_steps ss.
  Proof.
    cbn [all_output_names]. f_equal.
  Qed.

  Lemma fold_row_keys a h sub : map fst (fold_row a h sub) = fo_fsout h ++ all_output_names sub.
  Proof.
    unfold fold_row. destruct (lookup_N (fo_eid h) (a_f a)) as [[l|]|].
    - rewrite map_app, !map_map. cbn [fst]. now rewrite !map_id.
    - rewrite map_map. cbn [fst]. now rewrite map_id.
    - rewrite map_map. cbn [fst]. now rewrite map_id.
  Qed.

  (* the key list of a projected row is a function of the query alone *)
  Lemma project_keys c a : map fst (project g c a) = all_output_names c.
  Proof.
    destruct c as [root vs ss outs]. rewrite project_eq, all_output_names_eq, map_app. f_equal.
    - unfold own_row. rewrite map_map. reflexivity.
    - induction ss as [|[e|h sub] r IH]; cbn [project_steps names_steps]; [reflexivity|exact IH|].
      now rewrite map_app, fold_row_keys, IH, <- app_assoc.
  Qed.
End Rows.

Lemma insert_row_s_perm k v r : Permutation (insert_row_s k v r) ((k, v) :: r).
Proof.
  induction r as [|[k' v'] t IH]; cbn [insert_row_s]; [apply Permutation_refl|].
  destruct (String.leb k k'); [apply Permutation_refl|].
  eapply Permutation_trans; [apply perm_skip; exact IH|apply perm_swap].
Qed.
Lemma sort_row_perm r : Permutation (sort_row r) r.
Proof.
  induction r as [|[k v] t IH]; [apply Permutation_refl|]. cbn [sort_row fold_right fst snd].
  fold (sort_row t). eapply Permutation_trans; [apply insert_row_s_perm|]. now apply perm_skip.
Qed.

(* rows carry exactly the declared names *)
Theorem row_names g c a n :
  lookup_str n (sort_row (project g c a)) <> None <-> In n (all_output_names c).
Proof.
  rewrite lookup_sort_row, <- (project_keys g c a). split.
  - intros H. destruct (lookup_str n (project g c a)) eqn:E; [|congruence].
    apply lookup_str_in in E. apply in_map_iff. exists (n, f). auto.
  - intros H E. apply lookup_str_none in E. contradiction.
Qed.

Theorem row_keys_perm g c a : Permutation (map fst (sort_row (project g c a))) (all_output_names c).
Proof. rewrite <- (project_keys g c a). apply Permutation_map. apply sort_row_perm. Qed.

Theorem sem_row_keys re g args q r :
  In r (sem re g args q) ->
  Permutation (map fst r) (all_output_names (q_comp q)) /\
  forall n, lookup_str n r <> None <-> In n (all_output_names (q_comp q)).
Proof.
  unfold sem. intros H. apply in_map_iff in H. destruct H as (a & <- & _).
  split; [apply row_keys_perm|intros n; apply row_names].
Qed.

(* ---- the names the indexer declares are the names the rows carry ---- *)
Lemma names_steps_folds ss :
  names_steps ss = flat_map (fun hc => fo_fsout (fst hc) ++ all_output_names (snd hc)) (steps_folds ss).
Proof.
  induction ss as [|[e|h sub] r IH]; cbn [names_steps steps_folds flat_map fst snd]; [reflexivity|exact IH|].
  now rewrite IH, <- app_assoc.
Qed.

Lemma lower_names : forall c c', lower c = Ok c' -> all_output_names c' = all_outs c.
Proof.
  induction c as [root vs es fs outs IHfs] using raw_comp_ind'. intros c' H.
  destruct (lower_inv _ _ _ _ _ _ H) as (fs' & ss & Hlf & Hm & ->).
  destruct (merge_steps_proj _ _ _ Hm) as (_ & Efs).
  rewrite all_output_names_eq, all_outs_eq, names_steps_folds, Efs. f_equal.
  pose proof (lower_folds_inv _ _ Hlf) as HF2. clear - HF2 IHfs.
  induction HF2 as [|f hc l1 l2 (E1 & E2) _ IH]; [reflexivity|].
  inversion IHfs as [|? ? Hf Hr]; subst. cbn [flat_map]. rewrite (IH Hr), E1, (Hf _ E2).
  destruct f; reflexivity.
Qed.

Theorem declared_names_agree q ix q' :
  index_query q = Ok (inr ix) -> lower_query q = Ok q' ->
  map fst (ix_outputs ix) = all_output_names (q_comp q').
Proof.
  intros Hi Hl. destruct (index_query_contents _ _ Hi) as (_ & _ & ->).
  unfold lower_query in Hl. inv_bind Hl. injection Hl as <-. cbn [q_comp]. symmetry. now apply lower_names.
Qed.

(* ================================================================== *)
(* 10. C13: the shape of the specification's assignments              *)
(* ================================================================== *)
Lemma steps_edges_app l1 l2 : steps_edges (l1 ++ l2) = steps_edges l1 ++ steps_edges l2.
Proof. induction l1 as [|[e|h c] r IH]; cbn [app steps_edges]; [reflexivity|now rewrite IH|exact IH]. Qed.
Lemma steps_folds_app l1 l2 : steps_folds (l1 ++ l2) = steps_folds l1 ++ steps_folds l2.
Proof. induction l1 as [|[e|h c] r IH]; cbn [app steps_folds]; [reflexivity|exact IH|now rewrite IH]. Qed.

Lemma optional_vertices_from_app l1 : forall l2 acc,
  optional_vertices_from (l1 ++ l2) acc = optional_vertices_from l2 (optional_vertices_from l1 acc).
Proof. induction l1 as [|e r IH]; intros l2 acc; cbn [app optional_vertices_from]; [reflexivity|apply IH]. Qed.

Lemma optional_vertices_snoc es e :
  optional_vertices (es ++ [e]) =
  if e_optional e || memN (e_from e) (optional_vertices es) then e_to e :: optional_vertices es
  else optional_vertices es.
Proof. unfold optional_vertices. rewrite optional_vertices_from_app. reflexivity. Qed.

Lemma optional_vertices_mono es e v : In v (optional_vertices es) -> In v (optional_vertices (es ++ [e])).
Proof. rewrite optional_vertices_snoc. destruct (e_optional e || memN (e_from e) (optional_vertices es)); [now right|auto]. Qed.

Lemma Forall2_app_one {A B} (R : A -> B -> Prop) l1 l2 x y :
  Forall2 R l1 l2 -> R x y -> Forall2 R (l1 ++ [x]) (l2 ++ [y]).
Proof. intros H Hxy. apply Forall2_app; [exact H|]. constructor; [exact Hxy|constructor]. Qed.

Lemma Forall2_impl' {A B} (R R' : A -> B -> Prop) l1 l2 :
  (forall x y, R x y -> R' x y) -> Forall2 R l1 l2 -> Forall2 R' l1 l2.
Proof. intros Hi H. induction H; constructor; auto. Qed.

(* every `from` is the root or the `to` of an earlier non-fold edge *)
Fixpoint bound_ok (bound : list N) (ss : list step) : Prop :=
  match ss with
  | [] => True
  | SEdge e :: r => In (e_from e) bound /\ bound_ok (e_to e :: bound) r
  | SFold h _ :: r => In (fo_from h) bound /\ bound_ok bound r
  end.

Lemma bound_ok_incl ss : forall b1 b2, incl b1 b2 -> bound_ok b1 ss -> bound_ok b2 ss.
Proof.
  induction ss as [|[e|h c] r IH]; intros b1 b2 Hi H; cbn [bound_ok] in *; [exact I| |].
  - destruct H as (H1 & H2). split; [auto|]. eapply IH; [|exact H2].
    intros x [<-|Hx]; [now left|right; auto].
  - destruct H as (H1 & H2). split; [auto|]. eapply IH; eauto.
Qed.

Lemma bound_ok_sorted ss : forall bound,
  StronglySorted N.lt (map step_eid ss) ->
  (forall s, In s ss -> step_to s = step_eid s + 1 /\ step_from s < step_to s) ->
  (forall s, In s ss -> In (step_from s) bound \/ exists e', In (SEdge e') ss /\ e_to e' = step_from s) ->
  bound_ok bound ss.
Proof.
  induction ss as [|s r IH]; intros bound Hs Hshape Hfrom; [exact I|].
  cbn [map] in Hs. inversion Hs as [|? ? Hs1 Hs2]; subst.
  destruct (Hshape s (or_introl eq_refl)) as (Et & Hlt).
  assert (Hv : In (step_from s) bound).
  { destruct (Hfrom s (or_introl eq_refl)) as [H|(e' & [E|Hin] & E2)]; [exact H| |].
    - subst s. cbn [step_from step_to] in *. lia.
    - destruct (Hshape _ (or_intror Hin)) as (Et' & _). cbn [step_to step_eid] in Et'.
      rewrite Forall_forall in Hs2. specialize (Hs2 _ (in_map step_eid _ _ Hin)). cbn [step_eid] in Hs2. lia. }
  assert (Hrest : forall bound', incl bound bound' ->
            (forall e, s = SEdge e -> In (e_to e) bound') -> bound_ok bound' r).
  { intros bound' Hi He. apply IH; [exact Hs1|intros s0 H0; apply Hshape; now right|].
    intros s0 H0. destruct (Hfrom s0 (or_intror H0)) as [H|(e' & [E|Hin] & E2)].
    - left. auto.
    - left. rewrite <- E2. apply He. now symmetry.
    - right. eauto. }
  destruct s as [e|h c]; cbn [bound_ok step_from] in *; (split; [exact Hv|]).
  - apply Hrest; [intros x Hx; now right|]. intros e0 [= <-]. now left.
  - apply Hrest; [apply incl_refl|]. intros e0 [=].
Qed.

Section SemShape.
  Variable re_match : string -> string -> option bool.
  Variable g : graph.
  Variable args : list (string * fv).

  Definition opt_of (done : list step) : list N := optional_vertices (steps_edges done).

  Definition elems_ok (sub : ir_component) (l : list asg) : Prop :=
    Forall (fun e => exists imp' n, In e (sem_comp re_match g args sub imp' (Some n))) l.

  Definition fold_entry_ok (done : list step) (hc : fold_hdr * ir_component) (entry : N * option (list asg)) : Prop :=
    fst entry = fo_eid (fst hc) /\
    match snd entry with
    | None => In (fo_from (fst hc)) (opt_of done)
    | Some l => elems_ok (snd hc) l
    end.

  Record sinv (root : N) (done : list step) (a : asg) : Prop := {
    si_keys : map fst (a_v a) = root :: map e_to (steps_edges done);
    si_none : forall v, In (v, None) (a_v a) -> In v (opt_of done);
    si_folds : Forall2 (fold_entry_ok done) (steps_folds done) (a_f a)
  }.

  Lemma step_edge_inv vs ss imp e a a' :
    In a' (step_edge re_match g args vs ss imp e a) ->
    exists c, a' = set_av a (e_to e) c /\
      (c = None -> e_optional e = true \/ lookup_N (e_from e) (a_v a) = Some None
                   \/ lookup_N (e_from e) (a_v a) = None).
  Proof.
    unfold step_edge. destruct (find_vertex vs (e_from e)) as [fromv|]; [|intros []].
    destruct (find_vertex vs (e_to e)) as [tov|]; [|intros []].
    intros H. apply in_flat_map in H. destruct H as (c & Hc & Ha).
    destruct (enter re_match g args vs ss imp a tov c); [|destruct Ha].
    destruct Ha as [<-|[]]. exists c. split; [reflexivity|]. intros ->.
    destruct (lookup_N (e_from e) (a_v a)) as [[v|]|]; [|auto|auto].
    destruct (e_rec e) as [r|].
    - apply in_map_iff in Hc. destruct Hc as (x & Hx & _). discriminate.
    - destruct (g_nbrs g (v_type fromv) (e_name e) (e_params e) v) as [|n0 ns].
      + destruct (e_optional e); [now left|destruct Hc].
      + apply in_map_iff in Hc. destruct Hc as (x & Hx & _). discriminate.
  Qed.

  Lemma step_fold_inv vs ss imp h sub a a' :
    In a' (step_fold re_match g args vs ss imp h (sem_comp re_match g args sub) a) ->
    (exists l, a' = set_af a (fo_eid h) (Some l) /\ elems_ok sub l) \/
    (a' = set_af a (fo_eid h) None /\
     (lookup_N (fo_from h) (a_v a) = Some None \/ lookup_N (fo_from h) (a_v a) = None)).
  Proof.
    unfold step_fold. destruct (find_vertex vs (fo_from h)) as [fromv|]; [|intros []].
    destruct (lookup_N (fo_from h) (a_v a)) as [[v|]|].
    - match goal with |- In _ (if ?b then _ else _) -> _ => destruct b end; [|intros []].
      intros [<-|[]]. left. eexists. split; [reflexivity|].
      apply Forall_forall. intros x Hx. apply in_flat_map in Hx. destruct Hx as (n & _ & Hx). eauto.
    - intros [<-|[]]. right. auto.
    - intros [<-|[]]. right. auto.
  Qed.

  Lemma fold_entry_mono done s hc entry :
    fold_entry_ok done hc entry -> fold_entry_ok (done ++ [s]) hc entry.
  Proof.
    unfold fold_entry_ok, opt_of. intros (E & H). split; [exact E|].
    destruct (snd entry); [exact H|]. rewrite steps_edges_app.
    destruct s as [e|h c]; cbn [steps_edges]; [now apply optional_vertices_mono|now rewrite app_nil_r].
  Qed.

  Lemma sem_steps_inv vs ss imp root : forall todo done rows,
    (forall a, In a rows -> sinv root done a) ->
    bound_ok (root :: map e_to (steps_edges done)) todo ->
    forall a', In a' (sem_steps re_match g args vs ss imp todo rows) -> sinv root (done ++ todo) a'.
  Proof.
    induction todo as [|s todo IH]; intros done rows Hrows Hb a' Ha'.
    - rewrite app_nil_r. cbn [sem_steps] in Ha'. auto.
    - replace (done ++ s :: todo) with ((done ++ [s]) ++ todo) by now rewrite <- app_assoc.
      destruct s as [e|h sub]; cbn [sem_steps bound_ok] in Ha', Hb; destruct Hb as (Hfrom & Hb).
      + eapply IH; [| |exact Ha'].
        * intros a1 H1. apply in_flat_map in H1. destruct H1 as (a0 & H0 & H1).
          destruct (Hrows _ H0) as [K Hn F].
          destruct (step_edge_inv _ _ _ _ _ _ H1) as (c & -> & Hc).
          constructor.
          -- cbn [set_av a_v]. rewrite map_app, K, steps_edges_app. cbn [steps_edges map fst].
             now rewrite map_app.
          -- cbn [set_av a_v]. intros v Hv. apply in_app_or in Hv. unfold opt_of.
             rewrite steps_edges_app. cbn [steps_edges]. destruct Hv as [Hv|[[= <- ->]|[]]].
             ++ apply optional_vertices_mono. now apply Hn.
             ++ rewrite optional_vertices_snoc. destruct (Hc eq_refl) as [Ho|[Hl|Hl]].
                ** rewrite Ho. now left.
                ** apply lookup_N_in in Hl. apply Hn in Hl. apply memN_In in Hl. fold (opt_of done).
                   rewrite Hl, orb_true_r. now left.
                ** exfalso. apply lookup_N_none in Hl. apply Hl. rewrite K. exact Hfrom.
          -- cbn [set_av a_f]. rewrite steps_folds_app. cbn [steps_folds]. rewrite app_nil_r.
             eapply Forall2_impl'; [|exact F]. intros x y. apply fold_entry_mono.
        * rewrite steps_edges_app. cbn [steps_edges]. rewrite map_app. cbn [map].
          eapply bound_ok_incl; [|exact Hb]. intros x [<-|Hx].
          -- right. apply in_or_app. right. now left.
          -- destruct Hx as [<-|Hx]; [now left|]. right. apply in_or_app. now left.
      + eapply IH; [| |exact Ha'].
        * intros a1 H1. apply in_flat_map in H1. destruct H1 as (a0 & H0 & H1).
          destruct (Hrows _ H0) as [K Hn F].
          assert (Hopt : opt_of (done ++ [SFold h sub]) = opt_of done).
          { unfold opt_of. rewrite steps_edges_app. cbn [steps_edges]. now rewrite app_nil_r. }
          assert (HF : Forall2 (fold_entry_ok (done ++ [SFold h sub])) (steps_folds done) (a_f a0)).
          { eapply Forall2_impl'; [|exact F]. intros x y. apply fold_entry_mono. }
          destruct (step_fold_inv _ _ _ _ _ _ _ H1) as [(l & -> & Hl)|(-> & Hl)].
          -- constructor.
             ++ cbn [set_af a_v]. rewrite K, steps_edges_app. cbn [steps_edges]. now rewrite app_nil_r.
             ++ cbn [set_af a_v]. rewrite Hopt. exact Hn.
             ++ cbn [set_af a_f]. rewrite steps_folds_app. cbn [steps_folds].
                apply Forall2_app_one; [exact HF|]. split; [reflexivity|exact Hl].
          -- constructor.
             ++ cbn [set_af a_v]. rewrite K, steps_edges_app. cbn [steps_edges]. now rewrite app_nil_r.
             ++ cbn [set_af a_v]. rewrite Hopt. exact Hn.
             ++ cbn [set_af a_f]. rewrite steps_folds_app. cbn [steps_folds].
                apply Forall2_app_one; [exact HF|]. split; [reflexivity|]. cbn [snd fst]. rewrite Hopt.
                destruct Hl as [Hl|Hl].
                ** apply lookup_N_in in Hl. now apply Hn.
                ** exfalso. apply lookup_N_none in Hl. apply Hl. rewrite K. exact Hfrom.
        * rewrite steps_edges_app. cbn [steps_edges]. rewrite app_nil_r. exact Hb.
  Qed.

  Lemma sem_comp_inv root vs ss outs imp r0 a :
    bound_ok [root] ss ->
    In a (sem_comp re_match g args (mkComp root vs ss outs) imp (Some r0)) ->
    sinv root ss a.
  Proof.
    intros Hb Ha. rewrite sem_comp_eq in Ha. destruct (find_vertex vs root) as [rv|]; [|destruct Ha].
    destruct (enter re_match g args vs ss imp (Asg [] []) rv (Some r0)); [|destruct Ha].
    change (sinv root ([] ++ ss) a). eapply sem_steps_inv; [|exact Hb|exact Ha].
    intros a0 [<-|[]]. constructor; cbn [a_v a_f steps_edges steps_folds map fst].
    - reflexivity.
    - intros v [[=]|[]].
    - constructor.
  Qed.
End SemShape.

(* ================================================================== *)
(* 11. C13: values are valid for the declared types                    *)
(* ================================================================== *)
Lemma wrap_lists_app s1 : forall t s2,
  wrap_lists t (s1 ++ s2) = (do t' <- wrap_lists t s1; wrap_lists t' s2).
Proof.
  induction s1 as [|b r IH]; intros t s2; cbn [app wrap_lists bind]; [reflexivity|].
  destruct (ty_list t b); cbn [bind]; [apply IH|reflexivity].
Qed.

Lemma get_output_type_split v ft opt s1 s2 t :
  get_output_type v ft opt (s1 ++ s2) = Ok t ->
  exists t1, get_output_type v ft opt s1 = Ok t1 /\ wrap_lists t1 s2 = Ok t.
Proof. unfold get_output_type. rewrite wrap_lists_app. intros H. inv_bind H. eauto. Qed.

Lemma declares_split c stack n t v : declares c stack n t v ->
  forall s1 s2, stack = s1 ++ s2 -> exists t1, declares c s1 n t1 v /\ wrap_lists t1 s2 = Ok t.
Proof.
  induction 1 as [root vs es fs outs stack n cf t Hin Ht|root vs es fs outs stack h sub n t Hin Hn Ht
                  |root vs es fs outs stack h sub n t v Hin Hd IH]; intros s1 s2 ->.
  - destruct (get_output_type_split _ _ _ _ _ _ Ht) as (t1 & H1 & H2). exists t1. split; [|exact H2]. eapply decl_own; eauto.
  - destruct (get_output_type_split _ _ _ _ _ _ Ht) as (t1 & H1 & H2). exists t1. split; [|exact H2]. eapply decl_count; eauto.
  - destruct (IH (memN (fo_from h) (optional_vertices es) :: s1) s2 eq_refl) as (t1 & H1 & H2).
    exists t1. split; [|exact H2]. eapply decl_inner; eauto.
Qed.

Lemma declares_name c stack n t v : declares c stack n t v -> In n (all_outs c).
Proof.
  induction 1 as [root vs es fs outs stack n cf t Hin Ht|root vs es fs outs stack h sub n t Hin Hn Ht
                  |root vs es fs outs stack h sub n t v Hin Hd IH]; rewrite all_outs_eq; apply in_or_app.
  - left. apply in_map_iff. exists (n, cf). auto.
  - right. apply in_flat_map. exists (RFold h sub). split; [exact Hin|]. cbn [sub_outs]. apply in_or_app. now left.
  - right. apply in_flat_map. exists (RFold h sub). split; [exact Hin|]. cbn [sub_outs]. apply in_or_app. now right.
Qed.

Lemma wrap_lists_wf stack : forall t0 t, wf_ty t0 = true -> wrap_lists t0 stack = Ok t -> wf_ty t = true.
Proof.
  induction stack as [|b r IH]; intros t0 t W H; cbn [wrap_lists] in H.
  - now injection H as <-.
  - inv_bind H. pose proof (ty_list_spec t0 b W) as Hs.
    destruct (Nat.eqb (ty_depth t0) 30); [congruence|].
    destruct Hs as (t' & E & W' & _). rewrite E in Hx. injection Hx as <-. eapply IH; eauto.
Qed.

Lemma get_output_type_wf v ft opt stack t :
  wf_ty ft = true -> get_output_type v ft opt stack = Ok t -> wf_ty t = true.
Proof.
  unfold get_output_type. intros W H. destruct (memN v opt); [|eapply wrap_lists_wf; eauto].
  eapply wrap_lists_wf; [|exact H]. now destruct (ty_with_nullability_spec ft true W).
Qed.

Lemma outputs_typed_inv S root vs es fs outs :
  outputs_typed S (RComp root vs es fs outs) ->
  (forall n cf, In (n, cf) outs ->
     wf_ty (cf_ty cf) = true /\
     forall vtx, find_vertex vs (cf_vid cf) = Some vtx -> S (v_type vtx) (cf_name cf) = Some (cf_ty cf)) /\
  (forall h sub, In (RFold h sub) fs -> outputs_typed S sub).
Proof.
  cbn [outputs_typed]. intros (H1 & H2). split; [exact H1|].
  induction fs as [|[h' sub'] r IH]; intros h sub Hin; [destruct Hin|].
  destruct H2 as (Hs & Hr). destruct Hin as [[= <- <-]|Hin]; [exact Hs|]. eapply IH; eauto.
Qed.

Lemma declares_wf S c stack n t v : declares c stack n t v -> outputs_typed S c -> wf_ty t = true.
Proof.
  induction 1 as [root vs es fs outs stack n cf t Hin Ht|root vs es fs outs stack h sub n t Hin Hn Ht
                  |root vs es fs outs stack h sub n t v Hin Hd IH]; intros Hot;
    destruct (outputs_typed_inv _ _ _ _ _ _ Hot) as (Ho & Hf).
  - destruct (Ho _ _ Hin) as (W & _). eapply get_output_type_wf; eauto.
  - eapply get_output_type_wf; [|exact Ht]. apply count_type_wf.
  - apply IH. eapply Hf. exact Hin.
Qed.

Lemma valid_with_nullable t v :
  wf_ty t = true -> ty_valid t v = Ok true -> ty_valid (ty_with_nullability t true) v = Ok true.
Proof.
  intros W. destruct (wf_view' _ W) as (s & a & _ & ->).
  rewrite with_nullability_T, !ty_valid_T. destruct a as [x|x i]; destruct v; cbn [awith_null a_valid anull];
    intros H; try exact H; try reflexivity.
Qed.

Lemma ty_valid_list_intro t t1 xs :
  ty_as_list t = Some t1 -> Forall (fun x => ty_valid t1 x = Ok true) xs -> ty_valid t (List xs) = Ok true.
Proof.
  intros Ha HF. cbn [ty_valid]. rewrite Ha. induction HF as [|x r Hx _ IH]; [reflexivity|].
  rewrite Hx. cbn [bind]. exact IH.
Qed.

Lemma lookup_str_map_key {A} (f : string -> A) names n :
  In n names -> lookup_str n (map (fun k => (k, f k)) names) = Some (f n).
Proof.
  induction names as [|k r IH]; [intros []|]. cbn [map lookup_str].
  destruct (String.eqb_spec n k) as [->|Hne]; [reflexivity|]. intros [E|Hin]; [congruence|auto].
Qed.

Lemma lookup_str_some_of_key {A} n (l : list (string * A)) : In n (map fst l) -> exists x, lookup_str n l = Some x.
Proof.
  intros H. destruct (lookup_str n l) eqn:E; [eauto|]. apply lookup_str_none in E. contradiction.
Qed.

Lemma names_steps_in ss h sub : In (SFold h sub) ss -> incl (fo_fsout h ++ all_output_names sub) (names_steps ss).
Proof.
  induction ss as [|[e|h' sub'] r IH]; intros Hin x Hx; [destruct Hin| |].
  - destruct Hin as [H|H]; [discriminate|]. cbn [names_steps]. now apply IH.
  - cbn [names_steps]. rewrite app_assoc. apply in_or_app. destruct Hin as [[= <- <-]|H]; [now left|right; now apply IH].
Qed.

Lemma lookup_project_steps g a n h sub : forall ss,
  NoDup (names_steps ss) -> In (SFold h sub) ss -> In n (fo_fsout h ++ all_output_names sub) ->
  lookup_str n (project_steps g a ss) = lookup_str n (fold_row g a h sub).
Proof.
  induction ss as [|[e|h' sub'] r IH]; intros Hn Hin Hx; [destruct Hin| |].
  - destruct Hin as [H|H]; [discriminate|]. cbn [project_steps names_steps] in *. now apply IH.
  - cbn [project_steps names_steps] in *. rewrite app_assoc in Hn. rewrite lookup_str_app.
    destruct Hin as [[= <- <-]|H].
    + destruct (lookup_str_some_of_key n (fold_row g a h' sub')) as (x & ->); [now rewrite fold_row_keys|reflexivity].
    + assert (Hnone : lookup_str n (fold_row g a h' sub') = None).
      { apply lookup_str_none. rewrite fold_row_keys. intros Hk.
        apply (NoDup_app_disj _ _ n Hn Hk). exact (names_steps_in _ _ _ H _ Hx). }
      rewrite Hnone. apply IH; [eapply NoDup_app_r; exact Hn|exact H|exact Hx].
Qed.

Lemma find_vertex_some vs v : In v (map v_vid vs) -> exists vtx, find_vertex vs v = Some vtx.
Proof.
  induction vs as [|x r IH]; [intros []|]. cbn [map In find_vertex].
  destruct (N.eqb_spec (v_vid x) v); [eauto|]. intros [E|H]; [congruence|auto].
Qed.

Lemma all_outs_fold_nodup root vs es fs outs h sub :
  NoDup (all_outs (RComp root vs es fs outs)) -> In (RFold h sub) fs -> NoDup (fo_fsout h ++ all_outs sub).
Proof.
  rewrite all_outs_eq. intros Hn Hin. apply NoDup_app_r in Hn.
  exact (NoDup_flat_map_in sub_outs _ _ Hn Hin).
Qed.

(* everything the typing argument needs to know about one component *)
Definition good (vars : list (string * ty)) (S : schema_lite) (c : raw_comp) : Prop :=
  (exists avail, wf_comp vars avail c = true) /\ NoDup (all_eids c) /\ NoDup (all_outs c)
  /\ interval_ok c = true /\ outputs_typed S c.

Lemma good_sub vars S root vs es fs outs h sub :
  good vars S (RComp root vs es fs outs) -> In (RFold h sub) fs -> good vars S sub.
Proof.
  intros ((avail & Hwf) & Hne & Hno & Hiv & Hot) Hin.
  pose proof (wf_comp_inv _ _ _ _ _ _ _ Hwf) as (_ & _ & _ & _ & _ & _ & _ & Hfolds).
  destruct (Hfolds _ _ Hin) as (_ & Hiv' & _ & Hwf').
  split; [eauto|]. split.
  { pose proof (all_eids_fold_nodup _ _ _ _ _ _ _ Hne Hin) as Hn. now inversion Hn. }
  split. { eapply NoDup_app_r. eapply all_outs_fold_nodup; eauto. }
  split; [exact Hiv'|]. destruct (outputs_typed_inv _ _ _ _ _ _ Hot) as (_ & Hf). eapply Hf; eauto.
Qed.

Lemma lower_facts vars avail root vs es fs outs c' :
  wf_comp vars avail (RComp root vs es fs outs) = true ->
  NoDup (all_eids (RComp root vs es fs outs)) -> interval_ok (RComp root vs es fs outs) = true ->
  lower (RComp root vs es fs outs) = Ok c' ->
  exists ss fs', c' = mkComp root vs ss outs /\ steps_edges ss = es /\ steps_folds ss = fs' /\
    Forall2 (fun f hc => fst hc = rf_hdr f /\ lower (rf_comp f) = Ok (snd hc)) fs fs' /\
    bound_ok [root] ss /\ NoDup (root :: map e_to es) /\ NoDup (fold_eids fs') /\
    StronglySorted N.lt (map step_eid ss).
Proof.
  intros Hwf Hnd Hiv Hl.
  pose proof (wf_comp_inv _ _ _ _ _ _ _ Hwf) as (Hse & Hsf & Hroot & Hent & Hedges & _ & _ & Hfolds).
  destruct (lower_inv _ _ _ _ _ _ Hl) as (fs' & ss & Hlf & Hm & ->).
  pose proof (lower_folds_inv _ _ Hlf) as HF2.
  assert (Efe : fold_eids fs' = comp_feids fs).
  { clear - HF2. unfold fold_eids, comp_feids. induction HF2 as [|f hc l1 l2 (E & _) _ IH]; [reflexivity|].
    cbn [map]. now rewrite IH, E. }
  destruct (merge_steps_ok es fs') as (ss0 & Hm0 & Ees & Efs & Hsorted).
  { now apply sortedN_strong. } { rewrite Efe. now apply sortedN_strong. }
  { rewrite Efe. intros x Hx Hy. cbn [all_eids] in Hnd. apply (NoDup_app_disj _ _ x Hnd Hx).
    unfold comp_feids in Hy. apply in_map_iff in Hy. destruct Hy as ([h sub] & <- & Hin).
    apply in_flat_map. exists (RFold h sub). split; [assumption|now left]. }
  rewrite Hm in Hm0. injection Hm0 as <-.
  assert (Hstep : forall s, In s ss ->
            step_to s = step_eid s + 1 /\ step_from s < step_to s /\ In (step_from s) (comp_vids vs)).
  { intros s Hs. apply in_steps in Hs. destruct s as [e|h c0].
    - rewrite Ees in Hs. destruct (edge_wf_inv _ _ (Hedges _ Hs)) as (E1 & E2 & _ & E4 & _).
      cbn [step_to step_eid step_from]. auto.
    - rewrite Efs in Hs. destruct (Forall2_in_r _ _ _ _ HF2 Hs) as ([h' sub] & Hin & (Eh & _)).
      cbn [fst rf_hdr] in Eh. subst h'.
      destruct (Hfolds _ _ Hin) as (Hh & _). destruct (fold_hdr_wf_inv _ _ _ _ _ _ Hh) as (E1 & E2 & E3 & _).
      cbn [step_to step_eid step_from]. auto. }
  exists ss, fs'. split; [reflexivity|]. split; [exact Ees|]. split; [exact Efs|]. split; [exact HF2|].
  split; [|split; [|split; [|exact Hsorted]]].
  - apply bound_ok_sorted; [exact Hsorted|intros s Hs; destruct (Hstep s Hs) as (A & B & _); auto|].
    intros s Hs. destruct (Hstep s Hs) as (_ & _ & E3).
    destruct (Hent _ E3) as [->|Hin]; [left; now left|].
    right. apply in_map_iff in Hin. destruct Hin as (e' & E & He').
    exists e'. split; [|exact E]. apply in_steps. now rewrite Ees.
  - assert (Hto : map e_to es = map (fun x => x + 1) (map e_eid es)).
    { rewrite map_map. apply map_ext_in. intros e He. now destruct (edge_wf_inv _ _ (Hedges _ He)). }
    constructor.
    + intros Hin. rewrite Hto in Hin. apply in_map_iff in Hin. destruct Hin as (x & Ex & Hx).
      destruct (interval_ok_inv _ Hiv x) as (Hlo & _); [cbn [all_eids]; apply in_or_app; now left|].
      cbn [raw_root] in Hlo. lia.
    + rewrite Hto. apply FinFun.Injective_map_NoDup; [intros x y; lia|].
      apply StronglySorted_NoDup. now apply sortedN_strong.
  - rewrite Efe. apply StronglySorted_NoDup. now apply sortedN_strong.
Qed.

Lemma Forall2_keys_eq {A B} (R : A -> B -> Prop) (ka : A -> N) (kb : B -> N) l1 l2 :
  Forall2 R l1 l2 -> (forall x y, R x y -> kb y = ka x) -> map kb l2 = map ka l1.
Proof. intros H Hk. induction H as [|x y l1 l2 Hxy _ IH]; [reflexivity|]. cbn [map]. rewrite IH. now rewrite (Hk x y Hxy). Qed.

Lemma declares_inv root vs es fs outs stack n t v :
  declares (RComp root vs es fs outs) stack n t v ->
  (exists cf, In (n, cf) outs /\ v = cf_vid cf /\
              get_output_type (cf_vid cf) (cf_ty cf) (optional_vertices es) stack = Ok t) \/
  (exists h sub, In (RFold h sub) fs /\ In n (fo_fsout h) /\ v = fo_to h /\
                 get_output_type (fo_from h) count_type (optional_vertices es) stack = Ok t) \/
  (exists h sub, In (RFold h sub) fs /\
                 declares sub (memN (fo_from h) (optional_vertices es) :: stack) n t v).
Proof.
  inversion 1; subst.
  - left. eauto.
  - right. left. eauto 10.
  - right. right. eauto.
Qed.

Section Typed.
  Variable re_match : string -> string -> option bool.
  Variable g : graph.
  Variable args : list (string * fv).
  Variable vars : list (string * ty).
  Variable S : schema_lite.
  Hypothesis Hconf : conforms S g.

  Lemma count_types_valid (b : bool) z :
    ty_valid (if b then ty_with_nullability count_type true else count_type) (U64 z) = Ok true.
  Proof. destruct b; reflexivity. Qed.

  Theorem local_typed : forall c c',
    good vars S c -> lower c = Ok c' ->
    forall n t v, declares c [] n t v ->
    forall imp r0 a, In a (sem_comp re_match g args c' imp (Some r0)) ->
      ty_valid t (row_get (project g c' a) n) = Ok true.
  Proof.
    induction c as [root vs es fs outs IHfs] using raw_comp_ind'.
    intros c' Hgood Hl n t v Hd imp r0 a Ha.
    pose proof Hgood as ((avail & Hwf) & Hne & Hno & Hiv & Hot).
    pose proof (wf_comp_inv _ _ _ _ _ _ _ Hwf) as (_ & _ & Hroot & Hent & _ & _ & Houts & Hfolds).
    destruct (outputs_typed_inv _ _ _ _ _ _ Hot) as (Hoty & _).
    destruct (lower_facts _ _ _ _ _ _ _ _ Hwf Hne Hiv Hl) as (ss & fs' & -> & Ees & Efs & HF2 & Hb & Hkeys & Hfk & _).
    pose proof (sem_comp_inv _ _ _ _ _ _ _ _ _ _ Hb Ha) as [K Hnone HF].
    pose proof (lower_names _ _ Hl) as Enames.
    rewrite all_output_names_eq, all_outs_eq in Enames.
    assert (Hnames : names_steps ss = flat_map sub_outs fs) by (eapply app_inv_head; exact Enames).
    rewrite all_outs_eq in Hno.
    unfold opt_of in Hnone. rewrite Ees in Hnone, K.
    (* keys of the fold assignments *)
    assert (Kf : map fst (a_f a) = fold_eids fs').
    { rewrite Efs in HF. unfold fold_eids.
      apply (Forall2_keys_eq _ (fun hc => fo_eid (fst hc)) fst _ _ HF). now intros x y (E & _). }
    assert (Hbound : forall x, In x (comp_vids vs) -> exists o, lookup_N x (a_v a) = Some o /\ In (x, o) (a_v a)).
    { intros x Hx. destruct (lookup_N x (a_v a)) as [o|] eqn:E.
      - exists o. split; [reflexivity|now apply lookup_N_in].
      - exfalso. apply lookup_N_none in E. apply E. rewrite K.
        destruct (Hent _ Hx) as [->|Hin]; [now left|now right]. }
    (* the entry of a fold *)
    assert (Hentry : forall h sub, In (RFold h sub) fs ->
              exists sub' x, In (SFold h sub') ss /\ lower sub = Ok sub' /\
                lookup_N (fo_eid h) (a_f a) = Some x /\
                match x with
                | None => In (fo_from h) (optional_vertices es)
                | Some l => elems_ok re_match g args sub' l
                end).
    { intros h sub Hin. destruct (Forall2_in_l _ _ _ _ HF2 Hin) as ([h' sub'] & Hin' & (Eh & Hls)).
      cbn [fst snd rf_hdr rf_comp] in Eh, Hls. subst h'.
      rewrite Efs in HF. destruct (Forall2_in_l _ _ _ _ HF Hin') as ([k x] & Hk & (Ek & Hx)).
      cbn [fst snd] in Ek, Hx. subst k. exists sub', x. split; [apply in_steps; now rewrite Efs|].
      split; [exact Hls|]. split.
      - apply lookup_N_nodup; [rewrite Kf; exact Hfk|exact Hk].
      - unfold opt_of in Hx. rewrite Ees in Hx. exact Hx. }
    rewrite project_eq. unfold row_get. rewrite lookup_str_app.
    destruct (declares_inv _ _ _ _ _ _ _ _ _ Hd) as [(cf & Hin & -> & Ht)|[(h & sub & Hin & Hn & -> & Ht)|(h & sub & Hin & Hd')]].
    - (* own output *)
      assert (Hl1 : lookup_str n (own_row g vs a outs) = Some (out_value g vs a cf)).
      { apply lookup_str_nodup.
        - unfold own_row. rewrite map_map. cbn [fst]. eapply NoDup_app_l. exact Hno.
        - unfold own_row. apply in_map_iff. exists (n, cf). auto. }
      rewrite Hl1. unfold get_output_type in Ht. cbn [wrap_lists] in Ht.
      destruct (Hoty _ _ Hin) as (W & Hty).
      pose proof (Houts _ Hin) as Hv. cbn [snd] in Hv.
      destruct (find_vertex_some _ _ Hv) as (vtx & Hfv). destruct (Hbound _ Hv) as (o & Hlo & Hino).
      unfold out_value. rewrite Hfv, Hlo. destruct o as [x|].
      + pose proof (Hconf _ _ _ x (Hty _ Hfv)) as Hval.
        destruct (memN (cf_vid cf) (optional_vertices es)); injection Ht as <-; [now apply valid_with_nullable|exact Hval].
      + apply Hnone in Hino. apply memN_In in Hino.
        assert (Et : t = ty_with_nullability (cf_ty cf) true) by (rewrite Hino in Ht; congruence). subst t.
        cbn [ty_valid]. now destruct (ty_with_nullability_spec (cf_ty cf) true W) as (_ & -> & _).
    - (* fold count *)
      assert (Hn1 : lookup_str n (own_row g vs a outs) = None).
      { apply lookup_str_none. unfold own_row. rewrite map_map. cbn [fst]. intros Hk.
        apply (NoDup_app_disj _ _ n Hno Hk). apply in_flat_map. exists (RFold h sub). split; [exact Hin|].
        cbn [sub_outs]. apply in_or_app. now left. }
      rewrite Hn1. destruct (Hentry _ _ Hin) as (sub' & x & Hs' & Hls & Hlx & Hx).
      rewrite (lookup_project_steps g a n h sub' ss).
      + unfold fold_row. rewrite Hlx. unfold get_output_type in Ht. cbn [wrap_lists] in Ht.
        destruct x as [l|].
        * rewrite lookup_str_app, (lookup_str_map_key (fun _ => U64 (Z.of_nat (List.length l))) _ _ Hn).
          injection Ht as <-. apply count_types_valid.
        * rewrite (lookup_str_map_key (fun _ => Null)) by (apply in_or_app; now left).
          apply memN_In in Hx. rewrite Hx in Ht. injection Ht as <-. reflexivity.
      + rewrite Hnames. eapply NoDup_app_r. exact Hno.
      + exact Hs'.
      + apply in_or_app. now left.
    - (* an output of the folded component *)
      pose proof (declares_name _ _ _ _ _ Hd') as Hnsub.
      assert (Hn1 : lookup_str n (own_row g vs a outs) = None).
      { apply lookup_str_none. unfold own_row. rewrite map_map. cbn [fst]. intros Hk.
        apply (NoDup_app_disj _ _ n Hno Hk). apply in_flat_map. exists (RFold h sub). split; [exact Hin|].
        cbn [sub_outs]. apply in_or_app. now right. }
      rewrite Hn1. destruct (Hentry _ _ Hin) as (sub' & x & Hs' & Hls & Hlx & Hx).
      pose proof (lower_names _ _ Hls) as Esub.
      pose proof (good_sub _ _ _ _ _ _ _ _ _ Hgood Hin) as Hgsub.
      destruct (declares_split _ _ _ _ _ Hd' [] [memN (fo_from h) (optional_vertices es)] eq_refl) as (t1 & Hd1 & Hw).
      cbn [wrap_lists] in Hw. inv_bind Hw. injection Hw as <-.
      assert (W1 : wf_ty t1 = true).
      { destruct Hgsub as (_ & _ & _ & _ & Hot'). exact (declares_wf S _ _ _ _ _ Hd1 Hot'). }
      pose proof (ty_list_spec t1 (memN (fo_from h) (optional_vertices es)) W1) as Hsp.
      destruct (Nat.eqb (ty_depth t1) 30); [congruence|].
      destruct Hsp as (t' & E & _ & Hal & Hnl & _). rewrite E in Hx0. injection Hx0 as <-.
      rewrite (lookup_project_steps g a n h sub' ss).
      + unfold fold_row. rewrite Hlx. destruct x as [l|].
        * rewrite lookup_str_app.
          assert (Hc0 : lookup_str n (map (fun k => (k, U64 (Z.of_nat (List.length l)))) (fo_fsout h)) = None).
          { apply lookup_str_none. rewrite map_map. cbn [fst]. rewrite map_id. intros Hk.
            pose proof (all_outs_fold_nodup root vs es fs outs h sub ltac:(rewrite all_outs_eq; exact Hno) Hin) as Hnd.
            exact (NoDup_app_disj _ _ n Hnd Hk Hnsub). }
          rewrite Hc0.
          rewrite (lookup_str_map_key (fun k => List (map (fun r => row_get r k) (map (project g sub') l))))
            by (rewrite Esub; exact Hnsub).
          apply (ty_valid_list_intro _ _ _ Hal). rewrite map_map. apply Forall_forall. intros y Hy.
          apply in_map_iff in Hy. destruct Hy as (e & <- & He).
          unfold elems_ok in Hx. rewrite Forall_forall in Hx. destruct (Hx _ He) as (imp' & n0 & He').
          rewrite Forall_forall in IHfs. exact (IHfs _ Hin sub' Hgsub Hls _ _ _ Hd1 _ _ _ He').
        * rewrite (lookup_str_map_key (fun _ => Null)) by (apply in_or_app; right; rewrite Esub; exact Hnsub).
          cbn [ty_valid]. rewrite Hnl. apply memN_In in Hx. now rewrite Hx.
      + rewrite Hnames. eapply NoDup_app_r. exact Hno.
      + exact Hs'.
      + apply in_or_app. right. rewrite Esub. exact Hnsub.
  Qed.
End Typed.

(* ================================================================== *)
(* 12. C13: the top-level statements                                   *)
(* ================================================================== *)
Lemma wf_ir_good S q : wf_ir q = true -> outputs_typed S (rq_comp q) -> good (rq_vars q) S (rq_comp q).
Proof.
  intros H Hot. destruct (wf_ir_inv q H) as (Hwf & _ & Hne & Hno & Hiv).
  split; [eauto|]. auto.
Qed.

Theorem row_typed re g args S q ix q' :
  conforms S g -> wf_ir q = true -> outputs_typed S (rq_comp q) ->
  index_query q = Ok (inr ix) -> lower_query q = Ok q' ->
  forall row, In row (sem re g args q') ->
  forall n t v, In (n, (t, v)) (ix_outputs ix) -> ty_valid t (row_get row n) = Ok true.
Proof.
  intros Hconf Hwf Hot Hi Hl row Hrow n t v Hin.
  unfold index_query in Hi. inv_bind Hi. destruct x as [e|st]; [discriminate|]. injection Hi as <-.
  destruct (add_shape _ _ _ _ _ Hx) as (nv & ne & no & _ & _ & _ & _ & A3 & _ & Hd).
  cbn [ix_outputs st_outs app] in *. rewrite A3 in Hin. apply Hd in Hin.
  unfold lower_query in Hl. inv_bind Hl. injection Hl as <-.
  unfold sem in Hrow. cbn [q_comp q_root_name q_root_params] in Hrow.
  apply in_map_iff in Hrow. destruct Hrow as (a & <- & Ha).
  apply in_flat_map in Ha. destruct Ha as (s & _ & Ha).
  unfold row_get. rewrite lookup_sort_row.
  exact (local_typed re g args (rq_vars q) S Hconf _ _ (wf_ir_good S q Hwf Hot) Hx0 _ _ _ Hin _ _ _ Ha).
Qed.

(* ---- what "inside @optional" means for the declared types ---- *)
Inductive under_optional (es : list ir_edge) : N -> Prop :=
| uo_edge e : In e es -> e_optional e = true -> under_optional es (e_to e)
| uo_below e : In e es -> under_optional es (e_from e) -> under_optional es (e_to e).

Definition edges_ordered (es : list ir_edge) : Prop :=
  StronglySorted (fun a b => e_to a < e_to b) es /\ forall e, In e es -> e_from e < e_to e.

Lemma StronglySorted_snoc_inv {A} (R : A -> A -> Prop) l x :
  StronglySorted R (l ++ [x]) -> StronglySorted R l /\ Forall (fun y => R y x) l.
Proof.
  induction l as [|a l IH]; cbn [app]; intros H; [split; constructor|].
  inversion H as [|? ? H1 H2]; subst. destruct (IH H1) as (S1 & F1).
  apply Forall_app in H2. destruct H2 as (H2 & H3). split.
  - constructor; assumption.
  - constructor; [now inversion H3|assumption].
Qed.

Lemma optional_vertices_spec es : edges_ordered es ->
  forall v, In v (optional_vertices es) <->
            exists e, In e es /\ e_to e = v /\ (e_optional e = true \/ In (e_from e) (optional_vertices es)).
Proof.
  induction es as [|e es IH] using rev_ind; intros (Hs & Hlt) v.
  - cbn. split; [intros []|intros (e & [] & _)].
  - destruct (StronglySorted_snoc_inv _ _ _ Hs) as (Hs' & Hlast).
    assert (Hord : edges_ordered es) by (split; [exact Hs'|intros e0 H0; apply Hlt; apply in_or_app; now left]).
    specialize (IH Hord). rewrite Forall_forall in Hlast.
    assert (Hmono : forall x, In x (optional_vertices es) -> In x (optional_vertices (es ++ [e])))
      by (intros x; apply optional_vertices_mono).
    assert (Hnew : forall x, In x (optional_vertices (es ++ [e])) -> In x (optional_vertices es) \/
                     (x = e_to e /\ (e_optional e = true \/ In (e_from e) (optional_vertices es)))).
    { intros x. rewrite optional_vertices_snoc.
      destruct (e_optional e) eqn:Eo; cbn [orb].
      - intros [<-|H]; [right; auto|now left].
      - destruct (memN (e_from e) (optional_vertices es)) eqn:Em.
        + apply memN_In in Em. intros [<-|H]; [right; auto|now left].
        + now left. }
    split.
    + intros H. destruct (Hnew _ H) as [H0|(-> & Hc)].
      * apply IH in H0. destruct H0 as (e0 & H0 & E0 & Hc0). exists e0.
        split; [apply in_or_app; now left|]. split; [exact E0|]. destruct Hc0; auto.
      * exists e. split; [apply in_or_app; right; now left|]. split; [reflexivity|]. destruct Hc; auto.
    + intros (e0 & H0 & <- & Hc). apply in_app_or in H0. destruct H0 as [H0|[<-|[]]].
      * apply Hmono. apply IH. exists e0. split; [exact H0|]. split; [reflexivity|].
        destruct Hc as [Hc|Hc]; [now left|]. right.
        destruct (Hnew _ Hc) as [H1|(E1 & _)]; [exact H1|].
        pose proof (Hlast _ H0). pose proof (Hlt e0 ltac:(apply in_or_app; now left)). lia.
      * rewrite optional_vertices_snoc. destruct Hc as [->|Hc]; [now left|].
        destruct (Hnew _ Hc) as [H1|(E1 & _)].
        -- apply memN_In in H1. rewrite H1, orb_true_r. now left.
        -- pose proof (Hlt e ltac:(apply in_or_app; right; now left)). lia.
Qed.

(* a vertex is in get_optional_vertices_in_component iff an @optional edge lies on its path from the root *)
Theorem optional_vertices_under es : edges_ordered es ->
  forall v, In v (optional_vertices es) <-> under_optional es v.
Proof.
  intros Ho v. split.
  - revert v. apply (well_founded_induction N.lt_wf_0 (fun v => In v (optional_vertices es) -> under_optional es v)).
    intros v IH Hv. apply (optional_vertices_spec es Ho) in Hv. destruct Hv as (e & He & <- & [Hc|Hc]).
    + now apply uo_edge.
    + apply uo_below; [exact He|]. apply IH; [|exact Hc]. now apply (proj2 Ho).
  - induction 1 as [e He Hc|e He _ IH]; apply (optional_vertices_spec es Ho); exists e; auto.
Qed.

Lemma wf_edges_ordered vars avail root vs es fs outs :
  wf_comp vars avail (RComp root vs es fs outs) = true -> edges_ordered es.
Proof.
  intros Hwf. pose proof (wf_comp_inv _ _ _ _ _ _ _ Hwf) as (Hse & _ & _ & _ & Hedges & _).
  split; [|intros e He; now destruct (edge_wf_inv _ _ (Hedges _ He)) as (_ & _ & _ & H & _)].
  apply sortedN_strong in Hse. clear - Hse Hedges.
  induction es as [|e r IH]; [constructor|]. cbn [map] in Hse. inversion Hse as [|? ? H1 H2]; subst.
  constructor; [apply IH; [exact H1|intros e0 H0; apply Hedges; now right]|].
  apply Forall_forall. intros e0 H0. rewrite Forall_forall in H2. specialize (H2 _ (in_map e_eid _ _ H0)).
  destruct (edge_wf_inv _ _ (Hedges e (or_introl eq_refl))) as (E1 & _).
  destruct (edge_wf_inv _ _ (Hedges e0 (or_intror H0))) as (E2 & _). lia.
Qed.

(* clause 1: an output of the component itself *)
Theorem declared_own_clause v ft opt t :
  get_output_type v ft opt [] = Ok t ->
  t = if memN v opt then ty_with_nullability ft true else ft.
Proof. unfold get_output_type. cbn [wrap_lists]. now intros [= <-]. Qed.

(* clause 3: a fold-count output *)
Theorem declared_count_clause v opt t :
  get_output_type v count_type opt [] = Ok t ->
  t = if memN v opt then ty_named "Int" true else ty_named "Int" false.
Proof. intros H. apply declared_own_clause in H. rewrite H. destruct (memN v opt); reflexivity. Qed.

(* clause 2: one list level per enclosing fold, nullable iff the fold starts inside @optional *)
Theorem declared_fold_clause S sub b n t v :
  outputs_typed S sub -> declares sub [b] n t v ->
  exists t1, declares sub [] n t1 v /\ ty_as_list t = Some t1 /\ ty_is_list t = true /\ ty_nullable t = b.
Proof.
  intros Hot Hd. destruct (declares_split _ _ _ _ _ Hd [] [b] eq_refl) as (t1 & Hd1 & Hw).
  cbn [wrap_lists] in Hw. inv_bind Hw. injection Hw as <-.
  pose proof (declares_wf S _ _ _ _ _ Hd1 Hot) as W1.
  pose proof (ty_list_spec t1 b W1) as Hsp. destruct (Nat.eqb (ty_depth t1) 30); [congruence|].
  destruct Hsp as (t' & E & _ & Hal & Hnl & Hil & _). rewrite E in Hx. injection Hx as <-. eauto.
Qed.

(* rows of the specification carry exactly the outputs the indexer declares *)
Theorem sem_rows_carry_indexed_outputs re g args q ix q' :
  index_query q = Ok (inr ix) -> lower_query q = Ok q' ->
  forall row, In row (sem re g args q') ->
    Permutation (map fst row) (map fst (ix_outputs ix)) /\
    forall n, lookup_str n row <> None <-> In n (map fst (ix_outputs ix)).
Proof.
  intros Hi Hl row Hrow. rewrite (declared_names_agree _ _ _ Hi Hl). exact (sem_row_keys re g args q' row Hrow).
Qed.

(* transfer to the engine model, for the part of C01 that is proved (fold-free queries) *)
Theorem engine_rows_typed_fold_free_partial re g args S q ix q' rows :
  ty_indep g -> conforms S g -> wf_ir q = true -> fold_free q = true -> outputs_typed S (rq_comp q) ->
  index_query q = Ok (inr ix) -> lower_query q = Ok q' ->
  interpret re g args q' = Ok rows ->
  forall row, In row rows ->
    (forall n, lookup_str n row <> None <-> In n (map fst (ix_outputs ix))) /\
    forall n t v, In (n, (t, v)) (ix_outputs ix) -> ty_valid t (row_get row n) = Ok true.
Proof.
  intros Hind Hconf Hwf Hff Hot Hi Hl Hrows row Hrow.
  pose proof (wf_fold_free_engine_refines re g args q q' rows Hind Hwf Hff Hl Hrows) as HF2.
  destruct (Forall2_in_l _ _ _ _ HF2 Hrow) as (srow & Hs & Heq).
  destruct (sem_rows_carry_indexed_outputs re g args q ix q' Hi Hl srow Hs) as (_ & Hk).
  split.
  - intros n. rewrite (Heq n). apply Hk.
  - intros n t v Hin. unfold row_get. rewrite (Heq n).
    exact (row_typed re g args S q ix q' Hconf Hwf Hot Hi Hl srow Hs n t v Hin).
Qed.

Theorem indexed_outputs_declared q ix n t v :
  index_query q = Ok (inr ix) -> In (n, (t, v)) (ix_outputs ix) -> declares (rq_comp q) [] n t v.
Proof.
  unfold index_query. intros Hi Hin. inv_bind Hi. destruct x as [e|st]; [discriminate|]. injection Hi as <-.
  destruct (add_shape _ _ _ _ _ Hx) as (nv & ne & no & _ & _ & _ & _ & A3 & _ & Hd).
  cbn [ix_outputs st_outs app] in *. rewrite A3 in Hin. now apply Hd.
Qed.

(* ================================================================== *)
(* 13. C11: tag operands are recorded before they are used             *)
(* ================================================================== *)
Lemma StronglySorted_app_r {A} (R : A -> A -> Prop) l1 l2 : StronglySorted R (l1 ++ l2) -> StronglySorted R l2.
Proof. induction l1 as [|a l1 IH]; cbn [app]; [auto|]. intros H. inversion H; auto. Qed.

Lemma sorted_split_before done s rest s' :
  StronglySorted N.lt (map step_eid (done ++ s :: rest)) ->
  In s' (done ++ s :: rest) -> step_eid s' < step_eid s -> In s' done.
Proof.
  intros Hs Hin Hlt. apply in_app_or in Hin. destruct Hin as [H|[<-|H]]; [exact H|lia|].
  rewrite map_app in Hs. apply StronglySorted_app_r in Hs. cbn [map] in Hs.
  inversion Hs as [|? ? _ HF]; subst. rewrite Forall_forall in HF.
  specialize (HF _ (in_map step_eid _ _ H)). lia.
Qed.

Lemma find_vertex_in vs v x : find_vertex vs v = Some x -> In x vs /\ v_vid x = v.
Proof.
  induction vs as [|y r IH]; cbn [find_vertex]; [discriminate|].
  destruct (N.eqb_spec (v_vid y) v) as [E|_]; [intros [= <-]; split; [now left|exact E]|].
  intros H. destruct (IH H). split; [now right|assumption].
Qed.

Lemma tag_ok_inv vids feids avail u t : tag_ok vids feids avail u t = true ->
  match t with
  | FRContext cf => In (cf_vid cf) vids -> cf_vid cf <= u
  | FRFold ff => In (ff_eid ff) feids -> ff_eid ff + 1 < u
  end.
Proof.
  unfold tag_ok. destruct t as [cf|ff].
  - intros H Hin. apply memN_In in Hin. rewrite Hin in H. now apply N.leb_le.
  - intros H Hin. apply andb_prop in H. destruct H as (_ & H). apply memN_In in Hin. rewrite Hin in H. now apply N.ltb_lt.
Qed.

Section TagsRecorded.
  Variable re_match : string -> string -> option bool.
  Variable g : graph.
  Variable args : list (string * fv).

  (* where a tag operand defined by this component is found when a filter at `use` runs *)
  Definition tag_recorded (vids feids : list N) (a : asg) (local : option N) (t : fieldref) : Prop :=
    match t with
    | FRContext cf => In (cf_vid cf) vids -> Some (cf_vid cf) = local \/ In (cf_vid cf) (map fst (a_v a))
    | FRFold ff => In (ff_eid ff) feids -> In (ff_eid ff) (map fst (a_f a))
    end.

  Lemma recorded_before vars avail av root vs es fs outs ss done s rest a u t :
    wf_comp vars avail (RComp root vs es fs outs) = true ->
    NoDup (all_eids (RComp root vs es fs outs)) -> interval_ok (RComp root vs es fs outs) = true ->
    lower (RComp root vs es fs outs) = Ok (mkComp root vs ss outs) ->
    ss = done ++ s :: rest -> sinv re_match g args root done a ->
    u = step_to s ->
    tag_ok (comp_vids vs) (comp_feids fs) av u t = true ->
    match t with
    | FRContext cf => In (cf_vid cf) (comp_vids vs) -> cf_vid cf = u \/ In (cf_vid cf) (map fst (a_v a))
    | FRFold ff => In (ff_eid ff) (comp_feids fs) -> In (ff_eid ff) (map fst (a_f a))
    end.
  Proof.
    intros Hwf Hne Hiv Hl Hss [K _ HF] Hu Htag.
    pose proof (wf_comp_inv _ _ _ _ _ _ _ Hwf) as (_ & _ & _ & Hent & Hedges & _ & _ & Hfolds).
    destruct (lower_facts _ _ _ _ _ _ _ _ Hwf Hne Hiv Hl) as (ss0 & fs' & E0 & Ees & Efs & HF2 & _ & _ & _ & Hsorted).
    injection E0 as <-.
    assert (Hus : u = step_eid s + 1).
    { assert (Hs : In s ss) by (rewrite Hss; apply in_or_app; right; now left).
      apply in_steps in Hs. destruct s as [e|h c0]; cbn [step_to step_eid] in *.
      - rewrite Ees in Hs. destruct (edge_wf_inv _ _ (Hedges _ Hs)) as (E1 & _). now rewrite Hu.
      - rewrite Efs in Hs. destruct (Forall2_in_r _ _ _ _ HF2 Hs) as ([h' sub] & Hin & (Eh & _)).
        cbn [fst rf_hdr] in Eh. subst h'. destruct (Hfolds _ _ Hin) as (Hh & _).
        destruct (fold_hdr_wf_inv _ _ _ _ _ _ Hh) as (E1 & _). now rewrite Hu. }
    pose proof (tag_ok_inv _ _ _ _ _ Htag) as Hinv. destruct t as [cf|ff]; intros Hin; specialize (Hinv Hin).
    - destruct (N.eq_dec (cf_vid cf) u) as [E|Hne']; [now left|right]. rewrite K.
      destruct (Hent _ Hin) as [->|Hto]; [now left|right].
      apply in_map_iff in Hto. destruct Hto as (e' & E' & He').
      apply in_map_iff. exists e'. split; [exact E'|].
      assert (Hs' : In (SEdge e') ss) by (apply in_steps; now rewrite Ees).
      rewrite Hss in Hs', Hsorted.
      pose proof (sorted_split_before done s rest (SEdge e') Hsorted Hs') as Hd.
      cbn [step_eid] in Hd. destruct (edge_wf_inv _ _ (Hedges _ He')) as (E1 & _).
      assert (Hdone : In (SEdge e') done) by (apply Hd; lia).
      apply in_steps in Hdone. exact Hdone.
    - unfold comp_feids in Hin. apply in_map_iff in Hin. destruct Hin as ([h sub] & Eh & Hf). cbn [rf_hdr] in Eh.
      destruct (Forall2_in_l _ _ _ _ HF2 Hf) as ([h' sub'] & Hin' & (Eh' & _)). cbn [fst rf_hdr] in Eh'. subst h'.
      assert (Hs' : In (SFold h sub') ss) by (apply in_steps; now rewrite Efs).
      rewrite Hss in Hs', Hsorted.
      pose proof (sorted_split_before done s rest (SFold h sub') Hsorted Hs') as Hd. cbn [step_eid] in Hd.
      assert (Hdone : In (SFold h sub') done) by (apply Hd; lia).
      apply in_steps in Hdone.
      assert (Kf : map fst (a_f a) = fold_eids (steps_folds done)).
      { unfold fold_eids. apply (Forall2_keys_eq _ (fun hc => fo_eid (fst hc)) fst _ _ HF). now intros x y (E & _). }
      rewrite Kf. unfold fold_eids. apply in_map_iff. exists (h, sub'). split; [exact Eh|exact Hdone].
  Qed.

  (* vertex filters: when the edge leading to a vertex is processed, every tag operand of that
     vertex' filters that this component defines is the filtered vertex itself or already recorded
     (`context.vertices[&vid]` / `folded_contexts[&eid]` cannot miss) *)
  Theorem vertex_filter_tags_recorded vars avail root vs es fs outs ss done e rest a tov f t :
    wf_comp vars avail (RComp root vs es fs outs) = true ->
    NoDup (all_eids (RComp root vs es fs outs)) -> interval_ok (RComp root vs es fs outs) = true ->
    lower (RComp root vs es fs outs) = Ok (mkComp root vs ss outs) ->
    ss = done ++ SEdge e :: rest -> sinv re_match g args root done a ->
    find_vertex vs (e_to e) = Some tov -> In f (v_filters tov) -> In t (arg_tags (vf_arg f)) ->
    tag_recorded (comp_vids vs) (comp_feids fs) a (Some (e_to e)) t.
  Proof.
    intros Hwf Hne Hiv Hl Hss Hinv Hfv Hf Ht.
    pose proof (wf_comp_inv _ _ _ _ _ _ _ Hwf) as (_ & _ & _ & _ & _ & Hverts & _).
    destruct (find_vertex_in _ _ _ Hfv) as (Hin & Evid).
    specialize (Hverts _ Hin). unfold vertex_wf in Hverts. rewrite forallb_forall in Hverts.
    specialize (Hverts _ Hf). unfold arg_wf in Hverts. apply andb_prop in Hverts. destruct Hverts as (_ & Htags).
    rewrite forallb_forall in Htags. specialize (Htags _ Ht). rewrite Evid in Htags.
    pose proof (recorded_before _ _ _ _ _ _ _ _ _ _ _ _ _ _ t Hwf Hne Hiv Hl Hss Hinv eq_refl Htags) as H.
    cbn [step_to] in H. destruct t as [cf|ff]; cbn [tag_recorded]; intros Hd; specialize (H Hd); [|exact H].
    destruct H as [E|H]; [left; now rewrite E|now right].
  Qed.

  (* folds: when a fold starts, every imported tag and every post-filter tag operand that this
     component defines is already recorded *)
  Theorem fold_tags_recorded vars avail root vs es fs outs ss done h sub' rest a t :
    wf_comp vars avail (RComp root vs es fs outs) = true ->
    NoDup (all_eids (RComp root vs es fs outs)) -> NoDup (all_vids (RComp root vs es fs outs)) ->
    interval_ok (RComp root vs es fs outs) = true ->
    lower (RComp root vs es fs outs) = Ok (mkComp root vs ss outs) ->
    ss = done ++ SFold h sub' :: rest -> sinv re_match g args root done a ->
    In t (fo_imported h ++ post_tags h) ->
    tag_recorded (comp_vids vs) (comp_feids fs) a None t.
  Proof.
    intros Hwf Hne Hnv Hiv Hl Hss Hinv Ht.
    pose proof (wf_comp_inv _ _ _ _ _ _ _ Hwf) as (_ & _ & _ & _ & _ & _ & _ & Hfolds).
    destruct (lower_facts _ _ _ _ _ _ _ _ Hwf Hne Hiv Hl) as (ss0 & fs' & E0 & _ & Efs & HF2 & _).
    injection E0 as <-.
    assert (Hs : In (h, sub') fs').
    { rewrite <- Efs. apply in_steps with (s := SFold h sub'). rewrite Hss. apply in_or_app. right. now left. }
    destruct (Forall2_in_r _ _ _ _ HF2 Hs) as ([h' sub] & Hin & (Eh & _)). cbn [fst rf_hdr] in Eh. subst h'.
    destruct (Hfolds _ _ Hin) as (Hh & _ & _ & Hwsub).
    destruct (fold_hdr_wf_inv _ _ _ _ _ _ Hh) as (_ & _ & _ & Eroot & Hpost & Himp).
    assert (Htag : exists av, tag_ok (comp_vids vs) (comp_feids fs) av (fo_to h) t = true).
    { apply in_app_or in Ht. destruct Ht as [Ht|Ht]; [eauto|].
      unfold post_tags in Ht. apply in_flat_map in Ht. destruct Ht as (p & Hp & Ht).
      specialize (Hpost _ Hp). unfold arg_wf in Hpost. apply andb_prop in Hpost. destruct Hpost as (_ & Hp').
      rewrite forallb_forall in Hp'. eauto. }
    destruct Htag as (av & Htag).
    pose proof (recorded_before _ _ _ _ _ _ _ _ _ _ _ _ _ _ t Hwf Hne Hiv Hl Hss Hinv eq_refl Htag) as H.
    cbn [step_to] in H. destruct t as [cf|ff]; cbn [tag_recorded]; intros Hd; [|exact (H Hd)].
    destruct (H Hd) as [E|Hr]; [|now right]. exfalso.
    (* the fold's root is a vertex of the folded component, not of this one *)
    destruct sub as [sroot svs ses sfs souts]. cbn [raw_root] in Eroot.
    pose proof (wf_comp_inv _ _ _ _ _ _ _ Hwsub) as (_ & _ & Hsr & _).
    rewrite all_vids_eq in Hnv. apply (NoDup_app_disj _ _ (cf_vid cf) Hnv Hd).
    apply in_flat_map. exists (RFold h (RComp sroot svs ses sfs souts)). split; [exact Hin|].
    cbn [sub_vids]. rewrite all_vids_eq. apply in_or_app. left. rewrite E, Eroot. exact Hsr.
  Qed.
End TagsRecorded.
