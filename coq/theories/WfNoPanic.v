(* WfNoPanic.v — the static conditions of the whole-interpreter panic-freedom theorem (NoPanic.np_ok)
   follow from the frontend invariants: the C11 validator `wf_ir`, plus two facts that `wf_ir` does not
   state (`np_extra`: operand arity, depth-first numbering), plus `args_fit`, the only conditions about
   the ARGUMENTS (every variable bound; count-filter arguments are integers / integer lists). *)
From Coq Require Import Lia Sorted Permutation.
From TF Require Import Values Graph Exec Sem ExecLemmas Sim SimRec SimComp FoldOut SimGen ExecNoPanic WfCheck
                       NoPanic NoPanicFold NoPanicProofs Args ArgsProofs WfIR WfIRProofs WfRefine.
Local Open Scope string_scope.
Local Open Scope N_scope.
Local Open Scope list_scope.

(* ================================================================== *)
(* 1. what wf_ir does not say                                          *)
(* ================================================================== *)
(* a filter has no right-hand operand iff its operation is unary.  In Rust this is the shape of the
   `Operation` enum (IsNull / IsNotNull carry one field, all others two); IR.v flattens it into
   (operation kind, optional argument), so it becomes a clause here. *)
Definition arity_ok (op : opk) (a : option argument) : bool :=
  Bool.eqb (match a with None => true | Some _ => false end) (opk_unary op).

Fixpoint arity_comp (c : raw_comp) {struct c} : bool :=
  match c with
  | RComp _ vs _ fs _ =>
      forallb (fun v => forallb (fun f => arity_ok (vf_op f) (vf_arg f)) (v_filters v)) vs
      && forallb (fun f => match f with
                           | RFold h sub =>
                               forallb (fun p => arity_ok (pf_op p) (pf_arg p)) (fo_post h) && arity_comp sub
                           end) fs
  end.

(* vertices are numbered depth-first: in processing (eid) order, every edge and fold starts at the
   vertex the engine is currently at or at one of its ancestors in the edge tree.  (`wf_ir` only says
   from < to, which also admits e.g. breadth-first numberings; the engine's @recurse bookkeeping
   relies on depth-first.)  Stated as the walk NoPanic.v uses: `nst` tracks the current vertex
   (`s_cur`: the target of the last edge, resp. the start of the last fold) and every recorded
   vertex' ancestor chain (`s_anc`). *)
Fixpoint dfs_steps (sub_ok : ir_component -> bool) (todo : list step) (st : nst) {struct todo} : bool :=
  match todo with
  | [] => true
  | SEdge e :: r => memN (e_from e) (anc_of st (s_cur st)) && dfs_steps sub_ok r (st_edge st e)
  | SFold h sub :: r =>
      memN (fo_from h) (anc_of st (s_cur st)) && sub_ok sub && dfs_steps sub_ok r (st_fold st h sub)
  end.

Fixpoint dfs_comp (c : ir_component) {struct c} : bool :=
  match c with
  | mkComp root _ ss _ =>
      (fix go (todo : list step) (st : nst) {struct todo} : bool :=
         match todo with
         | [] => true
         | SEdge e :: r => memN (e_from e) (anc_of st (s_cur st)) && go r (st_edge st e)
         | SFold h sub :: r =>
             memN (fo_from h) (anc_of st (s_cur st)) && dfs_comp sub && go r (st_fold st h sub)
         end) ss (st_enter (st_start root) root [])
  end.

Lemma dfs_comp_eq root vs ss outs :
  dfs_comp (mkComp root vs ss outs) = dfs_steps dfs_comp ss (st_enter (st_start root) root []).
Proof.
  cbn [dfs_comp]. generalize (st_enter (st_start root) root []) as st.
  induction ss as [|[e|h sub] r IH]; intros st; cbn [dfs_steps]; [reflexivity| |]; now rewrite IH.
Qed.

Definition np_extra (q : raw_query) : bool :=
  arity_comp (rq_comp q) &&
  match lower_query q with Ok q' => dfs_comp (q_comp q') | Panic _ => false end.

(* the frontend invariants the panic-freedom theorem rests on *)
Definition wf_np (q : raw_query) : bool := wf_ir q && np_extra q.

Definition show_wf_np (q : raw_query) : string := if wf_np q then "WF" else "NOT-WF".

(* ================================================================== *)
(* 2. the conditions about the arguments                               *)
(* ================================================================== *)
Fixpoint count_args_steps (args : list (string * fv)) (sub_ok : ir_component -> bool) (todo : list step) : bool :=
  match todo with
  | [] => true
  | SEdge _ :: r => count_args_steps args sub_ok r
  | SFold h sub :: r => forallb (count_arg_ok args) (fo_post h) && sub_ok sub && count_args_steps args sub_ok r
  end.

(* every fold-count filter whose operand is a variable gets an integer (a list of integers for
   one_of / not_one_of) — what argument validation accepts for Int! / [Int!]! *)
Fixpoint count_args_ok (args : list (string * fv)) (c : ir_component) {struct c} : bool :=
  match c with
  | mkComp _ _ ss _ =>
      (fix go (todo : list step) : bool :=
         match todo with
         | [] => true
         | SEdge _ :: r => go r
         | SFold h sub :: r => forallb (count_arg_ok args) (fo_post h) && count_args_ok args sub && go r
         end) ss
  end.

Lemma count_args_ok_eq args root vs ss outs :
  count_args_ok args (mkComp root vs ss outs) = count_args_steps args (count_args_ok args) ss.
Proof. cbn [count_args_ok]. induction ss as [|[e|h sub] r IH]; cbn [count_args_steps]; [reflexivity|exact IH|]. now rewrite IH. Qed.

Lemma count_args_steps_inv args ok todo h sub :
  count_args_steps args ok todo = true -> In (SFold h sub) todo ->
  forallb (count_arg_ok args) (fo_post h) = true /\ ok sub = true.
Proof.
  induction todo as [|[e|h' sub'] r IH]; cbn [count_args_steps]; intros H Hin; [destruct Hin| |].
  - destruct Hin as [E|Hin]; [discriminate|auto].
  - apply andb_prop in H. destruct H as (H & Hr). apply andb_prop in H. destruct H as (Ht & Hs).
    destruct Hin as [[= <- <-]|Hin]; auto.
Qed.

(* args_fit: every variable the query records has a value, and count-filter arguments are integers *)
Definition args_fit (args : list (string * fv)) (q : ir_query) : bool :=
  forallb (fun xt => is_some (lookup_str (fst xt) args)) (q_vars q) && count_args_ok args (q_comp q).

(* ================================================================== *)
(* 3. small facts                                                      *)
(* ================================================================== *)
Lemma nodupb_complete {A} (eqb : A -> A -> bool) (l : list A) :
  (forall x y, eqb x y = true -> x = y) -> NoDup l -> nodupb eqb l = true.
Proof.
  intros Heq. induction 1 as [|x r Hni _ IH]; cbn [nodupb]; [reflexivity|]. rewrite IH, andb_true_r.
  apply Bool.negb_true_iff. destruct (existsb (eqb x) r) eqn:E; [|reflexivity].
  apply existsb_exists in E. destruct E as (y & Hy & Exy). apply Heq in Exy. subst. contradiction.
Qed.

Lemma disjoint_keysb_complete ts outer : disjoint_keys ts outer -> disjoint_keysb ts outer = true.
Proof.
  intros H. unfold disjoint_keysb. apply forallb_forall. intros t Ht. apply forallb_forall. intros o Ho.
  now rewrite (H t o Ht Ho).
Qed.

Lemma has_fold_iff ss eid : has_fold ss eid = true <-> In eid (steps_eids ss).
Proof.
  induction ss as [|[e|h sub] r IH]; cbn [has_fold steps_eids In]; [split; [discriminate|tauto]|exact IH|].
  rewrite orb_true_iff, IH, N.eqb_eq. tauto.
Qed.

Lemma find_vertex_iff vs v : (exists x, find_vertex vs v = Some x) <-> In v (comp_vids vs).
Proof.
  split; [|apply find_vertex_some]. intros (x & H). destruct (find_vertex_in _ _ _ H) as (Hin & <-).
  unfold comp_vids. now apply in_map.
Qed.

Lemma steps_eids_in ss x : In x (steps_eids ss) -> exists h sub, In (SFold h sub) ss /\ fo_eid h = x.
Proof.
  induction ss as [|[e|h sub] r IH]; cbn [steps_eids In]; [intros []| |].
  - intros H. destruct (IH H) as (h & sub & Hin & E). exists h, sub. auto.
  - intros [E|H]; [exists h, sub; auto|]. destruct (IH H) as (h' & sub' & Hin & E). exists h', sub'. auto.
Qed.

Lemma steps_eids_of ss h sub : In (SFold h sub) ss -> In (fo_eid h) (steps_eids ss).
Proof.
  induction ss as [|[e|h' sub'] r IH]; cbn [steps_eids In]; [intros []| |].
  - intros [E|H]; [discriminate|auto].
  - intros [[= <- <-]|H]; [now left|right; auto].
Qed.

Lemma steps_eids_app l1 l2 : steps_eids (l1 ++ l2) = steps_eids l1 ++ steps_eids l2.
Proof. induction l1 as [|[e|h c] r IH]; cbn [app steps_eids]; [reflexivity|exact IH|now rewrite IH]. Qed.
Lemma steps_keys_app l1 l2 : steps_keys (l1 ++ l2) = steps_keys l1 ++ steps_keys l2.
Proof. induction l1 as [|[e|h c] r IH]; cbn [app steps_keys]; [reflexivity|exact IH|now rewrite IH, app_assoc]. Qed.

Lemma NoDup_map_inj_in {A B} (f : A -> B) l a b :
  NoDup (map f l) -> In a l -> In b l -> f a = f b -> a = b.
Proof.
  induction l as [|c r IH]; cbn [map]; [intros _ []|]. intros Hn Ha Hb E. inversion Hn as [|? ? Hni Hn']; subst.
  destruct Ha as [->|Ha], Hb as [->|Hb]; [reflexivity| | |auto].
  - exfalso. apply Hni. rewrite E. now apply in_map.
  - exfalso. apply Hni. rewrite <- E. now apply in_map.
Qed.

Lemma arity_comp_inv root vs es fs outs :
  arity_comp (RComp root vs es fs outs) = true ->
  (forall v f, In v vs -> In f (v_filters v) -> arity_ok (vf_op f) (vf_arg f) = true) /\
  (forall h sub, In (RFold h sub) fs ->
     (forall p, In p (fo_post h) -> arity_ok (pf_op p) (pf_arg p) = true) /\ arity_comp sub = true).
Proof.
  cbn [arity_comp]. intros H. apply andb_prop in H. destruct H as (H1 & H2).
  rewrite forallb_forall in H1, H2. split.
  - intros v f Hv Hf. specialize (H1 _ Hv). rewrite forallb_forall in H1. auto.
  - intros h sub Hin. specialize (H2 _ Hin). cbn beta iota in H2. apply andb_prop in H2. destruct H2 as (A & B).
    rewrite forallb_forall in A. auto.
Qed.

Lemma fold_eids_of_lowered (fs : list raw_fold) (fs' : list (fold_hdr * ir_component)) :
  Forall2 (fun f hc => fst hc = rf_hdr f /\ lower (rf_comp f) = Ok (snd hc)) fs fs' ->
  fold_eids fs' = comp_feids fs.
Proof.
  unfold fold_eids, comp_feids. induction 1 as [|f hc l1 l2 (E & _) _ IH]; [reflexivity|]. cbn [map]. now rewrite IH, E.
Qed.

(* ================================================================== *)
(* 4. one component                                                    *)
(* ================================================================== *)
Section OneComp.
  Variable args : list (string * fv).
  Variable vars : list (string * ty).
  Variables (avail impk : list fieldref).
  Variables (root : N) (vs : list ir_vertex) (es : list ir_edge) (fs : list raw_fold)
            (outs : list (string * ctxfield)) (ss : list step) (fs' : list (fold_hdr * ir_component)).
  Let c := RComp root vs es fs outs.

  Hypothesis Hwf : wf_comp vars avail c = true.
  Hypothesis Hne : NoDup (all_eids c).
  Hypothesis Hiv : interval_ok c = true.
  Hypothesis Ees : steps_edges ss = es.
  Hypothesis Efs : steps_folds ss = fs'.
  Hypothesis HF2 : Forall2 (fun f hc => fst hc = rf_hdr f /\ lower (rf_comp f) = Ok (snd hc)) fs fs'.
  Hypothesis Hsorted : StronglySorted N.lt (map step_eid ss).
  Hypothesis Hkeys : NoDup (root :: map e_to es).
  Hypothesis Hfk : NoDup (fold_eids fs').
  Hypothesis Hnk : NoDup (steps_keys ss).
  Hypothesis Hav : forall o, In o avail -> In o impk.
  Hypothesis Hout : outer_ok impk c.
  Hypothesis Hbound : forall x t, In (x, t) vars -> is_some (lookup_str x args) = true.
  Hypothesis Harity : arity_comp c = true.
  Hypothesis Hsub : forall h sub', In (SFold h sub') ss -> np_comp args (impk ++ fo_imported h) sub' = true.
  Hypothesis Hcnt : forall h sub', In (SFold h sub') ss -> forallb (count_arg_ok args) (fo_post h) = true.

  Let Hinv := wf_comp_inv _ _ _ _ _ _ _ Hwf.

  Lemma oc_raw h sub' : In (SFold h sub') ss -> exists sub, In (RFold h sub) fs.
  Proof.
    intros Hs. apply in_steps in Hs. rewrite Efs in Hs.
    destruct (Forall2_in_r _ _ _ _ HF2 Hs) as ([h' sub] & Hin & (Eh & _)). cbn [fst rf_hdr] in Eh. subst h'. eauto.
  Qed.

  Lemma oc_feids : steps_eids ss = comp_feids fs.
  Proof.
    rewrite steps_eids_folds, Efs. exact (fold_eids_of_lowered _ _ HF2).
  Qed.

  Lemma oc_edge e : In (SEdge e) ss -> In e es.
  Proof. intros H. apply in_steps in H. now rewrite Ees in H. Qed.

  Lemma oc_shape s : In s ss ->
    step_to s = step_eid s + 1 /\ step_from s < step_to s /\ In (step_from s) (comp_vids vs) /\ root <= step_eid s.
  Proof.
    destruct Hinv as (_ & _ & _ & _ & Hedges & _ & _ & Hfolds). intros Hs.
    assert (Hlo : In (step_eid s) (all_eids c) -> root <= step_eid s).
    { intros H. now destruct (interval_ok_inv _ Hiv _ H). }
    destruct s as [e|h sub']; cbn [step_to step_eid step_from] in *.
    - pose proof (oc_edge _ Hs) as He. destruct (edge_wf_inv _ _ (Hedges _ He)) as (E1 & E2 & _ & E4 & _).
      repeat split; auto. apply Hlo. unfold c. rewrite all_eids_eq. apply in_or_app. left. now apply in_map.
    - destruct (oc_raw _ _ Hs) as (sub & Hin). destruct (Hfolds _ _ Hin) as (Hh & _).
      destruct (fold_hdr_wf_inv _ _ _ _ _ _ Hh) as (E1 & E2 & E3 & _). repeat split; auto.
      apply Hlo. apply (all_eids_fold_incl root vs es fs outs h sub Hin). now left.
  Qed.

  Lemma oc_eids_nodup : NoDup (map step_eid ss).
  Proof. now apply StronglySorted_NoDup. Qed.

  (* vertices of the component entered before the step s *)
  Lemma oc_vis_before done s rest v :
    ss = done ++ s :: rest -> In v (comp_vids vs) -> v <= step_to s ->
    v = step_to s \/ v = root \/ In v (map e_to (steps_edges done)).
  Proof.
    destruct Hinv as (_ & _ & _ & Hent & Hedges & _). intros Hss Hv Hle.
    destruct (Hent _ Hv) as [->|Hto]; [auto|].
    apply in_map_iff in Hto. destruct Hto as (e' & E' & He').
    assert (Hs' : In (SEdge e') ss) by (apply in_steps; now rewrite Ees).
    assert (Hs : In s ss) by (rewrite Hss; apply in_or_app; right; now left).
    destruct (oc_shape _ Hs) as (Et & _). destruct (oc_shape _ Hs') as (Et' & _). cbn [step_to step_eid] in Et'.
    destruct (N.eq_dec v (step_to s)) as [E|Hne']; [now left|right; right].
    apply in_map_iff. exists e'. split; [exact E'|].
    rewrite Hss in Hs', Hsorted.
    assert (Hd : In (SEdge e') done) by (apply (sorted_split_before done s rest _ Hsorted Hs'); cbn [step_eid]; lia).
    now apply in_steps in Hd.
  Qed.

  Lemma oc_fds_before done s rest x :
    ss = done ++ s :: rest -> In x (steps_eids ss) -> x + 1 < step_to s -> In x (steps_eids done).
  Proof.
    intros Hss Hx Hlt. destruct (steps_eids_in _ _ Hx) as (h0 & sub0 & H0 & <-).
    assert (Hs : In s ss) by (rewrite Hss; apply in_or_app; right; now left).
    destruct (oc_shape _ Hs) as (Et & _).
    rewrite Hss in H0, Hsorted.
    assert (Hd : In (SFold h0 sub0) done) by (apply (sorted_split_before done s rest _ Hsorted H0); cbn [step_eid]; lia).
    exact (steps_eids_of _ _ _ Hd).
  Qed.

  (* a fold's target is not a vertex of this component *)
  Lemma oc_fold_to_foreign h sub' : In (SFold h sub') ss -> ~ In (fo_to h) (comp_vids vs).
  Proof.
    destruct Hinv as (_ & _ & _ & Hent & _). intros Hs Hin.
    destruct (oc_shape _ Hs) as (Et & _ & _ & Hlo). cbn [step_to step_eid] in Et, Hlo.
    destruct (Hent _ Hin) as [E|Hto]; [lia|].
    apply in_map_iff in Hto. destruct Hto as (e' & E' & He').
    assert (Hs' : In (SEdge e') ss) by (apply in_steps; now rewrite Ees).
    destruct (oc_shape _ Hs') as (Et' & _). cbn [step_to step_eid] in Et'.
    assert (E : SEdge e' = SFold h sub'); [|discriminate].
    apply (NoDup_map_inj_in step_eid ss _ _ oc_eids_nodup Hs' Hs). cbn [step_eid]. lia.
  Qed.

  (* ---- tag operands ---- *)
  Lemma oc_ref_ok st cur u t :
    (forall v, In v (comp_vids vs) -> v <= u -> v = cur \/ In v (s_vis st)) ->
    (forall x, In x (steps_eids ss) -> x + 1 < u -> In x (s_fds st)) ->
    tag_ok (comp_vids vs) (comp_feids fs) avail u t = true ->
    ref_ok vs ss impk st cur t = true.
  Proof.
    intros Hv Hf Ht. destruct t as [cf|ff]; cbn [ref_ok tag_ok] in *.
    - destruct (memN (cf_vid cf) (comp_vids vs)) eqn:Em.
      + apply memN_In in Em. apply N.leb_le in Ht.
        destruct (find_vertex_some _ _ Em) as (x & ->).
        destruct (Hv _ Em Ht) as [->|Hr]; [now rewrite N.eqb_refl|].
        apply memN_In in Hr. rewrite Hr. apply orb_true_r.
      + assert (Hnone : find_vertex vs (cf_vid cf) = None).
        { destruct (find_vertex vs (cf_vid cf)) eqn:E; [|reflexivity].
          exfalso. apply memN_false in Em. apply Em. apply find_vertex_iff. eauto. }
        rewrite Hnone. unfold mem_ref in Ht. apply existsb_exists in Ht. destruct Ht as (o & Ho & Eo).
        assert (Hr : ref_in (FRContext cf) impk = true) by (apply existsb_exists; exists o; split; [auto|exact Eo]).
        rewrite Hr. apply orb_true_r.
    - apply andb_prop in Ht. destruct Ht as (_ & Ht). rewrite <- oc_feids in Ht.
      destruct (memN (ff_eid ff) (steps_eids ss)) eqn:Em.
      + apply memN_In in Em. pose proof (proj2 (has_fold_iff ss (ff_eid ff)) Em) as ->.
        apply N.ltb_lt in Ht. apply memN_In. auto.
      + assert (Hh : has_fold ss (ff_eid ff) = false).
        { destruct (has_fold ss (ff_eid ff)) eqn:E; [|reflexivity]. apply has_fold_iff in E. apply memN_In in E. congruence. }
        rewrite Hh. unfold mem_ref in Ht. apply existsb_exists in Ht. destruct Ht as (o & Ho & Eo).
        apply existsb_exists. exists o. auto.
  Qed.

  Lemma oc_arg_ok st cur u op a :
    (forall v, In v (comp_vids vs) -> v <= u -> v = cur \/ In v (s_vis st)) ->
    (forall x, In x (steps_eids ss) -> x + 1 < u -> In x (s_fds st)) ->
    arity_ok op a = true ->
    arg_wf vars (comp_vids vs) (comp_feids fs) avail u a = true ->
    arg_ok args vs ss impk st cur op a = true.
  Proof.
    intros Hv Hf Har Hw. unfold arg_wf in Hw. apply andb_prop in Hw. destruct Hw as (Hvar & Htags).
    unfold arity_ok in Har. apply Bool.eqb_prop in Har.
    destruct a as [[t|x ty]|]; cbn [arg_ok].
    - cbn [arg_tags forallb] in Htags. apply andb_prop in Htags. destruct Htags as (Ht & _).
      rewrite (oc_ref_ok st cur u t Hv Hf Ht). apply orb_true_r.
    - cbn [var_ok] in Hvar. destruct (lookup_str x vars) as [t0|] eqn:El; [|discriminate].
      apply lookup_str_in in El. rewrite (Hbound _ _ El). apply orb_true_r.
    - now rewrite <- Har.
  Qed.

  Lemma oc_vertex_ok st v :
    In v vs ->
    (forall x, In x (comp_vids vs) -> x <= v_vid v -> x = v_vid v \/ In x (s_vis st)) ->
    (forall x, In x (steps_eids ss) -> x + 1 < v_vid v -> In x (s_fds st)) ->
    vertex_ok args vs ss impk st v = true.
  Proof.
    destruct Hinv as (_ & _ & _ & _ & _ & Hverts & _). intros Hin Hv Hf.
    destruct (arity_comp_inv _ _ _ _ _ Harity) as (Har & _).
    unfold vertex_ok. apply forallb_forall. intros f Hfl.
    specialize (Hverts _ Hin). unfold vertex_wf in Hverts. rewrite forallb_forall in Hverts.
    apply (oc_arg_ok st (v_vid v) (v_vid v)); auto. exact (Har v f Hin Hfl).
  Qed.

  (* ---- the step loop ---- *)
  Lemma oc_steps : forall todo done st,
    ss = done ++ todo ->
    s_vis st = root :: map e_to (steps_edges done) -> s_fds st = steps_eids done ->
    s_fks st = steps_keys done ->
    dfs_steps dfs_comp todo st = true ->
    np_steps args vs ss outs impk todo st = true.
  Proof.
    destruct Hinv as (_ & _ & Hroot & Hent & Hedges & _ & Houts & Hfolds).
    induction todo as [|s todo IH]; intros done st Hss Evis Efds Efks Hdfs.
    - (* outputs *)
      cbn [np_steps]. unfold outs_np. apply forallb_forall. intros o Ho.
      rewrite app_nil_r in Hss. subst done. rewrite Ees in Evis.
      pose proof (Houts _ Ho) as Hv. destruct (find_vertex_some _ _ Hv) as (x & ->). cbn [is_some]. rewrite andb_true_r.
      apply memN_In. rewrite Evis. destruct (Hent _ Hv) as [->|H]; [now left|now right].
    - assert (Hs : In s ss) by (rewrite Hss; apply in_or_app; right; now left).
      assert (Hnext : ss = (done ++ [s]) ++ todo) by (now rewrite <- app_assoc).
      destruct (oc_shape _ Hs) as (Et & Hlt & Hfrom & Hlo).
      assert (Hfrom_vis : In (step_from s) (s_vis st)).
      { rewrite Evis. destruct (oc_vis_before done s todo _ Hss Hfrom ltac:(lia)) as [E|[E|H]]; [lia|now left|now right]. }
      destruct s as [e|h sub']; cbn [np_steps dfs_steps step_to step_from step_eid] in *.
      + (* an edge *)
        apply andb_prop in Hdfs. destruct Hdfs as (Hanc & Hdfs).
        pose proof (oc_edge _ Hs) as He. destruct (edge_wf_inv _ _ (Hedges _ He)) as (_ & _ & Hto & _ & Hok).
        apply andb_true_intro. split.
        * unfold edge_np. destruct (find_vertex_some _ _ Hfrom) as (fromv & ->).
          destruct (find_vertex_some _ _ Hto) as (tov & Etov). rewrite Etov.
          destruct (find_vertex_in _ _ _ Etov) as (Htin & Evid).
          apply memN_In in Hfrom_vis. rewrite Hfrom_vis. cbn [andb].
          assert (Hnew : memN (e_to e) (s_vis st) = false).
          { apply memN_false. rewrite Evis. intros [E|Hin]; [lia|].
            rewrite <- Ees, Hss, steps_edges_app in Hkeys. cbn [steps_edges] in Hkeys.
            inversion Hkeys as [|? ? _ Hk]; subst. rewrite map_app in Hk. cbn [map] in Hk.
            apply (NoDup_app_disj _ _ (e_to e) Hk Hin). now left. }
          rewrite Hnew. cbn [negb andb].
          rewrite (oc_vertex_ok st tov Htin).
          -- cbn [andb]. unfold edge_ok in Hok. destruct (e_rec e) as [r|]; [|reflexivity].
             rewrite Hok. exact Hanc.
          -- rewrite Evid. intros x Hx Hle.
             destruct (oc_vis_before done (SEdge e) todo x Hss Hx Hle) as [E|[E|H]]; [now left|right|right];
               rewrite Evis; [now left|now right].
          -- rewrite Evid. intros x Hx Hlt'. rewrite Efds. exact (oc_fds_before done (SEdge e) todo x Hss Hx Hlt').
        * apply (IH (done ++ [SEdge e])); [exact Hnext| | | |exact Hdfs]; unfold st_edge, st_enter; cbn [s_vis s_fds s_fks].
          -- rewrite Evis, steps_edges_app. cbn [steps_edges]. now rewrite map_app.
          -- rewrite Efds, steps_eids_app. cbn [steps_eids]. now rewrite app_nil_r.
          -- rewrite Efks, steps_keys_app. cbn [steps_keys]. now rewrite app_nil_r.
      + (* a fold *)
        apply andb_prop in Hdfs. destruct Hdfs as (Hdfs0 & Hdfs).
        destruct (oc_raw _ _ Hs) as (sub & Hin). destruct (Hfolds _ _ Hin) as (Hh & _).
        destruct (fold_hdr_wf_inv _ _ _ _ _ _ Hh) as (_ & _ & _ & _ & Hpost & Himp).
        destruct (arity_comp_inv _ _ _ _ _ Harity) as (_ & Harf). destruct (Harf _ _ Hin) as (Harp & _).
        pose proof (oc_fold_to_foreign _ _ Hs) as Hforeign.
        assert (Hvis_u : forall v, In v (comp_vids vs) -> v <= fo_to h -> In v (s_vis st)).
        { intros v Hv Hle. rewrite Evis.
          destruct (oc_vis_before done (SFold h sub') todo v Hss Hv Hle) as [E|[E|H]]; [|now left|now right].
          cbn [step_to] in E. subst v. contradiction. }
        assert (Hfds_u : forall x, In x (steps_eids ss) -> x + 1 < fo_to h -> In x (s_fds st)).
        { intros x Hx Hl. rewrite Efds. exact (oc_fds_before done (SFold h sub') todo x Hss Hx Hl). }
        apply andb_true_intro. split; [apply andb_true_intro; split|].
        * unfold fold_np. destruct (find_vertex_some _ _ Hfrom) as (fromv & ->). cbn [is_some andb].
          apply memN_In in Hfrom_vis. rewrite Hfrom_vis. cbn [andb].
          (* imported tags *)
          assert (H1 : forallb (import_np vs st) (fo_imported h) = true).
          { apply forallb_forall. intros t Ht. specialize (Himp _ Ht).
            pose proof (tag_ok_defined _ _ _ _ Himp) as Hdef. pose proof (tag_ok_inv _ _ _ _ _ Himp) as Hle.
            destruct t as [cf|ff]; cbn [import_np].
            - destruct (find_vertex_some _ _ Hdef) as (x & ->). cbn [is_some andb]. apply memN_In. auto.
            - apply memN_In. apply Hfds_u; [rewrite oc_feids; exact Hdef|auto]. }
          rewrite H1. cbn [andb].
          assert (H2 : disjoint_keysb (fo_imported h) impk = true).
          { apply disjoint_keysb_complete. intros t o Ht Ho. specialize (Himp _ Ht).
            pose proof (tag_ok_defined _ _ _ _ Himp) as Hdef. specialize (Hout _ Ho).
            destruct t as [cf|ff], o as [cf'|ff']; cbn [fieldref_eqb]; try reflexivity.
            - destruct (N.eqb_spec (cf_vid cf) (cf_vid cf')) as [E|_]; [|reflexivity]. exfalso. apply Hout.
              rewrite <- E. unfold c. rewrite all_vids_eq. apply in_or_app. now left.
            - apply N.eqb_neq. intros E. apply Hout. rewrite <- E. unfold c. rewrite all_eids_eq. apply in_or_app. right.
              unfold comp_feids in Hdef. apply in_map_iff in Hdef. destruct Hdef as ([h0 sub0] & E0 & H0). cbn [rf_hdr] in E0.
              apply in_flat_map. exists (RFold h0 sub0). split; [exact H0|]. cbn [sub_eids]. now left. }
          rewrite H2, (Hcnt _ _ Hs). cbn [andb].
          assert (H3 : memN (fo_eid h) (s_fds st) = false).
          { apply memN_false. rewrite Efds. intros Hd.
            pose proof Hfk as Hk. rewrite <- Efs, <- steps_eids_folds, Hss, steps_eids_app in Hk. cbn [steps_eids] in Hk.
            apply (NoDup_app_disj _ _ (fo_eid h) Hk Hd). now left. }
          rewrite H3. cbn [negb andb].
          assert (H4 : forallb (fun pf => arg_ok args vs ss impk (st_fold st h sub') (fo_from h) (pf_op pf) (pf_arg pf)) (fo_post h) = true).
          { apply forallb_forall. intros pf Hpf. apply (oc_arg_ok _ (fo_from h) (fo_to h)).
            - intros v Hv Hle. right. cbn [st_fold s_vis]. auto.
            - intros x Hx Hl. cbn [st_fold s_fds]. apply in_or_app. left. auto.
            - auto.
            - auto. }
          rewrite H4. cbn [andb].
          rewrite Hss, steps_keys_app in Hnk. cbn [steps_keys] in Hnk.
          assert (H5 : nodupb fv_key_eqb (fold_keys h sub') = true).
          { apply nodupb_complete; [intros x y E; now destruct (fv_key_eqb_spec x y)|].
            apply NoDup_app_r in Hnk. eapply NoDup_app_l. exact Hnk. }
          rewrite H5. cbn [andb].
          apply forallb_forall. intros k Hk. apply Bool.negb_true_iff. apply key_in_false. rewrite Efks. intros Hd.
          apply (NoDup_app_disj _ _ k Hnk Hd). apply in_or_app. now left.
        * exact (Hsub _ _ Hs).
        * apply (IH (done ++ [SFold h sub'])); [exact Hnext| | | |exact Hdfs]; unfold st_fold; cbn [s_vis s_fds s_fks].
          -- rewrite Evis, steps_edges_app. cbn [steps_edges]. now rewrite app_nil_r.
          -- rewrite Efds, steps_eids_app. cbn [steps_eids]. reflexivity.
          -- rewrite Efks, steps_keys_app. cbn [steps_keys]. now rewrite app_nil_r.
  Qed.

  Lemma oc_comp : dfs_comp (mkComp root vs ss outs) = true -> np_comp args impk (mkComp root vs ss outs) = true.
  Proof.
    destruct Hinv as (_ & _ & Hroot & Hent & _). intros Hdfs. rewrite dfs_comp_eq in Hdfs.
    rewrite np_comp_eq. destruct (find_vertex_some _ _ Hroot) as (rootv & Erv). rewrite Erv.
    destruct (find_vertex_in _ _ _ Erv) as (Hrin & Evid).
    apply andb_true_intro. split.
    - apply oc_vertex_ok; [exact Hrin| |]; rewrite Evid.
      + intros x Hx Hle. left. destruct (Hent _ Hx) as [E|Hto]; [exact E|].
        apply in_map_iff in Hto. destruct Hto as (e' & E' & He').
        assert (Hs' : In (SEdge e') ss) by (apply in_steps; now rewrite Ees).
        destruct (oc_shape _ Hs') as (Et' & _ & _ & Hlo). cbn [step_to step_eid] in *. lia.
      + intros x Hx Hlt. exfalso. destruct (steps_eids_in _ _ Hx) as (h0 & sub0 & H0 & <-).
        destruct (oc_shape _ H0) as (_ & _ & _ & Hlo). cbn [step_eid] in Hlo. lia.
    - apply (oc_steps ss []); [reflexivity| | | |exact Hdfs]; reflexivity.
  Qed.
End OneComp.

(* ================================================================== *)
(* 5. the whole component tree                                         *)
(* ================================================================== *)
Lemma dfs_steps_inv ok todo : forall st h sub,
  dfs_steps ok todo st = true -> In (SFold h sub) todo -> ok sub = true.
Proof.
  induction todo as [|[e|h' sub'] r IH]; intros st h sub H Hin; cbn [dfs_steps] in H; [destruct Hin| |].
  - apply andb_prop in H. destruct H as (_ & H). destruct Hin as [E|Hin]; [discriminate|eauto].
  - apply andb_prop in H. destruct H as (H & Hr). apply andb_prop in H. destruct H as (_ & Hs).
    destruct Hin as [[= <- <-]|Hin]; eauto.
Qed.

Lemma wf_np_comp vars args :
  (forall x t, In (x, t) vars -> is_some (lookup_str x args) = true) ->
  forall c avail impk c',
    wf_comp vars avail c = true -> NoDup (all_vids c) -> NoDup (all_eids c) -> interval_ok c = true ->
    NoDup (all_outs c) -> outer_ok impk c -> (forall o, In o avail -> In o impk) ->
    arity_comp c = true ->
    lower c = Ok c' -> dfs_comp c' = true -> count_args_ok args c' = true ->
    np_comp args impk c' = true.
Proof.
  intros Hbound. induction c as [root vs es fs outs IHfs] using raw_comp_ind'.
  intros avail impk c' Hwf Hnv Hne Hiv Hno Hout Hav Har Hl Hdfs Hcnt.
  pose proof (wf_comp_inv _ _ _ _ _ _ _ Hwf) as (_ & _ & _ & _ & _ & _ & _ & Hfolds).
  pose proof (lower_names _ _ Hl) as Enames.
  destruct (lower_facts _ _ _ _ _ _ _ _ Hwf Hne Hiv Hl) as (ss & fs' & -> & Ees & Efs & HF2 & _ & Hkeys & Hfk & Hsorted).
  rewrite count_args_ok_eq in Hcnt.
  assert (Hnk : NoDup (steps_keys ss)).
  { apply (NoDup_map_inv snd). rewrite (steps_keys_names root vs ss outs).
    rewrite all_output_names_eq, all_outs_eq in Enames. rewrite all_outs_eq, <- Enames in Hno.
    eapply NoDup_app_r. exact Hno. }
  apply (oc_comp args vars avail impk root vs es fs outs ss fs'); auto.
  - (* the folded components *)
    intros h sub' Hs.
    assert (Hs' : In (h, sub') fs') by (rewrite <- Efs; now apply in_steps in Hs).
    destruct (Forall2_in_r _ _ _ _ HF2 Hs') as ([h' sub] & Hin & (Eh & Hls)). cbn [fst snd rf_hdr rf_comp] in *. subst h'.
    destruct (Hfolds _ _ Hin) as (Hh & Hiv' & _ & Hwf').
    destruct (fold_hdr_wf_inv _ _ _ _ _ _ Hh) as (_ & _ & _ & _ & _ & Himp).
    assert (Hdef : forall t, In t (fo_imported h) ->
              match t with FRContext cf => In (cf_vid cf) (comp_vids vs) | FRFold ff => In (ff_eid ff) (comp_feids fs) end).
    { intros t Ht. exact (tag_ok_defined _ _ _ _ (Himp _ Ht)). }
    rewrite Forall_forall in IHfs. specialize (IHfs _ Hin). cbn [rf_comp] in IHfs.
    apply (IHfs (fo_imported h ++ avail) (impk ++ fo_imported h) sub' Hwf').
    + eapply all_vids_fold_nodup; eauto.
    + pose proof (all_eids_fold_nodup _ _ _ _ _ _ _ Hne Hin) as Hd. now inversion Hd.
    + exact Hiv'.
    + eapply NoDup_app_r. eapply all_outs_fold_nodup; eauto.
    + intros o Ho. apply in_app_or in Ho. destruct Ho as [Ho|Ho].
      * specialize (Hout _ Ho). destruct o as [cf|ff]; intros Hc; apply Hout.
        -- exact (all_vids_fold_incl _ _ _ _ _ _ _ Hin _ Hc).
        -- apply (all_eids_fold_incl root vs es fs outs h sub Hin). now right.
      * specialize (Hdef _ Ho). destruct o as [cf|ff].
        -- intros Hc. rewrite all_vids_eq in Hnv. apply (NoDup_app_disj _ _ (cf_vid cf) Hnv Hdef).
           apply in_flat_map. exists (RFold h sub). auto.
        -- exact (feid_not_inside _ _ _ _ _ _ _ _ Hne Hdef Hin).
    + intros o Ho. apply in_or_app. apply in_app_or in Ho. destruct Ho as [Ho|Ho]; [now right|left; auto].
    + destruct (arity_comp_inv _ _ _ _ _ Har) as (_ & Harf). now destruct (Harf _ _ Hin).
    + exact Hls.
    + rewrite dfs_comp_eq in Hdfs. exact (dfs_steps_inv _ _ _ _ _ Hdfs Hs).
    + now destruct (count_args_steps_inv _ _ _ _ _ Hcnt Hs).
  - intros h sub' Hs. now destruct (count_args_steps_inv _ _ _ _ _ Hcnt Hs).
Qed.

(* ================================================================== *)
(* 6. the statements                                                   *)
(* ================================================================== *)
Theorem wf_np_ok args q q' :
  wf_np q = true -> lower_query q = Ok q' -> args_fit args q' = true -> np_ok args q' = true.
Proof.
  unfold wf_np, np_extra. intros H Hl Hfit.
  apply andb_prop in H. destruct H as (Hwf & Hx). apply andb_prop in Hx. destruct Hx as (Har & Hdfs).
  rewrite Hl in Hdfs.
  destruct (wf_ir_inv q Hwf) as (Hc & Hnv & Hne & Hno & Hiv).
  unfold args_fit in Hfit. apply andb_prop in Hfit. destruct Hfit as (Hb & Hcnt).
  unfold lower_query in Hl. inv_bind Hl. injection Hl as <-. cbn [q_comp q_vars] in *.
  unfold np_ok. cbn [q_comp]. apply andb_true_intro. split.
  - apply (wf_np_comp (rq_vars q) args) with (c := rq_comp q) (avail := []); auto.
    + intros y t Hin. rewrite forallb_forall in Hb. exact (Hb _ Hin).
    + intros o [].
  - unfold names_nodupb. apply nodupb_complete; [intros a b E; now apply String.eqb_eq|].
    rewrite (lower_names _ _ Hx). exact Hno.
Qed.

Theorem wf_np_engine_panics_only_in_operators re g args q q' site :
  ty_indep g -> wf_np q = true -> lower_query q = Ok q' -> args_fit args q' = true ->
  interpret re g args q' = Panic site -> operator_site site = true.
Proof.
  intros Hi Hwf Hl Hfit Hp.
  exact (interpret_panics_only_in_operators re g args Hi q' site (wf_np_ok args q q' Hwf Hl Hfit) Hp).
Qed.

(* ================================================================== *)
(* 7. args_fit from argument validation (C12)                          *)
(* ================================================================== *)
(* If the arguments are accepted by the engine's validation (Args.validate, property C12) and the
   variables used by fold-count filters are recorded as Int! ([Int!]! for one_of / not_one_of) —
   the typing fact the frontend establishes for count filters (DESIGN A.4 #10), not part of wf_ir —
   then args_fit holds. *)
Definition member_op (op : opk) : bool := match op with OneOf | NotOneOf => true | _ => false end.
Definition ty_eqb (a b : ty) : bool := String.eqb (tbase a) (tbase b) && N.eqb (tmask a) (tmask b).
Definition count_var_typed (vars : list (string * ty)) (pf : pfilter) : bool :=
  match pf_arg pf with
  | Some (AVar x _) =>
      match lookup_str x vars with
      | Some t0 => ty_eqb t0 (if member_op (pf_op pf) then mkTy "Int" 7 else mkTy "Int" 1)
      | None => false
      end
  | _ => true
  end.

Fixpoint count_vars_typed (vars : list (string * ty)) (c : ir_component) {struct c} : bool :=
  match c with
  | mkComp _ _ ss _ =>
      (fix go (todo : list step) : bool :=
         match todo with
         | [] => true
         | SEdge _ :: r => go r
         | SFold h sub :: r => forallb (count_var_typed vars) (fo_post h) && count_vars_typed vars sub && go r
         end) ss
  end.

Lemma ty_eqb_eq a b : ty_eqb a b = true -> a = b.
Proof.
  destruct a, b. unfold ty_eqb. cbn. intros H. apply andb_prop in H. destruct H as (H1 & H2).
  apply String.eqb_eq in H1. apply N.eqb_eq in H2. now subst.
Qed.

Lemma valid_int_nonnull v : ty_valid (mkTy "Int" 1) v = Ok true -> ExecNoPanic.is_int v = true.
Proof. destruct v; cbn; intros H; try reflexivity; try discriminate. Qed.

Lemma valid_int_list v : ty_valid (mkTy "Int" 7) v = Ok true ->
  match v with List l => forallb ExecNoPanic.is_int l = true | _ => False end.
Proof.
  destruct v as [| | | | | | |l]; try (cbn; discriminate).
  cbn [ty_valid]. change (ty_as_list (mkTy "Int" 7)) with (Some (mkTy "Int" 1)).
  induction l as [|x r IH]; [reflexivity|]. cbn [forallb].
  destruct (ty_valid (mkTy "Int" 1) x) as [[|]|] eqn:E; cbn [bind]; try discriminate.
  intros H. rewrite (valid_int_nonnull _ E). exact (IH H).
Qed.

Lemma count_arg_ok_of_valid vars args pf :
  ArgsProofs.acceptable vars args -> count_var_typed vars pf = true -> count_arg_ok args pf = true.
Proof.
  intros (Hacc & _). unfold count_var_typed, count_arg_ok. destruct (pf_arg pf) as [[t|x ty]|]; try reflexivity.
  destruct (lookup_str x vars) as [t0|] eqn:El; [|discriminate]. intros Ht. apply ty_eqb_eq in Ht.
  apply lookup_str_in in El. destruct (Hacc _ _ El) as (v & -> & Hv). rewrite Ht in Hv.
  destruct (pf_op pf); cbn [member_op] in Hv; try exact (valid_int_nonnull _ Hv);
    (pose proof (valid_int_list _ Hv) as Hl; destruct v; try contradiction; exact Hl).
Qed.

Lemma count_args_of_valid vars args : ArgsProofs.acceptable vars args ->
  forall c, count_vars_typed vars c = true -> count_args_ok args c = true.
Proof.
  intros Hacc. induction c as [root vs ss outs IH] using ir_component_ind'. cbn [count_vars_typed count_args_ok].
  induction IH as [|[e|h sub] r Hs _ IHr]; intros H; [reflexivity|exact (IHr H)|].
  apply andb_prop in H. destruct H as (H & Hr). apply andb_prop in H. destruct H as (Hp & Hsub). cbn [step_P] in Hs.
  rewrite (Hs Hsub), (IHr Hr), !andb_true_r. apply forallb_forall. intros pf Hpf.
  rewrite forallb_forall in Hp. exact (count_arg_ok_of_valid vars args pf Hacc (Hp _ Hpf)).
Qed.

Theorem validate_args_fit args q' :
  Args.validate (q_vars q') args = Ok Args.VOk -> count_vars_typed (q_vars q') (q_comp q') = true ->
  args_fit args q' = true.
Proof.
  intros Hv Ht. apply ArgsProofs.validate_ok_iff in Hv. unfold args_fit. apply andb_true_intro. split.
  - apply forallb_forall. intros [x t] Hin. destruct Hv as (Hacc & _). destruct (Hacc _ _ Hin) as (v & E & _).
    cbn [fst]. now rewrite E.
  - exact (count_args_of_valid _ _ Hv _ Ht).
Qed.
