(* WfRefine.v — the hypotheses of the whole-query refinement theorem (SimFinal.interpret_refines_sem)
   follow from the C11 validator `wf_ir`, through lowering.  The only non-structural condition left
   is `no_saturation`: no fold-count limit that compute_fold would truncate to reaches usize::MAX. *)
From Coq Require Import Lia Sorted Permutation.
From TF Require Import Values Graph Exec Sem ExecLemmas Sim SimRec SimComp SimOut SimTop FoldLimits FoldOut
                       SimGen SemT SimGenT EraseSem EraseWf SimFinal WfIR WfIRProofs.
Local Open Scope string_scope.
Local Open Scope N_scope.
Local Open Scope list_scope.

(* ---------- the non-structural condition ---------- *)
Fixpoint no_sat_steps (args : list (string * fv)) (vs : list ir_vertex) (ss : list step)
         (sub_ok : ir_component -> bool) (todo : list step) : bool :=
  match todo with
  | [] => true
  | SEdge _ :: r => no_sat_steps args vs ss sub_ok r
  | SFold h sub :: r =>
      (match trunc_of args vs ss h sub with Some m => Z.ltb m usize_max | None => true end)
      && sub_ok sub && no_sat_steps args vs ss sub_ok r
  end.

(* at every nesting level: a fold that compute_fold truncates (take(min)) has min < usize::MAX *)
Fixpoint no_saturation (args : list (string * fv)) (c : ir_component) {struct c} : bool :=
  match c with
  | mkComp _ vs ss _ =>
      (fix go (todo : list step) : bool :=
         match todo with
         | [] => true
         | SEdge _ :: r => go r
         | SFold h sub :: r =>
             (match trunc_of args vs ss h sub with Some m => Z.ltb m usize_max | None => true end)
             && no_saturation args sub && go r
         end) ss
  end.

Lemma no_saturation_eq args root vs ss outs :
  no_saturation args (mkComp root vs ss outs) = no_sat_steps args vs ss (no_saturation args) ss.
Proof.
  cbn [no_saturation]. generalize ss at 1 3 as whole. intros whole.
  induction ss as [|[e|h sub] r IH]; cbn [no_sat_steps]; [reflexivity|exact IH|]. now rewrite IH.
Qed.

Lemma no_sat_steps_inv args vs ss ok todo h sub :
  no_sat_steps args vs ss ok todo = true -> In (SFold h sub) todo ->
  (forall m, trunc_of args vs ss h sub = Some m -> (m < usize_max)%Z) /\ ok sub = true.
Proof.
  induction todo as [|[e|h' sub'] r IH]; cbn [no_sat_steps]; intros H Hin; [destruct Hin| |].
  - destruct Hin as [E|Hin]; [discriminate|auto].
  - apply andb_prop in H. destruct H as (H & Hr). apply andb_prop in H. destruct H as (Ht & Hs).
    destruct Hin as [[= <- <-]|Hin]; [|auto]. split; [|exact Hs].
    intros m Hm. rewrite Hm in Ht. now apply Z.ltb_lt.
Qed.

(* ---------- introduction lemmas for the step-indexed predicates ---------- *)
Lemma wf_steps_t_intro outer ss :
  (forall e, In (SEdge e) ss -> edge_ok e = true) ->
  (forall h sub, In (SFold h sub) ss ->
     disjoint_keys (fo_imported h) outer /\ wf_comp_t (outer ++ fo_imported h) sub) ->
  wf_steps_t outer ss.
Proof.
  induction ss as [|[e|h sub] r IH]; intros He Hf; cbn [wf_steps_t]; [exact I| |].
  - split; [apply He; now left|]. apply IH; intros; [apply He|apply Hf]; now right.
  - split; [apply Hf; now left|]. apply IH; intros; [apply He|apply Hf]; now right.
Qed.

Lemma wf_out_steps_intro ss : (forall h sub, In (SFold h sub) ss -> wf_out sub) -> wf_out_steps ss.
Proof.
  induction ss as [|[e|h sub] r IH]; intros Hf; cbn [wf_out_steps]; [exact I| |].
  - apply IH. intros h sub H. apply (Hf h sub). now right.
  - split; [apply (Hf h sub); now left|]. apply IH. intros h' sub' H. apply (Hf h' sub'). now right.
Qed.

Lemma erasable_steps_intro args vs ss todo :
  (forall h sub, In (SFold h sub) todo ->
     (forall m, trunc_of args vs ss h sub = Some m -> (m < usize_max)%Z) /\ erasable args sub) ->
  erasable_steps args vs ss todo.
Proof.
  induction todo as [|[e|h sub] r IH]; intros Hf; cbn [erasable_steps]; [exact I| |].
  - apply IH. intros h sub H. apply (Hf h sub). now right.
  - split; [apply (Hf h sub); now left|]. apply IH. intros h' sub' H. apply (Hf h' sub'). now right.
Qed.

(* ---------- fold-output keys are the output names, tagged with fold eids ---------- *)
Lemma nested_keys_names : forall c, map snd (nested_fold_keys c) = names_steps (c_steps c).
Proof.
  induction c as [root vs ss outs IH] using ir_component_ind'.
  rewrite nested_fold_keys_eq. cbn [c_steps].
  induction IH as [|[e|h sub] r Hs _ IHr]; cbn [steps_keys names_steps]; [reflexivity|exact IHr|].
  cbn [step_P] in Hs. unfold fold_keys, fs_keys, own_keys. rewrite !map_app, !map_map. cbn [snd].
  unfold fkey in *. rewrite map_id, Hs, IHr. destruct sub as [sroot svs sss souts]. rewrite all_output_names_eq. cbn [c_outputs c_steps].
  now rewrite <- !app_assoc.
Qed.

Lemma steps_keys_names (root : N) (vs : list ir_vertex) ss (outs : list (string * ctxfield)) :
  map snd (steps_keys ss) = names_steps ss.
Proof. rewrite <- (nested_fold_keys_eq root vs ss outs). exact (nested_keys_names (mkComp root vs ss outs)). Qed.

Lemma steps_eids_folds ss : steps_eids ss = fold_eids (steps_folds ss).
Proof.
  induction ss as [|[e|h sub] r IH]; cbn [steps_eids steps_folds fold_eids map fst]; [reflexivity|exact IH|].
  now rewrite IH.
Qed.

(* ---------- fold-count references name the fold's root consistently ---------- *)
Lemma tag_ok_root vids feids av u ff : tag_ok vids feids av u (FRFold ff) = true -> ff_root ff = ff_eid ff + 1.
Proof. cbn [tag_ok]. intros H. apply andb_prop in H. destruct H as (H & _). now apply N.eqb_eq. Qed.

Lemma ref_consistent_of ss t :
  (forall h sub, In (SFold h sub) ss -> fo_to h = fo_eid h + 1) ->
  match t with FRFold ff => ff_root ff = ff_eid ff + 1 | FRContext _ => True end ->
  ref_consistent ss t = true.
Proof.
  intros Hto Ht. destruct t as [cf|ff]; [reflexivity|]. cbn [ref_consistent].
  apply forallb_forall. intros [e|h sub] Hs; [reflexivity|].
  destruct (N.eqb_spec (fo_eid h) (ff_eid ff)) as [E|_]; [|reflexivity]. cbn [negb orb].
  apply N.eqb_eq. rewrite Ht, (Hto _ _ Hs), E. reflexivity.
Qed.

Lemma tag_ok_shape vids feids av u t : tag_ok vids feids av u t = true ->
  match t with FRFold ff => ff_root ff = ff_eid ff + 1 | FRContext _ => True end.
Proof. destruct t as [cf|ff]; [exact (fun _ => I)|apply tag_ok_root]. Qed.

(* an imported entry is defined by the importing fold's parent component *)
Lemma tag_ok_defined vids feids u t : tag_ok vids feids [] u t = true ->
  match t with FRContext cf => In (cf_vid cf) vids | FRFold ff => In (ff_eid ff) feids end.
Proof.
  destruct t as [cf|ff]; cbn [tag_ok].
  - destruct (memN (cf_vid cf) vids) eqn:E; [intros _; now apply memN_In|discriminate].
  - intros H. apply andb_prop in H. destruct H as (_ & H).
    destruct (memN (ff_eid ff) feids) eqn:E; [now apply memN_In|discriminate].
Qed.

(* ---------- tags imported further out are defined outside this subtree ---------- *)
Definition outer_ok (outer : list fieldref) (c : raw_comp) : Prop :=
  forall o, In o outer ->
    match o with
    | FRContext cf => ~ In (cf_vid cf) (all_vids c)
    | FRFold ff => ~ In (ff_eid ff) (all_eids c)
    end.

Lemma NoDup_flat_map_same {A B} (f : A -> list B) l a b x :
  NoDup (flat_map f l) -> In a l -> In b l -> In x (f a) -> In x (f b) -> a = b.
Proof.
  induction l as [|c r IH]; cbn [flat_map]; [intros _ []|]. intros Hn Ha Hb Hxa Hxb.
  destruct Ha as [->|Ha], Hb as [->|Hb]; [reflexivity| | |].
  - exfalso. apply (NoDup_app_disj _ _ x Hn Hxa). apply in_flat_map. eauto.
  - exfalso. apply (NoDup_app_disj _ _ x Hn Hxb). apply in_flat_map. eauto.
  - apply IH; auto. eapply NoDup_app_r; eauto.
Qed.

Lemma feid_not_inside root vs es fs outs h sub x :
  NoDup (all_eids (RComp root vs es fs outs)) -> In x (comp_feids fs) -> In (RFold h sub) fs ->
  ~ In x (all_eids sub).
Proof.
  intros Hn Hx Hin Hsub. unfold comp_feids in Hx. apply in_map_iff in Hx. destruct Hx as ([h0 sub0] & <- & H0).
  cbn [rf_hdr] in Hsub. pose proof Hn as Hn'. rewrite all_eids_eq in Hn'. apply NoDup_app_r in Hn'.
  assert (E : RFold h0 sub0 = RFold h sub).
  { apply (NoDup_flat_map_same sub_eids fs _ _ (fo_eid h0) Hn' H0 Hin); cbn [sub_eids]; [now left|now right]. }
  injection E as -> ->. pose proof (all_eids_fold_nodup _ _ _ _ _ _ _ Hn Hin) as Hd. inversion Hd; contradiction.
Qed.

Lemma all_vids_fold_nodup root vs es fs outs h sub :
  NoDup (all_vids (RComp root vs es fs outs)) -> In (RFold h sub) fs -> NoDup (all_vids sub).
Proof.
  rewrite all_vids_eq. intros Hn Hin. apply NoDup_app_r in Hn. exact (NoDup_flat_map_in sub_vids _ _ Hn Hin).
Qed.

Lemma all_vids_fold_incl root vs es fs outs h sub :
  In (RFold h sub) fs -> incl (all_vids sub) (all_vids (RComp root vs es fs outs)).
Proof.
  intros Hin x Hx. rewrite all_vids_eq. apply in_or_app. right. apply in_flat_map. exists (RFold h sub). auto.
Qed.

(* ---------- the main induction ---------- *)
Lemma wf_refine_comp vars args : forall c avail outer c',
  wf_comp vars avail c = true -> NoDup (all_vids c) -> NoDup (all_eids c) -> interval_ok c = true ->
  NoDup (all_outs c) -> outer_ok outer c ->
  lower c = Ok c' -> no_saturation args c' = true ->
  wf_comp_t outer c' /\ wf_out c' /\ erasable args c'.
Proof.
  induction c as [root vs es fs outs IHfs] using raw_comp_ind'.
  intros avail outer c' Hwf Hnv Hne Hiv Hno Hout Hl Hsat.
  pose proof (wf_comp_inv _ _ _ _ _ _ _ Hwf) as (_ & _ & _ & _ & Hedges & Hverts & _ & Hfolds).
  pose proof (lower_names _ _ Hl) as Enames.
  destruct (lower_facts _ _ _ _ _ _ _ _ Hwf Hne Hiv Hl) as (ss & fs' & -> & Ees & Efs & HF2 & _ & _ & Hfk & _).
  rewrite no_saturation_eq in Hsat.
  (* every fold step comes from a raw fold *)
  assert (Hraw : forall h sub', In (SFold h sub') ss -> exists sub, In (RFold h sub) fs /\ lower sub = Ok sub').
  { intros h sub' Hs. apply in_steps in Hs. rewrite Efs in Hs.
    destruct (Forall2_in_r _ _ _ _ HF2 Hs) as ([h' sub] & Hin & (Eh & Hls)). cbn [fst snd rf_hdr rf_comp] in *.
    subst h'. eauto. }
  assert (Hto : forall h sub', In (SFold h sub') ss -> fo_to h = fo_eid h + 1).
  { intros h sub' Hs. destruct (Hraw _ _ Hs) as (sub & Hin & _). destruct (Hfolds _ _ Hin) as (Hh & _).
    now destruct (fold_hdr_wf_inv _ _ _ _ _ _ Hh). }
  (* the sub-components *)
  assert (Hsub : forall h sub', In (SFold h sub') ss ->
            disjoint_keys (fo_imported h) outer /\
            wf_comp_t (outer ++ fo_imported h) sub' /\ wf_out sub' /\ erasable args sub').
  { intros h sub' Hs. destruct (Hraw _ _ Hs) as (sub & Hin & Hls).
    destruct (Hfolds _ _ Hin) as (Hh & Hiv' & _ & Hwf').
    destruct (fold_hdr_wf_inv _ _ _ _ _ _ Hh) as (_ & _ & _ & _ & _ & Himp).
    destruct (no_sat_steps_inv _ _ _ _ _ _ _ Hsat Hs) as (_ & Hsat').
    assert (Hdef : forall t, In t (fo_imported h) ->
              match t with FRContext cf => In (cf_vid cf) (comp_vids vs) | FRFold ff => In (ff_eid ff) (comp_feids fs) end).
    { intros t Ht. exact (tag_ok_defined _ _ _ _ (Himp _ Ht)). }
    split.
    - intros t o Ht Ho. specialize (Hdef _ Ht). specialize (Hout _ Ho).
      destruct t as [cf|ff], o as [cf'|ff']; cbn [fieldref_eqb]; try reflexivity.
      + destruct (N.eqb_spec (cf_vid cf) (cf_vid cf')) as [E|_]; [|reflexivity]. exfalso. apply Hout.
        rewrite <- E, all_vids_eq. apply in_or_app. now left.
      + apply N.eqb_neq. intros E. apply Hout. rewrite <- E, all_eids_eq. apply in_or_app. right.
        unfold comp_feids in Hdef. apply in_map_iff in Hdef. destruct Hdef as ([h0 sub0] & E0 & H0). cbn [rf_hdr] in E0.
        apply in_flat_map. exists (RFold h0 sub0). split; [exact H0|]. cbn [sub_eids]. now left.
    - rewrite Forall_forall in IHfs. specialize (IHfs _ Hin). cbn [rf_comp] in IHfs.
      apply (IHfs (fo_imported h ++ avail) (outer ++ fo_imported h) sub' Hwf').
      + eapply all_vids_fold_nodup; eauto.
      + pose proof (all_eids_fold_nodup _ _ _ _ _ _ _ Hne Hin) as Hd. now inversion Hd.
      + exact Hiv'.
      + eapply NoDup_app_r. eapply all_outs_fold_nodup; eauto.
      + intros o Ho. apply in_app_or in Ho. destruct Ho as [Ho|Ho].
        * specialize (Hout _ Ho). destruct o as [cf|ff]; intros Hc; apply Hout.
          -- exact (all_vids_fold_incl _ _ _ _ _ _ _ Hin _ Hc).
          -- apply (all_eids_fold_incl root vs es fs outs h sub Hin). now right.
        * specialize (Hdef _ Ho). destruct o as [cf|ff].
          -- intros Hc. rewrite all_vids_eq in Hnv. apply (NoDup_app_disj _ _ (cf_vid cf) Hnv Hdef).
             apply in_flat_map. exists (RFold h sub). auto.
          -- exact (feid_not_inside _ _ _ _ _ _ _ _ Hne Hdef Hin).
      + exact Hls.
      + exact Hsat'. }
  assert (Heids : NoDup (steps_eids ss)) by (rewrite steps_eids_folds, Efs; exact Hfk).
  split; [|split].
  - apply wf_comp_t_steps. apply wf_steps_t_intro.
    + intros e He. apply in_steps in He. rewrite Ees in He. now destruct (edge_wf_inv _ _ (Hedges _ He)) as (_ & _ & _ & _ & ?).
    + intros h sub' Hs. destruct (Hsub _ _ Hs) as (A & B & _). auto.
  - apply wf_out_eq. split; [|split; [exact Heids|]].
    + apply (NoDup_map_inv snd). rewrite (steps_keys_names root vs ss outs).
      rewrite all_output_names_eq in Enames. rewrite <- Enames in Hno. eapply NoDup_app_r. exact Hno.
    + apply wf_out_steps_intro. intros h sub' Hs. now destruct (Hsub _ _ Hs) as (_ & _ & C & _).
  - apply erasable_eq. split; [|split; [exact Heids|]].
    + apply consistent_reads_ok. unfold refs_consistent_here. apply andb_true_intro. split.
      * apply forallb_forall. intros v Hv. apply forallb_forall. intros f Hf.
        specialize (Hverts _ Hv). unfold vertex_wf in Hverts. rewrite forallb_forall in Hverts.
        specialize (Hverts _ Hf). unfold arg_wf in Hverts. apply andb_prop in Hverts. destruct Hverts as (_ & Ht).
        destruct (vf_arg f) as [[t|x ty]|]; cbn [arg_consistent]; try reflexivity.
        cbn [arg_tags forallb] in Ht. apply andb_prop in Ht. destruct Ht as (Ht & _).
        apply (ref_consistent_of ss t Hto). exact (tag_ok_shape _ _ _ _ _ Ht).
      * apply forallb_forall. intros [e|h sub'] Hs; [reflexivity|].
        destruct (Hraw _ _ Hs) as (sub & Hin & _). destruct (Hfolds _ _ Hin) as (Hh & _).
        destruct (fold_hdr_wf_inv _ _ _ _ _ _ Hh) as (_ & _ & _ & _ & Hpost & Himp).
        apply andb_true_intro. split.
        -- apply forallb_forall. intros t Ht. apply (ref_consistent_of ss t Hto).
           exact (tag_ok_shape _ _ _ _ _ (Himp _ Ht)).
        -- apply forallb_forall. intros pf Hpf. specialize (Hpost _ Hpf). unfold arg_wf in Hpost.
           apply andb_prop in Hpost. destruct Hpost as (_ & Ht).
           destruct (pf_arg pf) as [[t|x ty]|]; cbn [arg_consistent]; try reflexivity.
           cbn [arg_tags forallb] in Ht. apply andb_prop in Ht. destruct Ht as (Ht & _).
           apply (ref_consistent_of ss t Hto). exact (tag_ok_shape _ _ _ _ _ Ht).
    + apply erasable_steps_intro. intros h sub' Hs.
      destruct (no_sat_steps_inv _ _ _ _ _ _ _ Hsat Hs) as (Hm & _). destruct (Hsub _ _ Hs) as (_ & _ & _ & D). auto.
Qed.

(* ---------- the statements ---------- *)
Theorem wf_ir_refine_hyps args q q' :
  wf_ir q = true -> lower_query q = Ok q' -> no_saturation args (q_comp q') = true ->
  wf_comp_t [] (q_comp q') /\ wf_out (q_comp q') /\ NoDup (all_output_names (q_comp q')) /\
  erasable args (q_comp q').
Proof.
  intros Hwf Hl Hsat. destruct (wf_ir_inv q Hwf) as (Hc & Hnv & Hne & Hno & Hiv).
  unfold lower_query in Hl. inv_bind Hl. injection Hl as <-. cbn [q_comp] in *.
  destruct (wf_refine_comp (rq_vars q) args (rq_comp q) [] [] x Hc Hnv Hne Hiv Hno) as (A & B & C); auto.
  { intros o []. }
  split; [exact A|]. split; [exact B|]. split; [|exact C].
  rewrite (lower_names _ _ Hx). exact Hno.
Qed.

Theorem wf_ir_engine_refines re g args q q' rows :
  ty_indep g -> wf_ir q = true -> lower_query q = Ok q' -> no_saturation args (q_comp q') = true ->
  interpret re g args q' = Ok rows -> Forall2 row_equiv rows (sem re g args q').
Proof.
  intros Hi Hwf Hl Hsat Hr. destruct (wf_ir_refine_hyps args q q' Hwf Hl Hsat) as (A & B & C & D).
  exact (interpret_refines_sem re g args Hi q' rows A B C D Hr).
Qed.

(* C13 through the refinement: rows of the engine model, any nesting of folds *)
Theorem engine_rows_typed_wf re g args S q ix q' rows :
  ty_indep g -> conforms S g -> wf_ir q = true -> outputs_typed S (rq_comp q) ->
  index_query q = Ok (inr ix) -> lower_query q = Ok q' -> no_saturation args (q_comp q') = true ->
  interpret re g args q' = Ok rows ->
  forall row, In row rows ->
    (forall n, lookup_str n row <> None <-> In n (map fst (ix_outputs ix))) /\
    forall n t v, In (n, (t, v)) (ix_outputs ix) -> ty_valid t (row_get row n) = Ok true.
Proof.
  intros Hind Hconf Hwf Hot Hi Hl Hsat Hrows row Hrow.
  pose proof (wf_ir_engine_refines re g args q q' rows Hind Hwf Hl Hsat Hrows) as HF2.
  destruct (Forall2_in_l _ _ _ _ HF2 Hrow) as (srow & Hs & Heq).
  destruct (sem_rows_carry_indexed_outputs re g args q ix q' Hi Hl srow Hs) as (_ & Hk).
  split.
  - intros n. rewrite (Heq n). apply Hk.
  - intros n t v Hin. unfold row_get. rewrite (Heq n).
    exact (row_typed re g args S q ix q' Hconf Hwf Hot Hi Hl srow Hs n t v Hin).
Qed.
