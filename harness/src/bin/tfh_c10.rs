//! C10: the frontend never panics on any query text.
//!
//! usage: tfh_c10 c10 --seed S --n N --out DIR [--oracle-only]
//!        tfh_c10 probe SCHEMA(world|edgecases|numbers|..|path/to/schema.graphql) QUERY...
//!            (verdict of frontend::parse, classes, parse_document rendering, Gallina AST;
//!             C10_PRINT_SCHEMA=1 also prints the schema as a SchemaAst `doc`)
//!
//! ORACLE (the property itself, on raw text): catch_unwind(frontend::parse(schema, text)) must not
//! panic.  A panic on a text whose PARSED document lies in a recorded known class (syntactic predicate
//! `known_classes`) and whose panic file/message is that class's (`CLASS_SITES`) is `oracle_fail_class`;
//! any other panic is `oracle_fail` with the text as replay.  Additionally every observed panic must
//! satisfy the Coq predicate `known_parse` (spec case), and every schema used must satisfy `schema_okb`.
//! TIE: the text is parsed by the real async_graphql_parser::parse_query, the ExecutableDocument is
//! printed as a `document` of QueryAst.v, and compared are (1) the real parse_document vs QueryParse.v
//! `parse_doc` (complete Query / ParseError with strings / PANIC), (2) frontend::parse_doc vs Front.v
//! `front_doc` (complete IRQuery / ordered FrontendErrors with strings / PANIC), (3) IndexedQuery::try_from.
//! Schemas: harness world schema, harness `edgecases` schema, /repo test_data/schemas/*.graphql.
#[path = "../coq.rs"]
mod coq;
#[path = "../out.rs"]
mod out;
#[path = "../qgen.rs"]
mod qgen;
#[path = "../rng.rs"]
mod rng;
#[path = "../show.rs"]
mod show;
#[path = "../world.rs"]
mod world;

use async_graphql_parser::types::{
    BaseType, DocumentOperations, ExecutableDocument, Field, FieldDefinition, OperationDefinition, OperationType,
    Selection, ServiceDocument, Type as GType, TypeKind, TypeSystemDefinition,
};
use async_graphql_parser::{parse_query, parse_schema, Positioned};
use async_graphql_value::Value as GValue;
use coq::{cbool, cfv, clist, cstr};
use out::{Case, Out};
use rng::Rng;
use serde_json::{json, Value as J};
use show::{hex, show_fv};
use std::collections::{BTreeMap, BTreeSet};
use std::panic::{catch_unwind, AssertUnwindSafe};
use std::path::PathBuf;
use std::sync::Mutex;
use trustfall_core::frontend::error::FrontendError;
use trustfall_core::graphql_query::error::ParseError;
use trustfall_core::ir::FieldValue;
use trustfall_core::schema::Schema;

// ------------------------------------------------------------------ CLI

pub struct Args {
    pub seed: u64,
    pub n: usize,
    pub out: PathBuf,
    pub rest: Vec<String>,
}

fn parse_args(v: &[String]) -> Args {
    let mut a = Args { seed: 0, n: 100, out: PathBuf::from("."), rest: vec![] };
    let mut i = 0;
    while i < v.len() {
        match v[i].as_str() {
            "--seed" => {
                a.seed = v[i + 1].parse().unwrap();
                i += 2;
            }
            "--n" => {
                a.n = v[i + 1].parse().unwrap();
                i += 2;
            }
            "--out" => {
                a.out = PathBuf::from(&v[i + 1]);
                i += 2;
            }
            _ => {
                a.rest.push(v[i].clone());
                i += 1;
            }
        }
    }
    a
}

// ------------------------------------------------------------------ panic capture

static LAST_PANIC: Mutex<String> = Mutex::new(String::new());

fn install_hook() {
    std::panic::set_hook(Box::new(|info| {
        let loc = info.location().map(|l| format!("{}:{}", l.file(), l.line())).unwrap_or_default();
        let msg = if let Some(s) = info.payload().downcast_ref::<&str>() {
            s.to_string()
        } else if let Some(s) = info.payload().downcast_ref::<String>() {
            s.clone()
        } else {
            String::new()
        };
        if let Ok(mut g) = LAST_PANIC.lock() {
            *g = format!("{loc} {msg}");
        }
    }));
}
fn last_panic() -> String {
    LAST_PANIC.lock().map(|g| g.clone()).unwrap_or_default()
}

// ------------------------------------------------------------------ ExecutableDocument -> Gallina (QueryAst.v)

fn cvalue(v: &GValue) -> String {
    match v {
        GValue::Variable(n) => format!("(QVar {})", cstr(n.as_str())),
        GValue::Null => "QNull".into(),
        GValue::Number(n) => {
            if let Some(u) = n.as_u64() {
                format!("(QNum (NPos {}%Z))", u)
            } else if let Some(i) = n.as_i64() {
                format!("(QNum (NNeg ({})%Z))", i)
            } else {
                format!("(QNum (NFloat {}%N))", n.as_f64().unwrap().to_bits())
            }
        }
        GValue::String(s) => format!("(QStr {})", cstr(s)),
        GValue::Boolean(b) => format!("(QBool {})", cbool(*b)),
        GValue::Binary(_) => "QBinary".into(),
        GValue::Enum(n) => format!("(QEnum {})", cstr(n.as_str())),
        GValue::List(l) => {
            let parts: Vec<String> = l.iter().map(cvalue).collect();
            format!("(QList {})", clist(&parts))
        }
        GValue::Object(o) => {
            let parts: Vec<String> = o.iter().map(|(k, v)| format!("({}, {})", cstr(k.as_str()), cvalue(v))).collect();
            format!("(QObject {})", clist(&parts))
        }
    }
}

fn cargs(args: &[(Positioned<async_graphql_value::Name>, Positioned<GValue>)]) -> String {
    let parts: Vec<String> =
        args.iter().map(|(n, v)| format!("({}, {})", cstr(n.node.as_str()), cvalue(&v.node))).collect();
    clist(&parts)
}

fn cdirs(ds: &[Positioned<async_graphql_parser::types::Directive>]) -> String {
    let parts: Vec<String> =
        ds.iter().map(|d| format!("(mkDir {} {})", cstr(d.node.name.node.as_str()), cargs(&d.node.arguments))).collect();
    clist(&parts)
}

fn copt_str(o: Option<&str>) -> String {
    match o {
        Some(s) => format!("(Some {})", cstr(s)),
        None => "None".into(),
    }
}

fn csels(items: &[Positioned<Selection>]) -> String {
    let parts: Vec<String> = items.iter().map(|s| csel(&s.node)).collect();
    clist(&parts)
}

fn csel(s: &Selection) -> String {
    match s {
        Selection::Field(f) => {
            let f = &f.node;
            format!(
                "(SField {} {} {} {} {})",
                copt_str(f.alias.as_ref().map(|a| a.node.as_str())),
                cstr(f.name.node.as_str()),
                cargs(&f.arguments),
                cdirs(&f.directives),
                csels(&f.selection_set.node.items)
            )
        }
        Selection::FragmentSpread(fs) => {
            format!("(SSpread {} {})", cstr(fs.node.fragment_name.node.as_str()), cdirs(&fs.node.directives))
        }
        Selection::InlineFragment(inl) => format!(
            "(SInline {} {} {})",
            copt_str(inl.node.type_condition.as_ref().map(|c| c.node.on.node.as_str())),
            cdirs(&inl.node.directives),
            csels(&inl.node.selection_set.node.items)
        ),
    }
}

fn cop(op: &OperationDefinition) -> String {
    let kind = match op.ty {
        OperationType::Query => "OpQuery",
        OperationType::Mutation => "OpMutation",
        OperationType::Subscription => "OpSubscription",
    };
    let vars: Vec<String> = op
        .variable_definitions
        .iter()
        .map(|v| {
            let d = match &v.node.default_value {
                Some(c) => format!("(Some {})", cvalue(&c.node.clone().into_value())),
                None => "None".into(),
            };
            format!("(mkVarDef {} {} {})", cstr(v.node.name.node.as_str()), cstr(&v.node.var_type.node.to_string()), d)
        })
        .collect();
    format!("(mkOp {} {} {} {})", kind, clist(&vars), cdirs(&op.directives), csels(&op.selection_set.node.items))
}

/// HashMaps are printed in key order (the model's outcome does not depend on the order).
fn cdocument(doc: &ExecutableDocument) -> String {
    let ops = match &doc.operations {
        DocumentOperations::Single(op) => format!("(OpsSingle {})", cop(&op.node)),
        DocumentOperations::Multiple(m) => {
            let sorted: BTreeMap<&str, &Positioned<OperationDefinition>> = m.iter().map(|(k, v)| (k.as_str(), v)).collect();
            let parts: Vec<String> = sorted.iter().map(|(k, v)| format!("({}, {})", cstr(k), cop(&v.node))).collect();
            format!("(OpsMultiple {})", clist(&parts))
        }
    };
    let sorted: BTreeMap<&str, _> = doc.fragments.iter().map(|(k, v)| (k.as_str(), v)).collect();
    let frags: Vec<String> = sorted
        .iter()
        .map(|(k, v)| {
            format!(
                "({}, mkFrag {} {} {})",
                cstr(k),
                cstr(v.node.type_condition.node.on.node.as_str()),
                cdirs(&v.node.directives),
                csels(&v.node.selection_set.node.items)
            )
        })
        .collect();
    format!("(mkDoc {} {})", ops, clist(&frags))
}

// ------------------------------------------------------------------ rendering of parse_document's result (QueryParse.v show_*)

fn jstr(v: &J) -> &str {
    v.as_str().unwrap_or("?")
}
fn show_ostr(v: Option<&J>) -> String {
    match v {
        Some(J::String(s)) => format!("S({})", hex(s)),
        _ => "N".into(),
    }
}
fn show_list(parts: Vec<String>) -> String {
    format!("[{}]", parts.join(","))
}
fn jlist<'a>(v: Option<&'a J>) -> Vec<&'a J> {
    match v {
        Some(J::Array(a)) => a.iter().collect(),
        _ => vec![],
    }
}

const OPS: [(&str, &str); 20] = [
    ("IsNull", "is_null"),
    ("IsNotNull", "is_not_null"),
    ("Equals", "="),
    ("NotEquals", "!="),
    ("LessThan", "<"),
    ("LessThanOrEqual", "<="),
    ("GreaterThan", ">"),
    ("GreaterThanOrEqual", ">="),
    ("Contains", "contains"),
    ("NotContains", "not_contains"),
    ("OneOf", "one_of"),
    ("NotOneOf", "not_one_of"),
    ("HasPrefix", "has_prefix"),
    ("NotHasPrefix", "not_has_prefix"),
    ("HasSuffix", "has_suffix"),
    ("NotHasSuffix", "not_has_suffix"),
    ("HasSubstring", "has_substring"),
    ("NotHasSubstring", "not_has_substring"),
    ("RegexMatches", "regex"),
    ("NotRegexMatches", "not_regex"),
];

/// {"operation": {"Equals": [null, {"VariableRef": "x"}]}}  |  {"operation": {"IsNull": null}}
fn show_filter_dir(v: &J) -> String {
    let op = &v["operation"];
    if let Some(o) = op.as_object() {
        if let Some((variant, payload)) = o.iter().next() {
            let name = OPS.iter().find(|(k, _)| k == variant).map(|(_, n)| *n).unwrap_or("?");
            if let Some(arr) = payload.as_array() {
                let arg = &arr[1];
                let a = if let Some(n) = arg.get("VariableRef") {
                    format!("${}", hex(jstr(n)))
                } else if let Some(n) = arg.get("TagRef") {
                    format!("%{}", hex(jstr(n)))
                } else {
                    "?".into()
                };
                return format!("F({} {})", name, a);
            }
            return format!("F({})", name);
        }
    }
    "F(?)".into()
}
fn show_named(v: &J) -> String {
    show_ostr(v.get("name"))
}
fn show_tg(v: &J) -> String {
    format!(
        "TG({}{}{}{})",
        show_list(jlist(v.get("output")).into_iter().map(show_named).collect()),
        show_list(jlist(v.get("tag")).into_iter().map(show_named).collect()),
        show_list(jlist(v.get("filter")).into_iter().map(show_filter_dir).collect()),
        match v.get("retransform") {
            Some(r) if !r.is_null() => show_tg(r),
            _ => "-".into(),
        }
    )
}
fn show_otg(v: Option<&J>) -> String {
    match v {
        Some(g) if !g.is_null() => show_tg(g),
        _ => "-".into(),
    }
}
fn show_conn(v: &J) -> String {
    let args: Vec<String> = match v.get("arguments") {
        Some(J::Object(m)) => {
            // serde_json's Map is sorted (BTreeMap) unless preserve_order; sort explicitly anyway
            let mut items: Vec<(&String, &J)> = m.iter().collect();
            items.sort_by(|a, b| a.0.as_bytes().cmp(b.0.as_bytes()));
            items
                .into_iter()
                .map(|(k, x)| {
                    let fvv: FieldValue = serde_json::from_value(x.clone()).unwrap_or(FieldValue::Null);
                    format!("{}={}", hex(k), show_fv(&fvv))
                })
                .collect()
        }
        _ => vec![],
    };
    let rec = match v.get("recurse") {
        Some(r) if !r.is_null() => format!("S({})", r["depth"]),
        _ => "N".into(),
    };
    let fold = match v.get("fold") {
        Some(f) if !f.is_null() => format!("fold{}", show_otg(f.get("transform"))),
        _ => "-".into(),
    };
    format!(
        "C({},{},{},{},{},{})",
        hex(jstr(&v["name"])),
        show_ostr(v.get("alias")),
        show_list(args),
        if v.get("optional").map(|o| !o.is_null()).unwrap_or(false) { "T" } else { "F" },
        rec,
        fold
    )
}
fn show_node(v: &J) -> String {
    let conns: Vec<String> = jlist(v.get("connections")).into_iter().map(|p| format!("{}{}", show_conn(&p[0]), show_node(&p[1]))).collect();
    format!(
        "N({},{},{},{}{}{}{}[{}])",
        hex(jstr(&v["name"])),
        show_ostr(v.get("alias")),
        show_ostr(v.get("coerced_to")),
        show_list(jlist(v.get("filter")).into_iter().map(show_filter_dir).collect()),
        show_list(jlist(v.get("output")).into_iter().map(show_named).collect()),
        show_list(jlist(v.get("tag")).into_iter().map(show_named).collect()),
        show_otg(v.get("transform_group")),
        conns.join(",")
    )
}
fn show_query_json(v: &J) -> String {
    format!("Q({}{})", show_conn(&v["root_connection"]), show_node(&v["root_field"]))
}

fn show_parse_error(e: &ParseError) -> String {
    use ParseError::*;
    match e {
        UnrecognizedDirective(d, _) => format!("UnrecognizedDirective {}", hex(d)),
        UnsupportedDirectivePosition(d, m, _) => format!("UnsupportedDirectivePosition {} {}", hex(d), hex(m)),
        MissingRequiredDirectiveArgument(d, a, _) => format!("MissingRequiredDirectiveArgument {} {}", hex(d), hex(a)),
        UnrecognizedDirectiveArgument(d, a, _) => format!("UnrecognizedDirectiveArgument {} {}", hex(d), hex(a)),
        DuplicatedDirectiveArgument(d, a, _) => format!("DuplicatedDirectiveArgument {} {}", hex(d), hex(a)),
        InappropriateTypeForDirectiveArgument(d, a, _) => {
            format!("InappropriateTypeForDirectiveArgument {} {}", hex(d), hex(a))
        }
        FilterExpectsListNotString(o, v, _) => format!("FilterExpectsListNotString {} {}", hex(o), hex(v)),
        InvalidFieldArgument(f, a, _, _) => format!("InvalidFieldArgument {} {}", hex(f), hex(a)),
        DocumentContainsNonInlineFragments(_) => "DocumentContainsNonInlineFragments".into(),
        MultipleOperationsInDocument(_) => "MultipleOperationsInDocument".into(),
        MultipleQueryRoots(_) => "MultipleQueryRoots".into(),
        UnsupportedQueryRoot(w, _) => format!("UnsupportedQueryRoot {}", hex(w)),
        DirectiveNotInsideQueryRoot(d, _) => format!("DirectiveNotInsideQueryRoot {}", hex(d)),
        DocumentNotAQuery(_) => "DocumentNotAQuery".into(),
        UnsupportedFilterOperator(o, _) => format!("UnsupportedFilterOperator {}", hex(o)),
        InvalidFilterOperandName(o, m, _) => format!("InvalidFilterOperandName {} {}", hex(o), hex(m)),
        UnsupportedTransformOperator(o, _) => format!("UnsupportedTransformOperator {}", hex(o)),
        InvalidOutputName(n, _, _) => format!("InvalidOutputName {}", hex(n)),
        InvalidTagName(n, _, _) => format!("InvalidTagName {}", hex(n)),
        InvalidGraphQL(_) => "InvalidGraphQL".into(),
        UnsupportedSyntax(w, _) => format!("UnsupportedSyntax {}", hex(w)),
        NestedTypeCoercion(_) => "NestedTypeCoercion".into(),
        TypeCoercionWithSiblingFields(_) => "TypeCoercionWithSiblingFields".into(),
        UnsupportedDuplicatedDirective(d, _) => format!("UnsupportedDuplicatedDirective {}", hex(d)),
        DuplicatedEdgeParameter(p, e, _) => format!("DuplicatedEdgeParam {} {}", hex(p), hex(e)),
        VariableDefinitionInQuery(_) => "VariableDefinitionInQuery".into(),
        OtherError(m, _) => format!("OtherError {}", hex(m)),
        _ => "?".into(),
    }
}

/// the real parse_document under catch_unwind, rendered like QueryParse.v's show_parse_doc
fn run_parse_document(doc: &ExecutableDocument) -> String {
    let r = catch_unwind(AssertUnwindSafe(|| trustfall_core::graphql_query::parse_document(doc)));
    match r {
        Err(_) => "PANIC".into(),
        Ok(Err(e)) => format!("ERR {}", show_parse_error(&e)),
        Ok(Ok(q)) => format!("OK {}", show_query_json(&serde_json::to_value(&q).unwrap())),
    }
}

// ------------------------------------------------------------------ schemas

const BUILTINS: [&str; 5] = ["Int", "Float", "String", "Boolean", "ID"];

#[derive(Clone, Debug)]
struct FInfo {
    name: String,
    base: String,
    depth: usize,
    is_edge: bool,
    args: Vec<(String, String)>,
}
#[derive(Clone, Debug)]
struct TInfo {
    name: String,
    is_interface: bool,
    implements: Vec<String>,
    fields: Vec<FInfo>,
}
struct SInfo {
    name: String,
    text: String,
    schema: Schema,
    root: String,
    types: BTreeMap<String, TInfo>,
    coq_name: String,
    coq_doc: String,
}

fn gbase(t: &GType) -> (String, usize) {
    match &t.base {
        BaseType::Named(n) => (n.to_string(), 0),
        BaseType::List(inner) => {
            let (b, d) = gbase(inner);
            (b, d + 1)
        }
    }
}

fn cgty(t: &GType) -> String {
    match &t.base {
        BaseType::Named(n) => format!("(GNamed {} {})", cstr(n.as_str()), cbool(t.nullable)),
        BaseType::List(inner) => format!("(GList {} {})", cgty(inner), cbool(t.nullable)),
    }
}

fn cfielddef(f: &FieldDefinition) -> String {
    let args: Vec<String> = f
        .arguments
        .iter()
        .map(|a| {
            let d = match &a.node.default_value {
                None => "NoDefault".to_string(),
                Some(v) => match FieldValue::try_from(v.node.clone()) {
                    Ok(fv) => format!("(Default {})", cfv(&fv)),
                    Err(_) => "BadDefault".to_string(),
                },
            };
            format!("(mkArg {} {} {})", cstr(a.node.name.node.as_str()), cgty(&a.node.ty.node), d)
        })
        .collect();
    format!("(mkFld {} {} {})", cstr(f.name.node.as_str()), clist(&args), cgty(&f.ty.node))
}

/// the schema document as a `doc` of SchemaAst.v (same printer as tfh_c19)
fn cschema_doc(doc: &ServiceDocument) -> String {
    let mut defs = vec![];
    for d in &doc.definitions {
        match d {
            TypeSystemDefinition::Schema(s) => {
                let q = match &s.node.query {
                    Some(q) => format!("(Some {})", cstr(q.node.as_str())),
                    None => "None".to_string(),
                };
                defs.push(format!("DSchema {q}"));
            }
            TypeSystemDefinition::Directive(d) => defs.push(format!("DDirective {}", cstr(d.node.name.node.as_str()))),
            TypeSystemDefinition::Type(t) => {
                let name = cstr(t.node.name.node.as_str());
                match &t.node.kind {
                    TypeKind::Scalar => defs.push(format!("DScalar {name}")),
                    TypeKind::Object(o) => {
                        let imp: Vec<String> = o.implements.iter().map(|x| cstr(x.node.as_str())).collect();
                        let fs: Vec<String> = o.fields.iter().map(|f| cfielddef(&f.node)).collect();
                        defs.push(format!("DType (mkT {name} VObject {} {})", clist(&imp), clist(&fs)));
                    }
                    TypeKind::Interface(o) => {
                        let imp: Vec<String> = o.implements.iter().map(|x| cstr(x.node.as_str())).collect();
                        let fs: Vec<String> = o.fields.iter().map(|f| cfielddef(&f.node)).collect();
                        defs.push(format!("DType (mkT {name} VInterface {} {})", clist(&imp), clist(&fs)));
                    }
                    _ => panic!("unsupported schema construct"),
                }
            }
        }
    }
    clist(&defs)
}

fn make_sinfo(name: &str, text: String) -> SInfo {
    let schema = Schema::parse(&text).expect("schema must be valid");
    let doc = parse_schema(&text).unwrap();
    let mut root = String::new();
    let mut types = BTreeMap::new();
    let mut vertex_names = BTreeSet::new();
    for d in &doc.definitions {
        if let TypeSystemDefinition::Type(t) = d {
            if matches!(t.node.kind, TypeKind::Object(_) | TypeKind::Interface(_)) {
                vertex_names.insert(t.node.name.node.to_string());
            }
        }
    }
    for d in &doc.definitions {
        match d {
            TypeSystemDefinition::Schema(s) => root = s.node.query.as_ref().unwrap().node.to_string(),
            TypeSystemDefinition::Type(t) => {
                let (is_interface, implements, fields) = match &t.node.kind {
                    TypeKind::Object(o) => (false, &o.implements, &o.fields),
                    TypeKind::Interface(o) => (true, &o.implements, &o.fields),
                    _ => continue,
                };
                let fs = fields
                    .iter()
                    .map(|f| {
                        let (base, depth) = gbase(&f.node.ty.node);
                        FInfo {
                            name: f.node.name.node.to_string(),
                            is_edge: vertex_names.contains(&base),
                            base,
                            depth,
                            args: f.node.arguments.iter().map(|a| (a.node.name.node.to_string(), a.node.ty.node.to_string())).collect(),
                        }
                    })
                    .collect();
                let tn = t.node.name.node.to_string();
                types.insert(
                    tn.clone(),
                    TInfo { name: tn, is_interface, implements: implements.iter().map(|x| x.node.to_string()).collect(), fields: fs },
                );
            }
            _ => {}
        }
    }
    SInfo { name: name.to_string(), coq_name: format!("S_{name}"), coq_doc: cschema_doc(&doc), text, schema, root, types }
}

/// harness-owned schema accepted by Schema::parse that exercises the schema-dependent classes:
/// a property with 30 list levels (the maximum), an edge whose definition repeats a parameter name
fn edgecases_schema_text() -> String {
    let deep = |d: usize| format!("{}Int{}", "[".repeat(d), "]".repeat(d));
    format!(
        "schema {{ query: RootSchemaQuery }}\n{}\ntype RootSchemaQuery {{ Node(x: Int): [Node] Dup: [Dup] Base: [Base] }}\n\
         type Node {{ id: Int deep30: {} deep29: {} flags: [Boolean] name: String! next(lo: Int = 1, hi: Int!): [Node] dup: [Dup] base: Base }}\n\
         type Dup {{ id: Int twice(a: Int = 3, a: Int = 4): [Dup] node: [Node] }}\n\
         interface Base {{ id: Int kids: [Base] }}\n\
         interface Mid implements Base {{ id: Int kids: [Mid] extra: Int }}\n\
         type Leaf implements Mid & Base {{ id: Int kids: [Leaf] extra: Int }}\n",
        Schema::ALL_DIRECTIVE_DEFINITIONS,
        deep(30),
        deep(29)
    )
}

fn load_schemas() -> Vec<SInfo> {
    let mut v = vec![make_sinfo("world", world::schema_text()), make_sinfo("edgecases", edgecases_schema_text())];
    let dir = "/repo/trustfall_core/test_data/schemas";
    let mut names: Vec<String> = std::fs::read_dir(dir)
        .map(|rd| rd.filter_map(|e| e.ok()).map(|e| e.file_name().to_string_lossy().to_string()).collect())
        .unwrap_or_default();
    names.sort();
    for n in names {
        if let Some(stem) = n.strip_suffix(".graphql") {
            let text = std::fs::read_to_string(format!("{dir}/{n}")).unwrap();
            if Schema::parse(&text).is_ok() {
                v.push(make_sinfo(stem, text));
            }
        }
    }
    v
}

// ------------------------------------------------------------------ known classes (syntactic, on the parsed document)

fn value_has_enum(v: &GValue) -> bool {
    match v {
        GValue::Enum(_) => true,
        GValue::List(l) => l.iter().any(value_has_enum),
        _ => false,
    }
}

struct ClassWalk<'a> {
    s: &'a SInfo,
    classes: BTreeSet<&'static str>,
    outputs: usize,
    fold_count_outputs: usize,
}

impl<'a> ClassWalk<'a> {
    fn field(&mut self, parent: &str, f: &Field, fold_depth: usize) {
        if f.arguments.iter().any(|(_, v)| value_has_enum(&v.node)) {
            self.classes.insert("K-enum-argument");
        }
        let dnames: Vec<&str> = f.directives.iter().map(|d| d.node.name.node.as_str()).collect();
        let fold_at = dnames.iter().position(|d| *d == "fold");
        if let Some(i) = fold_at {
            let transforms = dnames[i..].iter().filter(|d| **d == "transform").count();
            if transforms >= 2 {
                self.classes.insert("K-double-transform");
            }
            if let Some(t) = dnames[i..].iter().position(|d| *d == "transform") {
                self.fold_count_outputs += dnames[i + t..].iter().filter(|d| **d == "output").count();
            }
        }
        self.outputs += dnames.iter().filter(|d| **d == "output").count();
        let name = f.name.node.as_str();
        let (base, depth, is_edge) = if name == "__typename" {
            ("String".to_string(), 0usize, false)
        } else {
            match self.s.types.get(parent).and_then(|t| t.fields.iter().find(|x| x.name == name)) {
                Some(fi) => (fi.base.clone(), fi.depth, fi.is_edge),
                None => return,
            }
        };
        let items = &f.selection_set.node.items;
        if let Some(fi) = self.s.types.get(parent).and_then(|t| t.fields.iter().find(|x| x.name == name)) {
            let mut names: Vec<&String> = fi.args.iter().map(|a| &a.0).collect();
            names.sort();
            if names.windows(2).any(|w| w[0] == w[1]) {
                self.classes.insert("K-schema-duplicate-parameter");
            }
        }
        if !is_edge {
            if depth >= 30 {
                for d in &f.directives {
                    if d.node.name.node.as_str() == "filter" {
                        let op = d.node.get_argument("op").map(|x| &x.node);
                        let val = d.node.get_argument("value").map(|x| &x.node);
                        if let (Some(GValue::String(op)), Some(GValue::List(l))) = (op, val) {
                            if matches!(op.as_str(), "one_of" | "not_one_of")
                                && l.iter().any(|x| matches!(x, GValue::String(s) if s.starts_with('$')))
                            {
                                self.classes.insert("K-one-of-max-depth");
                            }
                        }
                    }
                }
            }
            // ordering filter with a variable operand on a property whose base type is not orderable
            if !matches!(base.as_str(), "Int" | "Float" | "String") {
                for d in &f.directives {
                    if d.node.name.node.as_str() == "filter" {
                        let op = d.node.get_argument("op").map(|x| &x.node);
                        let val = d.node.get_argument("value").map(|x| &x.node);
                        if let (Some(GValue::String(op)), Some(GValue::List(l))) = (op, val) {
                            if matches!(op.as_str(), "<" | "<=" | ">" | ">=")
                                && l.iter().any(|x| matches!(x, GValue::String(s) if s.starts_with('$')))
                            {
                                self.classes.insert("K-nonorderable-variable");
                            }
                        }
                    }
                }
            }
            if name != "__typename" && items.iter().any(|x| matches!(x.node, Selection::InlineFragment(_))) {
                self.classes.insert("K-fragment-under-property");
            }
            if dnames.iter().any(|d| *d == "output") && fold_depth + depth > 30 {
                self.classes.insert("K-output-list-depth");
            }
            return;
        }
        let inner_fold = fold_depth + if fold_at.is_some() { 1 } else { 0 };
        if fold_at.is_some() && inner_fold > 30 && dnames.iter().any(|d| *d == "output") {
            self.classes.insert("K-output-list-depth");
        }
        // descend (through one inline fragment if it is the only selection)
        let mut ty = base.clone();
        let mut sels = items;
        if items.len() == 1 {
            if let Selection::InlineFragment(inl) = &items[0].node {
                if let Some(c) = &inl.node.type_condition {
                    ty = c.node.on.node.to_string();
                }
                sels = &inl.node.selection_set.node.items;
            }
        }
        for s in sels {
            if let Selection::Field(sub) = &s.node {
                self.field(&ty, &sub.node, inner_fold);
            }
        }
    }
}

/// classes the parsed document lies in
fn known_classes(s: &SInfo, doc: &ExecutableDocument) -> BTreeSet<&'static str> {
    let mut w = ClassWalk { s, classes: BTreeSet::new(), outputs: 0, fold_count_outputs: 0 };
    let op = match &doc.operations {
        DocumentOperations::Single(op) => Some(op),
        DocumentOperations::Multiple(m) => {
            if doc.fragments.is_empty() && m.len() == 2 {
                w.classes.insert("K-two-operations");
            }
            if m.len() == 1 {
                m.values().next()
            } else {
                None
            }
        }
    };
    if let Some(op) = op {
        let items = &op.node.selection_set.node.items;
        if doc.fragments.is_empty() && op.node.ty == OperationType::Query && items.len() == 1 {
            if let Selection::Field(f) = &items[0].node {
                if f.node.name.node.as_str() == "__typename" {
                    w.classes.insert("K-root-typename");
                }
                let root = s.root.clone();
                w.field(&root, &f.node, 0);
            }
        }
    }
    if w.fold_count_outputs >= 1 && w.outputs >= 2 {
        w.classes.insert("K-fold-count-output-clash");
    }
    w.classes
}

/// (class, file suffix, message fragment) of each recorded class's panic
const CLASS_SITES: [(&str, &str, &str); 10] = [
    ("K-one-of-max-depth", "ir/types/base.rs", "too many nested lists"),
    ("K-schema-duplicate-parameter", "frontend/mod.rs", "BTreeMapOccupiedError"),
    ("K-two-operations", "graphql_query/query.rs", "Could not iterate to second value"),
    ("K-double-transform", "frontend/mod.rs", "re-transforming a @fold @transform"),
    ("K-fragment-under-property", "frontend/validation.rs", "no entry found for key"),
    ("K-root-typename", "frontend/mod.rs", "entered unreachable code"),
    ("K-enum-argument", "ir/types/base.rs", "enum values are not currently supported"),
    ("K-nonorderable-variable", "frontend/filters.rs", "called `Option::unwrap()` on a `None` value"),
    ("K-fold-count-output-clash", "frontend/mod.rs", "no entry found for key"),
    ("K-output-list-depth", "ir/types/base.rs", "too many nested lists"),
];

fn class_of_panic(classes: &BTreeSet<&'static str>, panic_text: &str) -> Option<&'static str> {
    let (loc, msg) = panic_text.split_once(' ').unwrap_or((panic_text, ""));
    let file = loc.rsplit_once(':').map(|x| x.0).unwrap_or(loc);
    for (c, f, m) in CLASS_SITES.iter() {
        if classes.contains(c) && file.ends_with(f) && msg.contains(m) {
            return Some(c);
        }
    }
    None
}

// ------------------------------------------------------------------ one text: oracle + tie

#[derive(Default)]
struct Seen {
    asts: BTreeSet<String>,
}

fn verdict_kind(r: &Result<Result<std::sync::Arc<trustfall_core::ir::IndexedQuery>, FrontendError>, Box<dyn std::any::Any + Send>>) -> String {
    match r {
        Err(_) => "PANIC".into(),
        Ok(Ok(_)) => "OK".into(),
        Ok(Err(e)) => {
            let k = format!("{e:?}");
            let k = k.split(|c: char| c == '(' || c == '{' || c == ' ').next().unwrap_or("?").to_string();
            format!("ERR:{k}")
        }
    }
}

fn check_text(o: &mut Out, seen: &mut Seen, s: &SInfo, text: &str, stream: &str, oracle_only: bool) {
    o.count(&format!("stream:{stream}"));
    let r = catch_unwind(AssertUnwindSafe(|| trustfall_core::frontend::parse(&s.schema, text)));
    let panic_text = if r.is_err() { last_panic() } else { String::new() };
    let kind = verdict_kind(&r);
    o.count(&format!("verdict:{}", kind));
    let parsed = catch_unwind(AssertUnwindSafe(|| parse_query(text)));
    let doc = match parsed {
        Err(_) => {
            o.oracle_fail("async_graphql_parser::parse_query panicked", json!({"schema": s.name, "text": text}), json!({"panic": last_panic()}));
            return;
        }
        Ok(d) => d,
    };
    let input = json!({"schema": s.name, "text": text, "stream": stream});
    if r.is_err() {
        let classes = match &doc {
            Ok(d) => known_classes(s, d),
            Err(_) => BTreeSet::new(),
        };
        match class_of_panic(&classes, &panic_text) {
            Some(c) => {
                o.count(&format!("known:{c}"));
                o.oracle_fail_class(c, "frontend::parse panicked", input.clone(), json!({"panic": panic_text}));
            }
            None => o.oracle_fail("frontend::parse panicked", input.clone(), json!({"panic": panic_text, "classes": classes.iter().collect::<Vec<_>>()})),
        }
    }
    let doc = match doc {
        Ok(d) => d,
        Err(_) => {
            if let Ok(Ok(_)) = &r {
                o.oracle_fail("frontend::parse accepted a text the parser rejects", input, json!({}));
            }
            return;
        }
    };
    if oracle_only {
        return;
    }
    let ast = cdocument(&doc);
    let key = format!("{}|{}", s.name, ast);
    if !seen.asts.insert(key.clone()) {
        o.count("tie:duplicate-ast-skipped");
        return;
    }
    // stage 1: parse_document; stage 2: frontend::parse_doc -- one case, the AST is printed once
    let imp1 = run_parse_document(&doc);
    o.count(&format!("parse_document:{}", imp1.split(' ').next().unwrap_or("?")));
    let (imp2, imp3) = stage2_impl(o, s, &doc);
    let nontrivial = !imp2.starts_with("PARSE-ERR");
    o.add(Case {
        input: json!({"schema": s.name, "text": text}),
        coq: format!("show_both {} {}", s.coq_name, ast),
        imp: format!("{imp1} || {imp2} || {imp3}"),
        nontrivial,
        key: key.clone(),
    });
    // every observed panic must lie inside the classes as defined in Coq (Front.v: known_parse)
    if r.is_err() {
        let classes = known_classes(s, &doc);
        let c = class_of_panic(&classes, &panic_text).map(|x| x.to_string());
        o.add_spec(
            Case {
                input: json!({"schema": s.name, "text": text, "check": "panic => Known (Coq predicate)"}),
                coq: format!("show_known {} {}", s.coq_name, ast),
                imp: "T".into(),
                nontrivial: true,
                key: format!("k|{key}"),
            },
            c,
        );
    }
}

// ------------------------------------------------------------------ stage 2 tie (frontend over the parsed query)

use trustfall_core::frontend::error::{FilterTypeError, ValidationError as VE};
use trustfall_core::ir::{Argument, ContextField, FieldRef, IREdge, IRFold, IRQuery, IRQueryComponent, IRVertex, Operation, Type};

fn show_ty(t: &Type) -> String {
    format!("{}#{}", t, t.__verif_mask())
}
fn jnum<T: serde::Serialize>(x: &T) -> String {
    serde_json::to_string(x).unwrap()
}
fn show_cf(c: &ContextField) -> String {
    format!("cf({},{},{})", jnum(&c.vertex_id), hex(&c.field_name), show_ty(&c.field_type))
}
fn show_fieldref(f: &FieldRef) -> String {
    match f {
        FieldRef::ContextField(c) => show_cf(c),
        FieldRef::FoldSpecificField(ff) => format!("ff({},{})", jnum(&ff.fold_eid), jnum(&ff.fold_root_vid)),
        _ => "?".into(),
    }
}
fn show_argument(a: &Argument) -> String {
    match a {
        Argument::Tag(f) => format!("tag:{}", show_fieldref(f)),
        Argument::Variable(v) => format!("var:{}:{}", hex(&v.variable_name), show_ty(&v.variable_type)),
    }
}
fn show_oarg(a: Option<&Argument>) -> String {
    match a {
        Some(a) => format!("S({})", show_argument(a)),
        None => "N".into(),
    }
}
fn op_name<L, R>(op: &Operation<L, R>) -> &'static str
where
    L: std::fmt::Debug + Clone + PartialEq + Eq,
    R: std::fmt::Debug + Clone + PartialEq + Eq,
{
    let d = format!("{op:?}");
    let variant = d.split('(').next().unwrap_or("");
    OPS.iter().find(|(k, _)| *k == variant).map(|(_, n)| *n).unwrap_or("?")
}
fn op_parts<L, R>(op: &Operation<L, R>) -> (&L, Option<&R>)
where
    L: std::fmt::Debug + Clone + PartialEq + Eq,
    R: std::fmt::Debug + Clone + PartialEq + Eq,
{
    match op {
        Operation::IsNull(l) | Operation::IsNotNull(l) => (l, None),
        Operation::Equals(l, r)
        | Operation::NotEquals(l, r)
        | Operation::LessThan(l, r)
        | Operation::LessThanOrEqual(l, r)
        | Operation::GreaterThan(l, r)
        | Operation::GreaterThanOrEqual(l, r)
        | Operation::Contains(l, r)
        | Operation::NotContains(l, r)
        | Operation::OneOf(l, r)
        | Operation::NotOneOf(l, r)
        | Operation::HasPrefix(l, r)
        | Operation::NotHasPrefix(l, r)
        | Operation::HasSuffix(l, r)
        | Operation::NotHasSuffix(l, r)
        | Operation::HasSubstring(l, r)
        | Operation::NotHasSubstring(l, r)
        | Operation::RegexMatches(l, r)
        | Operation::NotRegexMatches(l, r) => (l, Some(r)),
        _ => panic!("unknown Operation variant"),
    }
}
fn show_params(p: &trustfall_core::ir::EdgeParameters) -> String {
    show_list(p.iter().map(|(k, v)| format!("{}={}", hex(k), show_fv(v))).collect())
}
fn show_vertex(v: &IRVertex) -> String {
    let fs: Vec<String> = v
        .filters
        .iter()
        .map(|f| {
            let (l, r) = op_parts(f);
            format!("vf({},{},{},{})", op_name(f), hex(&l.field_name), show_ty(&l.field_type), show_oarg(r))
        })
        .collect();
    format!(
        "v({},{},{},{})",
        jnum(&v.vid),
        hex(&v.type_name),
        match &v.coerced_from_type {
            Some(x) => format!("S({})", hex(x)),
            None => "N".into(),
        },
        show_list(fs)
    )
}
fn show_edge(e: &IREdge) -> String {
    let rec = match &e.recursive {
        Some(r) => format!(
            "S(r({},{}))",
            r.depth,
            match &r.coerce_to {
                Some(x) => format!("S({})", hex(x)),
                None => "N".into(),
            }
        ),
        None => "N".into(),
    };
    format!(
        "e({},{},{},{},{},{},{})",
        jnum(&e.eid),
        jnum(&e.from_vid),
        jnum(&e.to_vid),
        hex(&e.edge_name),
        show_params(&e.parameters),
        if e.optional { "T" } else { "F" },
        rec
    )
}
fn show_fold(f: &IRFold) -> String {
    format!(
        "f({},{},{},{},{}{}{}{}{})",
        jnum(&f.eid),
        jnum(&f.from_vid),
        jnum(&f.to_vid),
        hex(&f.edge_name),
        show_params(&f.parameters),
        show_list(f.imported_tags.iter().map(show_fieldref).collect()),
        show_list(f.fold_specific_outputs.keys().map(|k| hex(k)).collect()),
        show_list(f.post_filters.iter().map(|pf| format!("pf({},{})", op_name(pf), show_oarg(op_parts(pf).1))).collect()),
        show_comp(&f.component)
    )
}
fn show_comp(c: &IRQueryComponent) -> String {
    format!(
        "c({},{}{}{}{})",
        jnum(&c.root),
        show_list(c.vertices.values().map(show_vertex).collect()),
        show_list(c.edges.values().map(|e| show_edge(e)).collect()),
        show_list(c.folds.values().map(|f| show_fold(f)).collect()),
        show_list(c.outputs.iter().map(|(k, cf)| format!("{}={}", hex(k), show_cf(cf))).collect())
    )
}
fn show_ir(q: &IRQuery) -> String {
    format!(
        "q({},{},{},{})",
        hex(&q.root_name),
        show_params(&q.root_parameters),
        show_comp(&q.root_component),
        show_list(q.variables.iter().map(|(k, t)| format!("{}:{}", hex(k), show_ty(t))).collect())
    )
}

fn show_ft_error(e: &FilterTypeError) -> String {
    use FilterTypeError::*;
    let tf = |b: &bool| if *b { "T" } else { "F" };
    match e {
        IncompatibleVariableTypeRequirements(v, a, b) => format!("IncompatibleVariableTypeRequirements {} {} {}", hex(v), hex(a), hex(b)),
        NonNullableTypeFilteredForNullability(o, s, b) => format!("NonNullableTypeFilteredForNullability {} {} {}", hex(o), hex(s), tf(b)),
        TypeMismatchBetweenFilterSubjectAndArgument(o, s, a) => format!("TypeMismatchBetweenFilterSubjectAndArgument {} {} {}", hex(o), hex(s), hex(a)),
        OrderingFilterOperationOnNonOrderableSubject(o, s) => format!("OrderingFilterOperationOnNonOrderableSubject {} {}", hex(o), hex(s)),
        OrderingFilterOperationWithNonOrderableArgument(o, a) => format!("OrderingFilterOperationWithNonOrderableArgument {} {}", hex(o), hex(a)),
        StringFilterOperationOnNonStringSubject(o, s) => format!("StringFilterOperationOnNonStringSubject {} {}", hex(o), hex(s)),
        StringFilterOperationOnNonStringArgument(o, a) => format!("StringFilterOperationOnNonStringArgument {} {}", hex(o), hex(a)),
        ListFilterOperationOnNonListSubject(o, s) => format!("ListFilterOperationOnNonListSubject {} {}", hex(o), hex(s)),
        ListFilterOperationOnNonListArgument(o, a) => format!("ListFilterOperationOnNonListArgument {} {}", hex(o), hex(a)),
        _ => "?".into(),
    }
}
fn show_front_error(e: &FrontendError) -> String {
    use FrontendError::*;
    match e {
        MultipleErrors(v) => v.0.iter().map(show_front_error).collect::<Vec<_>>().join("; "),
        ParseError(p) => format!("ParseError {}", show_parse_error(p)),
        UndefinedTagInFilter(p, t) => format!("UndefinedTagInFilter {} {}", hex(p), hex(t)),
        TagUsedBeforeDefinition(p, t) => format!("TagUsedBeforeDefinition {} {}", hex(p), hex(t)),
        TagUsedOutsideItsFoldedSubquery(p, t) => format!("TagUsedOutsideItsFoldedSubquery {} {}", hex(p), hex(t)),
        UnusedTags(l) => format!("UnusedTags {}", show_list(l.iter().map(|x| hex(x)).collect())),
        MultipleOutputsWithSameName(d) => format!(
            "MultipleOutputsWithSameName {}",
            show_list(
                d.duplicates
                    .iter()
                    .map(|(k, v)| format!("{}={}", hex(k), show_list(v.iter().map(|(a, b)| format!("{}/{}", hex(a), hex(b))).collect())))
                    .collect()
            )
        ),
        MultipleTagsWithSameName(t) => format!("MultipleTagsWithSameName {}", hex(t)),
        ExplicitTagNameRequired(f) => format!("ExplicitTagNameRequired {}", hex(f)),
        FilterTypeError(f) => format!("FilterTypeError {}", show_ft_error(f)),
        UnsupportedDirectiveOnProperty(d, p) => format!("UnsupportedDirectiveOnProperty {} {}", hex(d), hex(p)),
        UnsupportedEdgeOutput(x) => format!("UnsupportedEdgeOutput {}", hex(x)),
        UnsupportedEdgeFilter(x) => format!("UnsupportedEdgeFilter {}", hex(x)),
        UnsupportedEdgeTag(x) => format!("UnsupportedEdgeTag {}", hex(x)),
        UnsupportedDirectiveOnFoldedEdge(x, d) => format!("UnsupportedDirectiveOnFoldedEdge {} {}", hex(x), hex(d)),
        MissingRequiredEdgeParameter(p, x) => format!("MissingRequiredEdgeParam {} {}", hex(p), hex(x)),
        UnexpectedEdgeParameter(p, x) => format!("UnexpectedEdgeParam {} {}", hex(p), hex(x)),
        InvalidEdgeParameterType(p, x, t, v) => format!("InvalidEdgeParamType {} {} {} {}", hex(p), hex(x), hex(t), show_fv(v)),
        RecursingNonRecursableEdge(x, a, b) => format!("RecursingNonRecursableEdge {} {} {}", hex(x), hex(a), hex(b)),
        RecursionToSubtype(x, a, b) => format!("RecursionToSubtype {} {} {}", hex(x), hex(a), hex(b)),
        AmbiguousOriginEdgeRecursion(x) => format!("AmbiguousOriginEdgeRecursion {}", hex(x)),
        EdgeRecursionNeedingMultipleCoercions(x) => format!("EdgeRecursionNeedingMultipleCoercions {}", hex(x)),
        PropertyMetaFieldUsedAsEdge(x) => format!("PropertyMetaFieldUsedAsEdge {}", hex(x)),
        ValidationError(v) => format!(
            "ValidationError {}",
            match v {
                VE::NonExistentPath(p) => format!("NonExistentPath {}", show_list(p.iter().map(|x| hex(x)).collect())),
                VE::NonExistentType(t) => format!("NonExistentType {}", hex(t)),
                VE::CannotCoerceNonInterfaceType(a, b) => format!("CannotCoerceNonInterfaceType {} {}", hex(a), hex(b)),
                VE::CannotCoerceToUnrelatedType(a, b) => format!("CannotCoerceToUnrelatedType {} {}", hex(a), hex(b)),
            }
        ),
        OtherError(m) => format!("OtherError {}", hex(m)),
        _ => "?".into(),
    }
}

fn stage2_impl(o: &mut Out, s: &SInfo, doc: &ExecutableDocument) -> (String, String) {
    let r = catch_unwind(AssertUnwindSafe(|| trustfall_core::frontend::parse_doc(&s.schema, doc)));
    let imp = match &r {
        Err(_) => "PANIC".to_string(),
        Ok(Err(FrontendError::ParseError(p))) => format!("PARSE-ERR {}", show_parse_error(p)),
        Ok(Err(e)) => format!("ERR {}", show_front_error(e)),
        Ok(Ok(ir)) => format!("OK {}", show_ir(ir)),
    };
    let kind = imp.split(' ').next().unwrap_or("?").to_string();
    o.count(&format!("front:{kind}"));
    let ix = match r {
        Ok(Ok(ir)) => {
            let x = catch_unwind(AssertUnwindSafe(|| trustfall_core::ir::IndexedQuery::try_from(ir)));
            match x {
                Err(_) => "IX-PANIC",
                Ok(Err(_)) => "IX-ERR",
                Ok(Ok(_)) => "IX-OK",
            }
        }
        _ => "-",
    };
    o.count(&format!("index:{ix}"));
    (imp, ix.to_string())
}

// ------------------------------------------------------------------ corpora

/// (schema name, query text) of the repository's own test inputs
fn repo_corpus() -> Vec<(String, String, String)> {
    let mut v = vec![];
    for dir in ["parse_errors", "frontend_errors", "execution_errors", "valid_queries"] {
        let base = format!("/repo/trustfall_core/test_data/tests/{dir}");
        let mut names: Vec<String> = std::fs::read_dir(&base)
            .map(|rd| rd.filter_map(|e| e.ok()).map(|e| e.file_name().to_string_lossy().to_string()).collect())
            .unwrap_or_default();
        names.sort();
        for n in names {
            if n.ends_with(".graphql.ron") {
                let data = std::fs::read_to_string(format!("{base}/{n}")).unwrap();
                if let Ok(t) = ron::from_str::<trustfall_core::test_types::TestGraphQLQuery>(&data) {
                    v.push((t.schema_name.clone(), t.query.clone(), format!("repo:{dir}")));
                }
            }
        }
    }
    v
}

/// minimal witnesses of every recorded class and of the boundaries around them
fn witness_corpus() -> Vec<(&'static str, String)> {
    fn nest(k: usize, edge: &str, inner: &str) -> String {
        let mut s = inner.to_string();
        for _ in 0..k {
            s = format!("{edge} {{ {s} }}");
        }
        s
    }
    let mut v: Vec<(&'static str, String)> = vec![];
    let n = "numbers";
    for q in [
        // F1 and its neighbours
        "query A { Four { value @output } } query B { Four { value @output } }",
        "query A { Four { value @output } } query B { Four { value @output } } query C { Four { value @output } }",
        "query A { Four { value @output } }",
        "query A { Four { value @output } } mutation B { Four { value @output } }",
        "query A { Four { value @output } } query B { Four { value @output } } fragment F on Number { value }",
        "mutation { Four { value @output } }",
        "subscription { Four { value @output } }",
        "query ($x: Int = 3) { Four { value @output } }",
        "query @foo { Four { value @output } }",
        "{ Four { value @output } Two { value @output } }",
        "{ ... on Number { value @output } }",
        "{ ...F } fragment F on RootSchemaQuery { Four { value @output } }",
        "{ Four @output { value } }",
        // F2 and neighbours
        "{ Four { primeFactor @fold @transform(op: \"count\") @transform(op: \"count\") @output { value } } }",
        "{ Four { primeFactor @fold @transform(op: \"count\") @output { value } } }",
        "{ Four { primeFactor @fold @transform(op: \"count\") @filter(op: \">\", value: [\"$x\"]) @transform(op: \"count\") { value @output } } }",
        "{ Four { primeFactor @transform(op: \"count\") @fold { value @output } } }",
        "{ Four { primeFactor @fold @fold { value @output } } }",
        "{ Four { primeFactor @fold @optional { value @output } } }",
        "{ Four { primeFactor @fold @transform(op: \"count\") @fold { value @output } } }",
        "{ Four { value @transform(op: \"count\") @transform(op: \"count\") @output } }",
        "{ Four { value @fold @transform(op: \"count\") @transform(op: \"count\") @output } }",
        // F3 and neighbours
        "{ Four { name { ... on Prime { value @output } } } }",
        "{ Four { name { ... { value @output } } } }",
        "{ Four { name { value @output } } }",
        "{ Four { __typename { ... on Prime { value @output } } } }",
        "{ Four { successor { ... on Prime { value @output } } } }",
        "{ Four { successor { ... on Nope { value @output } } } }",
        "{ Four { successor { ... on Prime { value @output } value } } }",
        "{ Four { successor { ... on Prime { ... on Prime { value @output } } } } }",
        // root __typename
        "{ __typename }",
        "{ __typename @output }",
        "{ __typename { value } }",
        "{ Four { __typename @output } }",
        "{ Four { __typename @fold @optional @recurse(depth: 2) @output } }",
        // enum-valued edge arguments
        "{ Number(max: FOO) { value @output } }",
        "{ Number(min: 1, max: [FOO]) { value @output } }",
        "{ Number(max: \"FOO\") { value @output } }",
        "{ Number(max: $x) { value @output } }",
        "{ Number(max: {a: 1}) { value @output } }",
        "{ Number(max: null) { value @output } }",
        "{ Number(max: 3, max: 4) { value @output } }",
        "{ Number(nope: FOO) { value @output } }",
        "{ Four { value(x: FOO) @output } }",
        "{ Four { multiple(max: FOO) @fold { value @output } } }",
        // fold-count output clashing with another output of the enclosing component
        "{ Four { value @output(name: \"x\") primeFactor @fold @transform(op: \"count\") @output(name: \"x\") } }",
        "{ Four { successor @fold @transform(op: \"count\") @output(name: \"x\") primeFactor @fold @transform(op: \"count\") @output(name: \"x\") } }",
        "{ Four { primeFactor @fold @transform(op: \"count\") @output @output(name: \"primeFactorcount\") { factors: value @output } } }",
        "{ Four { value @output(name: \"x\") value @output(name: \"x\") } }",
        "{ Four { value @output(name: \"x\") primeFactor @fold { value @output(name: \"x\") } } }",
        "{ Four { primeFactorcount: value @output primeFactor @fold @transform(op: \"count\") @output } }",
        // ordering
        "{ Four { value @filter(op: \"<\", value: [\"$x\"]) @output } }",
        "{ Four { vowelsInName @filter(op: \"<\", value: [\"$x\"]) @output } }",
    ] {
        v.push((n, q.to_string()));
    }
    for q in [
        "{ MainType { bool @filter(op: \"<\", value: [\"$x\"]) @output } }",
        "{ MainType { nonNullBool @filter(op: \">=\", value: [\"$x\"]) @output } }",
        "{ MainType { bool @filter(op: \"=\", value: [\"$x\"]) @output } }",
        "{ MainType { nonNullBool @output @tag(name: \"my_tag\") bool @filter(op: \"<\", value: [\"%my_tag\"]) } }",
        "{ MainType { bool @filter(op: \"has_prefix\", value: [\"$x\"]) @output } }",
        "{ MainType { bool @filter(op: \"contains\", value: [\"$x\"]) @output } }",
        "{ MainType { bool @filter(op: \"one_of\", value: [\"$x\"]) @output } }",
    ] {
        v.push(("nullables", q.to_string()));
    }
    for k in [1usize, 29, 30, 31, 32] {
        v.push(("world", format!("{{ Thing {{ {} }} }}", nest(k, "next @fold", "id @output"))));
        v.push(("world", format!("{{ Thing {{ {} }} }}", nest(k, "next @fold", "nums @output"))));
    }
    v.push(("world", format!("{{ Thing {{ {} }} }}", nest(31, "next @fold", "id"))));
    v.push(("world", format!("{{ Thing {{ {} }} }}", nest(30, "next @fold", "next @fold @transform(op: \"count\") @output"))));
    v.push(("world", format!("{{ Thing {{ {} }} }}", nest(29, "next @fold", "next @fold @transform(op: \"count\") @output"))));
    for k in [60usize, 63, 64, 65, 200] {
        v.push(("world", format!("{{ Thing {{ {} }} }}", nest(k, "next", "id @output"))));
    }
    v.push(("world", format!("{{ Thing {{ id @filter(op: \"one_of\", value: {}) @output }} }}", "[".repeat(100) + &"]".repeat(100))));
    // one variable shared by two filters (type meets): every pair of operators on a nullable / non-nullable
    // property pair of the same base type, in both orders, on one vertex and across a fold
    {
        let ops = ["=", "!=", "<", ">=", "one_of", "not_one_of", "has_prefix", "is_null"];
        let pairs = [("score", "id"), ("name", "label")];
        for (nullable, nonnull) in pairs {
            for o1 in ops {
                for o2 in ops {
                    let f = |op: &str| if op == "is_null" { "@filter(op: \"is_null\")".to_string() } else { format!("@filter(op: \"{op}\", value: [\"$x\"])") };
                    v.push(("world", format!("{{ Item {{ {nullable} {} {nonnull} {} @output }} }}", f(o1), f(o2))));
                    v.push(("world", format!("{{ Item {{ {nonnull} {} {nullable} {} @output }} }}", f(o1), f(o2))));
                    v.push(("world", format!("{{ Item {{ {nullable} {} link @fold {{ ... on Item {{ {nonnull} {} @output }} }} }} }}", f(o1), f(o2))));
                }
            }
        }
    }
    v.push(("world", "{ Thing { flag @filter(op: \"<\", value: [\"$x\"]) @output } }".to_string()));
    v.push(("world", "{ Thing { flag @filter(op: \">\", value: [\"$x\"]) id @output } }".to_string()));
    v.push(("world", "{ Thing(lo: FOO) { id @output } }".to_string()));
    v.push(("world", "{ Thing { next(hi: A) { id @output } } }".to_string()));
    v.push(("world", "{ Thing { name { ... on Item { id @output } } } }".to_string()));
    v.push(("world", "{ Thing { id @output(name: \"c\") link @fold @transform(op: \"count\") @output(name: \"c\") } }".to_string()));
    v.push(("world", "{ Thing { link @fold @transform(op: \"count\") @transform(op: \"count\") @output } }".to_string()));
    v.push(("world", "{ __typename }".to_string()));
    v.push(("world", "query A { Thing { id @output } } query B { Thing { id @output } }".to_string()));
    for q in [
        "{ Node { deep30 @filter(op: \"one_of\", value: [\"$x\"]) @output } }",
        "{ Node { deep30 @filter(op: \"not_one_of\", value: [\"$x\"]) id @output } }",
        "{ Node { deep29 @filter(op: \"one_of\", value: [\"$x\"]) @output } }",
        "{ Node { deep30 @filter(op: \"=\", value: [\"$x\"]) @output } }",
        "{ Node { deep30 @tag(name: \"t\") deep30 @filter(op: \"one_of\", value: [\"%t\"]) @output } }",
        "{ Node { deep30 @filter(op: \"contains\", value: [\"$x\"]) @output } }",
        "{ Node { deep30 @output } }",
        "{ Node { next(hi: 1) @fold { deep30 @output } } }",
        "{ Node { next(hi: 1) @fold { deep29 @output } } }",
        "{ Node { flags @filter(op: \"<\", value: [\"$x\"]) @output } }",
        "{ Dup { id @output } }",
        "{ Dup { twice { id @output } } }",
        "{ Dup { twice(a: 1) { id @output } } }",
        "{ Dup { twice @fold { id @output } } }",
        "{ Node { dup { twice(a: 1, a: 2) { id @output } } } }",
        "{ Node { next { id @output } } }",
        "{ Node { next(hi: 2) @recurse(depth: 2) { id @output } } }",
        "{ Base { kids @recurse(depth: 2) { id @output } } }",
        "{ Base { ... on Leaf { kids @recurse(depth: 2) { id @output } } } }",
        "{ Base { ... on Mid { kids @recurse(depth: 2) { id @output } } } }",
        "{ Node { base { ... on Leaf { extra @output } } } }",
        "{ Node { base { ... on Node { id @output } } } }",
    ] {
        v.push(("edgecases", q.to_string()));
    }
    for q in ["", " ", "{", "}", "{}", "{ }", "query", "query {", "{ Thing }", "{ Thing { } }", "{ Thing { id @output } } }", "\u{0}", "{ Thing { id @output(name: \"\\u00e9\") } }"] {
        v.push(("world", q.to_string()));
    }
    v
}

// ------------------------------------------------------------------ token-level mutations

#[derive(Clone, Debug, PartialEq)]
enum Tok {
    P(char),
    Spread,
    Name(String),
    Str(String),
    Num(String),
    Other(String),
}

fn lex(s: &str) -> Vec<Tok> {
    let cs: Vec<char> = s.chars().collect();
    let mut i = 0;
    let mut out = vec![];
    while i < cs.len() {
        let c = cs[i];
        if c.is_whitespace() || c == ',' {
            i += 1;
        } else if c == '#' {
            while i < cs.len() && cs[i] != '\n' {
                i += 1;
            }
        } else if c == '.' && i + 2 < cs.len() && cs[i + 1] == '.' && cs[i + 2] == '.' {
            out.push(Tok::Spread);
            i += 3;
        } else if "{}()[]:@!=$".contains(c) {
            out.push(Tok::P(c));
            i += 1;
        } else if c == '"' {
            let mut j = i + 1;
            while j < cs.len() && cs[j] != '"' {
                if cs[j] == '\\' {
                    j += 1;
                }
                j += 1;
            }
            let end = (j + 1).min(cs.len());
            out.push(Tok::Str(cs[i..end].iter().collect()));
            i = end;
        } else if c.is_ascii_alphabetic() || c == '_' {
            let mut j = i;
            while j < cs.len() && (cs[j].is_ascii_alphanumeric() || cs[j] == '_') {
                j += 1;
            }
            out.push(Tok::Name(cs[i..j].iter().collect()));
            i = j;
        } else if c.is_ascii_digit() || c == '-' {
            let mut j = i + 1;
            while j < cs.len() && (cs[j].is_ascii_alphanumeric() || cs[j] == '.' || cs[j] == '-' || cs[j] == '+') {
                j += 1;
            }
            out.push(Tok::Num(cs[i..j].iter().collect()));
            i = j;
        } else {
            out.push(Tok::Other(c.to_string()));
            i += 1;
        }
    }
    out
}

fn unlex(ts: &[Tok]) -> String {
    let mut s = String::new();
    for t in ts {
        match t {
            Tok::P(c) => {
                if *c == '@' || *c == '{' || *c == '}' {
                    s.push(' ');
                }
                s.push(*c);
                if *c == ':' || *c == '{' || *c == '}' {
                    s.push(' ');
                }
            }
            Tok::Spread => s.push_str(" ... "),
            Tok::Name(n) => {
                if s.ends_with(|c: char| c.is_ascii_alphanumeric() || c == '_' || c == '"' || c == ')' || c == ']') {
                    s.push(' ');
                }
                s.push_str(n);
            }
            Tok::Str(x) | Tok::Num(x) | Tok::Other(x) => {
                if s.ends_with(|c: char| c.is_ascii_alphanumeric() || c == '_' || c == '"' || c == ']') {
                    s.push(' ');
                }
                s.push_str(x);
            }
        }
    }
    s
}

/// index just past the group opened at `open` (a `(`, `[` or `{`), or ts.len()
fn match_close(ts: &[Tok], open: usize) -> usize {
    let (o, c) = match ts[open] {
        Tok::P('(') => ('(', ')'),
        Tok::P('[') => ('[', ']'),
        _ => ('{', '}'),
    };
    let mut depth = 0i32;
    let mut i = open;
    while i < ts.len() {
        if ts[i] == Tok::P(o) {
            depth += 1;
        } else if ts[i] == Tok::P(c) {
            depth -= 1;
            if depth == 0 {
                return i + 1;
            }
        }
        i += 1;
    }
    ts.len()
}

/// spans [start, end) of `@name` / `@name(...)`
fn directive_spans(ts: &[Tok]) -> Vec<(usize, usize)> {
    let mut v = vec![];
    let mut i = 0;
    while i + 1 < ts.len() {
        if ts[i] == Tok::P('@') {
            if let Tok::Name(_) = ts[i + 1] {
                let mut end = i + 2;
                if end < ts.len() && ts[end] == Tok::P('(') {
                    end = match_close(ts, end);
                }
                v.push((i, end));
                i = end;
                continue;
            }
        }
        i += 1;
    }
    v
}

/// indices of Name tokens that are field names (not directive names, argument names, type names)
fn field_name_positions(ts: &[Tok]) -> Vec<usize> {
    let mut v = vec![];
    let mut paren = 0i32;
    for i in 0..ts.len() {
        match &ts[i] {
            Tok::P('(') | Tok::P('[') => paren += 1,
            Tok::P(')') | Tok::P(']') => paren -= 1,
            Tok::Name(n) if paren == 0 => {
                let prev = if i > 0 { Some(&ts[i - 1]) } else { None };
                let next = ts.get(i + 1);
                let is_kw = i == 0 && matches!(n.as_str(), "query" | "mutation" | "subscription" | "fragment");
                if prev != Some(&Tok::P('@')) && next != Some(&Tok::P(':')) && prev != Some(&Tok::Name("on".into())) && n != "on" && !is_kw {
                    v.push(i);
                }
            }
            _ => {}
        }
    }
    v
}

const FILTER_OPS: [&str; 22] = [
    "is_null", "is_not_null", "=", "!=", "<", "<=", ">", ">=", "contains", "not_contains", "one_of", "not_one_of", "has_prefix",
    "not_has_prefix", "has_suffix", "not_has_suffix", "has_substring", "not_has_substring", "regex", "not_regex", "like", "",
];

fn rand_value(r: &mut Rng, depth: usize) -> String {
    match r.below(if depth > 2 { 14 } else { 18 }) {
        0 => "0".into(),
        1 => "1".into(),
        2 => "-1".into(),
        3 => "18446744073709551615".into(),
        4 => "18446744073709551616".into(),
        5 => "-9223372036854775808".into(),
        6 => "1.5".into(),
        7 => "1e400".into(),
        8 => "null".into(),
        9 => "true".into(),
        10 => "FOO".into(),
        11 => "$x".into(),
        12 => format!("\"{}\"", r.pick(&["", "a", "$a", "%a", "$", "%", "$1", "$a-b", "%_", "count", "x y", "\\u00e9", "$\\u00e9", "=", "<"])),
        13 => "\"$v1\"".into(),
        14 => "[]".into(),
        15 => format!("[{}]", rand_value(r, depth + 1)),
        16 => format!("[{}, {}]", rand_value(r, depth + 1), rand_value(r, depth + 1)),
        _ => format!("{{a: {}}}", rand_value(r, depth + 1)),
    }
}

fn rand_directive(r: &mut Rng, tags: &[String]) -> String {
    match r.below(26) {
        0 => "@fold".into(),
        1 => "@optional".into(),
        2 => "@output".into(),
        3 => "@tag".into(),
        4 => "@transform(op: \"count\")".into(),
        5 => "@fold @transform(op: \"count\")".into(),
        6 => "@fold @transform(op: \"count\") @output".into(),
        7 => "@fold @transform(op: \"count\") @transform(op: \"count\")".into(),
        8 => format!("@recurse(depth: {})", r.pick(&["1", "2", "0", "-1", "3.0", "18446744073709551615", "18446744073709551616", "\"2\"", "null", "$d", "[1]"])),
        9 => format!("@output(name: {})", rand_value(r, 0)),
        10 => format!("@output(name: \"{}\")", r.pick(&["o1", "o2", "a", "x_y", "a-b", "", "\\u00e9", "count"])),
        11 => format!("@tag(name: \"{}\")", r.pick(&["t1", "t2", "a", "a-b", ""])),
        12 => format!("@filter(op: \"{}\", value: [\"${}\"])", r.pick(&FILTER_OPS), r.pick(&["v1", "v2", "x"])),
        13 => {
            let t = if tags.is_empty() { "t1".to_string() } else { r.pick(tags).clone() };
            format!("@filter(op: \"{}\", value: [\"%{}\"])", r.pick(&FILTER_OPS), t)
        }
        14 => format!("@filter(op: \"{}\")", r.pick(&FILTER_OPS)),
        15 => format!("@filter(op: {}, value: {})", rand_value(r, 0), rand_value(r, 0)),
        16 => format!("@filter(op: \"{}\", value: {})", r.pick(&FILTER_OPS), rand_value(r, 0)),
        17 => format!("@filter(value: [\"$x\"], op: \"=\", extra: {})", rand_value(r, 0)),
        18 => format!("@transform(op: {})", rand_value(r, 0)),
        19 => format!("@{}(x: 1)", r.pick(&["fold", "optional", "skip", "include", "unknown"])),
        20 => format!("@{}", r.pick(&["skip", "include", "deprecated", "x"])),
        21 => "@output(name: \"a\", name: \"b\")".into(),
        22 => "@recurse(depth: 1, depth: 2)".into(),
        23 => "@transform(op: \"count\", op: \"count\")".into(),
        24 => "@filter(op: \"=\", value: [\"$a\", \"$b\"])".into(),
        _ => "@filter(op: \"is_null\", value: [])".into(),
    }
}

fn splice(ts: &mut Vec<Tok>, at: usize, text: &str) {
    let new = lex(text);
    let at = at.min(ts.len());
    let tail = ts.split_off(at);
    ts.extend(new);
    ts.extend(tail);
}

fn type_names(s: &SInfo) -> Vec<String> {
    let mut v: Vec<String> = s.types.keys().cloned().collect();
    v.push("Nope".into());
    v.push("String".into());
    v
}

fn all_field_names(s: &SInfo) -> Vec<String> {
    let mut v: BTreeSet<String> = BTreeSet::new();
    for t in s.types.values() {
        for f in &t.fields {
            v.insert(f.name.clone());
        }
    }
    v.insert("__typename".into());
    v.insert("nope".into());
    v.insert("__schema".into());
    v.into_iter().collect()
}

fn tag_names(ts: &[Tok]) -> Vec<String> {
    let mut v = vec![];
    for (a, b) in directive_spans(ts) {
        if ts[a + 1] == Tok::Name("tag".into()) {
            for t in &ts[a..b] {
                if let Tok::Str(x) = t {
                    v.push(x.trim_matches('"').to_string());
                }
            }
        }
    }
    v
}

/// one token-level mutation; returns a label
fn mutate_tokens(r: &mut Rng, s: &SInfo, ts: &mut Vec<Tok>) -> &'static str {
    let dirs = directive_spans(ts);
    let tags = tag_names(ts);
    let fields = field_name_positions(ts);
    let braces: Vec<usize> = (0..ts.len()).filter(|i| ts[*i] == Tok::P('{')).collect();
    match r.below(24) {
        0 if !dirs.is_empty() => {
            let (a, b) = *r.pick(&dirs);
            let copy: Vec<Tok> = ts[a..b].to_vec();
            let at = if r.chance(1, 2) { b } else { r.pick(&dirs).1 };
            let tail = ts.split_off(at);
            ts.extend(copy);
            ts.extend(tail);
            "dup-directive"
        }
        1 if !dirs.is_empty() => {
            let (a, b) = *r.pick(&dirs);
            ts.drain(a..b);
            "drop-directive"
        }
        2 if dirs.len() >= 2 => {
            let i = r.below(dirs.len() - 1);
            let (a, b) = dirs[i];
            let (c, d) = dirs[i + 1];
            if b == c {
                let first: Vec<Tok> = ts[a..b].to_vec();
                let second: Vec<Tok> = ts[c..d].to_vec();
                ts.splice(a..d, second.into_iter().chain(first));
            }
            "swap-directives"
        }
        3 if dirs.len() >= 2 => {
            let (a, b) = *r.pick(&dirs);
            let moved: Vec<Tok> = ts.drain(a..b).collect();
            let dirs2 = directive_spans(ts);
            let at = if dirs2.is_empty() { ts.len().saturating_sub(1) } else { r.pick(&dirs2).1 };
            let tail = ts.split_off(at);
            ts.extend(moved);
            ts.extend(tail);
            "move-directive"
        }
        4 if !dirs.is_empty() => {
            let (a, b) = *r.pick(&dirs);
            ts.drain(a..b);
            let d = rand_directive(r, &tags);
            splice(ts, a, &d);
            "replace-directive"
        }
        5 | 6 => {
            let d = rand_directive(r, &tags);
            let at = if !dirs.is_empty() && r.chance(2, 3) {
                let (a, b) = *r.pick(&dirs);
                if r.chance(1, 2) { b } else { a }
            } else if !fields.is_empty() {
                r.pick(&fields) + 1
            } else {
                ts.len()
            };
            splice(ts, at, &d);
            "insert-directive"
        }
        7 if !dirs.is_empty() => {
            // change an argument value inside a directive
            let (a, b) = *r.pick(&dirs);
            let colons: Vec<usize> = (a..b).filter(|i| ts[*i] == Tok::P(':')).collect();
            if !colons.is_empty() {
                let c = *r.pick(&colons);
                let vstart = c + 1;
                let vend = match ts.get(vstart) {
                    Some(Tok::P('[')) | Some(Tok::P('{')) => match_close(ts, vstart),
                    Some(Tok::P('$')) => vstart + 2,
                    _ => vstart + 1,
                }
                .min(b.saturating_sub(1));
                if vstart < vend {
                    ts.drain(vstart..vend);
                }
                let v = rand_value(r, 0);
                splice(ts, vstart, &v);
            }
            "argument-value"
        }
        8 if braces.len() >= 2 => {
            // wrap the body of a block in an inline fragment
            let open = braces[1 + r.below(braces.len() - 1)];
            let close = match_close(ts, open);
            let tn = type_names(s);
            let head = match r.below(4) {
                0 => "... {".to_string(),
                1 => format!("... on {} @optional {{", r.pick(&tn)),
                _ => format!("... on {} {{", r.pick(&tn)),
            };
            if close >= 1 && close <= ts.len() {
                let tail_text = if r.chance(1, 4) { "} id @output(name: \"sib\")" } else { "}" };
                splice(ts, close - 1, tail_text);
                splice(ts, open + 1, &head);
            }
            "wrap-inline-fragment"
        }
        9 if !fields.is_empty() => {
            // give a field (often a property) a selection set with an inline fragment / fields
            let i = *r.pick(&fields);
            let mut at = i + 1;
            if ts.get(at) == Some(&Tok::P('(')) {
                at = match_close(ts, at);
            }
            while ts.get(at) == Some(&Tok::P('@')) {
                at += 2;
                if ts.get(at) == Some(&Tok::P('(')) {
                    at = match_close(ts, at);
                }
            }
            if ts.get(at) != Some(&Tok::P('{')) {
                let tn = type_names(s);
                let body = match r.below(4) {
                    0 => format!("{{ ... on {} {{ id @output(name: \"u1\") }} }}", r.pick(&tn)),
                    1 => "{ ... { id } }".to_string(),
                    2 => "{ id }".to_string(),
                    _ => format!("{{ ... on {} {{ {} }} }}", r.pick(&tn), r.pick(&all_field_names(s))),
                };
                splice(ts, at, &body);
            }
            "selection-under-field"
        }
        10 if !fields.is_empty() => {
            let i = *r.pick(&fields);
            splice(ts, i, &format!("{}:", r.pick(&["a1", "o1", "id", "__x", "count"])));
            "alias"
        }
        11 if !fields.is_empty() => {
            let i = *r.pick(&fields);
            if ts.get(i + 1) != Some(&Tok::P('(')) {
                let a = format!("({}: {})", r.pick(&["x", "lo", "hi", "max", "min"]), rand_value(r, 0));
                splice(ts, i + 1, &a);
            }
            "field-arguments"
        }
        12 if !fields.is_empty() => {
            let i = *r.pick(&fields);
            ts[i] = Tok::Name(r.pick(&all_field_names(s)).clone());
            "rename-field"
        }
        13 => {
            let body = unlex(ts);
            let extra = match r.below(9) {
                0 => format!("query A {body} query B {body}"),
                1 => format!("query A {body} query B {body} query C {body}"),
                2 => format!("query A {body}"),
                3 => format!("mutation {body}"),
                4 => format!("subscription S {body}"),
                5 => format!("query ($x: Int) {body}"),
                6 => format!("query Q @foo {body}"),
                7 => format!("{body} fragment F on {} {{ id }}", r.pick(&type_names(s))),
                _ => format!("query A {body} mutation B {body}"),
            };
            // a leading `query {` of the original would make `query A query {`: strip the keyword
            let extra = extra.replace("query A query", "query A").replace("query B query", "query B").replace("query C query", "query C").replace("mutation query", "mutation").replace("mutation B query", "mutation B").replace("subscription S query", "subscription S").replace("query ($x: Int) query", "query ($x: Int)").replace("query Q @foo query", "query Q @foo");
            *ts = lex(&extra);
            "operations"
        }
        14 => {
            // make two output / tag names equal, or drop a name
            let strs: Vec<usize> = dirs
                .iter()
                .filter(|(a, _)| matches!(&ts[a + 1], Tok::Name(n) if n == "output" || n == "tag"))
                .flat_map(|(a, b)| (*a..*b).filter(|i| matches!(ts[*i], Tok::Str(_))).collect::<Vec<_>>())
                .collect();
            if strs.len() >= 2 {
                let i = *r.pick(&strs);
                let j = *r.pick(&strs);
                ts[i] = ts[j].clone();
            }
            "equal-names"
        }
        15 => {
            let strs: Vec<usize> = (0..ts.len()).filter(|i| matches!(&ts[*i], Tok::Str(x) if x.starts_with("\"$") || x.starts_with("\"%"))).collect();
            if !strs.is_empty() {
                let i = *r.pick(&strs);
                let t = if tags.is_empty() { "t1".to_string() } else { r.pick(&tags).clone() };
                ts[i] = Tok::Str(match r.below(14) {
                    0 => format!("\"%{t}\""),
                    1 => "\"$\"".into(),
                    2 => "\"x\"".into(),
                    3 => "\"$1a\"".into(),
                    4 => "\"%nope\"".into(),
                    // operands that are empty or start with a multi-byte character (byte-index slicing)
                    5 => "\"\"".into(),
                    6 => "\"\u{e9}cart\"".into(),
                    7 => "\"\u{20ac}\"".into(),
                    8 => "\"\u{1F600}x\"".into(),
                    9 => "\"%\"".into(),
                    10 => "\"$\u{e9}\"".into(),
                    11 => "\"%\u{e9}t\"".into(),
                    12 => "\" $x\"".into(),
                    _ => "\"$shared\"".into(),
                });
            }
            "operand"
        }
        16 if braces.len() >= 2 => {
            let open = *r.pick(&braces);
            let close = match_close(ts, open);
            if close > open + 1 {
                ts.drain(open + 1..close - 1);
            }
            "empty-selection"
        }
        17 if braces.len() >= 2 => {
            // spread or inline fragment as an extra selection
            let open = *r.pick(&braces);
            let x = match r.below(3) {
                0 => "...F".to_string(),
                1 => format!("... on {} {{ id }}", r.pick(&type_names(s))),
                _ => "__typename @output(name: \"tn\")".to_string(),
            };
            splice(ts, open + 1, &x);
            "extra-selection"
        }
        18 if !ts.is_empty() => {
            let i = r.below(ts.len());
            ts.remove(i);
            "drop-token"
        }
        19 if !ts.is_empty() => {
            let i = r.below(ts.len());
            let t = ts[r.below(ts.len())].clone();
            ts.insert(i, t);
            "copy-token"
        }
        20 if ts.len() >= 2 => {
            let i = r.below(ts.len());
            let j = r.below(ts.len());
            ts.swap(i, j);
            "swap-tokens"
        }
        21 if !fields.is_empty() => {
            // duplicate a whole field (with its block) as a sibling
            let i = *r.pick(&fields);
            let mut end = i + 1;
            if ts.get(end) == Some(&Tok::P('(')) {
                end = match_close(ts, end);
            }
            while ts.get(end) == Some(&Tok::P('@')) {
                end += 2;
                if ts.get(end) == Some(&Tok::P('(')) {
                    end = match_close(ts, end);
                }
            }
            if ts.get(end) == Some(&Tok::P('{')) {
                end = match_close(ts, end);
            }
            let end = end.min(ts.len());
            let copy: Vec<Tok> = ts[i..end].to_vec();
            let tail = ts.split_off(end);
            ts.extend(copy);
            ts.extend(tail);
            "dup-field"
        }
        _ => {
            let d = rand_directive(r, &tags);
            let at = if fields.is_empty() { ts.len() } else { r.pick(&fields) + 1 };
            splice(ts, at, &d);
            "insert-directive"
        }
    }
}

fn mutate_bytes(r: &mut Rng, text: &str) -> String {
    let mut b: Vec<u8> = text.as_bytes().to_vec();
    match r.below(6) {
        0 => {
            let at = r.below(b.len() + 1);
            b.truncate(at);
        }
        1 if !b.is_empty() => {
            let i = r.below(b.len());
            b.remove(i);
        }
        2 => {
            let i = r.below(b.len() + 1);
            b.insert(i, *r.pick(b"{}()[]@:\"$%!.,#\\ \n\x00\xff\xc3-0123456789abcXYZ_"));
        }
        3 if !b.is_empty() => {
            let i = r.below(b.len());
            b[i] = (r.next_u64() & 0xff) as u8;
        }
        4 if !b.is_empty() => {
            let i = r.below(b.len());
            let j = r.below(b.len());
            b.swap(i, j);
        }
        _ => {
            let n = 1 + r.below(40);
            b = (0..n).map(|_| *r.pick(b"{}()[]@:\"$%!.,# \nabcquery_0123456789-\\\xc3\xa9")).collect();
        }
    }
    String::from_utf8_lossy(&b).to_string()
}

// ------------------------------------------------------------------ schema-directed "wild" generator (any schema)

struct Wild<'a> {
    r: &'a mut Rng,
    s: &'a SInfo,
    out_ctr: usize,
    tag_ctr: usize,
    tags: Vec<(String, String)>, // (name, base type)
}

impl<'a> Wild<'a> {
    fn arg_value(&mut self, ty: &str) -> String {
        if self.r.chance(1, 8) {
            return rand_value(self.r, 0);
        }
        let base = ty.trim_matches(|c| c == '[' || c == ']' || c == '!');
        let scalar = match base {
            "Int" => self.r.pick(&["0", "1", "3", "10", "-2", "18446744073709551615"]).to_string(),
            "String" => "\"a\"".to_string(),
            "Float" => "1.5".to_string(),
            "Boolean" => "true".to_string(),
            _ => "null".to_string(),
        };
        if ty.trim_end_matches('!').starts_with('[') { format!("[{scalar}]") } else { scalar }
    }

    fn prop_directives(&mut self, f: &FInfo, in_fold: bool) -> String {
        let mut d = String::new();
        let n = self.r.below(3);
        for _ in 0..n {
            match self.r.below(8) {
                0 | 1 => {
                    self.out_ctr += 1;
                    if self.r.chance(1, 6) {
                        d.push_str(" @output");
                    } else {
                        d.push_str(&format!(" @output(name: \"o{}\")", if self.r.chance(1, 10) { 1 } else { self.out_ctr }));
                    }
                }
                2 => {
                    self.tag_ctr += 1;
                    let name = format!("t{}", self.tag_ctr);
                    d.push_str(&format!(" @tag(name: \"{name}\")"));
                    self.tags.push((name, f.base.clone()));
                }
                3 | 4 => {
                    let op = if f.depth > 0 {
                        *self.r.pick(&["contains", "not_contains", "=", "is_null", "<", "one_of"])
                    } else {
                        *self.r.pick(&["=", "!=", "<", "<=", ">", ">=", "one_of", "not_one_of", "has_prefix", "has_substring", "regex", "is_null", "is_not_null", "contains"])
                    };
                    if op.starts_with("is_") {
                        d.push_str(&format!(" @filter(op: \"{op}\")"));
                    } else {
                        d.push_str(&format!(" @filter(op: \"{op}\", value: [\"$v{}\"])", self.r.below(4)));
                    }
                }
                5 => {
                    let same: Vec<String> = self.tags.iter().filter(|t| t.1 == f.base || self.r.chance(1, 6)).map(|t| t.0.clone()).collect();
                    if !same.is_empty() {
                        let t = self.r.pick(&same).clone();
                        let op = *self.r.pick(&["=", "<", ">=", "!=", "has_prefix", "one_of", "contains"]);
                        d.push_str(&format!(" @filter(op: \"{op}\", value: [\"%{t}\"])"));
                    }
                }
                _ => {
                    let tags: Vec<String> = self.tags.iter().map(|t| t.0.clone()).collect();
                    d.push(' ');
                    d.push_str(&rand_directive(self.r, &tags));
                }
            }
        }
        let _ = in_fold;
        d
    }

    fn scope(&mut self, ty: &str, depth: usize, fold_depth: usize, out: &mut String) {
        let t = match self.s.types.get(ty) {
            Some(t) => t.clone(),
            None => {
                out.push_str(" id @output ");
                return;
            }
        };
        let k = 1 + self.r.below(4);
        for _ in 0..k {
            if t.fields.is_empty() {
                break;
            }
            let f = if self.r.chance(1, 25) {
                // a field of some other type, or a meta field
                let names = all_field_names(self.s);
                FInfo { name: self.r.pick(&names).clone(), base: "String".into(), depth: 0, is_edge: false, args: vec![] }
            } else {
                self.r.pick(&t.fields).clone()
            };
            if self.r.chance(1, 12) {
                out.push_str(&format!(" a{}:", self.r.below(3)));
            }
            out.push(' ');
            out.push_str(&f.name);
            if !f.args.is_empty() && self.r.chance(2, 3) || self.r.chance(1, 40) {
                let mut parts = vec![];
                for (n, ty) in &f.args {
                    if self.r.chance(3, 4) {
                        parts.push(format!("{n}: {}", self.arg_value(ty)));
                    }
                }
                if self.r.chance(1, 20) {
                    parts.push(format!("zz: {}", rand_value(self.r, 0)));
                }
                if !parts.is_empty() {
                    out.push_str(&format!("({})", parts.join(", ")));
                }
            }
            if f.is_edge {
                let mut inner_fold = fold_depth;
                match self.r.below(12) {
                    0 | 1 => out.push_str(" @optional"),
                    2 => out.push_str(&format!(" @recurse(depth: {})", 1 + self.r.below(3))),
                    3 | 4 => {
                        out.push_str(" @fold");
                        inner_fold += 1;
                    }
                    5 | 6 => {
                        inner_fold += 1;
                        out.push_str(" @fold @transform(op: \"count\")");
                        let n = self.r.below(3);
                        for _ in 0..n {
                            match self.r.below(4) {
                                0 => {
                                    self.out_ctr += 1;
                                    if self.r.chance(1, 3) {
                                        out.push_str(" @output");
                                    } else {
                                        out.push_str(&format!(" @output(name: \"o{}\")", if self.r.chance(1, 6) { 1 } else { self.out_ctr }));
                                    }
                                }
                                1 => {
                                    self.tag_ctr += 1;
                                    let name = format!("t{}", self.tag_ctr);
                                    out.push_str(&format!(" @tag(name: \"{name}\")"));
                                    self.tags.push((name, "Int".into()));
                                }
                                2 => out.push_str(&format!(" @filter(op: \"{}\", value: [\"$c{}\"])", self.r.pick(&["=", ">", ">=", "<", "one_of", "has_prefix", "is_null"]), self.r.below(3))),
                                _ => out.push_str(" @transform(op: \"count\")"),
                            }
                        }
                    }
                    7 => {
                        let tags: Vec<String> = self.tags.iter().map(|t| t.0.clone()).collect();
                        out.push(' ');
                        out.push_str(&rand_directive(self.r, &tags));
                    }
                    _ => {}
                }
                if depth == 0 {
                    continue; // edge without a selection set
                }
                out.push_str(" {");
                // coercion
                let subs: Vec<String> = self.s.types.values().filter(|x| x.implements.contains(&f.base)).map(|x| x.name.clone()).collect();
                let mut inner_ty = f.base.clone();
                let coerce = self.r.chance(1, 5);
                if coerce {
                    let target = if !subs.is_empty() && self.r.chance(4, 5) { self.r.pick(&subs).clone() } else { self.r.pick(&type_names(self.s)).clone() };
                    out.push_str(&format!(" ... on {target} {{"));
                    inner_ty = target;
                }
                self.scope(&inner_ty, depth.saturating_sub(1), inner_fold, out);
                if coerce {
                    out.push_str(" }");
                    if self.r.chance(1, 15) {
                        out.push_str(" id");
                    }
                }
                out.push_str(" }");
            } else {
                let d = self.prop_directives(&f, fold_depth > 0);
                out.push_str(&d);
                if self.r.chance(1, 30) {
                    out.push_str(&format!(" {{ ... on {} {{ id }} }}", self.r.pick(&type_names(self.s))));
                }
            }
        }
    }
}

fn gen_wild(r: &mut Rng, s: &SInfo) -> String {
    let root = s.types.get(&s.root).cloned();
    let mut w = Wild { r, s, out_ctr: 0, tag_ctr: 0, tags: vec![] };
    let mut out = String::from("{");
    if let Some(root) = root {
        let f = w.r.pick(&root.fields).clone();
        out.push(' ');
        out.push_str(&f.name);
        let mut parts = vec![];
        for (n, ty) in &f.args {
            if w.r.chance(4, 5) {
                parts.push(format!("{n}: {}", w.arg_value(ty)));
            }
        }
        if !parts.is_empty() {
            out.push_str(&format!("({})", parts.join(", ")));
        }
        out.push_str(" {");
        let depth = w.r.below(4);
        w.scope(&f.base, depth, 0, &mut out);
        if w.out_ctr == 0 {
            out.push_str(" __typename @output(name: \"tn\")");
        }
        out.push_str(" }");
    }
    out.push_str(" }");
    out
}

// ------------------------------------------------------------------ driver

fn run_c10(args: &Args) {
    let oracle_only = args.rest.iter().any(|x| x == "--oracle-only");
    let schemas = load_schemas();
    let mut imports = String::from("From TF Require Import Values Show Ty SchemaAst QueryAst QueryParse.\nLocal Open Scope string_scope.\n");
    imports.push_str(&stage2_imports(&schemas));
    let mut o = Out::new(&args.out, &imports, 170);
    let mut seen = Seen::default();
    let by_name = |n: &str| schemas.iter().find(|s| s.name == n);
    // every schema used satisfies the executable form of the hypothesis `schema_ok` of C10_front_total
    if !oracle_only {
        for sc in &schemas {
            o.add_spec(
                Case {
                    input: json!({"schema": sc.name, "check": "schema_okb (hypothesis of front_total) holds for this schema"}),
                    coq: format!("show_schema_ok {}", sc.coq_name),
                    imp: "T".into(),
                    nontrivial: true,
                    key: format!("schema_ok|{}", sc.name),
                },
                None,
            );
        }
    }
    // (o) fixed corpora
    let mut bases: Vec<(usize, String)> = vec![]; // (schema index, text) to mutate
    for (sn, q) in witness_corpus() {
        if let Some(s) = by_name(sn) {
            check_text(&mut o, &mut seen, s, &q, "witness", oracle_only);
        }
    }
    for (sn, q, stream) in repo_corpus() {
        if let Some(i) = schemas.iter().position(|s| s.name == sn) {
            check_text(&mut o, &mut seen, &schemas[i], &q, &stream, oracle_only);
            bases.push((i, q.clone()));
            // the repository's queries against every other schema as well (unknown fields/types everywhere)
            for (j, s2) in schemas.iter().enumerate() {
                if j != i && (q.len() + j) % 7 == 0 {
                    check_text(&mut o, &mut seen, s2, &q, "repo:cross-schema", true);
                }
            }
        }
    }
    // (i) seeded streams
    let mut rng = Rng::new(args.seed);
    let n = args.n;
    for k in 0..n {
        let mut r = rng.fork();
        match k % 10 {
            0 | 1 => {
                // valid generated query (world schema)
                let mut g = qgen::QGen::new(&mut r);
                g.p_known_defects = 0;
                let t = g.gen_query().text;
                check_text(&mut o, &mut seen, &schemas[0], &t, "qgen", oracle_only);
                if bases.len() < 4000 {
                    bases.push((0, t));
                }
            }
            2 | 3 => {
                let si = r.below(schemas.len());
                let t = gen_wild(&mut r, &schemas[si]);
                check_text(&mut o, &mut seen, &schemas[si], &t, "wild", oracle_only);
                if r.chance(1, 2) {
                    bases.push((si, t));
                }
            }
            4 | 5 | 6 | 7 | 8 => {
                // token-level mutations of a base text
                let (si, base) = if r.chance(1, 2) || bases.is_empty() {
                    let mut g = qgen::QGen::new(&mut r);
                    g.p_known_defects = 0;
                    g.max_depth = 2;
                    (0usize, g.gen_query().text)
                } else {
                    bases[r.below(bases.len())].clone()
                };
                let mut ts = lex(&base);
                let m = 1 + r.below(3);
                let mut labels = vec![];
                for _ in 0..m {
                    labels.push(mutate_tokens(&mut r, &schemas[si], &mut ts));
                }
                for l in &labels {
                    o.count(&format!("mutation:{l}"));
                }
                let t = unlex(&ts);
                check_text(&mut o, &mut seen, &schemas[si], &t, "token-mutation", oracle_only);
            }
            _ => {
                let (si, base) = if bases.is_empty() { (0, "{ Thing { id @output } }".to_string()) } else { bases[r.below(bases.len())].clone() };
                let mut t = mutate_bytes(&mut r, &base);
                if r.chance(1, 3) {
                    t = mutate_bytes(&mut r, &t);
                }
                check_text(&mut o, &mut seen, &schemas[si], &t, "byte-mutation", true);
            }
        }
    }
    o.extra.insert("schemas".into(), json!(schemas.iter().map(|s| s.name.clone()).collect::<Vec<_>>()));
    o.finish();
}

fn main() {
    let argv: Vec<String> = std::env::args().collect();
    if argv.len() < 2 {
        eprintln!("usage: tfh_c10 c10 [--seed S] [--n N] [--out DIR] [--oracle-only] | probe SCHEMA QUERY...");
        std::process::exit(2);
    }
    install_hook();
    match argv[1].as_str() {
        "c10" => {
            let args = parse_args(&argv[2..]);
            run_c10(&args);
        }
        "probe" => {
            let mut schemas = load_schemas();
            if std::path::Path::new(&argv[2]).exists() {
                schemas.push(make_sinfo(&argv[2], std::fs::read_to_string(&argv[2]).unwrap()));
            }
            let s = match schemas.iter().find(|s| s.name == argv[2]) {
                Some(s) => s,
                None => {
                    eprintln!("unknown schema {}", argv[2]);
                    std::process::exit(2);
                }
            };
            if std::env::var("C10_PRINT_SCHEMA").is_ok() {
                println!("schema-doc: {}", s.coq_doc);
            }
            for q in &argv[3..] {
                let r = catch_unwind(AssertUnwindSafe(|| trustfall_core::frontend::parse(&s.schema, q)));
                match &r {
                    Ok(Ok(_)) => println!("OK      {q}"),
                    Ok(Err(e)) => println!("ERR     {q}\n   {e:?}"),
                    Err(_) => println!("PANIC   {q}\n   {}", last_panic()),
                }
                if let Ok(doc) = parse_query(q) {
                    println!("   classes: {:?}", known_classes(s, &doc));
                    println!("   parse_document: {}", run_parse_document(&doc));
                    println!("   ast: {}", cdocument(&doc));
                }
            }
        }
        other => {
            eprintln!("unknown subcommand {other}");
            std::process::exit(2);
        }
    }
}

fn stage2_imports(schemas: &[SInfo]) -> String {
    let mut s = String::from("From TF Require Import SchemaNew Front FrontTotal.\nDefinition show_schema_ok (os : option schema) : string := match os with Some sc => show_bool (schema_okb sc) | None => \"NO-SCHEMA\" end.\nDefinition show_both (os : option schema) (d : document) : string := show_parse_doc d ++ \" || \" ++ show_front_doc os d ++ \" || \" ++ show_index_doc os d.\n");
    for sc in schemas {
        s.push_str(&format!("Definition {} := Eval vm_compute in (schema_of_doc {}).\n", sc.coq_name, sc.coq_doc));
    }
    s
}
