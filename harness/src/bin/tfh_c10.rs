//! C10 probe (temporary skeleton)
#[path = "../coq.rs"]
mod coq;
#[path = "../out.rs"]
mod out;
#[path = "../rng.rs"]
mod rng;
#[path = "../show.rs"]
mod show;
#[path = "../world.rs"]
mod world;

use std::panic::{catch_unwind, AssertUnwindSafe};
use std::sync::Mutex;
use trustfall_core::schema::Schema;

static LAST_PANIC: Mutex<String> = Mutex::new(String::new());

fn install_hook() {
    std::panic::set_hook(Box::new(|info| {
        let loc = info.location().map(|l| format!("{}:{}", l.file(), l.line())).unwrap_or_default();
        let msg = if let Some(s) = info.payload().downcast_ref::<&str>() {
            s.to_string()
        } else if let Some(s) = info.payload().downcast_ref::<String>() {
            s.clone()
        } else {
            String::new()
        };
        *LAST_PANIC.lock().unwrap() = format!("{loc} {msg}");
    }));
}

fn load_schema(name: &str) -> Schema {
    if name == "world" {
        world::schema()
    } else {
        Schema::parse(std::fs::read_to_string(name).unwrap()).unwrap()
    }
}

fn main() {
    let argv: Vec<String> = std::env::args().collect();
    install_hook();
    match argv[1].as_str() {
        "probe" => {
            let schema = load_schema(&argv[2]);
            for q in &argv[3..] {
                let r = catch_unwind(AssertUnwindSafe(|| trustfall_core::frontend::parse(&schema, q)));
                match r {
                    Ok(Ok(_)) => println!("OK      {q}"),
                    Ok(Err(e)) => println!("ERR     {q}\n   {e:?}"),
                    Err(_) => println!("PANIC   {q}\n   {}", LAST_PANIC.lock().unwrap()),
                }
            }
        }
        _ => std::process::exit(2),
    }
}
