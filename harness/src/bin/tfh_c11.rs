//! tfh_c11 — C11 (compiled queries are structurally well-formed) and C13 (rows carry exactly the
//! declared outputs, typed as declared).
//!
//! `c11`
//!  * ORACLE cases: for every IR the real frontend produces — n generated queries over the world
//!    schema (`engine::gen_case`), every `.graphql.ron` corpus query re-compiled with its schema, and
//!    every `.ir.ron` snapshot under trustfall_core/test_data/tests — the proved validator
//!    `WfIR.wf_ir` is evaluated on the printed IR: anything but "WF" is a failure of the property
//!    with the query as replay (translation validation of the frontend's output).
//!  * TIE cases: `Indexed.index_query` vs the real `IndexedQuery::try_from` on the same IRs and on
//!    hand-mutated IRs (mutated through the public fields: swapped eids, retargeted edges, dropped /
//!    retyped variables, duplicated / moved outputs, foreign vertices, broken fold headers ...), so
//!    that the numbered `GetBetterVariant(n)` returns are exercised.
//!  * direct oracle (implementation only): BTreeMap keys agree with the vid/eid fields of their
//!    values; `IndexedQuery::try_from` of a frontend IR is Ok and equals what `parse` returned.
//!
//! `c13`
//!  * direct oracle on the implementation: for every generated world the real engine is run; every
//!    row's key set equals the key set of `IndexedQuery.outputs`; every value satisfies the real
//!    `Type::is_valid_value` for the declared `Output.value_type`; the declared type of every output
//!    equals a first-principles recomputation (own type, nullable iff an @optional edge lies on the
//!    path from the component root, one list level per enclosing fold with the level nullable iff
//!    the fold starts under @optional, `Int!`-based count outputs).
//!  * TIE: `Indexed.outputs_of` vs `IndexedQuery.outputs`.
#[path = "../coq.rs"]
mod coq;
#[path = "../engine.rs"]
mod engine;
#[path = "../irprint.rs"]
mod irprint;
#[path = "../out.rs"]
mod out;
#[path = "../qgen.rs"]
mod qgen;
#[path = "../rng.rs"]
mod rng;
#[path = "../show.rs"]
mod show;
#[path = "../world.rs"]
mod world;

use engine::{case_input_json, gen_case, run_impl, GenStats, Outcome};
use out::{Case, Out};
use rng::Rng;
use serde::Deserialize;
use serde_json::{json, Value};
use show::{hex, show_fv};
use std::collections::{BTreeMap, BTreeSet};
use std::num::NonZeroUsize;
use std::panic::{catch_unwind, AssertUnwindSafe};
use std::path::{Path, PathBuf};
use std::sync::Arc;
use trustfall_core::frontend::{parse, parse_to_ir};
use trustfall_core::ir::{
    ContextField, EdgeKind, Eid, FieldValue, FoldSpecificFieldKind, IREdge,
    IRQuery, IRQueryComponent, IRVertex, IndexedQuery, InvalidIRQueryError, Type, Vid,
};
use trustfall_core::schema::Schema;

pub struct Args {
    pub seed: u64,
    pub n: usize,
    pub out: PathBuf,
    pub rest: Vec<String>,
}

fn parse_args(v: &[String]) -> Args {
    let mut a = Args { seed: 0, n: 100, out: PathBuf::from("."), rest: vec![] };
    let mut i = 0;
    while i < v.len() {
        match v[i].as_str() {
            "--seed" => {
                a.seed = v[i + 1].parse().unwrap();
                i += 2;
            }
            "--n" => {
                a.n = v[i + 1].parse().unwrap();
                i += 2;
            }
            "--out" => {
                a.out = PathBuf::from(&v[i + 1]);
                i += 2;
            }
            _ => {
                a.rest.push(v[i].clone());
                i += 1;
            }
        }
    }
    a
}

const IMPORTS: &str = "From TF Require Import Values Show WfIR WfNoPanic.";
const TEST_DATA: &str = "/repo/trustfall_core/test_data";

// ------------------------------------------------------------------ rendering (mirrors Indexed.v)

fn vn(v: Vid) -> u64 {
    irprint::vid_n(v)
}
fn en(e: Eid) -> u64 {
    irprint::eid_n(e)
}
fn vid_of(n: u64) -> Vid {
    Vid::new(NonZeroUsize::new(n as usize).unwrap())
}
fn eid_of(n: u64) -> Eid {
    Eid::new(NonZeroUsize::new(n as usize).unwrap())
}

fn show_ty_hex(t: &Type) -> String {
    format!("{}#{}", hex(&t.to_string()), t.__verif_mask())
}

fn show_outputs(ix: &IndexedQuery) -> String {
    ix.outputs
        .iter()
        .map(|(k, o)| format!("{}:{}@{}", hex(k), show_ty_hex(&o.value_type), vn(o.vid)))
        .collect::<Vec<_>>()
        .join(",")
}

fn show_indexed(ix: &IndexedQuery) -> String {
    let vs: Vec<String> = ix.vids.iter().map(|(v, c)| format!("{}>{}", vn(*v), vn(c.root))).collect();
    let es: Vec<String> = ix
        .eids
        .iter()
        .map(|(e, k)| format!("{}{}", en(*e), match k { EdgeKind::Regular(_) => "R", EdgeKind::Fold(_) => "F" }))
        .collect();
    format!("OK V:{} E:{} O:{}", vs.join(","), es.join(","), show_outputs(ix))
}

enum IxOutcome {
    Ok(IndexedQuery),
    Err(i32),
    Panic,
}

fn run_index(q: &IRQuery) -> IxOutcome {
    let q2 = q.clone();
    match catch_unwind(AssertUnwindSafe(|| IndexedQuery::try_from(q2))) {
        Ok(Ok(ix)) => IxOutcome::Ok(ix),
        Ok(Err(InvalidIRQueryError::GetBetterVariant(n))) => IxOutcome::Err(n),
        Err(_) => IxOutcome::Panic,
    }
}

fn show_ix_outcome(o: &IxOutcome) -> String {
    match o {
        IxOutcome::Ok(ix) => show_indexed(ix),
        IxOutcome::Err(n) => format!("ERR{n}"),
        IxOutcome::Panic => "PANIC".to_string(),
    }
}

/// IR.v keeps only the VALUES of the vertices / edges / folds maps: the printed IR is faithful only
/// when every key agrees with the id field of its value.
fn keys_consistent(c: &IRQueryComponent) -> bool {
    c.vertices.iter().all(|(k, v)| *k == v.vid)
        && c.edges.iter().all(|(k, e)| *k == e.eid)
        && c.folds.iter().all(|(k, f)| *k == f.eid && keys_consistent(&f.component))
}

// ------------------------------------------------------------------ component paths and mutation

fn all_paths(c: &IRQueryComponent, here: &mut Vec<Eid>, acc: &mut Vec<Vec<Eid>>) {
    acc.push(here.clone());
    for (e, f) in &c.folds {
        here.push(*e);
        all_paths(&f.component, here, acc);
        here.pop();
    }
}

fn comp_at<'a>(c: &'a IRQueryComponent, path: &[Eid]) -> &'a IRQueryComponent {
    match path.split_first() {
        None => c,
        Some((e, rest)) => comp_at(&c.folds[e].component, rest),
    }
}

fn comp_mut<'a>(c: &'a mut Arc<IRQueryComponent>, path: &[Eid]) -> &'a mut IRQueryComponent {
    let m = Arc::make_mut(c);
    match path.split_first() {
        None => m,
        Some((e, rest)) => {
            let f = Arc::make_mut(m.folds.get_mut(e).unwrap());
            comp_mut(&mut f.component, rest)
        }
    }
}

fn all_vids_of(c: &IRQueryComponent, acc: &mut Vec<u64>) {
    acc.extend(c.vertices.keys().map(|v| vn(*v)));
    for f in c.folds.values() {
        all_vids_of(&f.component, acc);
    }
}

/// One random mutation; returns its label, or None when the chosen mutation does not apply.
fn mutate(rng: &mut Rng, q: &mut IRQuery) -> Option<String> {
    let mut paths = vec![];
    all_paths(&q.root_component, &mut vec![], &mut paths);
    let path = rng.pick(&paths).clone();
    let mut vids = vec![];
    all_vids_of(&q.root_component, &mut vids);
    let max_vid = vids.iter().copied().max().unwrap_or(1);
    let here: Vec<u64> = comp_at(&q.root_component, &path).vertices.keys().map(|v| vn(*v)).collect();
    let foreign: Vec<u64> = vids.iter().copied().filter(|v| !here.contains(v)).collect();
    let kind = rng.below(22);
    let c = comp_mut(&mut q.root_component, &path);
    match kind {
        0 => {
            // swap the eids of two edges (keys and fields), keeping their endpoints
            let keys: Vec<Eid> = c.edges.keys().copied().collect();
            if keys.len() < 2 {
                return None;
            }
            let a = keys[rng.below(keys.len())];
            let b = keys[rng.below(keys.len())];
            if a == b {
                return None;
            }
            let mut ea = (*c.edges[&a]).clone();
            let mut eb = (*c.edges[&b]).clone();
            ea.eid = b;
            eb.eid = a;
            c.edges.insert(b, Arc::new(ea));
            c.edges.insert(a, Arc::new(eb));
            Some("swap-edge-eids".into())
        }
        1 | 2 | 3 | 4 => {
            // retarget one endpoint of an edge
            let keys: Vec<Eid> = c.edges.keys().copied().collect();
            if keys.is_empty() {
                return None;
            }
            let k = keys[rng.below(keys.len())];
            let e = Arc::make_mut(c.edges.get_mut(&k).unwrap());
            let target = match kind {
                1 | 3 if !foreign.is_empty() => *rng.pick(&foreign),
                2 | 4 => max_vid + 1 + rng.below(3) as u64,
                _ => *rng.pick(&here),
            };
            if kind <= 2 {
                if vn(e.from_vid) == target {
                    return None;
                }
                e.from_vid = vid_of(target);
                Some("edge-from".into())
            } else {
                if vn(e.to_vid) == target {
                    return None;
                }
                e.to_vid = vid_of(target);
                Some("edge-to".into())
            }
        }
        5 => {
            // move an edge to another eid/to_vid pair that still satisfies eid+1 = to_vid
            let keys: Vec<Eid> = c.edges.keys().copied().collect();
            if keys.is_empty() {
                return None;
            }
            let k = keys[rng.below(keys.len())];
            let target = if !foreign.is_empty() && rng.chance(1, 2) { *rng.pick(&foreign) } else { max_vid + 1 };
            if target < 2 || c.edges.contains_key(&eid_of(target - 1)) {
                return None;
            }
            let mut e = (*c.edges.remove(&k).unwrap()).clone();
            e.eid = eid_of(target - 1);
            e.to_vid = vid_of(target);
            c.edges.insert(e.eid, Arc::new(e));
            Some("edge-renumber".into())
        }
        6 => {
            // the root is not a vertex of the component
            c.root = vid_of(max_vid + 1);
            Some("root-missing".into())
        }
        7 => {
            // a vertex of another component appears here too
            if foreign.is_empty() {
                return None;
            }
            let v = *rng.pick(&foreign);
            let proto = c.vertices.values().next()?.clone();
            c.vertices.insert(vid_of(v), IRVertex { vid: vid_of(v), ..proto });
            Some("foreign-vertex".into())
        }
        8 => {
            // an output names a vertex of another component / a missing vertex
            let keys: Vec<Arc<str>> = c.outputs.keys().cloned().collect();
            if keys.is_empty() {
                return None;
            }
            let k = keys[rng.below(keys.len())].clone();
            let target = if !foreign.is_empty() && rng.chance(2, 3) { *rng.pick(&foreign) } else { max_vid + 1 };
            c.outputs.get_mut(&k).unwrap().vertex_id = vid_of(target);
            Some("output-vertex".into())
        }
        9 => {
            // a fold-specific output takes the name of a component output (or vice versa)
            let names: Vec<Arc<str>> = c.outputs.keys().cloned().collect();
            let fkeys: Vec<Eid> = c.folds.keys().copied().collect();
            if names.is_empty() || fkeys.is_empty() {
                return None;
            }
            let name = names[rng.below(names.len())].clone();
            let f = Arc::make_mut(c.folds.get_mut(&fkeys[rng.below(fkeys.len())]).unwrap());
            f.fold_specific_outputs.insert(name, FoldSpecificFieldKind::Count);
            Some("count-output-name-clash".into())
        }
        10 => {
            // an output of the folded component takes the name of an output of this component
            let names: Vec<Arc<str>> = c.outputs.keys().cloned().collect();
            let fkeys: Vec<Eid> = c.folds.keys().copied().collect();
            if names.is_empty() || fkeys.is_empty() {
                return None;
            }
            let name = names[rng.below(names.len())].clone();
            let f = Arc::make_mut(c.folds.get_mut(&fkeys[rng.below(fkeys.len())]).unwrap());
            let sub = Arc::make_mut(&mut f.component);
            let root = sub.root;
            let proto = ContextField { vertex_id: root, field_name: "id".into(), field_type: Type::parse("Int!").unwrap() };
            sub.outputs.insert(name, proto);
            Some("inner-output-name-clash".into())
        }
        11 | 12 | 13 | 14 => {
            // break a fold header
            let fkeys: Vec<Eid> = c.folds.keys().copied().collect();
            if fkeys.is_empty() {
                return None;
            }
            let f = Arc::make_mut(c.folds.get_mut(&fkeys[rng.below(fkeys.len())]).unwrap());
            match kind {
                11 => {
                    f.to_vid = vid_of(vn(f.to_vid) + 1);
                    Some("fold-to".into())
                }
                12 => {
                    f.from_vid = vid_of(max_vid + 1);
                    Some("fold-from-missing".into())
                }
                13 => {
                    if foreign.is_empty() {
                        return None;
                    }
                    f.from_vid = vid_of(*rng.pick(&foreign));
                    Some("fold-from-foreign".into())
                }
                _ => {
                    let sub = Arc::make_mut(&mut f.component);
                    let others: Vec<Vid> = sub.vertices.keys().copied().filter(|v| *v != sub.root).collect();
                    if others.is_empty() {
                        return None;
                    }
                    sub.root = others[rng.below(others.len())];
                    Some("fold-root".into())
                }
            }
        }
        15 => {
            // an edge with the eid of a fold (the fold's root also becomes a vertex here)
            let fkeys: Vec<Eid> = c.folds.keys().copied().collect();
            if fkeys.is_empty() {
                return None;
            }
            let fk = fkeys[rng.below(fkeys.len())];
            let f = c.folds[&fk].clone();
            let proto = c.vertices.values().next()?.clone();
            c.vertices.insert(f.to_vid, IRVertex { vid: f.to_vid, ..proto });
            c.edges.insert(
                fk,
                Arc::new(IREdge {
                    eid: fk,
                    from_vid: f.from_vid,
                    to_vid: f.to_vid,
                    edge_name: f.edge_name.clone(),
                    parameters: f.parameters.clone(),
                    optional: false,
                    recursive: None,
                }),
            );
            Some("edge-with-fold-eid".into())
        }
        16 => {
            // flip @optional on an edge (changes the declared output types, stays indexable)
            let keys: Vec<Eid> = c.edges.keys().copied().collect();
            if keys.is_empty() {
                return None;
            }
            let k = keys[rng.below(keys.len())];
            let e = Arc::make_mut(c.edges.get_mut(&k).unwrap());
            e.optional = !e.optional;
            Some("flip-optional".into())
        }
        17 => {
            // move an output to another component
            let keys: Vec<Arc<str>> = c.outputs.keys().cloned().collect();
            if keys.is_empty() || paths.len() < 2 {
                return None;
            }
            let k = keys[rng.below(keys.len())].clone();
            let cf = c.outputs.remove(&k).unwrap();
            let other = loop {
                let p = rng.pick(&paths).clone();
                if p != path {
                    break p;
                }
            };
            comp_mut(&mut q.root_component, &other).outputs.insert(k, cf);
            Some("move-output".into())
        }
        18 => {
            // drop a variable
            let keys: Vec<Arc<str>> = q.variables.keys().cloned().collect();
            if keys.is_empty() {
                return None;
            }
            q.variables.remove(&keys[rng.below(keys.len())]);
            Some("drop-variable".into())
        }
        19 => {
            // change the recorded type of a variable
            let keys: Vec<Arc<str>> = q.variables.keys().cloned().collect();
            if keys.is_empty() {
                return None;
            }
            let k = keys[rng.below(keys.len())].clone();
            let t = q.variables[&k].clone();
            let nt = match rng.below(4) {
                0 => t.with_nullability(!t.nullable()),
                1 => Type::new_list_type(t.clone(), rng.chance(1, 2)),
                2 => Type::new_named_type(if t.base_type() == "Int" { "String" } else { "Int" }, t.nullable()),
                _ => match t.as_list() {
                    Some(inner) => inner,
                    None => t.with_nullability(true),
                },
            };
            if nt == t {
                return None;
            }
            q.variables.insert(k, nt);
            Some("retype-variable".into())
        }
        20 => {
            // swap the eids of an edge and a fold of this component
            let ekeys: Vec<Eid> = c.edges.keys().copied().collect();
            let fkeys: Vec<Eid> = c.folds.keys().copied().collect();
            if ekeys.is_empty() || fkeys.is_empty() {
                return None;
            }
            let ek = ekeys[rng.below(ekeys.len())];
            let fk = fkeys[rng.below(fkeys.len())];
            let mut e = (*c.edges.remove(&ek).unwrap()).clone();
            let mut f = (*c.folds.remove(&fk).unwrap()).clone();
            e.eid = fk;
            f.eid = ek;
            c.edges.insert(fk, Arc::new(e));
            c.folds.insert(ek, Arc::new(f));
            Some("swap-edge-fold-eids".into())
        }
        _ => {
            // drop a vertex that edges / outputs still mention
            let keys: Vec<Vid> = c.vertices.keys().copied().filter(|v| *v != c.root).collect();
            if keys.is_empty() {
                return None;
            }
            c.vertices.remove(&keys[rng.below(keys.len())]);
            Some("drop-vertex".into())
        }
    }
}

// ------------------------------------------------------------------ case emission

struct Src {
    label: String,
    input: Value,
    ir: IRQuery,
    features: usize,
}

fn count_features(c: &IRQueryComponent) -> usize {
    let mut n = c.edges.len() + 2 * c.folds.len();
    for v in c.vertices.values() {
        n += v.filters.iter().filter(|f| format!("{f:?}").contains("Tag(")).count();
    }
    for f in c.folds.values() {
        n += f.imported_tags.len() + f.post_filters.len() + count_features(&f.component);
    }
    n
}

fn emit_wf(out: &mut Out, s: &Src, from_frontend: bool) {
    let printed = irprint::query(&s.ir);
    if !keys_consistent(&s.ir.root_component) {
        out.oracle_fail("BTreeMap key differs from the vid/eid field of its value", s.input.clone(), json!({"source": s.label}));
        return;
    }
    out.count(&format!("wf-oracle:{}", s.label));
    let _ = from_frontend;
    out.add_spec(
        Case {
            input: s.input.clone(),
            coq: format!("show_wf_np {printed}"), // wf_ir && np_extra (operand arity, depth-first numbering)
            imp: "WF".to_string(),
            nontrivial: s.features >= 2,
            key: format!("wf:{}", printed),
        },
        None,
    );
}

fn emit_index_tie(out: &mut Out, label: &str, input: &Value, ir: &IRQuery, nontrivial: bool) -> IxOutcome {
    let o = run_index(ir);
    if !keys_consistent(&ir.root_component) {
        out.count("skipped:inconsistent-keys");
        return o;
    }
    let printed = irprint::query(ir);
    out.count(&format!(
        "index:{}",
        match &o {
            IxOutcome::Ok(_) => "ok".to_string(),
            IxOutcome::Err(n) => format!("err{n}"),
            IxOutcome::Panic => "panic".to_string(),
        }
    ));
    out.add(Case {
        input: json!({"source": label, "ir": input}),
        coq: format!("show_index {printed}"),
        imp: show_ix_outcome(&o),
        nontrivial,
        key: format!("ix:{}", printed),
    });
    o
}

fn ir_json(q: &IRQuery) -> Value {
    serde_json::to_value(q).unwrap_or(Value::Null)
}

// ------------------------------------------------------------------ corpus

#[derive(Deserialize)]
struct TestIRQuery {
    schema_name: String,
    ir_query: IRQuery,
    #[serde(default)]
    #[allow(dead_code)]
    arguments: BTreeMap<String, FieldValue>,
}
type TestIRQueryResult = Result<TestIRQuery, serde::de::IgnoredAny>;

#[derive(Deserialize)]
struct TestGraphQLQuery {
    schema_name: String,
    query: String,
    #[serde(default)]
    #[allow(dead_code)]
    arguments: BTreeMap<String, FieldValue>,
}

fn corpus_sources(out: &mut Out) -> Vec<Src> {
    let mut srcs = vec![];
    let mut schemas: BTreeMap<String, Option<Schema>> = BTreeMap::new();
    for dir in ["valid_queries", "execution_errors"] {
        let d = Path::new(TEST_DATA).join("tests").join(dir);
        let mut files: Vec<PathBuf> = match std::fs::read_dir(&d) {
            Ok(rd) => rd.filter_map(|e| e.ok().map(|e| e.path())).collect(),
            Err(_) => vec![],
        };
        files.sort();
        for p in files {
            let name = p.file_name().unwrap().to_string_lossy().to_string();
            if let Some(stem) = name.strip_suffix(".ir.ron") {
                let text = std::fs::read_to_string(&p).unwrap_or_default();
                let snap = match ron::from_str::<TestIRQueryResult>(&text) {
                    Ok(Ok(t)) => t,
                    Ok(Err(_)) => {
                        out.count("corpus:snapshot-is-err");
                        continue;
                    }
                    Err(_) => {
                        out.count("corpus:snapshot-unreadable");
                        continue;
                    }
                };
                out.count("corpus:snapshots");
                // the same query compiled by the real frontend now
                let gq = std::fs::read_to_string(d.join(format!("{stem}.graphql.ron")))
                    .ok()
                    .and_then(|t| ron::from_str::<TestGraphQLQuery>(&t).ok());
                let mut same = false;
                if let Some(gq) = gq {
                    let schema = schemas.entry(gq.schema_name.clone()).or_insert_with(|| {
                        std::fs::read_to_string(Path::new(TEST_DATA).join("schemas").join(format!("{}.graphql", gq.schema_name)))
                            .ok()
                            .and_then(|t| catch_unwind(AssertUnwindSafe(|| Schema::parse(t).ok())).ok().flatten())
                    });
                    if let Some(schema) = schema {
                        match catch_unwind(AssertUnwindSafe(|| parse_to_ir(schema, &gq.query))) {
                            Ok(Ok(ir)) => {
                                out.count("corpus:recompiled");
                                same = ir == snap.ir_query;
                                if !same {
                                    out.count("corpus:recompiled-differs-from-snapshot");
                                    srcs.push(Src {
                                        label: "corpus-recompiled".into(),
                                        input: json!({"file": format!("{dir}/{stem}.graphql.ron"), "schema": gq.schema_name, "query": gq.query}),
                                        features: count_features(&ir.root_component),
                                        ir,
                                    });
                                }
                            }
                            _ => out.count("corpus:recompile-failed"),
                        }
                    }
                }
                if same {
                    out.count("corpus:recompiled-equals-snapshot");
                }
                srcs.push(Src {
                    label: "corpus-snapshot".into(),
                    input: json!({"file": format!("{dir}/{name}"), "schema": snap.schema_name, "recompiled_equal": same}),
                    features: count_features(&snap.ir_query.root_component),
                    ir: snap.ir_query,
                });
            }
        }
    }
    srcs
}

// ------------------------------------------------------------------ c11

/// Probe for the class on which indexing itself panics (Type::new_list_type): a 30-level list
/// property output inside one @fold.  Recorded in `extra`, not a C11 failure (the frontend does not
/// return: property C10's territory); the Coq side proves the class exact (C11_indexing_panics_*).
fn deep_list_probe(out: &mut Out) {
    let deep = format!("{}Int{}", "[".repeat(30), "]".repeat(30));
    let text = format!(
        "schema {{ query: RootSchemaQuery }}\n\
         directive @filter(op: String!, value: [String!]) repeatable on FIELD | INLINE_FRAGMENT\n\
         directive @tag(name: String) on FIELD\n\
         directive @output(name: String) on FIELD\n\
         directive @optional on FIELD\n\
         directive @recurse(depth: Int!) on FIELD\n\
         directive @fold on FIELD\n\
         directive @transform(op: String!) on FIELD\n\
         type RootSchemaQuery {{ R: [R!]! }}\n\
         type R {{ deep: {deep}  e: [R!] }}\n"
    );
    let schema = match catch_unwind(AssertUnwindSafe(|| Schema::parse(text))) {
        Ok(Ok(s)) => s,
        _ => {
            out.extra.insert("deep_list_probe".into(), json!("schema refused"));
            return;
        }
    };
    let plain = catch_unwind(AssertUnwindSafe(|| parse(&schema, "{ R { deep @output } }").map(|_| ())));
    let folded = catch_unwind(AssertUnwindSafe(|| parse(&schema, "{ R { e @fold { deep @output } } }").map(|_| ())));
    let folded_ir = catch_unwind(AssertUnwindSafe(|| parse_to_ir(&schema, "{ R { e @fold { deep @output } } }")));
    let show = |r: &std::thread::Result<Result<(), trustfall_core::frontend::error::FrontendError>>| match r {
        Ok(Ok(())) => "accepted".to_string(),
        Ok(Err(e)) => format!("refused: {e:?}").chars().take(120).collect(),
        Err(_) => "PANIC".to_string(),
    };
    out.extra.insert(
        "deep_list_probe".into(),
        json!({
            "schema": "type R { deep: [x30 Int x30]  e: [R!] }",
            "{ R { deep @output } }": show(&plain),
            "{ R { e @fold { deep @output } } }": show(&folded),
        }),
    );
    // the IR itself (parse_to_ir stops before indexing) is well-formed; indexing it panics: tie it
    if let Ok(Ok(ir)) = folded_ir {
        let input = json!({"schema": "R.deep: 30-level list of Int", "query": "{ R { e @fold { deep @output } } }"});
        emit_wf(out, &Src { label: "deep-list-probe".into(), input: input.clone(), features: 2, ir: ir.clone() }, true);
        emit_index_tie(out, "deep-list-probe", &input, &ir, true);
    }
}

fn c11(seed: u64, n: usize, out: &mut Out, oracle_only: bool) {
    let mut rng = Rng::new(seed);
    let schema = world::schema();
    let mut stats = GenStats { generated: 0, frontend_rejected: 0, frontend_panicked: 0, reject_kinds: Default::default() };
    let mut srcs = corpus_sources(out);
    for _ in 0..n {
        let c = gen_case(&mut rng, &schema, &mut stats, 3);
        for f in &c.features {
            out.count(&format!("feat:{f}"));
        }
        srcs.push(Src {
            label: "generated".into(),
            input: json!({"query": c.query_text}),
            features: count_features(&c.indexed.ir_query.root_component),
            ir: c.indexed.ir_query.clone(),
        });
        // direct: what `parse` returned is what indexing the IR again returns
        match run_index(&c.indexed.ir_query) {
            IxOutcome::Ok(ix) if ix == *c.indexed => {}
            o => out.oracle_fail(
                "IndexedQuery::try_from(ir_query) differs from the IndexedQuery returned by parse",
                json!({"query": c.query_text}),
                json!({"again": show_ix_outcome(&o)}),
            ),
        }
    }
    // queries with ill-scoped tags that a correct frontend REFUSES (tag used before its definition, count
    // tag used by the fold's own parent vertex or by an earlier sibling, tag defined inside a fold used
    // outside it, unknown tag): if one is ever accepted, its IR goes through the wf oracle below
    let ill_scoped: Vec<String> = {
        let mut v = vec![];
        for root in ["Thing", "Item", "Box"] {
            for e in ["link", "next", "parent"] {
                for op in ["<", ">=", "="] {
                    v.push(format!("query {{ {root} {{ id @filter(op: \"{op}\", value: [\"%c\"]) @output {e} @fold @transform(op: \"count\") @tag(name: \"c\") }} }}"));
                    v.push(format!("query {{ {root} {{ id @output next {{ id @filter(op: \"{op}\", value: [\"%c\"]) @output(name: \"n\") }} {e} @fold @transform(op: \"count\") @tag(name: \"c\") }} }}"));
                    v.push(format!("query {{ {root} {{ id @filter(op: \"{op}\", value: [\"%t\"]) @output {e} {{ id @tag(name: \"t\") @output(name: \"n\") }} }} }}"));
                    v.push(format!("query {{ {root} {{ id @output {e} @fold {{ id @tag(name: \"t\") @output(name: \"n\") }} next {{ id @filter(op: \"{op}\", value: [\"%t\"]) @output(name: \"m\") }} }} }}"));
                    v.push(format!("query {{ {root} {{ id @output {e} @fold {{ id @filter(op: \"{op}\", value: [\"%c\"]) @output(name: \"n\") }} link @fold @transform(op: \"count\") @tag(name: \"c\") @output(name: \"k\") }} }}"));
                }
            }
        }
        v
    };
    for text in &ill_scoped {
        match std::panic::catch_unwind(std::panic::AssertUnwindSafe(|| trustfall_core::frontend::parse(&schema, text))) {
            Ok(Ok(ix)) => {
                out.count("ill-scoped-tag:ACCEPTED");
                srcs.push(Src { label: "ill-scoped-accepted".into(), input: json!({"query": text}), features: 3, ir: ix.ir_query.clone() });
            }
            Ok(Err(_)) => out.count("ill-scoped-tag:refused"),
            Err(_) => out.count("ill-scoped-tag:frontend-panicked"),
        }
    }
    out.count_n("gen:attempts", stats.generated);
    out.count_n("gen:frontend-rejected", stats.frontend_rejected);
    out.count_n("gen:frontend-panicked", stats.frontend_panicked);
    if !oracle_only {
        deep_list_probe(out);
    }
    for s in &srcs {
        emit_wf(out, s, true);
        // the frontend's IR must index (direct, independent of the model)
        match run_index(&s.ir) {
            IxOutcome::Ok(_) => {}
            o => out.oracle_fail("a frontend-produced IR does not index", s.input.clone(), json!({"outcome": show_ix_outcome(&o), "source": s.label})),
        }
        if oracle_only {
            continue;
        }
        let irj = if s.label == "generated" { s.input.clone() } else { json!({"src": s.input}) };
        emit_index_tie(out, &s.label, &irj, &s.ir, s.features >= 2);
        // mutants
        let k = if s.label == "generated" { 1 } else { 6 };
        for _ in 0..k {
            let mut q = s.ir.clone();
            let mut labels = vec![];
            let rounds = 1 + rng.below(2);
            for _ in 0..rounds {
                for _attempt in 0..5 {
                    if let Some(l) = mutate(&mut rng, &mut q) {
                        labels.push(l);
                        break;
                    }
                }
            }
            if labels.is_empty() || q == s.ir {
                out.count("mutant:none");
                continue;
            }
            for l in &labels {
                out.count(&format!("mutation:{l}"));
            }
            let input = json!({"base": irj, "mutations": labels, "mutant_ir": ir_json(&q)});
            emit_index_tie(out, "mutant", &input, &q, true);
        }
    }
}

// ------------------------------------------------------------------ c13

/// vertices of the component reached through at least one @optional edge (path from the root)
fn under_optional(c: &IRQueryComponent) -> BTreeSet<Vid> {
    let mut parent: BTreeMap<Vid, (Vid, bool)> = BTreeMap::new();
    for e in c.edges.values() {
        parent.insert(e.to_vid, (e.from_vid, e.optional));
    }
    let mut res = BTreeSet::new();
    for v in c.vertices.keys() {
        let mut cur = *v;
        let mut steps = 0;
        while let Some((p, opt)) = parent.get(&cur) {
            if *opt {
                res.insert(*v);
                break;
            }
            cur = *p;
            steps += 1;
            if steps > 10_000 {
                break;
            }
        }
    }
    res
}

fn wrap(mut t: Type, levels: &[bool]) -> Type {
    for b in levels.iter().rev() {
        t = Type::new_list_type(t, *b);
    }
    t
}

/// first-principles declared types: name -> (type, vid)
fn expected_outputs(c: &IRQueryComponent, levels: &mut Vec<bool>, acc: &mut BTreeMap<String, (Type, u64)>) {
    let opt = under_optional(c);
    for (name, cf) in &c.outputs {
        let base = if opt.contains(&cf.vertex_id) { cf.field_type.with_nullability(true) } else { cf.field_type.clone() };
        acc.insert(name.to_string(), (wrap(base, levels), vn(cf.vertex_id)));
    }
    for f in c.folds.values() {
        let from_opt = opt.contains(&f.from_vid);
        for name in f.fold_specific_outputs.keys() {
            let base = Type::new_named_type("Int", from_opt);
            acc.insert(name.to_string(), (wrap(base, levels), vn(f.to_vid)));
        }
        levels.push(from_opt);
        expected_outputs(&f.component, levels, acc);
        levels.pop();
    }
}

fn c13(seed: u64, n: usize, out: &mut Out, oracle_only: bool) {
    let mut rng = Rng::new(seed);
    let schema = world::schema();
    let mut stats = GenStats { generated: 0, frontend_rejected: 0, frontend_panicked: 0, reject_kinds: Default::default() };
    let mut rows_total = 0u64;
    let mut values_total = 0u64;
    // next to the generated worlds: nested folds whose only outputs are counts, folds below @optional edges and
    // below other folds that are empty for some rows (the defaults that compute_fold fills in), outputs several
    // edges below an @optional
    let nested_family = (n / 6).max(40);
    for i in 0..(n + nested_family) {
        let c = if i < n {
            gen_case(&mut rng, &schema, &mut stats, 0)
        } else {
            let mut r2 = rng.fork();
            let root = *r2.pick(&["Thing", "Item", "Box", "Gadget"]);
            let e1 = *r2.pick(&["next(lo: 8)", "next(hi: 2)", "link", "parent", "next"]);
            let e2 = *r2.pick(&["next", "link", "parent"]);
            let e3 = *r2.pick(&["link", "next(hi: 3)", "parent"]);
            let text = match r2.range(0, 5) {
                0 => format!("query {{ {root} {{ id @output(name: \"r\") {e1} @fold {{ {e2} @fold @transform(op: \"count\") @output(name: \"c\") }} }} }}"),
                1 => format!("query {{ {root} {{ id @output(name: \"r\") {e1} @fold {{ {e2} @fold {{ {e3} @fold @transform(op: \"count\") @output(name: \"c\") }} }} }} }}"),
                2 => format!("query {{ {root} {{ id @output(name: \"r\") {e1} @optional {{ {e2} @fold @transform(op: \"count\") @output(name: \"c\") {{ {e3} @fold @transform(op: \"count\") @output(name: \"d\") }} }} }} }}"),
                3 => format!("query {{ {root} {{ id @output(name: \"r\") {e1} @optional {{ {e2} {{ {e3} {{ name @output(name: \"deep\") link @fold @transform(op: \"count\") @output(name: \"c\") }} }} }} }} }}"),
                4 => format!("query {{ {root} {{ {e1} @optional {{ {e2} @fold @transform(op: \"count\") @output(name: \"c\") {{ id @output(name: \"ids\") }} }} }} }}"),
                _ => format!("query {{ {root} {{ id @output(name: \"r\") {e1} @fold @transform(op: \"count\") @output(name: \"c0\") {{ {e2} @optional {{ {e3} @fold @transform(op: \"count\") @output(name: \"c\") }} }} }} }}"),
            };
            let indexed = match trustfall_core::frontend::parse(&schema, &text) {
                Ok(ix) => ix,
                Err(e) => {
                    out.oracle_fail("nested-fold template was rejected by the frontend", json!({"query": text}), json!({"error": format!("{e:?}")}));
                    continue;
                }
            };
            out.count("family:nested-fold-defaults");
            engine::EngineCase {
                dataset: world::gen_dataset(&mut r2, 9),
                query_text: text,
                indexed,
                args: std::sync::Arc::new(Default::default()),
                features: Default::default(),
                var_hints: Default::default(),
            }
        };
        let input = case_input_json(&c);
        for f in &c.features {
            out.count(&format!("feat:{f}"));
        }
        let declared = &c.indexed.outputs;
        // declared types vs first principles
        let mut exp = BTreeMap::new();
        let exp_ok = catch_unwind(AssertUnwindSafe(|| {
            let mut e = BTreeMap::new();
            expected_outputs(&c.indexed.ir_query.root_component, &mut vec![], &mut e);
            e
        }));
        if let Ok(e) = exp_ok {
            exp = e;
        }
        let got: BTreeMap<String, (Type, u64)> =
            declared.iter().map(|(k, o)| (k.to_string(), (o.value_type.clone(), vn(o.vid)))).collect();
        if exp != got {
            out.oracle_fail(
                "declared output types differ from the first-principles derivation",
                input.clone(),
                json!({"declared": got.iter().map(|(k, (t, v))| format!("{k}:{t}@{v}")).collect::<Vec<_>>(),
                       "expected": exp.iter().map(|(k, (t, v))| format!("{k}:{t}@{v}")).collect::<Vec<_>>()}),
            );
        }
        for o in declared.values() {
            let t = &o.value_type;
            out.count(if t.is_list() { "declared:list" } else if t.nullable() { "declared:nullable-scalar" } else { "declared:non-null-scalar" });
        }
        // rows
        let o = run_impl(&c);
        let mut nontrivial = false;
        match &o {
            Outcome::Rows(rows) => {
                out.count(if rows.is_empty() { "outcome:no-rows" } else { "outcome:rows" });
                nontrivial = !rows.is_empty() && declared.len() >= 1;
                let keys: Vec<&Arc<str>> = declared.keys().collect();
                for row in rows {
                    rows_total += 1;
                    let rk: Vec<&Arc<str>> = row.keys().collect();
                    if rk != keys {
                        out.oracle_fail(
                            "a row's key set differs from the declared outputs",
                            input.clone(),
                            json!({"row_keys": rk.iter().map(|k| k.to_string()).collect::<Vec<_>>(),
                                   "declared": keys.iter().map(|k| k.to_string()).collect::<Vec<_>>()}),
                        );
                        break;
                    }
                    let mut bad = None;
                    for (k, v) in row {
                        values_total += 1;
                        let t = &declared[k].value_type;
                        let ok = catch_unwind(AssertUnwindSafe(|| t.is_valid_value(v))).unwrap_or(false);
                        if !ok {
                            bad = Some((k.to_string(), t.to_string(), show_fv(v)));
                            break;
                        }
                        match v {
                            FieldValue::Null => out.count("value:null"),
                            FieldValue::List(_) => out.count("value:list"),
                            _ => out.count("value:scalar"),
                        }
                    }
                    if let Some((k, t, v)) = bad {
                        out.oracle_fail(
                            "a row value is not valid for the declared output type",
                            input.clone(),
                            json!({"output": k, "declared_type": t, "value": v}),
                        );
                        break;
                    }
                }
            }
            Outcome::ArgError(_) => out.count("outcome:arg-error"),
            Outcome::Panic(m) => {
                // executing panicked: C09's business (known classes there); nothing to check here
                out.count("outcome:panic");
                let _ = m;
            }
        }
        if !oracle_only {
            let printed = irprint::query(&c.indexed.ir_query);
            out.add(Case {
                input,
                coq: format!("show_outputs_of {printed}"),
                imp: show_outputs(&c.indexed),
                nontrivial,
                key: format!("{i}:{}", c.query_text),
            });
        }
    }
    out.count_n("gen:attempts", stats.generated);
    out.count_n("gen:frontend-rejected", stats.frontend_rejected);
    out.count_n("rows:total", rows_total);
    out.count_n("values:total", values_total);
}

fn main() {
    let argv: Vec<String> = std::env::args().collect();
    if argv.len() < 2 {
        eprintln!("usage: tfh_c11 <c11|c13> [--seed S] [--n N] [--out DIR] [--oracle-only]");
        std::process::exit(2);
    }
    let args = parse_args(&argv[2..]);
    std::panic::set_hook(Box::new(|_| {}));
    let oracle_only = args.rest.iter().any(|x| x == "--oracle-only");
    match argv[1].as_str() {
        "c11" => {
            let mut o = Out::new(&args.out, IMPORTS, 250);
            c11(args.seed, args.n, &mut o, oracle_only);
            o.finish();
        }
        "c13" => {
            let mut o = Out::new(&args.out, IMPORTS, 100);
            c13(args.seed, args.n, &mut o, oracle_only);
            o.finish();
        }
        other => {
            eprintln!("unknown subcommand {other}");
            std::process::exit(2);
        }
    }
}
