//! tfh_c12 — C12: argument validation accepts exactly the well-typed, complete argument maps.
//!
//! Tie: `InterpretedQuery::from_query_and_arguments` of the current /repo build vs `Args.v::validate`
//! on (compiled query, argument map) pairs; `IRQuery.variables` (the frontend's
//! `fill_in_query_variables`) vs `Args.v::variables_of_uses` on the variable use sites of the IR.
//!
//! Query sources
//!  * the engine generator (`engine::gen_case`, world schema): accepted query + a VALID argument map;
//!  * a "multi-use" family over a small schema with nested-list properties, where the same variable
//!    is used by several filters (vertex filters, fold-count post-filters, filters inside folds), so
//!    recorded types are genuine meets — or the frontend refuses (IncompatibleVariableTypeRequirements).
//! From every valid map a malformed stream is derived with the seeded PRNG: dropped arguments,
//! extra arguments, values of another type / nesting, Null for non-null types, FieldValue::Enum (F6),
//! arbitrary values, and combinations.
//!
//! Direct oracles (implementation only, independent of the Coq model):
//!  1. the verdict and the exact error contents are recomputed from `ir_query.variables`, the real
//!     `Type::is_valid_value` and a first-principles validity function;
//!  2. `ir_query.variables[x]` = `Type::intersect` of all use-site types of x found by walking the IR
//!     (all components, folds, post-filters); rejection iff some variable's use-site types have no meet.
#[path = "../coq.rs"]
mod coq;
#[path = "../engine.rs"]
mod engine;
#[path = "../irprint.rs"]
mod irprint;
#[path = "../out.rs"]
mod out;
#[path = "../qgen.rs"]
mod qgen;
#[path = "../rng.rs"]
mod rng;
#[path = "../show.rs"]
mod show;
#[path = "../world.rs"]
mod world;

use coq::{cfv, clist, cstr};
use out::{Case, Out};
use rng::Rng;
use serde_json::{json, Value};
use show::{hex, show_fv};
use std::collections::BTreeMap;
use std::panic::{catch_unwind, AssertUnwindSafe};
use std::path::PathBuf;
use std::sync::Arc;
use trustfall_core::frontend::parse;
use trustfall_core::interpreter::error::QueryArgumentsError;
use trustfall_core::interpreter::InterpretedQuery;
use trustfall_core::ir::{Argument, FieldValue, IRQueryComponent, IndexedQuery, Operation, Type};
use trustfall_core::schema::Schema;

type ArgMap = BTreeMap<Arc<str>, FieldValue>;
type VarMap = BTreeMap<Arc<str>, Type>;

pub struct Args {
    pub seed: u64,
    pub n: usize,
    pub out: PathBuf,
    pub rest: Vec<String>,
}

fn parse_args(v: &[String]) -> Args {
    let mut a = Args { seed: 0, n: 100, out: PathBuf::from("."), rest: vec![] };
    let mut i = 0;
    while i < v.len() {
        match v[i].as_str() {
            "--seed" => {
                a.seed = v[i + 1].parse().unwrap();
                i += 2;
            }
            "--n" => {
                a.n = v[i + 1].parse().unwrap();
                i += 2;
            }
            "--out" => {
                a.out = PathBuf::from(&v[i + 1]);
                i += 2;
            }
            _ => {
                a.rest.push(v[i].clone());
                i += 1;
            }
        }
    }
    a
}

// ------------------------------------------------------------------ renderers (mirror Args.v)

fn show_names(ns: &[String]) -> String {
    ns.iter().map(|n| hex(n)).collect::<Vec<_>>().join(",")
}

fn show_err(e: &QueryArgumentsError) -> String {
    match e {
        QueryArgumentsError::MissingArguments(ns) => format!("Missing({})", show_names(ns)),
        QueryArgumentsError::UnusedArguments(ns) => format!("Unused({})", show_names(ns)),
        QueryArgumentsError::ArgumentTypeError(n, t, v) => format!("TypeErr({},{},{})", hex(n), hex(t), show_fv(v)),
        QueryArgumentsError::MultipleErrors(dv) => {
            format!("Multiple[{}]", dv.0.iter().map(show_err).collect::<Vec<_>>().join("|"))
        }
    }
}

fn show_ty_hex(t: &Type) -> String {
    format!("{}#{}", hex(&t.to_string()), t.__verif_mask())
}

fn show_vars(vars: &VarMap) -> String {
    vars.iter().map(|(k, t)| format!("{}:{}", hex(k), show_ty_hex(t))).collect::<Vec<_>>().join(";")
}

fn cvars(vars: &VarMap) -> String {
    clist(&vars.iter().map(|(k, t)| format!("({}, {})", cstr(k), irprint::cty(t))).collect::<Vec<_>>())
}

fn cargs(args: &ArgMap) -> String {
    clist(&args.iter().map(|(k, v)| format!("({}, {})", cstr(k), cfv(v))).collect::<Vec<_>>())
}

enum Verdict {
    Ok,
    Err(QueryArgumentsError),
    Panic,
}

fn run_validate(indexed: &Arc<IndexedQuery>, args: &ArgMap) -> Verdict {
    let q = indexed.clone();
    let a = Arc::new(args.clone());
    match catch_unwind(AssertUnwindSafe(|| InterpretedQuery::from_query_and_arguments(q, a))) {
        Ok(Ok(_)) => Verdict::Ok,
        Ok(Err(e)) => Verdict::Err(e),
        Err(_) => Verdict::Panic,
    }
}

fn show_verdict(v: &Verdict) -> String {
    match v {
        Verdict::Ok => "OK".to_string(),
        Verdict::Err(e) => format!("ERR:{}", show_err(e)),
        Verdict::Panic => "PANIC".to_string(),
    }
}

// ------------------------------------------------------------------ first-principles validity

fn contains_enum(v: &FieldValue) -> bool {
    match v {
        FieldValue::Enum(_) => true,
        FieldValue::List(l) => l.iter().any(contains_enum),
        _ => false,
    }
}

/// does `v` fit `t`?  Written from the documentation of the type system, not from is_valid_value:
/// null fits nullable types; a scalar fits the non-list type of its kind; a list fits a list type
/// when every element fits the element type.  An Enum value fits nothing (no schema type here is
/// an enum), which is what the property expects the validation to report.
fn fits(t: &Type, v: &FieldValue) -> bool {
    match v {
        FieldValue::Null => t.nullable(),
        FieldValue::List(l) => match t.as_list() {
            Some(inner) => l.iter().all(|x| fits(&inner, x)),
            None => false,
        },
        FieldValue::Enum(_) => false,
        scalar => {
            let want = match scalar {
                FieldValue::Int64(_) | FieldValue::Uint64(_) => "Int",
                FieldValue::Float64(_) => "Float",
                FieldValue::String(_) => "String",
                FieldValue::Boolean(_) => "Boolean",
                _ => return false,
            };
            !t.is_list() && t.base_type() == want
        }
    }
}

// ------------------------------------------------------------------ value generators

fn gen_scalar(rng: &mut Rng, base: &str) -> FieldValue {
    match base {
        "Int" => match rng.below(8) {
            0 => FieldValue::Int64(i64::MIN),
            1 => FieldValue::Uint64(u64::MAX),
            2 => FieldValue::Uint64(rng.below(5) as u64),
            _ => FieldValue::Int64(rng.range(-3, 9)),
        },
        "String" => FieldValue::String(Arc::from(*rng.pick(&["", "a", "ab", "x y", "\u{e9}", "Int", "null"]))),
        "Float" => FieldValue::Float64(*rng.pick(&[0.0, -0.0, 1.5, -2.25, 1e300, 5e-324])),
        "Boolean" => FieldValue::Boolean(rng.chance(1, 2)),
        _ => FieldValue::Null,
    }
}

fn gen_valid(rng: &mut Rng, t: &Type) -> FieldValue {
    if t.nullable() && rng.chance(1, 6) {
        return FieldValue::Null;
    }
    if let Some(inner) = t.as_list() {
        let n = *rng.pick(&[0usize, 1, 2, 3]);
        let items: Vec<FieldValue> = (0..n).map(|_| gen_valid(rng, &inner)).collect();
        return FieldValue::List(Arc::from(items));
    }
    gen_scalar(rng, t.base_type())
}

fn other_base(rng: &mut Rng, base: &str) -> &'static str {
    let all = ["Int", "String", "Float", "Boolean"];
    loop {
        let b = *rng.pick(&all);
        if b != base {
            return b;
        }
    }
}

fn gen_other_scalar(rng: &mut Rng, base: &str) -> FieldValue {
    let b = other_base(rng, base);
    gen_scalar(rng, b)
}

fn list_of(items: Vec<FieldValue>) -> FieldValue {
    FieldValue::List(Arc::from(items))
}

/// a value that (usually) does NOT fit `t`; the oracle decides, so "usually" is fine
fn gen_wrong(rng: &mut Rng, t: &Type) -> FieldValue {
    let base = t.base_type().to_string();
    match t.as_list() {
        None => match rng.below(6) {
            0 => gen_other_scalar(rng, &base),
            1 => list_of(vec![gen_valid(rng, t)]), // a list for a scalar
            2 => list_of(vec![]),
            3 => FieldValue::Null, // wrong iff non-null
            4 => list_of(vec![list_of(vec![gen_valid(rng, t)])]),
            _ => gen_other_scalar(rng, &base),
        },
        Some(inner) => match rng.below(8) {
            0 => gen_scalar(rng, &base),                 // a scalar for a list
            1 => FieldValue::Null,                       // wrong iff non-null
            2 => list_of(vec![gen_valid(rng, t)]),       // one level too deep
            3 => {
                // one element wrong, after some valid ones
                let mut items: Vec<FieldValue> = (0..rng.below(3)).map(|_| gen_valid(rng, &inner)).collect();
                items.push(gen_wrong(rng, &inner));
                if rng.chance(1, 2) {
                    items.push(gen_valid(rng, &inner));
                }
                list_of(items)
            }
            4 => list_of(vec![FieldValue::Null]), // wrong iff elements are non-null
            5 => {
                // too shallow: the elements of the innermost level where lists are expected
                let mut cur = inner.clone();
                while let Some(i2) = cur.as_list() {
                    cur = i2;
                }
                list_of(vec![gen_scalar(rng, cur.base_type())])
            }
            6 => list_of(vec![gen_other_scalar(rng, &base)]),
            _ => gen_other_scalar(rng, &base),
        },
    }
}

/// a value containing a FieldValue::Enum (F6): bare, behind valid elements (reached), or behind an
/// invalid element (not reached by the short-circuiting scan)
fn gen_enum(rng: &mut Rng, t: &Type) -> FieldValue {
    let e = FieldValue::Enum(Arc::from(*rng.pick(&["a", "RED", ""])));
    match t.as_list() {
        None => e,
        Some(inner) => match rng.below(4) {
            0 => e,
            1 => {
                let mut items: Vec<FieldValue> = (0..rng.below(3)).map(|_| gen_valid(rng, &inner)).collect();
                items.push(e);
                list_of(items)
            }
            2 => list_of(vec![gen_wrong(rng, &inner), e]),
            _ => list_of(vec![gen_enum(rng, &inner)]),
        },
    }
}

fn gen_any(rng: &mut Rng, depth: usize) -> FieldValue {
    match rng.below(if depth == 0 { 6 } else { 9 }) {
        0 => FieldValue::Null,
        1 => gen_scalar(rng, "Int"),
        2 => gen_scalar(rng, "String"),
        3 => gen_scalar(rng, "Float"),
        4 => gen_scalar(rng, "Boolean"),
        5 => {
            if rng.chance(1, 4) {
                FieldValue::Enum(Arc::from("e"))
            } else {
                FieldValue::Int64(7)
            }
        }
        _ => {
            let n = rng.below(4);
            list_of((0..n).map(|_| gen_any(rng, depth - 1)).collect())
        }
    }
}

const EXTRA_NAMES: [&str; 12] = ["", "A", "zz", "v", "v0", "x", "xx", "y ", "\u{e9}", "v1x", "_", "~"];

fn fresh_name(rng: &mut Rng, vars: &VarMap, args: &ArgMap) -> Option<Arc<str>> {
    for _ in 0..20 {
        let cand: String = if rng.chance(1, 3) && !vars.is_empty() {
            // a neighbour of a real variable name: a prefix or an extension of it
            let k = vars.keys().nth(rng.below(vars.len())).unwrap();
            if rng.chance(1, 2) && k.len() > 1 { k[..k.len() - 1].to_string() } else { format!("{k}{}", rng.below(3)) }
        } else {
            rng.pick(&EXTRA_NAMES).to_string()
        };
        if !vars.contains_key(cand.as_str()) && !args.contains_key(cand.as_str()) {
            return Some(Arc::from(cand));
        }
    }
    None
}

/// one fault applied in place; returns its label
fn apply_fault(rng: &mut Rng, vars: &VarMap, args: &mut ArgMap, kind: usize) -> &'static str {
    let pick_var = |rng: &mut Rng| -> Option<(Arc<str>, Type)> {
        if vars.is_empty() {
            None
        } else {
            vars.iter().nth(rng.below(vars.len())).map(|(k, t)| (k.clone(), t.clone()))
        }
    };
    match kind {
        0 => {
            if args.is_empty() {
                return "noop";
            }
            let k = args.keys().nth(rng.below(args.len())).unwrap().clone();
            args.remove(&k);
            "drop"
        }
        1 => match fresh_name(rng, vars, args) {
            Some(k) => {
                let v = gen_any(rng, 2);
                args.insert(k, v);
                "extra"
            }
            None => "noop",
        },
        2 => match pick_var(rng) {
            Some((k, t)) => {
                let v = gen_wrong(rng, &t);
                args.insert(k, v);
                "wrong-type"
            }
            None => "noop",
        },
        3 => match pick_var(rng) {
            Some((k, t)) => {
                let v = gen_enum(rng, &t);
                args.insert(k, v);
                "enum"
            }
            None => "noop",
        },
        4 => match pick_var(rng) {
            Some((k, _)) => {
                let v = gen_any(rng, 3);
                args.insert(k, v);
                "any-value"
            }
            None => "noop",
        },
        5 => match pick_var(rng) {
            Some((k, _)) => {
                args.insert(k, FieldValue::Null);
                "null"
            }
            None => "noop",
        },
        _ => match pick_var(rng) {
            // another valid value (stays valid)
            Some((k, t)) => {
                let v = gen_valid(rng, &t);
                args.insert(k, v);
                "revalid"
            }
            None => "noop",
        },
    }
}

/// the malformed stream derived from one valid map: (label, map)
fn malformed_stream(rng: &mut Rng, vars: &VarMap, valid: &ArgMap, count: usize) -> Vec<(String, ArgMap)> {
    let mut res = vec![];
    for i in 0..count {
        let mut a = valid.clone();
        let label = match i % 9 {
            0 => apply_fault(rng, vars, &mut a, 0).to_string(),
            1 => apply_fault(rng, vars, &mut a, 1).to_string(),
            2 | 3 => apply_fault(rng, vars, &mut a, 2).to_string(),
            4 => apply_fault(rng, vars, &mut a, 3).to_string(),
            5 => apply_fault(rng, vars, &mut a, 4).to_string(),
            6 => {
                // everything dropped, then possibly only extras
                a.clear();
                if rng.chance(1, 2) {
                    apply_fault(rng, vars, &mut a, 1);
                    "only-extra".to_string()
                } else {
                    "empty".to_string()
                }
            }
            _ => {
                // combination of several faults
                let k = 2 + rng.below(3);
                let mut parts = vec![];
                for _ in 0..k {
                    let kind = *rng.pick(&[0usize, 1, 1, 2, 2, 2, 3, 4, 5, 6]);
                    parts.push(apply_fault(rng, vars, &mut a, kind));
                }
                format!("combo:{}", parts.join("+"))
            }
        };
        res.push((label, a));
    }
    res
}

// ------------------------------------------------------------------ oracle 1: verdict and error contents

fn flatten(e: &QueryArgumentsError) -> Vec<&QueryArgumentsError> {
    match e {
        QueryArgumentsError::MultipleErrors(dv) => dv.0.iter().collect(),
        other => vec![other],
    }
}

struct Expect {
    ill: Vec<String>,
    missing: Vec<String>,
    unused: Vec<String>,
}

fn expectation(vars: &VarMap, args: &ArgMap) -> Expect {
    let mut ill = vec![];
    let mut missing = vec![];
    for (k, t) in vars {
        match args.get(k) {
            None => missing.push(k.to_string()),
            Some(v) => {
                if !fits(t, v) {
                    ill.push(k.to_string());
                }
            }
        }
    }
    let unused = args.keys().filter(|k| !vars.contains_key(*k)).map(|k| k.to_string()).collect();
    Expect { ill, missing, unused }
}

/// returns a description of the first discrepancy between the implementation's verdict and the
/// first-principles expectation
fn check_verdict(vars: &VarMap, args: &ArgMap, verdict: &Verdict) -> Option<String> {
    let ex = expectation(vars, args);
    let acceptable = ex.ill.is_empty() && ex.missing.is_empty() && ex.unused.is_empty();
    match verdict {
        Verdict::Panic => Some("validation panicked instead of accepting or refusing".to_string()),
        Verdict::Ok => {
            if acceptable {
                None
            } else {
                Some(format!("accepted, but ill-typed={:?} missing={:?} unused={:?}", ex.ill, ex.missing, ex.unused))
            }
        }
        Verdict::Err(e) => {
            if acceptable {
                return Some("refused although every variable has a fitting value and nothing else is supplied".to_string());
            }
            let parts = flatten(e);
            if parts.len() == 1 && matches!(e, QueryArgumentsError::MultipleErrors(_)) {
                return Some("MultipleErrors wrapping a single error".to_string());
            }
            if parts.len() >= 2 && !matches!(e, QueryArgumentsError::MultipleErrors(_)) {
                return Some("several errors not wrapped".to_string());
            }
            // expected sequence
            let mut want: Vec<String> = vec![];
            for x in &ex.ill {
                let t = &vars[x.as_str()];
                want.push(format!("T:{}:{}:{}", x, t, show_fv(&args[x.as_str()])));
            }
            if !ex.missing.is_empty() {
                want.push(format!("M:{:?}", ex.missing));
            }
            if !ex.unused.is_empty() {
                want.push(format!("U:{:?}", ex.unused));
            }
            let got: Vec<String> = parts
                .iter()
                .map(|p| match p {
                    QueryArgumentsError::ArgumentTypeError(n, t, v) => format!("T:{}:{}:{}", n, t, show_fv(v)),
                    QueryArgumentsError::MissingArguments(ns) => format!("M:{:?}", ns),
                    QueryArgumentsError::UnusedArguments(ns) => format!("U:{:?}", ns),
                    QueryArgumentsError::MultipleErrors(_) => "nested-multiple".to_string(),
                })
                .collect();
            if want != got {
                Some(format!("error contents differ: expected {:?}, got {:?}", want, got))
            } else {
                None
            }
        }
    }
}

// ------------------------------------------------------------------ oracle 2: recorded types are meets

fn right_var<L>(op: &Operation<L, Argument>) -> Option<(String, Type)>
where
    L: std::fmt::Debug + Clone + PartialEq + Eq,
{
    let right = match op {
        Operation::IsNull(_) | Operation::IsNotNull(_) => None,
        Operation::Equals(_, r)
        | Operation::NotEquals(_, r)
        | Operation::LessThan(_, r)
        | Operation::LessThanOrEqual(_, r)
        | Operation::GreaterThan(_, r)
        | Operation::GreaterThanOrEqual(_, r)
        | Operation::Contains(_, r)
        | Operation::NotContains(_, r)
        | Operation::OneOf(_, r)
        | Operation::NotOneOf(_, r)
        | Operation::HasPrefix(_, r)
        | Operation::NotHasPrefix(_, r)
        | Operation::HasSuffix(_, r)
        | Operation::NotHasSuffix(_, r)
        | Operation::HasSubstring(_, r)
        | Operation::NotHasSubstring(_, r)
        | Operation::RegexMatches(_, r)
        | Operation::NotRegexMatches(_, r) => Some(r),
        _ => panic!("unknown Operation variant"),
    };
    match right {
        Some(Argument::Variable(v)) => Some((v.variable_name.to_string(), v.variable_type.clone())),
        _ => None,
    }
}

/// every variable use site of the IR, in an order of the harness' own choosing (depth-first)
fn collect_uses(c: &IRQueryComponent, out: &mut Vec<(String, Type)>) {
    for v in c.vertices.values() {
        for f in &v.filters {
            if let Some(u) = right_var(f) {
                out.push(u);
            }
        }
    }
    for fold in c.folds.values() {
        for pf in &fold.post_filters {
            if let Some(u) = right_var(pf) {
                out.push(u);
            }
        }
        collect_uses(&fold.component, out);
    }
}

/// meet of all use-site types per variable; None when some variable has no meet
fn meets_of(uses: &[(String, Type)]) -> Option<BTreeMap<String, Type>> {
    let mut m: BTreeMap<String, Type> = BTreeMap::new();
    for (x, t) in uses {
        match m.get(x) {
            None => {
                m.insert(x.clone(), t.clone());
            }
            Some(e) => match e.intersect(t) {
                Some(i) => {
                    m.insert(x.clone(), i);
                }
                None => return None,
            },
        }
    }
    Some(m)
}

fn check_meets(indexed: &IndexedQuery) -> Option<String> {
    let mut uses = vec![];
    collect_uses(&indexed.ir_query.root_component, &mut uses);
    let fwd = meets_of(&uses);
    uses.reverse();
    let bwd = meets_of(&uses);
    let recorded: BTreeMap<String, Type> = indexed.ir_query.variables.iter().map(|(k, t)| (k.to_string(), t.clone())).collect();
    match (fwd, bwd) {
        (Some(f), Some(b)) => {
            if f != b {
                Some("meet of the use-site types depends on the order".to_string())
            } else if f != recorded {
                Some(format!("recorded variable types {:?} are not the meets of the use-site types {:?}", recorded, f))
            } else {
                // every use site's type must accept whatever the recorded type accepts: recorded <= use
                None
            }
        }
        _ => Some("an accepted query has a variable whose use-site types have no meet".to_string()),
    }
}

// ------------------------------------------------------------------ multi-use family

const MU_PROPS: [(&str, &str); 18] = [
    ("i", "Int"),
    ("i1", "Int!"),
    ("s", "String"),
    ("s1", "String!"),
    ("f", "Float"),
    ("b1", "Boolean!"),
    ("li", "[Int]"),
    ("li1", "[Int!]"),
    ("l1i", "[Int]!"),
    ("l1i1", "[Int!]!"),
    ("lli", "[[Int]]"),
    ("llia", "[[Int!]!]"),
    ("llib", "[[Int]!]!"),
    ("llic", "[[Int!]]!"),
    ("ls", "[String]"),
    ("ls1", "[String!]!"),
    ("lls", "[[String!]]"),
    ("llli", "[[[Int]!]]"),
];

const MU_OPS: [&str; 20] = [
    "=", "!=", "<", "<=", ">", ">=", "contains", "not_contains", "one_of", "not_one_of", "has_prefix", "not_has_prefix",
    "has_suffix", "not_has_suffix", "has_substring", "not_has_substring", "regex", "not_regex", "=", "one_of",
];

fn mu_schema_text() -> String {
    let mut s = String::from("schema {\n  query: RootSchemaQuery\n}\n");
    s.push_str(Schema::ALL_DIRECTIVE_DEFINITIONS);
    s.push_str("\ntype RootSchemaQuery {\n  R: [R!]!\n}\n\ntype R {\n");
    for (n, t) in MU_PROPS {
        s.push_str(&format!("  {n}: {t}\n"));
    }
    s.push_str("  rs: [R!]\n}\n");
    s
}

/// the harness' own reading of the variable-type inference rules (frontend/filters.rs):
/// the type a `$variable` operand must have for `op` applied to a property of type `t`
fn mu_infer(t: &Type, op: &str) -> Option<Type> {
    match op {
        "=" | "!=" => Some(t.clone()),
        "<" | "<=" | ">" | ">=" => {
            if matches!(t.base_type(), "Int" | "Float" | "String") {
                Some(t.with_nullability(false))
            } else {
                None
            }
        }
        "contains" | "not_contains" => t.as_list(),
        "one_of" | "not_one_of" => Some(Type::new_list_type(t.clone(), false)),
        _ => {
            // string operators: only on (non-list) strings
            if !t.is_list() && t.base_type() == "String" { Some(Type::new_named_type("String", false)) } else { None }
        }
    }
}

#[derive(Clone)]
struct MuUse {
    var: String,
    prop: &'static str, // "#count" for a fold-count post-filter
    op: &'static str,
    ty: Type, // expected use-site type
    place: usize, // 0 root vertex, 1 fold-count post-filter, 2 inside the fold, 3 inside the nested fold
}

fn shape_of(t: &Type) -> (String, usize) {
    let mut d = 0;
    let mut cur = t.clone();
    while let Some(i) = cur.as_list() {
        d += 1;
        cur = i;
    }
    (t.base_type().to_string(), d)
}

struct MuCase {
    text: String,
    uses: Vec<MuUse>,
}

fn mu_gen(rng: &mut Rng) -> MuCase {
    // all (prop, op, type) combinations
    let mut combos: Vec<(&'static str, &'static str, Type)> = vec![];
    for (n, tt) in MU_PROPS {
        let t = Type::parse(tt).unwrap();
        for op in MU_OPS {
            if let Some(u) = mu_infer(&t, op) {
                combos.push((n, op, u));
            }
        }
    }
    let count_t = Type::parse("Int!").unwrap();
    let nvars = 1 + rng.below(2);
    let var_names = ["x", "y", "k"];
    // a target shape per variable, so that most cases are compatible
    let targets: Vec<(String, usize)> = (0..nvars).map(|_| shape_of(&combos[rng.below(combos.len())].2)).collect();
    let nuses = 2 + rng.below(4);
    let mut uses: Vec<MuUse> = vec![];
    for _ in 0..nuses {
        let vi = rng.below(nvars);
        let place = *rng.pick(&[0usize, 0, 0, 1, 2, 2, 3]);
        if place == 1 {
            let op = *rng.pick(&["=", "!=", "<", ">=", "one_of", "not_one_of"]);
            let ty = mu_infer(&count_t, op).unwrap();
            uses.push(MuUse { var: var_names[vi].to_string(), prop: "#count", op, ty, place });
            continue;
        }
        let cands: Vec<&(&'static str, &'static str, Type)> = if rng.chance(9, 10) {
            combos.iter().filter(|c| shape_of(&c.2) == targets[vi]).collect()
        } else {
            combos.iter().collect()
        };
        let c = cands[rng.below(cands.len())];
        uses.push(MuUse { var: var_names[vi].to_string(), prop: c.0, op: c.1, ty: c.2.clone(), place });
    }
    // text
    let line = |u: &MuUse, ind: &str| format!("{ind}{} @filter(op: \"{}\", value: [\"${}\"])\n", u.prop, u.op, u.var);
    let mut t = String::from("query {\n  R {\n    i @output(name: \"o0\")\n");
    for u in uses.iter().filter(|u| u.place == 0) {
        t.push_str(&line(u, "    "));
    }
    let need_fold = uses.iter().any(|u| u.place >= 1);
    if need_fold {
        let counts: Vec<&MuUse> = uses.iter().filter(|u| u.place == 1).collect();
        let mut dirs = String::from("@fold");
        if !counts.is_empty() {
            dirs.push_str(" @transform(op: \"count\")");
            for u in &counts {
                dirs.push_str(&format!(" @filter(op: \"{}\", value: [\"${}\"])", u.op, u.var));
            }
        }
        t.push_str(&format!("    rs {dirs} {{\n      i @output(name: \"o1\")\n"));
        for u in uses.iter().filter(|u| u.place == 2) {
            t.push_str(&line(u, "      "));
        }
        if uses.iter().any(|u| u.place == 3) {
            t.push_str("      rs @fold {\n        i @output(name: \"o2\")\n");
            for u in uses.iter().filter(|u| u.place == 3) {
                t.push_str(&line(u, "        "));
            }
            t.push_str("      }\n");
        }
        t.push_str("    }\n");
    }
    t.push_str("  }\n}\n");
    MuCase { text: t, uses }
}

// ------------------------------------------------------------------ driver

struct Ctx<'a> {
    out: &'a mut Out,
    oracle_only: bool,
    class_recorded: usize,
    pairs: u64,
}

fn input_json(query: &str, vars: &VarMap, args: &ArgMap, fault: &str) -> Value {
    json!({
        "query": query,
        "variables": vars.iter().map(|(k, t)| (k.to_string(), t.to_string())).collect::<BTreeMap<_, _>>(),
        "args": args.iter().map(|(k, v)| (k.to_string(), show_fv(v))).collect::<BTreeMap<_, _>>(),
        "fault": fault,
    })
}

fn do_pair(cx: &mut Ctx, query: &str, indexed: &Arc<IndexedQuery>, args: &ArgMap, fault: &str) {
    let vars = &indexed.ir_query.variables;
    let verdict = run_validate(indexed, args);
    let imp = show_verdict(&verdict);
    cx.pairs += 1;
    cx.out.count(&format!("fault:{}", fault.split(':').next().unwrap_or("?")));
    cx.out.count(match &verdict {
        Verdict::Ok => "verdict:accepted",
        Verdict::Panic => "verdict:panic",
        Verdict::Err(QueryArgumentsError::MultipleErrors(_)) => "verdict:refused-multiple",
        Verdict::Err(QueryArgumentsError::ArgumentTypeError(..)) => "verdict:refused-type",
        Verdict::Err(QueryArgumentsError::MissingArguments(_)) => "verdict:refused-missing",
        Verdict::Err(QueryArgumentsError::UnusedArguments(_)) => "verdict:refused-unused",
    });
    let input = input_json(query, vars, args, fault);
    // oracle 1
    let has_enum = args.values().any(contains_enum);
    if let Some(problem) = check_verdict(vars, args, &verdict) {
        if has_enum && matches!(verdict, Verdict::Panic) {
            cx.out.count("oracle:K-enum-arg");
            if cx.class_recorded < 40 {
                cx.class_recorded += 1;
                cx.out.oracle_fail_class("K-enum-arg", "argument-validation", input.clone(), json!({"problem": problem, "impl": imp}));
            }
        } else {
            cx.out.oracle_fail("argument-validation", input.clone(), json!({"problem": problem, "impl": imp}));
        }
    }
    // the real is_valid_value against first principles, on enum-free values
    for (k, t) in vars {
        if let Some(v) = args.get(k) {
            if !contains_enum(v) {
                let real = catch_unwind(AssertUnwindSafe(|| t.is_valid_value(v))).ok();
                if real != Some(fits(t, v)) {
                    cx.out.oracle_fail(
                        "is_valid_value",
                        input.clone(),
                        json!({"variable": k.to_string(), "type": t.to_string(), "value": show_fv(v), "real": format!("{real:?}"), "expected": fits(t, v)}),
                    );
                }
            }
        }
    }
    if !cx.oracle_only {
        let vs = cvars(vars);
        let as_ = cargs(args);
        cx.out.add(Case {
            input,
            coq: format!("show_res show_validation (validate {vs} {as_})"),
            imp,
            nontrivial: !vars.is_empty() || !args.is_empty(),
            key: format!("{}|{}", show_vars(vars), args.iter().map(|(k, v)| format!("{}={}", hex(k), show_fv(v))).collect::<Vec<_>>().join(";")),
        });
    }
}

fn do_query(cx: &mut Ctx, rng: &mut Rng, query: &str, indexed: &Arc<IndexedQuery>, valid: &ArgMap, variants: usize, tie_vars: bool) {
    // oracle 2
    if let Some(problem) = check_meets(indexed) {
        cx.out.oracle_fail("variables-are-meets", json!({"query": query}), json!({"problem": problem}));
    }
    if tie_vars && !cx.oracle_only {
        cx.out.add(Case {
            input: json!({"query": query, "what": "recorded variable types"}),
            coq: format!(
                "show_res (show_opt show_vars) (variables_of_uses (uses_of_comp {}))",
                irprint::component(&indexed.ir_query.root_component)
            ),
            imp: format!("S({})", show_vars(&indexed.ir_query.variables)),
            nontrivial: !indexed.ir_query.variables.is_empty(),
            key: format!("vars:{query}"),
        });
    }
    do_pair(cx, query, indexed, valid, "valid");
    let vars = indexed.ir_query.variables.clone();
    for (label, a) in malformed_stream(rng, &vars, valid, variants) {
        do_pair(cx, query, indexed, &a, &label);
    }
}

fn run(seed: u64, n: usize, oracle_only: bool, out: &mut Out) {
    let mut rng = Rng::new(seed ^ 0xC12);
    let mut cx = Ctx { out, oracle_only, class_recorded: 0, pairs: 0 };

    // ---- fixed witnesses first (F6 and the error shapes), on a hand-written query
    let mu_schema = Schema::parse(mu_schema_text()).expect("multi-use schema must be valid");
    {
        let text = "query {\n  R {\n    i @output\n    s @filter(op: \"=\", value: [\"$x\"])\n    li1 @filter(op: \"=\", value: [\"$y\"])\n  }\n}\n";
        let indexed = parse(&mu_schema, text).expect("witness query must compile");
        let s = |x: &str| FieldValue::String(Arc::from(x));
        let mk = |kv: Vec<(&str, FieldValue)>| -> ArgMap { kv.into_iter().map(|(k, v)| (Arc::from(k), v)).collect() };
        let fixed: Vec<(&str, ArgMap)> = vec![
            ("valid", mk(vec![("x", s("a")), ("y", list_of(vec![FieldValue::Int64(1)]))])),
            ("enum", mk(vec![("x", FieldValue::Enum(Arc::from("a"))), ("y", FieldValue::Null)])),
            ("enum", mk(vec![("x", s("a")), ("y", list_of(vec![FieldValue::Int64(1), FieldValue::Enum(Arc::from("a"))]))])),
            ("enum", mk(vec![("x", s("a")), ("y", list_of(vec![s("q"), FieldValue::Enum(Arc::from("a"))]))])),
            ("enum", mk(vec![("x", s("a")), ("y", FieldValue::Null), ("z", FieldValue::Enum(Arc::from("a")))])),
            ("combo:all", mk(vec![("x", FieldValue::Int64(1)), ("w", FieldValue::Null), ("", FieldValue::Null)])),
            ("empty", mk(vec![])),
            ("null", mk(vec![("x", FieldValue::Null), ("y", list_of(vec![FieldValue::Null]))])),
        ];
        for (label, a) in fixed {
            do_pair(&mut cx, text, &indexed, &a, label);
        }
    }

    // ---- engine-generated queries (world schema)
    let schema = world::schema();
    let mut stats = engine::GenStats { generated: 0, frontend_rejected: 0, frontend_panicked: 0, reject_kinds: Default::default() };
    let mut done = 0usize;
    let mut novar = 0usize;
    let mut attempts = 0usize;
    while done < n && attempts < n * 60 + 100 {
        attempts += 1;
        let c = engine::gen_case(&mut rng, &schema, &mut stats, 0);
        let nv = c.indexed.ir_query.variables.len();
        if nv == 0 {
            // queries without variables: only now and then (extras / empty map only)
            if novar * 10 < done + 1 {
                novar += 1;
                cx.out.count("query:world-no-variables");
                do_query(&mut cx, &mut rng, &c.query_text, &c.indexed, &c.args, 2, false);
            }
            continue;
        }
        done += 1;
        cx.out.count("query:world");
        cx.out.count(&format!("query-variables:{}", nv.min(6)));
        do_query(&mut cx, &mut rng, &c.query_text, &c.indexed, &c.args, 9, done % 2 == 0);
    }
    cx.out.count_n("gen:attempts", stats.generated);
    cx.out.count_n("gen:frontend-rejected", stats.frontend_rejected);

    // ---- multi-use family
    for _ in 0..n {
        let mc = mu_gen(&mut rng);
        let planned: Vec<(String, Type)> = mc.uses.iter().map(|u| (u.var.clone(), u.ty.clone())).collect();
        let expect = meets_of(&planned);
        let parsed = catch_unwind(AssertUnwindSafe(|| parse(&mu_schema, &mc.text)));
        let qinput = json!({"query": mc.text, "planned_uses": planned.iter().map(|(x, t)| format!("{x}:{t}")).collect::<Vec<_>>()});
        match parsed {
            Err(_) => {
                cx.out.count("multi:frontend-panic");
                cx.out.oracle_fail("frontend-panic", qinput, json!({}));
            }
            Ok(Err(e)) => {
                let dbg = format!("{e:?}");
                let n_incompat = dbg.matches("IncompatibleVariableTypeRequirements").count();
                let only_incompat = n_incompat > 0 && {
                    // every reported error is of this kind: strip them and look for other variants
                    let rest = dbg.replace("IncompatibleVariableTypeRequirements", "");
                    !rest.contains("FilterTypeError(") || rest.matches("FilterTypeError(").count() == n_incompat
                };
                if n_incompat == 0 || !only_incompat {
                    cx.out.count("multi:other-reject");
                    continue;
                }
                cx.out.count("multi:rejected-incompatible");
                if expect.is_some() {
                    cx.out.oracle_fail(
                        "variables-rejected",
                        qinput.clone(),
                        json!({"problem": "refused as incompatible although every variable's use-site types have a meet", "error": dbg.chars().take(300).collect::<String>()}),
                    );
                }
                if !cx.oracle_only {
                    let us: Vec<String> = planned.iter().map(|(x, t)| format!("({}, {})", cstr(x), irprint::cty(t))).collect();
                    cx.out.add(Case {
                        input: qinput,
                        coq: format!("show_res (show_opt show_vars) (variables_of_uses {})", clist(&us)),
                        imp: "N".to_string(),
                        nontrivial: true,
                        key: format!("vars:{}", mc.text),
                    });
                }
            }
            Ok(Ok(indexed)) => {
                cx.out.count("multi:accepted");
                match &expect {
                    None => cx.out.oracle_fail(
                        "variables-rejected",
                        qinput.clone(),
                        json!({"problem": "accepted although some variable's use-site types have no meet"}),
                    ),
                    Some(m) => {
                        let recorded: BTreeMap<String, Type> =
                            indexed.ir_query.variables.iter().map(|(k, t)| (k.to_string(), t.clone())).collect();
                        if *m != recorded {
                            cx.out.oracle_fail(
                                "variables-are-meets",
                                qinput.clone(),
                                json!({"problem": "recorded types differ from the meets of the planned use-site types", "recorded": format!("{recorded:?}"), "expected": format!("{m:?}")}),
                            );
                        }
                    }
                }
                // the IR's use sites are the planned ones (checks the harness' reading of infer_variable_type)
                let mut ir_uses = vec![];
                collect_uses(&indexed.ir_query.root_component, &mut ir_uses);
                let mut a: Vec<String> = ir_uses.iter().map(|(x, t)| format!("{x}:{t}")).collect();
                let mut b: Vec<String> = planned.iter().map(|(x, t)| format!("{x}:{t}")).collect();
                a.sort();
                b.sort();
                if a != b {
                    cx.out.oracle_fail("use-site-types", qinput.clone(), json!({"ir": a, "planned": b}));
                }
                let multi = indexed.ir_query.variables.keys().any(|k| planned.iter().filter(|(x, _)| x.as_str() == k.as_ref()).count() >= 2);
                cx.out.count(if multi { "multi:accepted-shared-variable" } else { "multi:accepted-single-uses" });
                let valid: ArgMap = indexed.ir_query.variables.iter().map(|(k, t)| (k.clone(), gen_valid(&mut rng, t))).collect();
                do_query(&mut cx, &mut rng, &mc.text, &indexed, &valid, 5, true);
            }
        }
    }
    let pairs = cx.pairs;
    out.count_n("pairs:total", pairs);
}

fn main() {
    let argv: Vec<String> = std::env::args().collect();
    if argv.len() < 2 {
        eprintln!("usage: tfh_c12 c12 [--seed S] [--n N] [--out DIR] [--oracle-only]");
        std::process::exit(2);
    }
    let args = parse_args(&argv[2..]);
    std::panic::set_hook(Box::new(|_| {}));
    match argv[1].as_str() {
        "c12" => {
            let mut o = Out::new(&args.out, "From TF Require Import Values Show Ty IR Args.", 400);
            run(args.seed, args.n, args.rest.iter().any(|x| x == "--oracle-only"), &mut o);
            o.finish();
        }
        other => {
            eprintln!("unknown subcommand {other}");
            std::process::exit(2);
        }
    }
}
