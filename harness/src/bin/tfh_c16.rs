//! tfh_c16 — C16: IR, values and types survive serialization round-trips.
//!
//! usage: tfh_c16 c16 --seed S --n N --out DIR [--oracle-only]
//!
//! Tie (model = coq/theories/SerdeModel.v, Ty.v):
//!   * `TransparentValue::from(v)` / `FieldValue::from(tv)` vs `to_transparent` / `from_transparent`;
//!   * `serde_json::to_value(TransparentValue)` vs `to_json`, and
//!     `serde_json::from_value::<TransparentValue>` vs `of_json` (serde's untagged resolution) on the
//!     C08 boundary values nested to depth 4 + seeded random values, and on seeded random JSON
//!     documents (objects, all three number kinds, nested arrays);
//!   * the `#[serde(default, skip_serializing_if)]` attribute table: (a) re-derived from the source
//!     text of /repo (struct, field, predicate, default function, in source order) and (b)
//!     BEHAVIOURALLY: for every attribute a real struct value with the field at its skip value and
//!     at a non-skip value is serialised with serde_json and ron; which fields are omitted and what
//!     comes back is compared with the model's `attr_case_named`;
//!   * the Type text cases (Display / Type::parse), as in `tfh c16ty`.
//! Direct oracles (implementation only): ron / serde_json round trips (serialize -> deserialize -> `==`
//! and re-serialised text equality) of every compiled query (`IndexedQuery`, `IRQuery`) and argument
//! map of n generated worlds, of tagged `FieldValue`s, of `Type`s, of recorded `Trace`s, of every
//! attribute probe, and the untagged path FieldValue -> TransparentValue -> JSON text ->
//! TransparentValue -> FieldValue compared with `==` (Enum-containing values: class K-enum-json).
#![allow(dead_code)]
#[path = "../c08.rs"]
mod c08;
#[path = "../coq.rs"]
mod coq;
#[path = "../engine.rs"]
mod engine;
#[path = "../irprint.rs"]
mod irprint;
#[path = "../out.rs"]
mod out;
#[path = "../qgen.rs"]
mod qgen;
#[path = "../rng.rs"]
mod rng;
#[path = "../show.rs"]
mod show;
#[path = "../world.rs"]
mod world;

use coq::{cbool, cfv, cstr};
use out::{Case, Out};
use rng::Rng;
use serde::de::DeserializeOwned;
use serde::Serialize;
use serde_json::{json, Value};
use show::{hex, show_bool, show_fv};
use std::cell::RefCell;
use std::collections::BTreeMap;
use std::fmt::Debug;
use std::num::NonZeroUsize;
use std::panic::{catch_unwind, AssertUnwindSafe};
use std::path::PathBuf;
use std::rc::Rc;
use std::sync::Arc;
use trustfall_core::interpreter::execution::interpret_ir;
use trustfall_core::interpreter::trace::{tap_results, AdapterTap, Trace};
use trustfall_core::interpreter::DataContext;
use trustfall_core::ir::{
    ContextField, EdgeParameters, Eid, FieldRef, FieldValue, FoldSpecificFieldKind, IREdge, IRFold,
    IRQuery, IRQueryComponent, IRVertex, IndexedQuery, LocalField, Operation, Recursive,
    TransparentValue, Type, Vid,
};

const K_ENUM: &str = "K-enum-json";
/// the value contains a finite float whose shortest decimal text (as serde_json prints it) is not
/// read back bit-exactly by serde_json's default float parser (the crate is built without the
/// `float_roundtrip` feature): JSON TEXT only; serde_json::Value and ron are exact
const K_FLOAT: &str = "K-json-float-text";

fn float_text_lossy(f: f64) -> bool {
    if !f.is_finite() {
        return false;
    }
    match serde_json::to_string(&f).ok().and_then(|s| serde_json::from_str::<f64>(&s).ok()) {
        Some(g) => g.to_bits() != f.to_bits(),
        None => true,
    }
}
fn fv_has_lossy_float(v: &FieldValue) -> bool {
    match v {
        FieldValue::Float64(f) => float_text_lossy(*f),
        FieldValue::List(xs) => xs.iter().any(fv_has_lossy_float),
        _ => false,
    }
}
fn json_has_lossy_float(v: &Value) -> bool {
    match v {
        Value::Number(n) => n.is_f64() && float_text_lossy(n.as_f64().unwrap()),
        Value::Array(l) => l.iter().any(json_has_lossy_float),
        Value::Object(m) => m.values().any(json_has_lossy_float),
        _ => false,
    }
}

// ------------------------------------------------------------------ CLI

struct Args {
    seed: u64,
    n: usize,
    out: PathBuf,
    rest: Vec<String>,
}

fn parse_args(v: &[String]) -> Args {
    let mut a = Args { seed: 0, n: 100, out: PathBuf::from("."), rest: vec![] };
    let mut i = 0;
    while i < v.len() {
        match v[i].as_str() {
            "--seed" => { a.seed = v[i + 1].parse().unwrap(); i += 2; }
            "--n" => { a.n = v[i + 1].parse().unwrap(); i += 2; }
            "--out" => { a.out = PathBuf::from(&v[i + 1]); i += 2; }
            _ => { a.rest.push(v[i].clone()); i += 1; }
        }
    }
    a
}

fn caught<T>(f: impl FnOnce() -> T) -> Option<T> {
    catch_unwind(AssertUnwindSafe(f)).ok()
}

// ------------------------------------------------------------------ renderers (mirror SerdeModel.v)

fn show_tv(t: &TransparentValue) -> String {
    match t {
        TransparentValue::Null => "n".into(),
        TransparentValue::Int64(i) => format!("i{i}"),
        TransparentValue::Uint64(u) => format!("u{u}"),
        TransparentValue::Float64(f) => format!("f{}", f.to_bits()),
        TransparentValue::String(s) => format!("s{}", hex(s)),
        TransparentValue::Boolean(b) => if *b { "T".into() } else { "F".into() },
        TransparentValue::Enum(s) => format!("e{}", hex(s)),
        TransparentValue::List(l) => {
            let parts: Vec<String> = l.iter().map(show_tv).collect();
            format!("[{}]", parts.join(","))
        }
        _ => "?".into(),
    }
}

/// serde_json::Number is PosInt(u64) | NegInt(i64) | Float(f64): is_u64 <=> PosInt, is_i64 and not
/// is_u64 <=> NegInt.
fn show_json(v: &Value) -> String {
    match v {
        Value::Null => "n".into(),
        Value::Bool(b) => if *b { "T".into() } else { "F".into() },
        Value::Number(n) => {
            if let Some(u) = n.as_u64() {
                format!("p{u}")
            } else if let Some(i) = n.as_i64() {
                format!("m{i}")
            } else {
                format!("f{}", n.as_f64().unwrap().to_bits())
            }
        }
        Value::String(s) => format!("s{}", hex(s)),
        Value::Array(l) => {
            let parts: Vec<String> = l.iter().map(show_json).collect();
            format!("[{}]", parts.join(","))
        }
        Value::Object(m) => {
            let parts: Vec<String> = m.iter().map(|(k, v)| format!("{}:{}", hex(k), show_json(v))).collect();
            format!("{{{}}}", parts.join(","))
        }
    }
}

/// Gallina literal of a JSON document
fn cjson(v: &Value) -> String {
    match v {
        Value::Null => "JNull".into(),
        Value::Bool(b) => format!("(JBool {})", cbool(*b)),
        Value::Number(n) => {
            if let Some(u) = n.as_u64() {
                format!("(JNum (PosInt {u}%Z))")
            } else if let Some(i) = n.as_i64() {
                format!("(JNum (NegInt ({i})%Z))")
            } else {
                format!("(JNum (JFloat {}%N))", n.as_f64().unwrap().to_bits())
            }
        }
        Value::String(s) => format!("(JStr {})", cstr(s)),
        Value::Array(l) => {
            let parts: Vec<String> = l.iter().map(cjson).collect();
            format!("(JArr [{}])", parts.join("; "))
        }
        Value::Object(m) => {
            let parts: Vec<String> = m.iter().map(|(k, v)| format!("({}, {})", cstr(k), cjson(v))).collect();
            format!("(JObj [{}])", parts.join("; "))
        }
    }
}

fn show_opt_fv(o: &Option<FieldValue>) -> String {
    match o {
        Some(v) => format!("S({})", show_fv(v)),
        None => "N".into(),
    }
}

fn has_enum(v: &FieldValue) -> bool {
    match v {
        FieldValue::Enum(_) => true,
        FieldValue::List(xs) => xs.iter().any(has_enum),
        _ => false,
    }
}
fn all_finite(v: &FieldValue) -> bool {
    match v {
        FieldValue::Float64(f) => f.is_finite(),
        FieldValue::List(xs) => xs.iter().all(all_finite),
        _ => true,
    }
}
fn fv_depth(v: &FieldValue) -> usize {
    match v {
        FieldValue::List(xs) => 1 + xs.iter().map(fv_depth).max().unwrap_or(0),
        _ => 0,
    }
}
fn l(x: Vec<FieldValue>) -> FieldValue {
    FieldValue::List(Arc::from(x))
}

// ------------------------------------------------------------------ value set

fn value_set(rng: &mut Rng, n: usize) -> Vec<FieldValue> {
    use FieldValue::*;
    let s = |x: &str| String(Arc::from(x));
    let e = |x: &str| Enum(Arc::from(x));
    let base = c08::boundary_values();
    let mut v = base.clone();
    v.extend(vec![
        Float64(2.0),
        Float64(-3.0),
        Float64(1e15),
        Float64(1e16),
        Float64(1e21),
        Float64(1e22),
        Float64(1e23),
        Float64(9007199254740992.0),
        Float64(9223372036854775808.0),
        Float64(18446744073709551616.0),
        Float64(0.1),
        Float64(0.30000000000000004),
        Float64(5e-324),
        Float64(2.2250738585072011e-308),
        Float64(1.7976931348623157e308),
        Float64(123456789012345680.0),
        // F13b witnesses: JSON text gives back a neighbouring float
        Float64(f64::from_bits(11666559014341896425)),
        Float64(f64::from_bits(7555227041076449582)),
        s("foo"),
        s("1"),
        s("null"),
        s("\u{0}\u{1f}\\\"/\u{7f}"),
        s("\u{1F600}"),
        e("foo"),
        e("\u{e9}"),
        l(vec![Null, Null]),
        l(vec![Int64(1), Uint64(2), Null]),
        l(vec![Float64(1.5), Null]),
        l(vec![Float64(1.0), Int64(1), Uint64(1)]),
        l(vec![Boolean(true), Boolean(false)]),
        l(vec![s("a"), Null, s("b")]),
        l(vec![l(vec![]), Null]),
        l(vec![l(vec![Int64(1)]), l(vec![Null])]),
        l(vec![l(vec![Int64(1), Null]), Null, l(vec![])]),
        l(vec![l(vec![s("a")]), l(vec![Int64(1)])]),
        l(vec![l(vec![l(vec![])])]),
        l(vec![l(vec![l(vec![Uint64(1), Null]), Null]), Null]),
        l(vec![l(vec![l(vec![l(vec![])])])]),
        l(vec![l(vec![l(vec![l(vec![Uint64(i64::MAX as u64), Uint64(i64::MAX as u64 + 1)])])])]),
        l(vec![l(vec![l(vec![l(vec![Float64(-0.0), s("x"), Boolean(false), Null])]), Int64(i64::MIN)])]),
        // Enum-containing (F13)
        l(vec![e("a")]),
        l(vec![Int64(1), e("a")]),
        l(vec![s("a"), e("a")]),
        l(vec![l(vec![l(vec![l(vec![e("deep")])])])]),
        l(vec![l(vec![Int64(1)]), l(vec![e("a")])]),
    ]);
    // every boundary value wrapped to depth 1..4 (alone, and next to a sibling)
    for (i, b) in base.iter().enumerate() {
        let d = 1 + i % 4;
        let mut w = b.clone();
        for k in 0..d {
            w = if (i + k) % 3 == 0 { l(vec![w, Null]) } else { l(vec![w]) };
        }
        if fv_depth(&w) <= 4 {
            v.push(w);
        }
    }
    for _ in 0..n {
        v.push(c08::random_value(rng, 4));
    }
    v
}

// ------------------------------------------------------------------ 1-2: values

fn to_tv(v: &FieldValue) -> TransparentValue {
    TransparentValue::from(v.clone())
}

fn run_values(seed: u64, n: usize, out: &mut Out, oracle_only: bool) {
    let mut rng = Rng::new(seed ^ 0x16);
    let vals = value_set(&mut rng, n);
    out.count_n("values", vals.len() as u64);
    for v in &vals {
        let inp = json!({"value": show_fv(v)});
        let enumy = has_enum(v);
        let lossy = fv_has_lossy_float(v);
        if lossy {
            out.count("value:contains a float that JSON text does not round-trip");
        }
        let tv = to_tv(v);
        let back = FieldValue::from(tv.clone());
        let jv = caught(|| serde_json::to_value(&tv).ok()).flatten();
        let rt: Option<FieldValue> = jv
            .as_ref()
            .and_then(|j| caught(|| serde_json::from_value::<TransparentValue>(j.clone()).ok()).flatten())
            .map(FieldValue::from);
        out.count(&format!("value:{}{}", c08::kind(v), if enumy { "+enum" } else { "" }));
        if !oracle_only {
            let c = cfv(v);
            out.add(Case {
                input: json!({"op": "transparent", "value": show_fv(v)}),
                coq: format!("show_tv (to_transparent {c}) ++ \"|\" ++ show_fv (from_transparent (to_transparent {c}))"),
                imp: format!("{}|{}", show_tv(&tv), show_fv(&back)),
                nontrivial: true,
                key: format!("tv|{}", show_fv(v)),
            });
            out.add(Case {
                input: json!({"op": "untagged-json", "value": show_fv(v)}),
                coq: format!(
                    "show_json (to_json {c}) ++ \"|\" ++ show_opt show_fv (of_json (to_json {c})) ++ \"|\" ++ show_fv (canon {c}) ++ \"|\" ++ show_bool (eqT (canon {c}) {c})"
                ),
                imp: format!(
                    "{}|{}|{}|{}",
                    jv.as_ref().map(show_json).unwrap_or("SERERR".into()),
                    show_opt_fv(&rt),
                    // canon = the image; the implementation's image is `rt`
                    rt.as_ref().map(show_fv).unwrap_or("?".into()),
                    show_bool(rt.as_ref().map(|r| r == v).unwrap_or(false)),
                ),
                nontrivial: !matches!(v, FieldValue::Null | FieldValue::Boolean(_)),
                key: format!("json|{}", show_fv(v)),
            });
        }
        // ---- oracles (implementation only)
        // conversions are mutually inverse: structurally identical
        if show_fv(&back) != show_fv(v) {
            out.oracle_fail("FieldValue -> TransparentValue -> FieldValue changed the value", inp.clone(), json!(show_fv(&back)));
        }
        // untagged, Value level and text level
        let text_rt: Option<FieldValue> = caught(|| {
            serde_json::to_string(&tv).ok().and_then(|s| serde_json::from_str::<TransparentValue>(&s).ok())
        })
        .flatten()
        .map(FieldValue::from);
        for (what, r) in [("serde_json::Value", &rt), ("JSON text", &text_rt)] {
            let ok = matches!(r, Some(r) if r == v);
            if !ok {
                let msg = format!("untagged JSON round trip ({what}) did not return an equal value");
                let detail = json!({"back": r.as_ref().map(show_fv), "json": serde_json::to_string(&tv).ok()});
                if enumy {
                    out.oracle_fail_class(K_ENUM, &msg, inp.clone(), detail);
                } else if lossy && what == "JSON text" {
                    out.oracle_fail_class(K_FLOAT, &msg, inp.clone(), detail);
                } else {
                    out.oracle_fail(&msg, inp.clone(), detail);
                }
            }
        }
        // text and Value paths agree exactly (bit-exact floats)
        if rt.as_ref().map(show_fv) != text_rt.as_ref().map(show_fv) {
            let detail = json!({"value_path": rt.as_ref().map(show_fv), "text_path": text_rt.as_ref().map(show_fv), "json": serde_json::to_string(&tv).ok()});
            if lossy {
                out.oracle_fail_class(K_FLOAT, "untagged JSON: text path and Value path disagree", inp.clone(), detail);
            } else {
                out.oracle_fail("untagged JSON: text path and Value path disagree", inp.clone(), detail);
            }
        }
        // a second trip is the identity (structurally)
        if let Some(r1) = &text_rt {
            let r2 = caught(|| {
                serde_json::to_string(&to_tv(r1)).ok().and_then(|s| serde_json::from_str::<TransparentValue>(&s).ok())
            })
            .flatten()
            .map(FieldValue::from);
            if r2.as_ref().map(show_fv) != Some(show_fv(r1)) {
                if lossy || fv_has_lossy_float(r1) {
                    out.oracle_fail_class(K_FLOAT, "untagged JSON: second trip is not the identity", inp.clone(), json!(r2.as_ref().map(show_fv)));
                } else {
                    out.oracle_fail("untagged JSON: second trip is not the identity", inp.clone(), json!(r2.as_ref().map(show_fv)));
                }
            }
        }
        // tagged FieldValue (derived externally-tagged form): exact, variant-preserving
        check_roundtrip("FieldValue (tagged)", v, &inp, out, |a, b| show_fv(a) == show_fv(b) && a == b);
        // TransparentValue through ron (untagged too): equal unless Enum
        let ron_rt: Option<FieldValue> =
            caught(|| ron::to_string(&tv).ok().and_then(|s| ron::from_str::<TransparentValue>(&s).ok())).flatten().map(FieldValue::from);
        if !matches!(&ron_rt, Some(r) if r == v) {
            let detail = json!({"back": ron_rt.as_ref().map(show_fv), "ron": ron::to_string(&tv).ok()});
            if enumy {
                out.oracle_fail_class(K_ENUM, "untagged ron round trip did not return an equal value", inp.clone(), detail);
            } else {
                out.oracle_fail("untagged ron round trip did not return an equal value", inp.clone(), detail);
            }
        }
    }
}

/// serialize -> deserialize with serde_json (text and Value) and ron (compact and pretty); `same`
/// decides equality; also the re-serialised text must be identical.
fn check_roundtrip<T: Serialize + DeserializeOwned>(what: &str, v: &T, inp: &Value, out: &mut Out, same: impl Fn(&T, &T) -> bool) {
    // serde_json text
    let lossy = caught(|| serde_json::to_value(v).ok()).flatten().map(|j| json_has_lossy_float(&j)).unwrap_or(false);
    match caught(|| serde_json::to_string(v)) {
        Some(Ok(s)) => match caught(|| serde_json::from_str::<T>(&s)) {
            Some(Ok(b)) => {
                if !same(v, &b) {
                    let msg = format!("serde_json round trip of {what} returned a different value");
                    if lossy {
                        out.oracle_fail_class(K_FLOAT, &msg, inp.clone(), json!({"text": s}));
                    } else {
                        out.oracle_fail(&msg, inp.clone(), json!({"text": s}));
                    }
                } else if serde_json::to_string(&b).ok().as_deref() != Some(s.as_str()) {
                    out.oracle_fail(&format!("serde_json re-serialisation of {what} differs"), inp.clone(), json!({"text": s}));
                }
            }
            other => out.oracle_fail(
                &format!("serde_json could not read back its own output for {what}"),
                inp.clone(),
                json!({"text": s, "error": format!("{:?}", other.map(|r| r.err().map(|e| e.to_string())))}),
            ),
        },
        other => out.oracle_fail(
            &format!("serde_json could not serialise {what}"),
            inp.clone(),
            json!(format!("{:?}", other.map(|r| r.err().map(|e| e.to_string())))),
        ),
    }
    // serde_json Value
    match caught(|| serde_json::to_value(v)) {
        Some(Ok(j)) => match caught(|| serde_json::from_value::<T>(j.clone())) {
            Some(Ok(b)) if same(v, &b) => {}
            _ => out.oracle_fail(&format!("serde_json::Value round trip of {what} failed"), inp.clone(), json!({"json": j})),
        },
        _ => out.oracle_fail(&format!("serde_json::to_value failed for {what}"), inp.clone(), json!(null)),
    }
    // ron compact + pretty
    let pretty = |v: &T| ron::ser::to_string_pretty(v, ron::ser::PrettyConfig::default());
    for (mode, s) in [("ron", caught(|| ron::to_string(v))), ("ron-pretty", caught(|| pretty(v)))] {
        match s {
            Some(Ok(s)) => match caught(|| ron::from_str::<T>(&s)) {
                Some(Ok(b)) => {
                    if !same(v, &b) {
                        out.oracle_fail(&format!("{mode} round trip of {what} returned a different value"), inp.clone(), json!({"text": s}));
                    } else {
                        let again = if mode == "ron" { ron::to_string(&b).ok() } else { pretty(&b).ok() };
                        if again.as_deref() != Some(s.as_str()) {
                            out.oracle_fail(&format!("{mode} re-serialisation of {what} differs"), inp.clone(), json!({"text": s}));
                        }
                    }
                }
                other => out.oracle_fail(
                    &format!("{mode} could not read back its own output for {what}"),
                    inp.clone(),
                    json!({"text": s, "error": format!("{:?}", other.map(|r| r.err().map(|e| e.to_string())))}),
                ),
            },
            other => out.oracle_fail(
                &format!("{mode} could not serialise {what}"),
                inp.clone(),
                json!(format!("{:?}", other.map(|r| r.err().map(|e| e.to_string())))),
            ),
        }
    }
}

// ------------------------------------------------------------------ 2b: arbitrary JSON documents

fn random_json(rng: &mut Rng, depth: u32) -> Value {
    let k = rng.below(if depth == 0 { 8 } else { 11 });
    match k {
        0 => Value::Null,
        1 => Value::Bool(rng.chance(1, 2)),
        2 => json!(match rng.below(4) {
            0 => rng.below(5) as u64,
            1 => i64::MAX as u64 - 1 + rng.below(4) as u64,
            2 => u64::MAX - rng.below(2) as u64,
            _ => rng.next_u64(),
        }),
        3 => json!(match rng.below(3) {
            0 => -(rng.below(5) as i64) - 1,
            1 => i64::MIN + rng.below(2) as i64,
            _ => -((rng.next_u64() >> 1) as i64) - 1,
        }),
        4 | 5 => {
            let mut f = f64::from_bits(rng.next_u64());
            if !f.is_finite() || rng.chance(1, 2) {
                f = *rng.pick(&[0.0, -0.0, 1.0, -1.0, 1.5, 1e19, 1e300, 5e-324, 9007199254740993.0, 0.1]);
            }
            json!(f)
        }
        6 | 7 => Value::String((*rng.pick(&["", "a", "foo", "\u{e9}", "1", "null", "a\"b"])).to_string()),
        8 | 9 => {
            let n = rng.below(4);
            Value::Array((0..n).map(|_| random_json(rng, depth - 1)).collect())
        }
        _ => {
            let n = rng.below(3);
            let mut m = serde_json::Map::new();
            for i in 0..n {
                m.insert(format!("k{i}"), random_json(rng, depth - 1));
            }
            Value::Object(m)
        }
    }
}
fn json_has_object(v: &Value) -> bool {
    match v {
        Value::Object(_) => true,
        Value::Array(l) => l.iter().any(json_has_object),
        _ => false,
    }
}

fn run_json_docs(seed: u64, n: usize, out: &mut Out, oracle_only: bool) {
    let mut rng = Rng::new(seed ^ 0x1616);
    let mut docs: Vec<Value> = vec![
        json!(null),
        json!({}),
        json!({"Int64": 1}),
        json!([{"a": 1}]),
        json!([1, {"a": 1}]),
        json!([[], [[]], [[[]]]]),
        json!(i64::MAX),
        json!(i64::MAX as u64 + 1),
        json!(u64::MAX),
        json!(i64::MIN),
        json!(-1),
        json!(0),
        json!(-0.0),
        json!(0.0),
        json!(1.0),
        json!(1e19),
        json!("foo"),
        json!([true, false, null, "x", 1, -1, 1.5]),
    ];
    for _ in 0..n {
        docs.push(random_json(&mut rng, 3));
    }
    for j in &docs {
        let r = caught(|| serde_json::from_value::<TransparentValue>(j.clone()).ok()).flatten().map(FieldValue::from);
        let has_obj = json_has_object(j);
        out.count(&format!("json-doc:{}", if r.is_some() { "accepted" } else { "refused" }));
        if !oracle_only {
            out.add(Case {
                input: json!({"op": "of_json", "json": j.to_string()}),
                coq: format!("show_opt show_fv (of_json {})", cjson(j)),
                imp: show_opt_fv(&r),
                nontrivial: !matches!(j, Value::Null | Value::Bool(_)),
                key: format!("doc|{}", show_json(j)),
            });
        }
        // oracles: refused iff it contains an object; an accepted document is written back verbatim;
        // text-level reading agrees
        if r.is_some() == has_obj {
            out.oracle_fail("a JSON document is refused iff it contains an object: violated", json!({"json": j.to_string()}), json!(show_opt_fv(&r)));
        }
        if let Some(v) = &r {
            let back = serde_json::to_value(to_tv(v)).ok();
            if back.as_ref().map(show_json) != Some(show_json(j)) {
                out.oracle_fail("JSON -> value -> JSON is not the identity", json!({"json": j.to_string()}), json!(back.map(|b| b.to_string())));
            }
            if has_enum(v) {
                out.oracle_fail("deserialisation produced an Enum", json!({"json": j.to_string()}), json!(show_fv(v)));
            }
        }
        let text = j.to_string();
        let rt = caught(|| serde_json::from_str::<TransparentValue>(&text).ok()).flatten().map(FieldValue::from);
        if rt.as_ref().map(show_fv) != r.as_ref().map(show_fv) {
            let detail = json!({"text_path": rt.as_ref().map(show_fv), "value_path": r.as_ref().map(show_fv)});
            let msg = "reading the printed JSON text differs from reading the serde_json::Value";
            if json_has_lossy_float(j) {
                out.oracle_fail_class(K_FLOAT, msg, json!({"json": text}), detail);
            } else {
                out.oracle_fail(msg, json!({"json": text}), detail);
            }
        }
    }
}

// ------------------------------------------------------------------ 3: attribute table

/// (struct, field, skip predicate, default function) for every `#[serde(default…, skip_serializing_if…)]`
/// in the given source text, in source order.
fn scan_attrs(src: &str) -> Vec<(String, String, String, String)> {
    let mut res = vec![];
    let mut cur_struct = String::new();
    let mut pending: Option<(String, String)> = None;
    for line in src.lines() {
        let t = line.trim();
        if t.starts_with("#[cfg(test)]") {
            break;
        }
        let decl = t.strip_prefix("pub(crate) ").or_else(|| t.strip_prefix("pub ")).unwrap_or(t);
        if let Some(rest) = decl.strip_prefix("struct ").or_else(|| decl.strip_prefix("enum ")) {
            cur_struct = rest.chars().take_while(|c| c.is_alphanumeric() || *c == '_').collect();
            continue;
        }
        if t.starts_with("#[serde(") && (t.contains("skip_serializing_if") || t.contains("default")) && !t.contains("bound") {
            let get = |key: &str| -> Option<String> {
                let i = t.find(key)?;
                let r = &t[i + key.len()..];
                let r = r.trim_start();
                let r = r.strip_prefix('=')?.trim_start().strip_prefix('"')?;
                Some(r[..r.find('"')?].to_string())
            };
            let skip = get("skip_serializing_if").unwrap_or("-".into());
            let dflt = get("default").unwrap_or("Default".into());
            pending = Some((skip, dflt));
            continue;
        }
        if let Some((skip, dflt)) = pending.clone() {
            if t.is_empty() || t.starts_with("//") || t.starts_with("#[") {
                continue;
            }
            let f = decl.split(':').next().unwrap_or("").trim().to_string();
            res.push((cur_struct.clone(), f, skip, dflt));
            pending = None;
        }
    }
    res
}

fn nz(n: usize) -> NonZeroUsize {
    NonZeroUsize::new(n).unwrap()
}
fn vid(n: usize) -> Vid {
    Vid::new(nz(n))
}
fn eid(n: usize) -> Eid {
    Eid::new(nz(n))
}
fn arc(s: &str) -> Arc<str> {
    Arc::from(s)
}
fn int_ty() -> Type {
    Type::new_named_type("Int", true)
}
fn p_vertex(n: usize) -> IRVertex {
    IRVertex { vid: vid(n), type_name: arc("T"), coerced_from_type: None, filters: vec![] }
}
fn p_comp(root: usize) -> IRQueryComponent {
    let mut vertices = BTreeMap::new();
    vertices.insert(vid(root), p_vertex(root));
    IRQueryComponent { root: vid(root), vertices, edges: BTreeMap::new(), folds: BTreeMap::new(), outputs: BTreeMap::new() }
}
fn p_edge() -> IREdge {
    IREdge { eid: eid(1), from_vid: vid(1), to_vid: vid(2), edge_name: arc("e"), parameters: EdgeParameters::default(), optional: false, recursive: None }
}
fn p_fold() -> IRFold {
    IRFold {
        eid: eid(1),
        from_vid: vid(1),
        to_vid: vid(2),
        edge_name: arc("e"),
        parameters: EdgeParameters::default(),
        component: Arc::new(p_comp(2)),
        imported_tags: vec![],
        fold_specific_outputs: BTreeMap::new(),
        post_filters: vec![],
    }
}
fn p_query() -> IRQuery {
    IRQuery { root_name: arc("R"), root_parameters: EdgeParameters::default(), root_component: Arc::new(p_comp(1)), variables: BTreeMap::new() }
}
fn p_params() -> EdgeParameters {
    // `contents` is pub(crate): a non-empty value is obtained through the derived Deserialize
    serde_json::from_value(json!({"contents": {"a": {"Int64": 1}}})).unwrap()
}
fn p_cf() -> ContextField {
    ContextField { vertex_id: vid(1), field_name: arc("f"), field_type: int_ty() }
}
fn shape_vec(empty: bool) -> String {
    if empty { "empty".into() } else { "nonempty".into() }
}
fn shape_opt(none: bool) -> String {
    if none { "None".into() } else { "Some".into() }
}

/// `[(,]field:` occurs in the compact ron text (struct fields are written `name:value`)
fn ron_has_field(s: &str, field: &str) -> bool {
    let pat = format!("{field}:");
    let mut from = 0;
    while let Some(i) = s[from..].find(&pat) {
        let at = from + i;
        if at > 0 && matches!(s.as_bytes()[at - 1], b'(' | b',') {
            return true;
        }
        from = at + 1;
    }
    false
}

/// One behavioural probe: `value` has `field` at its skip value (`use_sample = false`) or at a
/// non-skip value; `json_ok = false` for values serde_json cannot represent (non-string map keys).
fn attr_probe<T: Serialize + DeserializeOwned + Debug>(
    out: &mut Out,
    oracle_only: bool,
    st: &str,
    field: &str,
    use_sample: bool,
    value: &T,
    shape: &dyn Fn(&T) -> String,
    same: &dyn Fn(&T, &T) -> bool,
    json_ok: bool,
) {
    let inp = json!({"op": "attribute", "struct": st, "field": field, "field_at": if use_sample { "non-skip value" } else { "skip value" }});
    let coq = format!("attr_case_named {} {} {}", cstr(st), cstr(field), cbool(use_sample));
    let mut results: Vec<(&str, String)> = vec![];
    // serde_json
    let j = caught(|| serde_json::to_value(value));
    match j {
        Some(Ok(j)) => {
            let omitted = !j.as_object().map(|m| m.contains_key(field)).unwrap_or(false);
            let back = caught(|| serde_json::from_value::<T>(j.clone()).ok()).flatten();
            match &back {
                Some(b) => {
                    if !same(value, b) {
                        out.oracle_fail("attribute probe: serde_json round trip returned a different value", inp.clone(), json!({"json": j}));
                    }
                    results.push(("json", format!("omitted={}|back={}", show_bool(omitted), shape(b))));
                }
                None => {
                    out.oracle_fail("attribute probe: serde_json could not read back its own output", inp.clone(), json!({"json": j}));
                    results.push(("json", format!("omitted={}|back=DEERR", show_bool(omitted))));
                }
            }
        }
        other => {
            if json_ok {
                out.oracle_fail("attribute probe: serde_json could not serialise the value", inp.clone(), json!(format!("{:?}", other.map(|r| r.err().map(|e| e.to_string())))));
                results.push(("json", "SERERR".into()));
            } else {
                out.count(&format!("json-unrepresentable:{st}.{field}"));
            }
        }
    }
    // ron
    match caught(|| ron::to_string(value)) {
        Some(Ok(s)) => {
            let omitted = !ron_has_field(&s, field);
            match caught(|| ron::from_str::<T>(&s).ok()).flatten() {
                Some(b) => {
                    if !same(value, &b) {
                        out.oracle_fail("attribute probe: ron round trip returned a different value", inp.clone(), json!({"ron": s}));
                    }
                    results.push(("ron", format!("omitted={}|back={}", show_bool(omitted), shape(&b))));
                }
                None => {
                    out.oracle_fail("attribute probe: ron could not read back its own output", inp.clone(), json!({"ron": s}));
                    results.push(("ron", format!("omitted={}|back=DEERR", show_bool(omitted))));
                }
            }
        }
        _ => {
            out.oracle_fail("attribute probe: ron could not serialise the value", inp.clone(), json!(null));
            results.push(("ron", "SERERR".into()));
        }
    }
    out.count(&format!("attr:{}", if use_sample { "non-skip" } else { "skip" }));
    if !oracle_only {
        for (fmt, imp) in results {
            let mut input = inp.clone();
            input["format"] = json!(fmt);
            out.add(Case { input, coq: coq.clone(), imp, nontrivial: true, key: format!("attr|{st}|{field}|{use_sample}|{fmt}") });
        }
    }
}

fn eq_dbg<T: PartialEq + Debug>(a: &T, b: &T) -> bool {
    a == b && format!("{a:?}") == format!("{b:?}")
}

/// shape of a DataContext field, read off the derived Debug text (the fields are private)
fn ctx_field_shape(ctx: &DataContext<u64>, field: &str) -> String {
    let d = format!("{ctx:?}");
    let pat = format!(" {field}: ");
    match d.find(&pat) {
        None => "NOFIELD".into(),
        Some(i) => {
            let r = &d[i + pat.len()..];
            if r.starts_with("None") {
                "None".into()
            } else if r.starts_with("Some") {
                "Some".into()
            } else if r.starts_with("[]") || r.starts_with("{}") {
                "empty".into()
            } else {
                "nonempty".into()
            }
        }
    }
}

fn run_attrs(out: &mut Out, oracle_only: bool) {
    // (a) the table re-derived from the source text
    let root = "/repo/trustfall_core/src/";
    let mut listing = vec![];
    for f in ["ir/mod.rs", "interpreter/mod.rs", "interpreter/trace.rs"] {
        let src = std::fs::read_to_string(format!("{root}{f}")).unwrap_or_default();
        for (st, fld, skip, dflt) in scan_attrs(&src) {
            listing.push(format!("{st}.{fld}:{skip}:{dflt}"));
        }
    }
    out.count_n("attrs-in-source", listing.len() as u64);
    if !oracle_only {
        out.add(Case {
            input: json!({"op": "attribute-table", "source": "serde attributes found in ir/mod.rs, interpreter/mod.rs, interpreter/trace.rs"}),
            coq: "attr_listing".into(),
            imp: listing.join(";"),
            nontrivial: true,
            key: "attr-listing".into(),
        });
    }
    // other derives with serde field attributes anywhere else in the crate would escape the table
    let mut elsewhere = vec![];
    fn walk(dir: &std::path::Path, acc: &mut Vec<String>) {
        if let Ok(rd) = std::fs::read_dir(dir) {
            for e in rd.flatten() {
                let p = e.path();
                if p.is_dir() {
                    walk(&p, acc);
                } else if p.extension().map(|x| x == "rs").unwrap_or(false) {
                    let rel = p.to_string_lossy().to_string();
                    if rel.ends_with("/ir/mod.rs") || rel.ends_with("/interpreter/mod.rs") || rel.ends_with("/interpreter/trace.rs") {
                        continue;
                    }
                    if let Ok(s) = std::fs::read_to_string(&p) {
                        let body = s.split("#[cfg(test)]").next().unwrap_or("");
                        if body.contains("skip_serializing_if") || body.contains("serde(default") {
                            acc.push(rel);
                        }
                    }
                }
            }
        }
    }
    walk(std::path::Path::new(root), &mut elsewhere);
    out.extra.insert("serde_field_attributes_elsewhere".into(), json!(elsewhere));

    // (b) behaviour
    macro_rules! probe {
        ($st:expr, $field:expr, $skipv:expr, $samplev:expr, $shape:expr) => {{
            let sk = $skipv;
            let sa = $samplev;
            attr_probe(out, oracle_only, $st, $field, false, &sk, &$shape, &eq_dbg, true);
            attr_probe(out, oracle_only, $st, $field, true, &sa, &$shape, &eq_dbg, true);
        }};
    }
    // IRQueryComponent
    probe!("IRQueryComponent", "vertices", { let mut c = p_comp(1); c.vertices.clear(); c }, p_comp(1),
        |c: &IRQueryComponent| shape_vec(c.vertices.is_empty()));
    probe!("IRQueryComponent", "edges", p_comp(1), { let mut c = p_comp(1); c.edges.insert(eid(1), Arc::new(p_edge())); c },
        |c: &IRQueryComponent| shape_vec(c.edges.is_empty()));
    probe!("IRQueryComponent", "folds", p_comp(1), { let mut c = p_comp(1); c.folds.insert(eid(1), Arc::new(p_fold())); c },
        |c: &IRQueryComponent| shape_vec(c.folds.is_empty()));
    probe!("IRQueryComponent", "outputs", p_comp(1), { let mut c = p_comp(1); c.outputs.insert(arc("o"), p_cf()); c },
        |c: &IRQueryComponent| shape_vec(c.outputs.is_empty()));
    // IRQuery
    probe!("IRQuery", "root_parameters", p_query(), { let mut q = p_query(); q.root_parameters = p_params(); q },
        |q: &IRQuery| shape_vec(q.root_parameters.is_empty()));
    probe!("IRQuery", "variables", p_query(), { let mut q = p_query(); q.variables.insert(arc("v"), int_ty()); q },
        |q: &IRQuery| shape_vec(q.variables.is_empty()));
    // IREdge
    probe!("IREdge", "parameters", p_edge(), { let mut e = p_edge(); e.parameters = p_params(); e },
        |e: &IREdge| shape_vec(e.parameters.is_empty()));
    probe!("IREdge", "optional", p_edge(), { let mut e = p_edge(); e.optional = true; e },
        |e: &IREdge| show_bool(e.optional).to_string());
    probe!("IREdge", "recursive", p_edge(), { let mut e = p_edge(); e.recursive = Some(Recursive::new(nz(2), None)); e },
        |e: &IREdge| shape_opt(e.recursive.is_none()));
    // Recursive
    probe!("Recursive", "coerce_to", Recursive::new(nz(2), None), Recursive::new(nz(2), Some(arc("T"))),
        |r: &Recursive| shape_opt(r.coerce_to.is_none()));
    // IRVertex
    probe!("IRVertex", "coerced_from_type", p_vertex(1), { let mut v = p_vertex(1); v.coerced_from_type = Some(arc("T")); v },
        |v: &IRVertex| shape_opt(v.coerced_from_type.is_none()));
    probe!("IRVertex", "filters", p_vertex(1),
        { let mut v = p_vertex(1); v.filters.push(Operation::IsNull(LocalField { field_name: arc("f"), field_type: int_ty() })); v },
        |v: &IRVertex| shape_vec(v.filters.is_empty()));
    // IRFold
    probe!("IRFold", "parameters", p_fold(), { let mut f = p_fold(); f.parameters = p_params(); f },
        |f: &IRFold| shape_vec(f.parameters.is_empty()));
    probe!("IRFold", "imported_tags", p_fold(), { let mut f = p_fold(); f.imported_tags.push(FieldRef::ContextField(p_cf())); f },
        |f: &IRFold| shape_vec(f.imported_tags.is_empty()));
    probe!("IRFold", "fold_specific_outputs", p_fold(),
        { let mut f = p_fold(); f.fold_specific_outputs.insert(arc("c"), FoldSpecificFieldKind::Count); f },
        |f: &IRFold| shape_vec(f.fold_specific_outputs.is_empty()));
    probe!("IRFold", "post_filters", p_fold(),
        { let mut f = p_fold(); f.post_filters.push(Operation::IsNull(FoldSpecificFieldKind::Count)); f },
        |f: &IRFold| shape_vec(f.post_filters.is_empty()));
    // SerializableContext (private; reached through DataContext's Serialize / Deserialize, which
    // convert to / from it).  Non-skip values can only be built by deserialising.
    let ctx0: DataContext<u64> = DataContext::new(Some(1));
    let ctx_samples: [(&str, &str, bool); 6] = [
        ("values", "(active_vertex:Some(1),vertices:{},values:[Int64(1)])", true),
        ("suspended_vertices", "(active_vertex:Some(1),vertices:{},suspended_vertices:[Some(2)])", true),
        ("folded_contexts", "(active_vertex:Some(1),vertices:{},folded_contexts:{(1):None})", true),
        ("folded_values", "(active_vertex:Some(1),vertices:{},folded_values:{((1),\"x\"):None})", false),
        ("piggyback", "(active_vertex:Some(1),vertices:{},piggyback:Some([(active_vertex:Some(2),vertices:{})]))", true),
        (
            "imported_tags",
            "(active_vertex:Some(1),vertices:{},imported_tags:{ContextField((vertex_id:(1),field_name:\"f\",field_type:\"Int\")):NonexistentOptional})",
            false,
        ),
    ];
    for (field, text, json_ok) in ctx_samples {
        let shape = move |c: &DataContext<u64>| ctx_field_shape(c, field);
        attr_probe(out, oracle_only, "SerializableContext", field, false, &ctx0, &shape, &eq_dbg, true);
        match caught(|| ron::from_str::<DataContext<u64>>(text)) {
            Some(Ok(c)) => {
                if ctx_field_shape(&c, field) == ctx_field_shape(&ctx0, field) {
                    out.oracle_fail("attribute probe: the sample context does not carry the field", json!({"field": field, "ron": text}), json!(format!("{c:?}")));
                }
                attr_probe(out, oracle_only, "SerializableContext", field, true, &c, &shape, &eq_dbg, json_ok);
            }
            other => out.oracle_fail(
                "attribute probe: could not build the sample context",
                json!({"field": field, "ron": text}),
                json!(format!("{:?}", other.map(|r| r.err().map(|e| e.to_string())))),
            ),
        }
    }
    // Trace
    let mk_trace = |with_arg: bool| {
        let mut args = BTreeMap::new();
        if with_arg {
            args.insert("a".to_string(), FieldValue::Int64(1));
        }
        Trace::<u64>::new(p_query(), args)
    };
    probe!("Trace", "arguments", mk_trace(false), mk_trace(true), |t: &Trace<u64>| shape_vec(t.arguments.is_empty()));
}

// ------------------------------------------------------------------ 4: compiled queries, traces

fn count_attr_coverage(q: &IndexedQuery, out: &mut Out) {
    fn comp(c: &IRQueryComponent, out: &mut Out) {
        let mut note = |name: &str, nonskip: bool| {
            if nonskip {
                out.count(&format!("corpus-nonskip:{name}"));
            }
        };
        note("IRQueryComponent.edges", !c.edges.is_empty());
        note("IRQueryComponent.folds", !c.folds.is_empty());
        note("IRQueryComponent.outputs", !c.outputs.is_empty());
        for v in c.vertices.values() {
            note("IRVertex.coerced_from_type", v.coerced_from_type.is_some());
            note("IRVertex.filters", !v.filters.is_empty());
        }
        for e in c.edges.values() {
            note("IREdge.parameters", !e.parameters.is_empty());
            note("IREdge.optional", e.optional);
            note("IREdge.recursive", e.recursive.is_some());
            if let Some(r) = &e.recursive {
                note("Recursive.coerce_to", r.coerce_to.is_some());
            }
        }
        let folds: Vec<Arc<IRFold>> = c.folds.values().cloned().collect();
        for f in folds {
            let mut note = |name: &str, nonskip: bool| {
                if nonskip {
                    out.count(&format!("corpus-nonskip:{name}"));
                }
            };
            note("IRFold.parameters", !f.parameters.is_empty());
            note("IRFold.imported_tags", !f.imported_tags.is_empty());
            note("IRFold.fold_specific_outputs", !f.fold_specific_outputs.is_empty());
            note("IRFold.post_filters", !f.post_filters.is_empty());
            comp(&f.component, out);
        }
    }
    if !q.ir_query.root_parameters.is_empty() {
        out.count("corpus-nonskip:IRQuery.root_parameters");
    }
    if !q.ir_query.variables.is_empty() {
        out.count("corpus-nonskip:IRQuery.variables");
    }
    comp(&q.ir_query.root_component, out);
}

fn record_trace(c: &engine::EngineCase) -> Option<Trace<u64>> {
    let args: BTreeMap<String, FieldValue> = c.args.iter().map(|(k, v)| (k.to_string(), v.clone())).collect();
    let tracer = Rc::new(RefCell::new(Trace::<u64>::new(c.indexed.ir_query.clone(), args)));
    let tap = Arc::new(AdapterTap::new(world::GraphAdapter::new(c.dataset.clone()), tracer.clone()));
    let r = catch_unwind(AssertUnwindSafe(|| match interpret_ir(tap.clone(), c.indexed.clone(), c.args.clone()) {
        Ok(it) => {
            let n = tap_results(tap.clone(), it).take(200).count();
            Some(n)
        }
        Err(_) => None,
    }));
    match r {
        Ok(Some(_)) => {
            let t = tracer.borrow().clone();
            Some(t)
        }
        _ => None,
    }
}

fn run_queries(seed: u64, n: usize, out: &mut Out) {
    let mut rng = Rng::new(seed ^ 0x161616);
    let schema = world::schema();
    let mut stats = engine::GenStats { generated: 0, frontend_rejected: 0, frontend_panicked: 0, reject_kinds: BTreeMap::new() };
    let n_traces = (n / 8).max(20);
    let mut traces_done = 0u64;
    for i in 0..n {
        let c = engine::gen_case(&mut rng, &schema, &mut stats, 3);
        let inp = json!({"query": c.query_text});
        out.count("worlds");
        count_attr_coverage(&c.indexed, out);
        check_roundtrip("IndexedQuery", &*c.indexed, &inp, out, eq_dbg::<IndexedQuery>);
        check_roundtrip("IRQuery", &c.indexed.ir_query, &inp, out, eq_dbg::<IRQuery>);
        if !c.args.is_empty() {
            out.count("worlds-with-arguments");
            let inp = json!({"query": c.query_text, "arguments": c.args.iter().map(|(k, v)| (k.to_string(), show_fv(v))).collect::<BTreeMap<_, _>>()});
            let finite = c.args.values().all(all_finite);
            if finite {
                check_roundtrip("the argument map", &*c.args, &inp, out, |a, b| {
                    a == b && a.iter().zip(b.iter()).all(|(x, y)| x.0 == y.0 && show_fv(x.1) == show_fv(y.1))
                });
            }
        }
        if (i as usize) < n_traces {
            if let Some(t) = record_trace(&c) {
                traces_done += 1;
                out.count_n("trace-ops", t.ops.len() as u64);
                let inp = json!({"query": c.query_text, "what": "recorded trace"});
                // ron: the format the repository stores traces in
                match caught(|| ron::to_string(&t)) {
                    Some(Ok(s)) => match caught(|| ron::from_str::<Trace<u64>>(&s)) {
                        Some(Ok(b)) => {
                            if b != t || ron::to_string(&b).ok().as_deref() != Some(s.as_str()) {
                                out.oracle_fail("ron round trip of a Trace returned a different trace", inp.clone(), json!({"ops": t.ops.len()}));
                            }
                        }
                        other => out.oracle_fail(
                            "ron could not read back a Trace it wrote",
                            inp.clone(),
                            json!(format!("{:?}", other.map(|r| r.err().map(|e| e.to_string())))),
                        ),
                    },
                    _ => out.oracle_fail("ron could not serialise a Trace", inp.clone(), json!(null)),
                }
                // serde_json: contexts with fold values / imported tags have non-string map keys
                match caught(|| serde_json::to_string(&t)) {
                    Some(Ok(s)) => match caught(|| serde_json::from_str::<Trace<u64>>(&s)) {
                        Some(Ok(b)) => {
                            out.count("trace-json:ok");
                            if b != t || serde_json::to_string(&b).ok().as_deref() != Some(s.as_str()) {
                                out.oracle_fail("serde_json round trip of a Trace returned a different trace", inp.clone(), json!({"ops": t.ops.len()}));
                            }
                        }
                        other => out.oracle_fail(
                            "serde_json could not read back a Trace it wrote",
                            inp.clone(),
                            json!(format!("{:?}", other.map(|r| r.err().map(|e| e.to_string())))),
                        ),
                    },
                    Some(Err(e)) => out.count(&format!("trace-json:unrepresentable ({e})")),
                    None => out.oracle_fail("serde_json panicked serialising a Trace", inp.clone(), json!(null)),
                }
            } else {
                out.count("trace:run-did-not-complete");
            }
        }
    }
    out.count_n("traces", traces_done);
    out.extra.insert(
        "generator".into(),
        json!({"generated": stats.generated, "frontend_rejected": stats.frontend_rejected, "frontend_panicked": stats.frontend_panicked}),
    );
}

// ------------------------------------------------------------------ 5: Type text (as `tfh c16ty`, copied from c17.rs)

fn show_ty_hex(t: &Type) -> String {
    format!("{}#{}", hex(&t.to_string()), t.__verif_mask())
}
fn cty(t: &Type) -> String {
    format!("(mkTy {} {}%N)", cstr(t.base_type()), t.__verif_mask())
}
/// `nulls[0]` is the innermost (named) level, `nulls[d]` the outermost list.
fn build(name: &str, nulls: &[bool]) -> Type {
    let mut t = Type::new_named_type(name, nulls[0]);
    for nl in &nulls[1..] {
        t = Type::new_list_type(t, *nl);
    }
    t
}
fn patterns(d: usize) -> Vec<Vec<bool>> {
    (0..(1u32 << (d + 1))).map(|bits| (0..=d).map(|i| bits & (1 << i) != 0).collect()).collect()
}
fn parse_imp(s: &str) -> Option<Result<Type, ()>> {
    caught(|| Type::parse(s).map_err(|_| ()))
}
fn show_parse(r: &Option<Result<Type, ()>>) -> String {
    match r {
        None => "PANIC".into(),
        Some(Err(())) => "N".into(),
        Some(Ok(t)) => format!("S({})", show_ty_hex(t)),
    }
}
fn name_ok(s: &str) -> bool {
    !s.ends_with('!') && !s.starts_with('[')
}

fn add_parse_case(text: &str, out: &mut Out, what: &str) -> Option<Result<Type, ()>> {
    let r = parse_imp(text);
    out.count(&format!(
        "parse:{}",
        match &r {
            None => "panic",
            Some(Err(_)) => "error",
            Some(Ok(_)) => "ok",
        }
    ));
    out.add(Case {
        input: json!({"op": "parse", "text": text, "what": what}),
        coq: format!("show_res (show_opt show_ty_hex) (ty_parse_res {})", cstr(text)),
        imp: show_parse(&r),
        nontrivial: text.contains('[') || text.contains('!'),
        key: format!("parse|{}", hex(text)),
    });
    // oracle: whatever parses prints back verbatim
    if let Some(Ok(t)) = &r {
        if t.to_string() != text {
            out.oracle_fail("display(parse(s)) != s", json!({"text": text}), json!(t.to_string()));
        }
    }
    r
}

fn add_roundtrip(name: &str, p: &[bool], out: &mut Out) {
    let t = build(name, p);
    let text = t.to_string();
    out.count(&format!("roundtrip:depth{}", p.len() - 1));
    out.add(Case {
        input: json!({"op": "display", "name": name, "nullable_inner_to_outer": p}),
        coq: format!("hex (ty_display {}) ++ \"|\" ++ show_bool (wf_ty {}) ++ \"|\" ++ show_bool (name_ok {})", cty(&t), cty(&t), cstr(name)),
        imp: format!("{}|T|{}", hex(&text), show_bool(name_ok(name))),
        nontrivial: true,
        key: format!("display|{}", show_ty_hex(&t)),
    });
    let r = add_parse_case(&text, out, "display of a constructed type");
    if name_ok(name) {
        match &r {
            Some(Ok(t2)) if *t2 == t => {}
            _ => out.oracle_fail("parse(display(t)) != t", json!({"name": name, "nullable_inner_to_outer": p}), json!(show_parse(&r))),
        }
        // serde of Type goes through its text: serde_json and ron round trips (implementation only)
        match caught(|| serde_json::to_string(&t).ok().and_then(|s| serde_json::from_str::<Type>(&s).ok())) {
            Some(Some(t2)) if t2 == t => {}
            other => out.oracle_fail("serde_json round trip of Type failed", json!({"type": text}), json!(format!("{other:?}"))),
        }
        match caught(|| ron::to_string(&t).ok().and_then(|s| ron::from_str::<Type>(&s).ok())) {
            Some(Some(t2)) if t2 == t => {}
            other => out.oracle_fail("ron round trip of Type failed", json!({"type": text}), json!(format!("{other:?}"))),
        }
        // the serialised form IS the display text (model: ty_to_json t = JStr (ty_display t))
        if serde_json::to_value(&t).ok() != Some(Value::String(text.clone())) {
            out.oracle_fail("Type does not serialise as its Display text", json!({"type": text}), json!(null));
        }
    }
}

fn run_c16ty(seed: u64, n: usize, out: &mut Out) {
    let mut rng = Rng::new(seed);
    let names_exhaustive = ["Int", "Foo_1"];
    // every nullability pattern for d <= 6
    for name in names_exhaustive {
        for d in 0..=6 {
            for p in patterns(d) {
                add_roundtrip(name, &p, out);
            }
        }
    }
    // unusual names (the parser accepts any remainder as a name), d <= 2
    let odd = ["", " ", "a b", " Int ", "x]", "x[y", "]", "a!b", "\u{e9}t\u{e9}", "Int!", "!", "[x", "[x]", "[]", "[x]!"];
    for name in odd {
        for d in 0..=2 {
            for p in patterns(d) {
                add_roundtrip(name, &p, out);
            }
        }
    }
    // sampled up to 30 levels; always the all-nullable / all-non-null extremes at 29 and 30
    for d in [29usize, 30] {
        for nl in [true, false] {
            add_roundtrip("Int", &vec![nl; d + 1], out);
        }
    }
    for _ in 0..n {
        let d = 7 + rng.below(24);
        let p: Vec<bool> = (0..=d).map(|_| rng.chance(1, 2)).collect();
        let name: &str = *rng.pick(&["Int", "String", "Foo_1", "a b"]);
        add_roundtrip(name, &p, out);
    }
    // more than 30 levels of text: Type::parse panics inside from_type
    for d in [31usize, 32, 40] {
        for (inner, close) in [("Int", "]"), ("Int!", "]!"), ("", "]")] {
            let text = format!("{}{}{}", "[".repeat(d), inner, close.repeat(d));
            let r = add_parse_case(&text, out, "more than 30 list levels");
            if matches!(r, Some(Ok(_))) {
                out.oracle_fail("text with more than 30 list levels parsed", json!({"text": text}), json!(null));
            }
            // the same through serde (implementation only): must not produce a Type
            let js = serde_json::to_string(&text).unwrap();
            if let Some(Ok(_)) = caught(|| serde_json::from_str::<Type>(&js)) {
                out.oracle_fail("serde_json accepted a type with more than 30 list levels", json!({"text": text}), json!(null));
            }
        }
    }
    // malformed / unusual texts
    let texts = [
        "", "!", "!!", "[", "]", "[]", "[!]", "[]!", "[Int", "Int]", "[[Int]", "[Int]]", " [Int]", "[Int] ", "[Int]!!",
        "[Int!]!", "[ Int ]", "[Int]x", "x[Int]", "[Int][Int]", "[[]]", "[[!]!]!", "Int!!", "[Int!!]", "[!Int]", "[[Int]!",
        "[\u{e9}]", "[[[[[[[[x]]]]]]]]", "[[[[[[[[x]]]]]]]",
    ];
    for t in texts {
        add_parse_case(t, out, "hand-written");
    }
    // random short texts over the syntax alphabet
    for _ in 0..(4 * n) {
        let len = rng.below(11);
        let s: String = (0..len).map(|_| *rng.pick(&['[', '[', ']', ']', '!', 'I', ' '])).collect();
        add_parse_case(&s, out, "random");
    }
}

// ------------------------------------------------------------------ probe (development aid)

fn probe() {
    let ctx: DataContext<u64> = DataContext::new(Some(1));
    println!("ctx ron : {:?}", ron::to_string(&ctx));
    println!("ctx json: {:?}", serde_json::to_string(&ctx));
    println!("ctx dbg : {ctx:?}");
    for f in [1.0f64, -0.0, 1e16, 1e21, 1e22, 5e-324, 0.1, f64::MAX] {
        let tv = TransparentValue::Float64(f);
        println!("{f:e}: json {:?} ron {:?} tagged-ron {:?}", serde_json::to_string(&tv), ron::to_string(&tv), ron::to_string(&FieldValue::Float64(f)));
    }
    println!("edge ron: {:?}", ron::to_string(&p_edge()));
    println!("fold json: {:?}", serde_json::to_string(&p_fold()));
    let mut rng = Rng::new(1);
    let schema = world::schema();
    let mut stats = engine::GenStats { generated: 0, frontend_rejected: 0, frontend_panicked: 0, reject_kinds: BTreeMap::new() };
    let mut shown = 0;
    for _ in 0..200 {
        let c = engine::gen_case(&mut rng, &schema, &mut stats, 3);
        if let Some(t) = record_trace(&c) {
            let s = ron::to_string(&t).unwrap();
            for key in ["folded_values:{(", "imported_tags:{", "folded_contexts:{", "suspended_vertices:[", "piggyback:Some"] {
                if let Some(i) = s.find(key) {
                    if shown < 12 {
                        println!("{}", &s[i..(i + 220).min(s.len())]);
                        shown += 1;
                    }
                }
            }
            if shown >= 12 {
                break;
            }
        }
    }
}

fn main() {
    let argv: Vec<String> = std::env::args().collect();
    if argv.len() < 2 || (argv[1] != "c16" && argv[1] != "probe") {
        eprintln!("usage: tfh_c16 c16 [--seed S] [--n N] [--out DIR] [--oracle-only]");
        std::process::exit(2);
    }
    std::panic::set_hook(Box::new(|_| {}));
    if argv[1] == "probe" {
        probe();
        return;
    }
    let args = parse_args(&argv[2..]);
    let oracle_only = args.rest.iter().any(|x| x == "--oracle-only");
    let mut o = Out::new(&args.out, "From TF Require Import Values ValuesProofs Show Ty SerdeModel.", 1500);
    let n = args.n;
    run_values(args.seed, (n / 2).max(100), &mut o, oracle_only);
    run_json_docs(args.seed, (n / 2).max(100), &mut o, oracle_only);
    run_attrs(&mut o, oracle_only);
    run_queries(args.seed, n.max(600), &mut o);
    if !oracle_only {
        run_c16ty(args.seed, (n / 15).max(20), &mut o);
    }
    o.finish();
}
